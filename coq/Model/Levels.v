(* C07 model: gate of both readers and of the validating save wrappers, over the regenerated table. *)
From Coq Require Import List Bool Ascii String ZArith.
From PV Require Import Base.Sx Gen.LevelTable Spec.LevelsSpec.
Import ListNotations.

(* conversion generated enum -> spec enum; fails to compile if a variant is renamed, added or removed *)
Definition eE (e : ErrorLevel) : elevel :=
  match e with
  | BreakingError => EBreaking | InvalidatingError => EInvalidating
  | StrictWarning => EStrictW | LooseWarning => ELooseW | GeneralWarning => EGeneralW
  end.
Definition eS (l : StrictnessLevel) : slevel :=
  match l with Strict => LStrict | Medium => LMedium | Loose => LLoose end.
Definition Ee (e : elevel) : ErrorLevel :=
  match e with
  | EBreaking => BreakingError | EInvalidating => InvalidatingError
  | EStrictW => StrictWarning | ELooseW => LooseWarning | EGeneralW => GeneralWarning
  end.
Definition Se (l : slevel) : StrictnessLevel :=
  match l with LStrict => Strict | LMedium => Medium | LLoose => Loose end.

(* the final gate of open_pdb_raw_with_options / parse_mmcif_with_options:
   if errors.iter().any(|e| e.fails(level)) { Err(errors) } else { Ok((pdb, errors)) } *)
Definition gate {A} (l : StrictnessLevel) (a : A) (ds : list ErrorLevel) : outcome A :=
  if existsb (fun e => fails e l) ds then Rejected (map eE ds) else Accepted a (map eE ds).

(* save_pdb_ / save_mmcif_: validate, refuse on any failing diagnostic, else File::create, else write.
   The file system is an association list path -> bytes; `create_ok` is the oracle for File::create. *)
Definition fs := list (text * text).
Fixpoint fs_get (f : fs) (p : text) : option text :=
  match f with
  | [] => None
  | (q, c) :: r => if list_eq_dec ascii_dec p q then Some c else fs_get r p
  end.
Fixpoint fs_set (f : fs) (p c : text) : fs :=
  match f with
  | [] => [(p, c)]
  | (q, d) :: r => if list_eq_dec ascii_dec p q then (q, c) :: r else (q, d) :: fs_set r p c
  end.

Inductive save_result : Set := SaveOk | SaveErr (ds : list elevel).

Definition save_gate (l : StrictnessLevel) (ds : list ErrorLevel) (create_ok : bool)
           (content : text) (f : fs) (p : text) : save_result * fs :=
  if existsb (fun e => fails e l) ds then (SaveErr (map eE ds), f)
  else if create_ok then (SaveOk, fs_set f p content)
  else (SaveErr (map eE ds ++ [EBreaking]), f).

(* the same wrapper over the documented table (used as the oracle; equal to save_gate by C07_save_gate_doc) *)
Definition save_gate_doc (l : slevel) (ds : list elevel) (create_ok : bool)
           (content : text) (f : fs) (p : text) : save_result * fs :=
  if existsb (fun e => fails_doc e l) ds then (SaveErr ds, f)
  else if create_ok then (SaveOk, fs_set f p content)
  else (SaveErr (ds ++ [EBreaking]), f).

(* ----- executable entry points for the correspondence ----- *)
Definition elevel_of_Z (z : Z) : ErrorLevel :=
  match z with 0%Z => BreakingError | 1%Z => InvalidatingError | 2%Z => StrictWarning | 3%Z => LooseWarning | _ => GeneralWarning end.
Definition slevel_of_Z (z : Z) : StrictnessLevel :=
  match z with 0%Z => Strict | 1%Z => Medium | _ => Loose end.

(* the documented table addressed by declaration rank, independent of the generated file *)
Definition spec_elevel_of_Z (z : Z) : elevel :=
  match z with 0%Z => EBreaking | 1%Z => EInvalidating | 2%Z => EStrictW | 3%Z => ELooseW | _ => EGeneralW end.
Definition spec_slevel_of_Z (z : Z) : slevel :=
  match z with 0%Z => LStrict | 1%Z => LMedium | _ => LLoose end.
(* the gate laws are judged against the documented table, so that a changed table in the code cannot excuse itself *)
Definition gate_doc (l : slevel) (ds : list elevel) : bool := existsb (fun e => fails_doc e l) ds.

(* entry points:
   (fails e l)                    -> t | f
   (gatelaw l accepted? (e ...))  -> ok | gate-mismatch      oracle on the reader's observed diagnostics
   (mono (acc id) (acc id) (acc id)) -> ok | not-monotone    outcomes at Strict, Medium, Loose; id = snapshot class
   (save l (e ...) pre-existing?) -> (ok written) | (err unchanged) | (err absent) *)
Definition levels_of (ds : list sx) : list ErrorLevel := map (fun d => elevel_of_Z (get_Z d)) ds.
Definition mono_ok (a b : bool * Z) : bool :=
  if fst a then (fst b && Z.eqb (snd a) (snd b))%bool else true.
Definition get_pair (x : sx) : bool * Z :=
  match x with SL [a; SZ i] => (get_bool a, i) | _ => (false, (-2)%Z) end.
Definition sentinel_path : text := stext "target".
Definition run_levels (x : sx) : sx :=
  match x with
  | SL [SY "fails"; SZ e; SZ l] => sbool (fails (elevel_of_Z e) (slevel_of_Z l))
  | SL [SY "failsdoc"; SZ e; SZ l] => sbool (fails_doc (spec_elevel_of_Z e) (spec_slevel_of_Z l))
  | SL [SY "gatelaw"; SZ l; acc; SL ds] =>
      if Bool.eqb (gate_doc (spec_slevel_of_Z l) (map (fun d => spec_elevel_of_Z (get_Z d)) ds)) (negb (get_bool acc))
      then SY "ok" else SY "gate-mismatch"
  | SL [SY "mono"; a; b; c] =>
      if (mono_ok (get_pair a) (get_pair b) && mono_ok (get_pair b) (get_pair c))%bool
      then SY "ok" else SY "not-monotone"
  | SL [SY "save"; SZ l; SL ds; pre] =>
      let f0 : fs := if get_bool pre then [(sentinel_path, stext "previous")] else [] in
      match save_gate_doc (spec_slevel_of_Z l) (map (fun d => spec_elevel_of_Z (get_Z d)) ds) true (stext "content") f0 sentinel_path with
      | (SaveOk, f1) =>
          SL [SY "ok"; match fs_get f1 sentinel_path with
                       | Some c => if list_eq_dec ascii_dec c (stext "content") then SY "written" else SY "other-content"
                       | None => SY "absent" end]
      | (SaveErr _, f1) =>
          SL [SY "err"; match fs_get f1 sentinel_path with
                        | Some c => if list_eq_dec ascii_dec c (stext "previous") then SY "unchanged" else SY "other-content"
                        | None => SY "absent" end]
      end
  | _ => SY "bad-input"
  end%string.
