(* C18 model: validate and validate_pdb.  The range checks are interpreted from the regenerated rule table
   (Gen/ValidateTable.v, T4); the model comparison mirrors validate_models. *)
From Coq Require Import List Ascii String ZArith Bool.
From PV Require Import Base.Sx Base.Text Base.Num Base.Sorting2 Spec.Hier Spec.ValidateSpec Model.SortRenumber.
Import ListNotations.
Local Open Scope string_scope.

Definition diag := (vlevel * string)%type.

(* Atom::corresponds *)
Definition oZ_eqb (a b : option Z) : bool :=
  match a, b with Some x, Some y => Z.eqb x y | None, None => true | _, _ => false end.
Definition corresponds (a b : atom) : bool :=
  (Z.eqb (a_serial a) (a_serial b) && text_eqb (a_name a) (a_name b) && oZ_eqb (a_elem a) (a_elem b) &&
   Z.eqb (a_charge a) (a_charge b) &&
   match a_atf a, a_atf b with None, None => true | Some _, Some _ => true | _, _ => false end)%bool.

Fixpoint zip_check (std cur : list atom) : list diag :=
  match std, cur with
  | s :: r, c :: q => (if corresponds s c then [] else [(VStrictWarning, "Atoms in Models not corresponding")]) ++ zip_check r q
  | _, _ => []
  end.
Definition normal_count (l : list atom) : nat := List.length (filter (fun a => negb (a_hetero a)) l).
Definition validate_model_against (first m : model) : list diag :=
  if negb (Nat.eqb (List.length (m_atoms m)) (List.length (m_atoms first))) then [(VLooseWarning, "Invalid Model")]
  else if negb (Nat.eqb (normal_count (m_atoms m)) (normal_count (m_atoms first))) then [(VStrictWarning, "Invalid Model")]
  else zip_check (m_atoms first) (m_atoms m).
Definition validate_models (p : pdb) : list diag :=
  match p with
  | first :: rest => flat_map (validate_model_against first) rest
  | [] => []
  end.
Definition validate (p : pdb) : list diag :=
  (if Nat.ltb 1 (List.length p) then validate_models p else []) ++
  (if is_nil (p_atoms p) then [(VBreakingError, "No Atoms")] else []).

(* ----- range rules ----- *)
Inductive vvalue := VI (z : Z) | VF (f : fval).
Definition tlen (t : text) : Z := Z.of_nat (List.length t).
Definition out_of (v : vvalue) (c : vcmp) (b : vbound) : bool :=
  match v, b with
  | VI z, BInt k => match c with CGt => Z.ltb k z | CLt => Z.ltb z k | CGe => Z.leb k z | CLe => Z.leb z k end
  | VF f, BFloat _ m e =>
      match fcompare f (FFin m e) with
      | Some Gt => match c with CGt | CGe => true | _ => false end
      | Some Lt => match c with CLt | CLe => true | _ => false end
      | Some Eq => match c with CGe | CLe => true | _ => false end
      | None => false
      end
  | VF f, BInt k =>
      match fcompare f (FFin k 0) with
      | Some Gt => match c with CGt | CGe => true | _ => false end
      | Some Lt => match c with CLt | CLe => true | _ => false end
      | Some Eq => match c with CGe | CLe => true | _ => false end
      | None => false
      end
  | VI _, BFloat _ _ _ => false
  end.
Definition violates (r : vrule) (v : vvalue) : bool := existsb (fun cb => out_of v (fst cb) (snd cb)) (vr_bounds r).

(* the values a rule looks at, in traversal order *)
Definition opt_list {A} (o : option A) : list A := match o with Some a => [a] | None => [] end.
Definition field_values (f : vfield) (p : pdb) : list vvalue :=
  match f with
  | VModelSerial => map (fun m => VI (m_serial m)) p
  | VChainIdLen => map (fun c => VI (tlen (ch_id c))) (p_chains p)
  | VResSerial => map (fun r => VI (r_num r)) (p_residues p)
  | VResIcodeLen => flat_map (fun r => map (fun t => VI (tlen t)) (opt_list (r_icode r))) (p_residues p)
  | VConfNameLen => map (fun c => VI (tlen (c_name c))) (p_confs p)
  | VConfAltLen => flat_map (fun c => map (fun t => VI (tlen t)) (opt_list (c_alt c))) (p_confs p)
  | VModNameLen => flat_map (fun c => map (fun t : text * text => VI (tlen (fst t))) (opt_list (c_mod c))) (p_confs p)
  | VModCommentLen => flat_map (fun c => map (fun t : text * text => VI (tlen (snd t))) (opt_list (c_mod c))) (p_confs p)
  | VAtomNameLen => map (fun a => VI (tlen (a_name a))) (p_atoms p)
  | VAtomSerial => map (fun a => VI (a_serial a)) (p_atoms p)
  | VAtomCharge => map (fun a => VI (a_charge a)) (p_atoms p)
  | VAtomOcc => map (fun a => VF (a_occ a)) (p_atoms p)
  | VAtomB => map (fun a => VF (a_b a)) (p_atoms p)
  | VAtomX => map (fun a => VF (a_x a)) (p_atoms p)
  | VAtomY => map (fun a => VF (a_y a)) (p_atoms p)
  | VAtomZ => map (fun a => VF (a_z a)) (p_atoms p)
  end.
Definition rule_diags (r : vrule) (p : pdb) : list diag :=
  map (fun _ => (vr_level r, vr_short r)) (filter (violates r) (field_values (vr_field r) p)).
Definition validate_pdb_with (rules : list vrule) (p : pdb) : list diag := validate p ++ flat_map (fun r => rule_diags r p) rules.

(* ----- printing: diagnostics as a multiset, sorted by (short description, level) ----- *)
Definition vlevel_Z (l : vlevel) : Z :=
  match l with VBreakingError => 0 | VInvalidatingError => 1 | VStrictWarning => 2 | VLooseWarning => 3 | VGeneralWarning => 4 end.
Definition diag_cmp (a b : diag) : comparison :=
  lex (text_cmp (list_ascii_of_string (snd a)) (list_ascii_of_string (snd b))) (Z.compare (vlevel_Z (fst a)) (vlevel_Z (fst b))).
Definition show_diags (ds : list diag) : sx :=
  SL (map (fun d : diag => SL [SZ (vlevel_Z (fst d)); SS (list_ascii_of_string (snd d))]) (ssort diag diag_cmp ds)).
