(* C01 / C05 / C15 entry points: the PDB reader model and the record-level specification. *)
From Coq Require Import List Ascii String ZArith Bool.
From PV Require Import Base.Sx Base.Text Base.Float Base.Sorting2 Spec.Hier Spec.PdbSpec Model.SortRenumber Model.Symmetry Model.PdbLex Model.PdbParse.
Import ListNotations.
Local Open Scope string_scope.

Definition dlevel_Z (l : dlevel) : Z := match l with DBreaking => 0 | DInvalidating => 1 | DStrict => 2 | DLoose => 3 | DGeneral => 4 end.
Definition diag_cmp (a b : diag) : comparison :=
  lex (Z.compare (d_line a) (d_line b))
      (lex (text_cmp (list_ascii_of_string (d_short a)) (list_ascii_of_string (d_short b))) (Z.compare (dlevel_Z (d_level a)) (dlevel_Z (d_level b)))).
Definition sx_diags (ds : list diag) : sx :=
  SL (map (fun d => SL [SZ (dlevel_Z (d_level d)); SS (list_ascii_of_string (d_short d)); SZ (d_line d)]) (ssort diag diag_cmp ds)).

Definition sx_fl (l : list fval) : sx := SL (map sx_of_fval l).
Definition sx_seqpos (p : seqpos) : sx := SL [SZ (sp_start p); sopt SS (sp_start_ins p); SZ (sp_end p); sopt SS (sp_end_ins p)].
Definition sx_dbref (d : dbref) : sx :=
  SL [SS (db_name d); SS (db_acc d); SS (db_id d); sx_seqpos (db_pdbpos d); sx_seqpos (db_dbpos d);
      SL (map (fun x : seqdiff => let '(rn, n, i) := sd_res x in
                 SL [SS rn; SZ n; sopt SS i; sopt (fun p : text * Z => SL [SS (fst p); SZ (snd p)]) (sd_db x); SS (sd_comment x)]) (db_diffs d))].
Definition sx_meta (id : option text) (remarks : list (Z * text)) (cell : option (list fval)) (sym : option nat)
                   (scale origx : option (list fval)) (mtrix : list (Z * list fval * bool)) : list sx :=
  [sopt SS id; SL (map (fun r : Z * text => SL [SZ (fst r); SS (snd r)]) remarks); sopt sx_fl cell; sopt snat sym; sopt sx_fl scale; sopt sx_fl origx;
   SL (map (fun m : Z * list fval * bool => let '(i, d, g) := m in SL [SZ i; sx_fl d; sbool g]) mtrix)].
Definition sx_file (f : pdbfile) : sx :=
  SL (sx_meta (pf_id f) (pf_remarks f) (pf_cell f) (pf_sym f) (pf_scale f) (pf_origx f) (pf_mtrix f) ++
      [sx_of_pdb sx_of_atom (pf_models f);
       SL (map (fun x : nat * nat * dbref => let '(i, j, d) := x in SL [snat i; snat j; sx_dbref d]) (pf_dbrefs f));
       SL (map (fun b : nat * nat => SL [snat (fst b); snat (snd b)]) (pf_bonds f))])%list.

Definition arec_of_sx (x : sx) : option arec :=
  match x with
  | SL [SY "atom"; h; SZ serial; SS name; alt; SS resname; SS chain; SZ resnum; ins; SS vx; SS vy; SS vz; SS occ; SS b; SS el; SZ charge; atf] =>
      Some {| r_hetero := get_bool h; r_serial := serial; r_name := name; r_alt := get_opt get_text alt; r_resname := resname; r_chain := chain;
              r_resnum := resnum; r_ins := get_opt get_text ins; r_x := vx; r_y := vy; r_z := vz; r_occ := occ; r_b := b;
              r_element := el; r_charge := charge; r_atf := get_opt (fun l => map get_Z (get_list l)) atf |}
  | _ => None
  end.
Definition rec_of_sx (x : sx) : option rec :=
  match x with
  | SL [SY "model"; SZ n] => Some (RModel n)
  | SL [SY "endmdl"] => Some REndmdl
  | SL [SY "ter"] => Some RTer
  | SL [SY "header"; SS id] => Some (RHeader id)
  | SL [SY "remark"; SZ n; SS t] => Some (RRemark n t)
  | SL [SY "cryst"; SL cell; SS sg] => Some (RCryst (map get_text cell) sg)
  | SL [SY "scale"; SL m] => Some (RScale (map get_text m))
  | SL [SY "origx"; SL m] => Some (ROrigx (map get_text m))
  | SL [SY "mtrix"; SZ ser; SL m; g] => Some (RMtrix ser (map get_text m) (get_bool g))
  | SL (SY "atom" :: _) => option_map RAtom (arec_of_sx x)
  | SL [SY "dbref"; SS chain; SZ a; ai; SZ b; bi; SS db; SS acc; SS id; SZ da; dai; SZ db2; dbi] =>
      Some (RDbref chain (a, get_opt get_text ai, b, get_opt get_text bi) db acc id (da, get_opt get_text dai, db2, get_opt get_text dbi))
  | SL [SY "seqadv"; SS resname; SS chain; SZ num; ins; dbres; SS comment] =>
      Some (RSeqadv resname chain num (get_opt get_text ins)
                    (get_opt (fun d => match d with SL [SS n; SZ k] => (n, k) | _ => ([], 0%Z) end) dbres) comment)
  | SL [SY "modres"; SS resname; SS chain; SZ num; ins; SS std; SS comment] => Some (RModres resname chain num (get_opt get_text ins) std comment)
  | _ => None
  end.
Definition opt_list {A} (o : option A) : list A := match o with Some a => [a] | None => [] end.

Definition run_c01 (x : sx) : sx :=
  match x with
  | SL [SY "read"; SZ opts; SZ level; SS input] =>
      match read_pdb opts level input with
      | inl (f, ds) => SL [SY "ok"; sx_file f; sx_diags ds]
      | inr ds => SL [SY "err"; sx_diags ds]
      end
  (* what the records state: metadata and the model / chain / residue / conformer / atom hierarchy *)
  | SL [SY "denote"; SL recs] =>
      let rs := flat_map (fun r => opt_list (rec_of_sx r)) recs in
      SL (sx_meta (denote_id rs) (denote_remarks rs) (denote_cell rs)
                  (match denote_sg rs with Some sg => Symmetry_of sg | None => None end)
                  (denote_scale rs) (denote_origx rs) (denote_mtrix rs) ++
          [sx_of_pdb sx_of_atom (denote_annotated rs);
           SL (map (fun x => let '(i, j, (db, acc, id), pos, dbpos, diffs) := x in
                      let sxpos (q : Z * option text * Z * option text) := let '(a, ai, b, bi) := q in SL [SZ a; sopt SS ai; SZ b; sopt SS bi] in
                      SL [snat i; snat j;
                          SL [SS db; SS acc; SS id; sxpos pos; sxpos dbpos;
                              SL (map (fun d : text * Z * option text * option (text * Z) * text =>
                                         let '(rn, n, ins, dr, cm) := d in
                                         SL [SS rn; SZ n; sopt SS ins; sopt (fun q : text * Z => SL [SS (fst q); SZ (snd q)]) dr; SS cm]) diffs)]])
                   (denote_dbrefs rs))])%list
  | SL (SY "accept" :: _) => SY "accepted"
  | SL (SY "corrupt" :: _) => SY "rejected"
  | SL (SY "total" :: _) => SL [SY "classified"; SY "t"; SY "t"]
  | SL (SY "classify" :: _) => SY "none"
  | _ => SY "bad-input"
  end.
