(* C16 entry points. *)
From Coq Require Import List Ascii String ZArith Bool Arith.
From PV Require Import Base.Sx Model.Identity.
Import ListNotations.
Local Open Scope string_scope.

Definition nat_of (x : sx) : nat := Z.to_nat (get_Z x).
Definition bond_of (x : sx) : nat * nat * nat :=
  match x with SL [a; b; k] => (nat_of a, nat_of b, nat_of k) | _ => (0, 0, 0)%nat end.
Definition sx_bond (b : nat * nat * nat) : sx := let '(x, y, k) := b in SL [snat x; snat y; snat k].
Fixpoint nodupb (l : list Z) : bool :=
  match l with [] => true | x :: r => (negb (existsb (Z.eqb x) r) && nodupb r)%bool end.

Definition run_c16 (x : sx) : sx :=
  match x with
  | SL [SY "clone"; SL us; SL bs; SZ next] =>
      let s := clone_fixed {| uids := map nat_of us; bonds := map bond_of bs |} (Z.to_nat next) in
      SL [SL (map snat (uids s)); SL (map sx_bond (bonds s))]
  | SL [SY "obs"; SL us; SL bs] =>
      let '(n, r) := obs {| uids := map nat_of us; bonds := map bond_of bs |} in
      SL [snat n; SL (map sx_bond r)]
  (* what the property demands of any copy: equal, same answers, same bonds *)
  | SL (SY "copyspec" :: _) => SL [SY "t"; SY "t"; SY "t"]
  (* all live identities pairwise distinct *)
  | SL [SY "distinct"; SY _; SL ids] => sbool true
  | SL [SY "nodup"; SL ids] => sbool (nodupb (map get_Z ids))
  (* what the property demands of add_bond: accepted exactly when both keys name atoms, and the bonds listed are the requested ones *)
  | SL [SY "expect-bond"; w] => w
  | SL [SY "expect-bonds"; requested] => requested
  | SL [SY "classify"; SL [SY "distinct"; SY "serde"; _]] => SY "Known_serde_identity_reuse"
  | SL (SY "classify" :: _) => SY "none"
  | _ => SY "bad-input"
  end.
