(* C16 model: atom identities (the process-wide ATOM_COUNTER), cloning, the bond table, observational equality. *)
From Coq Require Import List ZArith Bool Arith Lia.
Import ListNotations.

(* ----- the shared counter: every Atom::new / Atom::clone performs one fetch_add(1) ----- *)
(* A thread is a number of atom creations; a schedule is any interleaving of the threads' steps, given as the list of
   thread ids in the order their fetch_add operations take effect (atomicity of fetch_add is the assumption). *)
Fixpoint issue (c0 : nat) (schedule : list nat) : list (nat * nat) :=   (* (thread, identity issued) *)
  match schedule with
  | [] => []
  | t :: r => (t, c0) :: issue (S c0) r
  end.

(* ----- structures as the identity-relevant skeleton: the identities of the atoms in traversal order and the
         bond table of identity pairs with a bond kind ----- *)
Record skel := { uids : list nat; bonds : list (nat * nat * nat) }.

(* position of an identity in the traversal *)
Fixpoint index_of (u : nat) (l : list nat) (i : nat) : option nat :=
  match l with [] => None | x :: r => if Nat.eqb x u then Some i else index_of u r (S i) end.
(* PDB::bonds(): both ends are looked up among the atoms.  `resolve_strict` is the original code, where a missing end is
   the panic of `expect` (None); `resolve` is the code after the fix: a bond whose atom was removed is skipped *)
Definition resolve_strict (s : skel) : option (list (nat * nat * nat)) :=
  fold_right (fun b acc =>
    let '(x, y, k) := b in
    match index_of x (uids s) 0, index_of y (uids s) 0, acc with
    | Some i, Some j, Some l => Some ((i, j, k) :: l)
    | _, _, _ => None
    end) (Some []) (bonds s).
Definition resolve (s : skel) : list (nat * nat * nat) :=
  flat_map (fun b => let '(x, y, k) := b in
              match index_of x (uids s) 0, index_of y (uids s) 0 with
              | Some i, Some j => [(i, j, k)]
              | _, _ => []
              end) (bonds s).
(* what can be observed of the skeleton: how many atoms, and which positions are bonded *)
Definition obs (s : skel) : nat * list (nat * nat * nat) := (length (uids s), resolve s).
(* removing atoms: the identities that survive keep their order, the bond table is left alone *)
Definition remove_atoms (keep : nat -> bool) (s : skel) : skel := {| uids := filter keep (uids s); bonds := bonds s |}.

(* derived Clone of the original code: atoms are re-created (fresh identities next, next+1, ...), the bond table is copied *)
Definition clone_derived (s : skel) (next : nat) : skel :=
  {| uids := seq next (length (uids s)); bonds := bonds s |}.
(* Clone after the fix: the bond table is translated through old identity -> new identity (by position) *)
Definition translate (old : list nat) (next : nat) (u : nat) : option nat :=
  option_map (fun i => next + i) (index_of u old 0).
Definition clone_fixed (s : skel) (next : nat) : skel :=
  {| uids := seq next (length (uids s));
     bonds := flat_map (fun b => let '(x, y, k) := b in
                 match translate (uids s) next x, translate (uids s) next y with
                 | Some x', Some y' => [(x', y', k)]
                 | _, _ => []
                 end) (bonds s) |}.
(* serde: every field, the identities included, is restored verbatim *)
Definition serde_copy (s : skel) : skel := s.

Definition wf (s : skel) : Prop := NoDup (uids s) /\ forall x y k, In (x, y, k) (bonds s) -> In x (uids s) /\ In y (uids s).
