(* C03 entry points: PDB writer model, reader model, round-trip specification, independent fixed-column reading. *)
From Coq Require Import List Ascii String ZArith Bool.
From PV Require Import Base.Sx Base.Text Base.Num Base.Float Spec.Hier Spec.PdbSpec Spec.CifRoundTrip Spec.PdbRoundTrip Model.Symmetry
                       Model.PdbLex Model.PdbParse Model.PdbRun Model.CifParse Model.CifWrite Model.CifRun Model.PdbWrite.
Import ListNotations.
Local Open Scope string_scope.

Definition seqpos_of_sx (x : sx) : seqpos :=
  match x with
  | SL [SZ s; si; SZ e; ei] => {| sp_start := s; sp_start_ins := get_opt Sx.get_text si; sp_end := e; sp_end_ins := get_opt Sx.get_text ei |}
  | _ => {| sp_start := 0; sp_start_ins := None; sp_end := 0; sp_end_ins := None |}
  end.
Definition dbref_of_sx (x : sx) : option dbref :=
  match x with
  | SL [SS name; SS acc; SS id; pp; dp; SL diffs] =>
      Some {| db_name := name; db_acc := acc; db_id := id; db_pdbpos := seqpos_of_sx pp; db_dbpos := seqpos_of_sx dp;
              db_diffs := flat_map (fun d => match d with
                                             | SL [SS rn; SZ n; i; dbr; SS comment] =>
                                                 [{| sd_res := (rn, n, get_opt Sx.get_text i);
                                                     sd_db := get_opt (fun p => match p with SL [SS a; SZ b] => (a, b) | _ => ([], 0%Z) end) dbr;
                                                     sd_comment := comment |}]
                                             | _ => [] end) diffs |}
  | _ => None
  end.
Definition pfile_of_sx (x : sx) : option pdbfile :=
  match x with
  | SL [id; SL remarks; cell; sym; scale; origx; SL mtrix; p; SL dbs; _] =>
      Some {| pf_id := get_opt Sx.get_text id;
              pf_remarks := flat_map (fun r => match r with SL [SZ n; SS t] => [(n, t)] | _ => [] end) remarks;
              pf_scale := get_opt fl_of_sx scale; pf_origx := get_opt fl_of_sx origx;
              pf_mtrix := flat_map (fun m => match m with SL [SZ i; d; g] => [(i, fl_of_sx d, get_bool g)] | _ => [] end) mtrix;
              pf_cell := get_opt fl_of_sx cell; pf_sym := get_opt (fun s => Z.to_nat (get_Z s)) sym;
              pf_models := pdb_of_sx p;
              pf_dbrefs := flat_map (fun d => match d with
                                              | SL [SZ i; SZ j; r] => match dbref_of_sx r with Some r' => [(Z.to_nat i, Z.to_nat j, r')] | None => [] end
                                              | _ => [] end) dbs;
              pf_bonds := [] |}
  | _ => None
  end.

Definition seqpos_eq (a b : seqpos) : bool :=
  (Z.eqb (sp_start a) (sp_start b) && otext_eq (sp_start_ins a) (sp_start_ins b) && Z.eqb (sp_end a) (sp_end b) && otext_eq (sp_end_ins a) (sp_end_ins b))%bool.
Definition dbref_eq (a b : dbref) : bool :=
  (text_eqb (db_name a) (db_name b) && text_eqb (db_acc a) (db_acc b) && text_eqb (db_id a) (db_id b) &&
   seqpos_eq (db_pdbpos a) (db_pdbpos b) && seqpos_eq (db_dbpos a) (db_dbpos b) &&
   all2 (fun x y : seqdiff =>
           let '(rn, n, i) := sd_res x in let '(rn', n', i') := sd_res y in
           (text_eqb rn rn' && Z.eqb n n' && otext_eq i i' &&
            match sd_db x, sd_db y with None, None => true | Some (a1, b1), Some (a2, b2) => (text_eqb a1 a2 && Z.eqb b1 b2)%bool | _, _ => false end &&
            text_eqb (sd_comment x) (sd_comment y))%bool) (db_diffs a) (db_diffs b))%bool.

(* the first clause of the round-trip statement that fails, or ok.  At the strict writer level ORIGX (identity) and SCALE
   (from the unit cell) are written even when the structure has none: then the re-read structure may carry them. *)
Definition roundtrip_verdict_pdb (wlevel : Z) (f f' : pdbfile) : sx :=
  let omatrix (a b : option (list fval)) (default_ok : bool) :=
    match a, b with
    | None, None => true
    | Some x, Some y => matrix_rt x y
    | None, Some _ => default_ok
    | Some _, None => false
    end in
  if negb (otext_eq (pf_id f) (pf_id f')) then SY "identifier-differs"
  else if negb (all2 (fun a b : Z * text => (Z.eqb (fst a) (fst b) && text_eqb (snd a) (snd b))%bool) (pf_remarks f) (pf_remarks f')) then SY "remarks-differ"
  else if negb (match pf_cell f, pf_cell f' with None, None => true | Some a, Some b => cell_rt a b | _, _ => false end) then SY "cell-differs"
  else if negb (match pf_cell f with Some _ => osym_eq (pf_sym f) (pf_sym f') || (match pf_sym f with None => osym_eq (pf_sym f') (Some 1%nat) | _ => false end)
                | None => true end)%bool then SY "symmetry-differs"
  else if negb (omatrix (pf_scale f) (pf_scale f') (Z.eqb wlevel 0)) then SY "scale-differs"
  else if negb (omatrix (pf_origx f) (pf_origx f') (Z.eqb wlevel 0)) then SY "origx-differs"
  else if negb (all2 (fun a b : Z * list fval * bool => let '(i, m, g) := a in let '(j, n, h) := b in
                        (Z.eqb i j && matrix_rt m n && Bool.eqb g h)%bool) (pf_mtrix f) (pf_mtrix f')) then SY "ncs-differs"
  else if negb (all2 (fun a b : nat * nat * dbref => (Nat.eqb (fst (fst a)) (fst (fst b)) && Nat.eqb (snd (fst a)) (snd (fst b)) && dbref_eq (snd a) (snd b))%bool)
                     (filter (fun a : nat * nat * dbref => Nat.eqb (fst (fst a)) 0) (pf_dbrefs f)) (pf_dbrefs f')) then SY "database-references-differ"
  else if negb (pdb_rt_pdb (pf_models f) (pf_models f')) then SY "structure-differs"
  else SY "ok".

(* the independent fixed-column reading of the written file against the structure it came from *)
Definition expected_fixed (p : pdb) : list (atom * conformer * residue * chain) :=
  flat_map (fun m => map (fun h : atom * conformer * residue * chain => h) (m_awh m)) p.
Definition fixed_matches (h : atom * conformer * residue * chain) (fa : fixed_atom) : bool :=
  let '(a, c, r, ch) := h in
  (Bool.eqb (a_hetero a) (fa_hetero fa) &&
   text_eqb (fa_serial fa) (show_int (a_serial a mod 100000)%Z) &&
   text_eqb (fa_name fa) (a_name a) && text_eqb (fa_alt fa) (match c_alt c with Some t => t | None => [] end) &&
   text_eqb (fa_resname fa) (c_name c) && text_eqb (fa_chain fa) (ch_id ch) &&
   text_eqb (fa_resnum fa) (show_int (if r_num r <? 0 then r_num r else r_num r mod 10000)%Z) &&
   text_eqb (fa_icode fa) (match r_icode r with Some t => t | None => [] end) &&
   is_round 3 (a_x a) (dec (fa_x fa)) && is_round 3 (a_y a) (dec (fa_y fa)) && is_round 3 (a_z a) (dec (fa_z fa)) &&
   is_round 2 (a_occ a) (dec (fa_occ fa)) && is_round 2 (a_b a) (dec (fa_b fa)) &&
   text_eqb (fa_element fa) (match a_elem a with Some e => element_symbol e | None => [] end) &&
   text_eqb (fa_charge fa) (pdb_charge (a_charge a)))%bool.

Fixpoint all2h {A B} (f : A -> B -> bool) (l : list A) (l' : list B) : bool :=
  match l, l' with
  | [], [] => true
  | x :: r, y :: s => (f x y && all2h f r s)%bool
  | _, _ => false
  end.
(* what the reader's SEQRES validation assumes of a chain: residues numbered consecutively without insertion codes, one name
   per residue, no water *)
Fixpoint consecutive (l : list residue) : bool :=
  match l with
  | a :: ((b :: _) as r) => (Z.eqb (r_num b) (r_num a + 1) && consecutive r)%bool
  | _ => true
  end.
Definition chain_seqres_friendly (c : chain) : bool :=
  (consecutive (ch_residues c) &&
   forallb (fun r => match r_icode r with None => true | Some _ => false end) (ch_residues c) &&
   forallb (fun r => match residue_name r with Some n => negb (text_eqb n (stext "HOH")) | None => false end) (ch_residues c))%bool.
Definition seqres_friendly (f : pdbfile) : bool := forallb (fun m => forallb chain_seqres_friendly (m_chains m)) (pf_models f).
Definition has_seqres (wlevel : Z) (f : pdbfile) : bool := ((wlevel =? 0)%Z || negb (is_nil (pf_dbrefs f)))%bool.

(* a cell edge of 100000 or more does not fit the nine columns CRYST1 gives it (validate_pdb looks at the atoms and the hierarchy only) *)
Definition cell_edge_outside_columns (f : pdbfile) : bool :=
  match pf_cell f with
  | Some c => existsb (fun x => fle (FFin 100000 0) x) (firstn 3 c)
  | None => false
  end.

Definition run_c03 (x : sx) : sx :=
  match x with
  | SL [SY "read"; SZ opts; SZ level; SS input] => run_c01 (SL [SY "read"; SZ opts; SZ level; SS input])
  | SL [SY "write"; SZ level; f] => match pfile_of_sx f with Some f => SS (save_pdb level f) | None => SY "bad-file" end
  | SL [SY "roundtrip"; SZ wlevel; f; f'] =>
      match pfile_of_sx f, pfile_of_sx f' with
      | Some a, Some b => roundtrip_verdict_pdb wlevel a b
      | _, _ => SY "bad-file"
      end
  | SL [SY "fixedcols"; f; SS text] =>
      match pfile_of_sx f with
      | Some a => if all2h fixed_matches (expected_fixed (pf_models a)) (fixed_atoms text) then SY "ok" else SY "differs"
      | None => SY "bad-file"
      end
  | SL (SY "writes" :: _) => SY "ok"
  | SL (SY "reread" :: _) => SY "accepted"
  | SL (SY "rewrite" :: _) => SY "same"
  | SL [SY "classify"; SL [SY "roundtrip"; SZ wlevel; f; _]] =>
      match pfile_of_sx f with
      | Some a => if cell_edge_outside_columns a then SY "Known_cell_edge_outside_cryst1_columns"
                  else if has_seqres wlevel a then SY "Known_seqres_written_from_present_residues" else SY "none"
      | None => SY "none"
      end
  | SL [SY "classify"; SL (SY "reread" :: SY "long-edge" :: _)] => SY "Known_cell_edge_outside_cryst1_columns"
  | SL [SY "classify"; SL (SY "rewrite" :: SY "long-edge" :: _)] => SY "Known_cell_edge_outside_cryst1_columns"
  | SL [SY "classify"; SL (SY "reread" :: SY "seqres" :: _)] => SY "Known_seqres_written_from_present_residues"
  | SL [SY "classify"; SL (SY "rewrite" :: SY "seqres" :: _)] => SY "Known_seqres_written_from_present_residues"
  | SL (SY "classify" :: _) => SY "none"
  | _ => SY "bad-input"
  end.
