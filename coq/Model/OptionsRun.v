(* C15 entry points: read options as filters on what the records / rows state, and the file-name functions. *)
From Coq Require Import List Ascii String ZArith Bool.
From PV Require Import Base.Sx Base.Text Spec.Hier Spec.PdbSpec Spec.CifSpec Model.Symmetry Model.PdbLex Model.PdbParse Model.PdbRun
                       Model.CifLex Model.CifParse Model.CifRun Model.Names.
Import ListNotations.
Local Open Scope string_scope.

(* ---------- the options as filters (specification) ---------- *)
(* a hydrogen record / row: one whose atom gets hydrogen as its element (Spec.PdbSpec.infer_element: the element text, else the name) *)
Definition is_H (element name : text) : bool := match infer_element element name with Some e => Z.eqb e 1 | None => false end.
Definition pdb_without_H (rs : list rec) : list rec :=
  filter (fun r => match r with RAtom a => negb (is_H (r_element a) (r_name a)) | _ => true end) rs.
Definition first_only {A} (on : bool) (l : list A) : list A := if on then firstn 1 l else l.
Definition sx_filtered_pdb (opts : Z) (rs0 : list rec) : sx :=
  let dh := Z.testbit opts 0 in let fm := Z.testbit opts 1 in let ao := Z.testbit opts 2 in
  let rs := if dh then pdb_without_H rs0 else rs0 in
  let models := first_only fm (denote_models rs) in
  (if ao then SL (sx_meta None [] None None None None [] ++ [sx_of_pdb sx_of_atom models])%list
   else SL (sx_meta (denote_id rs) (denote_remarks rs) (denote_cell rs)
                    (match denote_sg rs with Some sg => Symmetry_of sg | None => None end)
                    (denote_scale rs) (denote_origx rs) (denote_mtrix rs) ++ [sx_of_pdb sx_of_atom models])%list).
Definition cif_without_H (rows : list crow) : list crow := filter (fun r => negb (is_H (w_type r) (w_name r))) rows.
Definition sx_filtered_cif (opts : Z) (d : cdoc) : sx :=
  let dh := Z.testbit opts 0 in let fm := Z.testbit opts 1 in let ao := Z.testbit opts 2 in
  let rows := if dh then cif_without_H (d_rows d) else d_rows d in
  let models := first_only fm (denote_cif_models rows) in
  (if ao then SL (sx_meta None [] None None None None [] ++ [sx_of_pdb sx_of_atom models])%list
   else SL (sx_meta (Some (d_name d)) [] (denote_cif_cell d) (denote_sym d) (denote_cif_scale d) (denote_cif_origx d) (denote_cif_ncs d)
            ++ [sx_of_pdb sx_of_atom models])%list).

Definition sx_fmt (f : fmt) : sx := SY (match f with FPdb => "pdb" | FCif => "cif" end).
Definition model_of_row (r : crow) : Z := match w_model r with Some n => n | None => 1%Z end.
(* every model number forms one run in the list of rows *)
Fixpoint models_grouped (ms : list Z) (closed : list Z) : bool :=
  match ms with
  | [] => true
  | m :: r => match r with
              | m' :: _ => if Z.eqb m m' then models_grouped r closed
                           else if existsb (Z.eqb m') (m :: closed) then false else models_grouped r (m :: closed)
              | [] => true
              end
  end.
Definition run_c15 (x : sx) : sx :=
  match x with
  | SL [SY "readpdb"; SZ opts; SZ level; SS input] => run_c01 (SL [SY "read"; SZ opts; SZ level; SS input])
  | SL [SY "readcif"; SZ opts; SZ level; SS input] => sx_read_cif opts level input
  | SL [SY "pdbfilter"; SZ opts; SL recs] => sx_filtered_pdb opts (flat_map (fun r => opt_list (rec_of_sx r)) recs)
  | SL [SY "ciffilter"; SZ opts; doc] => match cdoc_of_sx doc with Some d => sx_filtered_cif opts d | None => SY "bad-doc" end
  (* a read is accepted at the loose level exactly when the filtered records / rows still state an atom *)
  | SL [SY "pdbaccept"; SZ opts; SL recs] =>
      let rs0 := flat_map (fun r => opt_list (rec_of_sx r)) recs in
      let rs := if Z.testbit opts 0 then pdb_without_H rs0 else rs0 in
      if is_nil (p_atoms (denote_models rs)) then SY "rejected" else SY "accepted"
  | SL [SY "cifaccept"; SZ opts; doc] =>
      match cdoc_of_sx doc with
      | Some d => let rows := if Z.testbit opts 0 then cif_without_H (d_rows d) else d_rows d in
                  if is_nil rows then SY "rejected" else SY "accepted"
      | None => SY "bad-doc"
      end
  | SL (SY "sameaccept" :: _) => SY "same"
  | SL [SY "guess"; SS path] => match guess_format path with Some (f, gz) => SL [sx_fmt f; sbool gz] | None => SY "none" end
  | SL [SY "save"; SS path] => match save_format path with Some f => sx_fmt f | None => SY "none" end
  | SL [SY "savegz"; SS path] => match save_gz_format path with Some f => sx_fmt f | None => SY "none" end
  | SL (SY "missing" :: _) => SY "error"
  (* the recorded finding: with only_first_model the mmCIF reader stops at the first row of another model, so rows of the first
     model that come after such a row are lost (the rows of the models are not grouped) *)
  | SL [SY "classify"; SL [SY "ciffilter"; SZ opts; doc]] =>
      match cdoc_of_sx doc with
      | Some d => if (Z.testbit opts 1 && negb (models_grouped (map model_of_row (d_rows d)) []))%bool
                  then SY "Known_first_model_rows_not_contiguous" else SY "none"
      | None => SY "none"
      end
  | SL (SY "classify" :: _) => SY "none"
  | _ => SY "bad-input"
  end.
