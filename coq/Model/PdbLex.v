(* PDB reader model, part 1: the field parsers and the record lexers of src/read/pdb/lexer.rs.
   Lines are ASCII byte strings (on ASCII input byte offsets and character offsets coincide; non-ASCII input is the
   subject of C05 and is explored on the implementation only).  Mirrors the code after the fix: commits of C05. *)
From Coq Require Import List Ascii String ZArith QArith Bool.
From PV Require Import Base.Sx Base.Text Base.Float Spec.Hier Gen.NameTables.
Import ListNotations.
Local Open Scope Z_scope.

(* ---------- diagnostics: level, short description, line number (0 when the context carries none) ---------- *)
Inductive dlevel : Set := DBreaking | DInvalidating | DStrict | DLoose | DGeneral.
Record diag : Type := { d_level : dlevel; d_short : string; d_line : Z }.
Definition mkd (l : dlevel) (s : string) (n : Z) : diag := {| d_level := l; d_short := s; d_line := n |}.

(* ---------- substrings ---------- *)
Definition sub (line : text) (a b : nat) : text := firstn (b - a) (skipn a line).
Definition len (t : text) : Z := Z.of_nat (List.length t).

(* ---------- FromStr for the field types ---------- *)
Definition max_usize : Z := 2 ^ 64 - 1.
Definition max_isize : Z := 2 ^ 63 - 1.
Definition min_isize : Z := - 2 ^ 63.
Definition digits_only (s : text) : option Z :=
  match s with [] => None | _ => if all_digits s then Some (nat_of_digits s) else None end.
Definition parse_usize (s : text) : option Z :=
  let body := match s with "+"%char :: r => r | _ => s end in
  match digits_only body with Some v => if v <=? max_usize then Some v else None | None => None end.
Definition parse_isize (s : text) : option Z :=
  match s with
  | "-"%char :: r => match digits_only r with Some v => if min_isize <=? - v then Some (- v) else None | None => None end
  | "+"%char :: r => match digits_only r with Some v => if v <=? max_isize then Some v else None | None => None end
  | _ => match digits_only s with Some v => if v <=? max_isize then Some v else None | None => None end
  end.
Definition lower_char (c : ascii) : ascii :=
  let n := code c in if (N.leb 65 n && N.leb n 90)%bool then ascii_of_N (n + 32) else c.
Definition lower (s : text) : text := map lower_char s.
(* f64::from_str: decimal grammar, or inf / infinity / nan in any case, with an optional sign *)
Definition parse_f64_field (s : text) : option fval :=
  let '(neg, body) := match s with "-"%char :: r => (true, r) | "+"%char :: r => (false, r) | _ => (false, s) end in
  let lb := lower body in
  if (text_eqb lb (stext "inf") || text_eqb lb (stext "infinity"))%bool then Some (if neg then FNegInf else FInf)
  else if text_eqb lb (stext "nan") then Some FNaN
  else match parse_dec s with
       | Some q => match rnd64 q with
                   | Some (0, _) => Some (if neg then FNegZero else FFin 0 0)
                   | Some d => Some (fval_of_dy d)
                   | None => Some (if neg then FNegInf else FInf)
                   end
       | None => None
       end.

(* ---------- parse_default / parse_char: a missing or unparsable field leaves an InvalidatingError and a default ---------- *)
Definition field {T} (p : text -> option T) (default : T) (ln : Z) (line : text) (a b : nat) : T * list diag :=
  if (len line <? Z.of_nat b) then (default, [mkd DInvalidating "Line too short" ln])
  else if Nat.ltb b a then (default, [mkd DInvalidating "Invalid data in field" ln])   (* a reversed range is no slice *)
  else match p (trim (sub line a b)) with
       | Some v => (v, [])
       | None => (default, [mkd DInvalidating "Invalid data in field" ln])
       end.
Definition f_usize := field parse_usize 0.
Definition f_isize := field parse_isize 0.
Definition f_f64 := field parse_f64_field (FFin 0 0).
Definition f_f64_default (d : fval) := field parse_f64_field d.
Definition f_text := field (fun s => Some s) [].
Definition f_char (ln : Z) (line : text) (pos : nat) : ascii * list diag :=
  match nth_error line pos with
  | Some c => (c, [])
  | None => (" "%char, [mkd DInvalidating "Line too short" ln])
  end.
Definition opt_char (c : ascii) : option text := if Ascii.eqb c " " then None else Some [c].

(* ---------- lexed records ---------- *)
Record atom_basics : Type := {
  ab_serial : Z; ab_name : text; ab_alt : option text; ab_resname : text; ab_chain : text; ab_resnum : Z;
  ab_icode : option text; ab_element : text; ab_charge : Z }.
Inductive lexitem : Type :=
| LHeader (id : text)
| LRemark (num : Z) (t : text)
| LAtom (hetero : bool) (b : atom_basics) (x y z occ bf : fval)
| LAnisou (serial : Z) (factors : list fval)
| LModel (n : Z)
| LScale (row : nat) (data : list fval)
| LOrigx (row : nat) (data : list fval)
| LMtrix (row : nat) (ser : Z) (data : list fval) (given : bool)
| LCrystal (cell : list fval) (spacegroup : text)
| LDbref (chain : text) (pos : Z * ascii * Z * ascii) (db acc id : text) (dbpos : Z * ascii * Z * ascii)
| LDbref1 (chain : text) (pos : Z * ascii * Z * ascii) (db id : text)
| LDbref2 (chain : text) (acc : text) (b e : Z)
| LSeqadv (chain resname : text) (num : Z) (ins : option text) (dbpos : option (text * Z)) (comment : text)
| LModres (resname chain : text) (num : Z) (ins : option text) (std comment : text)
| LSSBond (a b : text * Z * option text * text)
| LMaster (num_remark num_empty num_xform num_coord : Z)
| LSeqres
| LTer | LEndModel | LEnd | LEmpty.

Definition app3 {A} (a b c : list A) := (a ++ b ++ c)%list.

Definition lex_atom_basics (ln : Z) (line : text) : atom_basics * list diag :=
  let '(serial, e1) := f_usize ln line 6 11 in
  let '(name, e2) := f_text ln line 12 16 in
  let '(alt, e3) := f_char ln line 16 in
  let '(resname, e4) := f_text ln line 17 20 in
  let '(chain, e5) := f_char ln line 21 in
  let '(resnum, e6) := f_isize ln line 22 26 in
  let '(ins, e7) := f_char ln line 26 in
  let '(_, e8) := f_text ln line 72 76 in
  let '(element, e9) := f_text ln line 76 78 in
  let '(charge, e10) :=
    match nth_error line 78, nth_error line 79 with
    | Some c78, Some c79 =>
        if (Ascii.eqb c78 " " && Ascii.eqb c79 " ")%bool then (0, [])
        else if negb (is_digit c78) then (0, [mkd DInvalidating "Atom charge is not correct" ln])
        else if negb (Ascii.eqb c79 "-" || Ascii.eqb c79 "+")%bool then (0, [mkd DInvalidating "Atom charge is not correct" ln])
        else (if Ascii.eqb c79 "-" then - digit_val c78 else digit_val c78, [])
    | _, _ => (0, [])
    end in
  ({| ab_serial := serial; ab_name := name; ab_alt := opt_char alt; ab_resname := resname; ab_chain := [chain];
      ab_resnum := resnum; ab_icode := opt_char ins; ab_element := element; ab_charge := charge |},
   (e1 ++ e2 ++ e3 ++ e4 ++ e5 ++ e6 ++ e7 ++ e8 ++ e9 ++ e10)%list).

Definition lex_atom (ln : Z) (line : text) (hetero : bool) : lexitem * list diag :=
  let '(x, e1) := f_f64 ln line 30 38 in
  let '(y, e2) := f_f64 ln line 38 46 in
  let '(z, e3) := f_f64 ln line 46 54 in
  let '(occ, e4) := f_f64_default (FFin 1 0) ln line 54 60 in
  let '(bf, e5) := f_f64 ln line 60 66 in
  let '(b, e6) := lex_atom_basics ln line in
  (LAtom hetero b x y z occ bf, (e1 ++ e2 ++ e3 ++ e4 ++ e5 ++ e6)%list).

(* (i as f64) / 10000.0 *)
Definition tenthousandth (i : Z) : fval :=
  match rnd64 (Qmake i 10000) with Some (0, _) => FFin 0 0 | Some d => fval_of_dy d | None => FInf end.
Definition lex_anisou (ln : Z) (line : text) : lexitem * list diag :=
  let '(a, e1) := f_isize ln line 28 35 in
  let '(b, e2) := f_isize ln line 35 42 in
  let '(c, e3) := f_isize ln line 42 49 in
  let '(d, e4) := f_isize ln line 49 56 in
  let '(e, e5) := f_isize ln line 56 63 in
  let '(f, e6) := f_isize ln line 63 70 in
  let '(bs, e7) := lex_atom_basics ln line in
  let t := tenthousandth in
  (LAnisou (ab_serial bs) [t a; t d; t e; t d; t b; t f; t e; t f; t c], (e1 ++ e2 ++ e3 ++ e4 ++ e5 ++ e6 ++ e7)%list).

Definition lex_transformation (ln : Z) (line : text) : list fval * list diag :=
  let '(a, e1) := f_f64 ln line 10 20 in
  let '(b, e2) := f_f64 ln line 20 30 in
  let '(c, e3) := f_f64 ln line 30 40 in
  let '(d, e4) := f_f64 ln line 45 55 in
  ([a; b; c; d], (e1 ++ e2 ++ e3 ++ e4)%list).

Definition lex_cryst (ln : Z) (line : text) : lexitem * list diag :=
  let n := List.length line in
  let '(a, e1) := f_f64 ln line 6 15 in
  let '(b, e2) := f_f64 ln line 15 24 in
  let '(c, e3) := f_f64 ln line 24 33 in
  let '(al, e4) := f_f64 ln line 33 40 in
  let '(be, e5) := f_f64 ln line 40 47 in
  let '(ga, e6) := f_f64 ln line 47 54 in
  let '(sg, e7) := f_text ln line 55 (Nat.min 66 n) in
  let '(_, e8) := if Nat.ltb 66 n then f_usize ln line 66 n else (1, []) in
  (LCrystal [a; b; c; al; be; ga] sg, (e1 ++ e2 ++ e3 ++ e4 ++ e5 ++ e6 ++ e7 ++ e8)%list).

Definition in_Z_list (l : list Z) (z : Z) : bool := existsb (Z.eqb z) l.
Definition trim_end (s : text) : text := trim_r s.

(* Err = the line is dropped and only the diagnostic is kept (lex_line returns Err) *)
Definition lex_remark (ln : Z) (line : text) (loose : bool) : (lexitem * list diag) + diag :=
  let '(num, e1) := f_usize ln line 7 10 in
  let e2 := if in_Z_list REMARK_TYPES num then [] else [mkd DLoose "Remark type number invalid" ln] in
  if Nat.ltb 11 (List.length line) then
    (* more than 80 columns: a warning below the loose level; the remark and the other diagnostics of the line stay *)
    let e3 := if (Nat.ltb 80 (List.length (trim_end line)) && negb loose)%bool then [mkd DGeneral "Remark too long" ln] else [] in
    inl (LRemark num (trim_end (skipn 11 line)), (e1 ++ e2 ++ e3)%list)
  else inl (LRemark num [], (e1 ++ e2)%list).
Definition lex_header (ln : Z) (line : text) : (lexitem * list diag) + diag :=
  if Nat.ltb (List.length line) 66 then inr (mkd DLoose "Header too short" ln)
  else inl (LHeader (sub line 62 66), []).

Definition pos4 (ln : Z) (line : text) (a1 a2 i1 b1 b2 i2 : nat) : (Z * ascii * Z * ascii) * list diag :=
  let '(s, e1) := f_isize ln line a1 a2 in
  let '(si, e2) := f_char ln line i1 in
  let '(e, e3) := f_isize ln line b1 b2 in
  let '(ei, e4) := f_char ln line i2 in
  ((s, si, e, ei), (e1 ++ e2 ++ e3 ++ e4)%list).
Definition lex_dbref (ln : Z) (line : text) : lexitem * list diag :=
  let '(_, e0) := f_text ln line 7 11 in
  let '(chain, e1) := f_text ln line 12 13 in
  let '(p, e2) := pos4 ln line 14 18 18 20 24 24 in
  let '(db, e3) := f_text ln line 26 32 in
  let '(acc, e4) := f_text ln line 33 41 in
  let '(id, e5) := f_text ln line 42 54 in
  let '(q, e6) := pos4 ln line 55 60 60 62 67 67 in
  (LDbref chain p db acc id q, (e0 ++ e1 ++ e2 ++ e3 ++ e4 ++ e5 ++ e6)%list).
Definition lex_dbref1 (ln : Z) (line : text) : lexitem * list diag :=
  let '(_, e0) := f_text ln line 7 11 in
  let '(chain, e1) := f_text ln line 12 13 in
  let '(p, e2) := pos4 ln line 14 18 18 20 24 24 in
  let '(db, e3) := f_text ln line 26 32 in
  let '(id, e4) := f_text ln line 47 67 in
  (LDbref1 chain p db id, (e0 ++ e1 ++ e2 ++ e3 ++ e4)%list).
Definition lex_dbref2 (ln : Z) (line : text) : lexitem * list diag :=
  let '(_, e0) := f_text ln line 7 11 in
  let '(chain, e1) := f_text ln line 12 13 in
  let '(acc, e2) := f_text ln line 18 40 in
  let '(b, e3) := f_isize ln line 45 55 in
  let '(e, e4) := f_isize ln line 57 67 in
  (LDbref2 chain acc b e, (e0 ++ e1 ++ e2 ++ e3 ++ e4)%list).
Definition lex_seqadv (ln : Z) (line : text) : lexitem * list diag :=
  let n := List.length line in
  let '(_, e0) := f_text ln line 7 11 in
  let '(resname, e1) := f_text ln line 12 15 in
  let '(chain, e2) := f_text ln line 16 17 in
  let '(num, e3) := f_isize ln line 18 22 in
  let '(ins, e4) := f_char ln line 22 in
  let '(_, e5) := f_text ln line 24 28 in
  let '(_, e6) := f_text ln line 29 38 in
  let '(dbpos, e7) :=
    if (Nat.leb 48 n && negb (forallb (fun c => Ascii.eqb c " ") (sub line 39 48)))%bool then
      let '(rn, x1) := f_text ln line 39 42 in
      let '(sn, x2) := f_isize ln line 43 48 in (Some (rn, sn), (x1 ++ x2)%list)
    else (None, []) in
  let '(comment, e8) := f_text ln line 49 n in
  (LSeqadv chain resname num (opt_char ins) dbpos comment, (e0 ++ e1 ++ e2 ++ e3 ++ e4 ++ e5 ++ e6 ++ e7 ++ e8)%list).
Definition lex_modres (ln : Z) (line : text) : lexitem * list diag :=
  let n := List.length line in
  let '(_, e0) := f_text ln line 7 11 in
  let '(resname, e1) := f_text ln line 12 15 in
  let '(chain, e2) := f_char ln line 16 in
  let '(num, e3) := f_isize ln line 18 22 in
  let '(ins, e4) := f_char ln line 22 in
  let '(std, e5) := f_text ln line 24 27 in
  let '(comment, e6) := f_text ln line 29 n in
  (LModres resname [chain] num (opt_char ins) std comment, (e0 ++ e1 ++ e2 ++ e3 ++ e4 ++ e5 ++ e6)%list).
Definition lex_ssbond (ln : Z) (line : text) : lexitem * list diag :=
  let n := List.length line in
  let '(r1, e1) := f_text ln line 11 14 in
  let '(c1, e2) := f_char ln line 15 in
  let '(s1, e3) := f_isize ln line 17 21 in
  let '(i1, e4) := match nth_error line 21 with
                   | Some c => if Ascii.eqb c " " then (None, []) else (Some [c], [])
                   | None => let '(c, x) := f_char ln line 21 in (Some [c], x) end in
  let '(r2, e5) := f_text ln line 25 28 in
  let '(c2, e6) := f_char ln line 29 in
  let '(s2, e7) := f_isize ln line 31 35 in
  let '(i2, e8) := match nth_error line 35 with
                   | Some c => if Ascii.eqb c " " then (None, []) else (Some [c], [])
                   | None => let '(c, x) := f_char ln line 35 in (Some [c], x) end in
  let e9 := if Nat.leb 78 n then
              let '(_, x1) := f_text ln line 59 65 in let '(_, x2) := f_text ln line 66 72 in let '(_, x3) := f_f64 ln line 73 78 in (x1 ++ x2 ++ x3)%list
            else [] in
  (LSSBond (r1, s1, i1, [c1]) (r2, s2, i2, [c2]), (e1 ++ e2 ++ e3 ++ e4 ++ e5 ++ e6 ++ e7 ++ e8 ++ e9)%list).
Definition lex_master (ln : Z) (line : text) : lexitem * list diag :=
  let '(nr, e1) := f_usize ln line 10 15 in let '(ne, e2) := f_usize ln line 15 20 in let '(_, e3) := f_usize ln line 20 25 in
  let '(_, e4) := f_usize ln line 25 30 in let '(_, e5) := f_usize ln line 30 35 in let '(_, e6) := f_usize ln line 35 40 in
  let '(_, e7) := f_usize ln line 40 45 in let '(nx, e8) := f_usize ln line 45 50 in let '(nc, e9) := f_usize ln line 50 55 in
  let '(_, e10) := f_usize ln line 55 60 in let '(_, e11) := f_usize ln line 60 65 in let '(_, e12) := f_usize ln line 65 70 in
  (LMaster nr ne nx nc, (e1 ++ e2 ++ e3 ++ e4 ++ e5 ++ e6 ++ e7 ++ e8 ++ e9 ++ e10 ++ e11 ++ e12)%list).
Definition lex_model (ln : Z) (line : text) : lexitem * list diag :=
  let '(n, e) := f_usize ln line 6 (List.length line) in (LModel n, e).
Definition lex_mtrix (ln : Z) (line : text) (row : nat) : lexitem * list diag :=
  let '(ser, e1) := f_usize ln line 7 10 in
  let '(d, e2) := lex_transformation ln line in
  let given := match nth_error line 59 with Some c => Ascii.eqb c "1" | None => false end in
  (LMtrix row ser d given, (e1 ++ e2)%list).

Definition lex_line (ln : Z) (line : text) (atomic_only loose : bool) : (lexitem * list diag) + diag :=
  let n := List.length line in
  if Nat.ltb 6 n then
    let tag := string_of_list_ascii (firstn 6 line) in
    let meta (r : (lexitem * list diag) + diag) := if atomic_only then inl (LEmpty, []) else r in
    let m2 (r : lexitem * list diag) := meta (inl r) in
    match tag with
    | "HEADER" => meta (lex_header ln line)
    | "REMARK" => meta (lex_remark ln line loose)
    | "ATOM  " => inl (lex_atom ln line false)
    | "ANISOU" => inl (lex_anisou ln line)
    | "HETATM" => inl (lex_atom ln line true)
    | "CRYST1" => m2 (lex_cryst ln line)
    | "SCALE1" => m2 (let '(d, e) := lex_transformation ln line in (LScale 0 d, e))
    | "SCALE2" => m2 (let '(d, e) := lex_transformation ln line in (LScale 1 d, e))
    | "SCALE3" => m2 (let '(d, e) := lex_transformation ln line in (LScale 2 d, e))
    | "ORIGX1" => m2 (let '(d, e) := lex_transformation ln line in (LOrigx 0 d, e))
    | "ORIGX2" => m2 (let '(d, e) := lex_transformation ln line in (LOrigx 1 d, e))
    | "ORIGX3" => m2 (let '(d, e) := lex_transformation ln line in (LOrigx 2 d, e))
    | "MTRIX1" => m2 (lex_mtrix ln line 0)
    | "MTRIX2" => m2 (lex_mtrix ln line 1)
    | "MTRIX3" => m2 (lex_mtrix ln line 2)
    | "MODEL " => inl (lex_model ln line)
    | "MASTER" => m2 (lex_master ln line)
    | "DBREF " => m2 (lex_dbref ln line)
    | "DBREF1" => m2 (lex_dbref1 ln line)
    | "DBREF2" => m2 (lex_dbref2 ln line)
    | "SEQRES" => m2 (LSeqres, [])
    | "SEQADV" => m2 (lex_seqadv ln line)
    | "MODRES" => m2 (lex_modres ln line)
    | "SSBOND" => m2 (lex_ssbond ln line)
    | "ENDMDL" => inl (LEndModel, [])
    | "TER   " => inl (LTer, [])
    | "END   " => inl (LEnd, [])
    | _ => inl (LEmpty, [])
    end%string
  else if Nat.ltb 2 n then
    match string_of_list_ascii (firstn 3 line) with
    | "TER" => inl (LTer, [])
    | "END" => inl (LEnd, [])
    | _ => inl (LEmpty, [])
    end%string
  else inl (LEmpty, []).
