(* C12 model: Term, the per-level partial evaluations (the optional_matches functions of Term), and find at the five levels
   as instances of the generic pruned descent of Base/Kleene.v. *)
From Coq Require Import List Ascii String ZArith Bool.
From PV Require Import Base.Sx Base.Text Base.Sorting2 Base.Kleene Base.Num Spec.Hier Model.SortRenumber Gen.NameTables.
Import ListNotations.

Inductive term : Type :=
| ModelSerial (n : Z) | ModelSerialRange (lo hi : Z)
| ChainId (s : text) | ChainIdRange (lo hi : text)
| ResSerial (n : Z) | ResSerialRange (lo hi : Z) | ResIcode (o : option text) | ResId (n : Z) (o : option text)
| ConfName (s : text) | ConfAlt (o : option text) | ConfId (s : text) (o : option text)
| AtomSerial (n : Z) | AtomSerialRange (lo hi : Z) | AtomName (s : text) | Elem (z : Z)
| BFactor (f : fval) | BFactorRange (lo hi : fval) | Occ (f : fval) | OccRange (lo hi : fval)
| Backbone | SideChain | Hetero.

Definition otext_eq (a b : option text) : bool :=
  match a, b with None, None => true | Some x, Some y => text_eqb x y | _, _ => false end.
Definition text_le (a b : text) : bool := match text_cmp a b with Gt => false | _ => true end.
Definition in_names (tbl : list string) (s : text) : bool :=
  existsb (fun n => text_eqb (list_ascii_of_string n) s) tbl.
Definition is_amino_acid (c : conformer) : bool := in_names AMINO_ACIDS (c_name c).
Definition is_backbone (a : atom) : bool := in_names BACKBONE_NAMES (a_name a).

Definition v_model (m : model) : valuation term := fun t =>
  match t with
  | ModelSerial s => Some (Z.eqb s (m_serial m))
  | ModelSerialRange lo hi => Some (Z.leb lo (m_serial m) && Z.leb (m_serial m) hi)
  | _ => None
  end.
Definition v_chain (c : chain) : valuation term := fun t =>
  match t with
  | ChainId s => Some (text_eqb s (ch_id c))
  | ChainIdRange lo hi => Some (text_le lo (ch_id c) && text_le (ch_id c) hi)
  | _ => None
  end.
Definition v_res (r : residue) : valuation term := fun t =>
  match t with
  | ResSerial s => Some (Z.eqb s (r_num r))
  | ResSerialRange lo hi => Some (Z.leb lo (r_num r) && Z.leb (r_num r) hi)
  | ResIcode o => Some (otext_eq o (r_icode r))
  | ResId s o => Some (Z.eqb s (r_num r) && otext_eq o (r_icode r))
  | _ => None
  end.
Definition v_conf (c : conformer) : valuation term := fun t =>
  match t with
  | ConfName s => Some (text_eqb s (c_name c))
  | ConfAlt o => Some (otext_eq o (c_alt c))
  | ConfId s o => Some (text_eqb s (c_name c) && otext_eq o (c_alt c))
  | Backbone | SideChain => if is_amino_acid c then None else Some false
  | _ => None
  end.
Definition v_atom (a : atom) : valuation term := fun t =>
  match t with
  | AtomSerial n => Some (Z.eqb (a_serial a) n)
  | AtomSerialRange lo hi => Some (Z.leb lo (a_serial a) && Z.leb (a_serial a) hi)
  | AtomName s => Some (text_eqb (a_name a) s)
  | Elem e => option_map (fun x => Z.eqb x e) (a_elem a)
  | BFactor f => Some (fclose (a_b a) f)
  | BFactorRange lo hi => Some (fge (a_b a) lo && fle (a_b a) hi)
  | Occ f => Some (fclose (a_occ a) f)
  | OccRange lo hi => Some (fge (a_occ a) lo && fle (a_occ a) hi)
  | Backbone => Some (is_backbone a)
  | SideChain => Some (negb (is_backbone a))
  | Hetero => Some (a_hetero a)
  | _ => None
  end.

Notation srch := (search term).

(* Conformer::find: atoms().filter(|a| search.add_atom_info(a).complete().unwrap_or(true)) *)
Definition Conformer_find (c : conformer) (q : srch) : list atom :=
  filter (fun a => sel term (add_info term (v_atom a) q)) (c_atoms c).
Definition Residue_find : residue -> srch -> list (atom * conformer) :=
  find_parent term residue conformer atom r_confs v_conf Conformer_find.
Definition Chain_find : chain -> srch -> list (atom * conformer * residue) :=
  find_parent term chain residue (atom * conformer) ch_residues v_res Residue_find.
Definition Model_find : model -> srch -> list (atom * conformer * residue * chain) :=
  find_parent term model chain (atom * conformer * residue) m_chains v_chain Chain_find.
Definition PDB_find : pdb -> srch -> list (atom * conformer * residue * chain * model) :=
  find_parent term pdb model (atom * conformer * residue * chain) (fun p => p) v_model Model_find.

(* atoms with hierarchy, nested traversal *)
Definition awh_conf (c : conformer) : list atom := c_atoms c.
Definition awh_res := awh_parent residue conformer atom r_confs awh_conf.
Definition awh_chain := awh_parent chain residue (atom * conformer) ch_residues awh_res.
Definition awh_model := awh_parent model chain (atom * conformer * residue) m_chains awh_chain.
Definition awh_pdb := awh_parent pdb model (atom * conformer * residue * chain) (fun p => p) awh_model.

(* ----- declarative meaning of a term on an atom with the ancestors that the tuple names ----- *)
Record ancestors := { an_model : option model; an_chain : option chain; an_res : option residue; an_conf : option conformer }.
Definition lift {X} (o : option X) (f : X -> option bool) : option bool := match o with Some x => f x | None => None end.
Definition term_sem (an : ancestors) (a : atom) (t : term) : option bool :=
  match t with
  | ModelSerial _ | ModelSerialRange _ _ => lift (an_model an) (fun m => v_model m t)
  | ChainId _ | ChainIdRange _ _ => lift (an_chain an) (fun c => v_chain c t)
  | ResSerial _ | ResSerialRange _ _ | ResIcode _ | ResId _ _ => lift (an_res an) (fun r => v_res r t)
  | ConfName _ | ConfAlt _ | ConfId _ _ => lift (an_conf an) (fun c => v_conf c t)
  | Backbone => match an_conf an with
                | Some c => Some (is_amino_acid c && is_backbone a)
                | None => Some (is_backbone a) end
  | SideChain => match an_conf an with
                 | Some c => Some (is_amino_acid c && negb (is_backbone a))
                 | None => Some (negb (is_backbone a)) end
  | _ => v_atom a t
  end.
Definition selected (an : ancestors) (a : atom) (q : srch) : bool :=
  match eval3 term (term_sem an a) q with Some false => false | _ => true end.

(* ----- codec for searches ----- *)
Fixpoint search_of_sx (fuel : nat) (x : sx) : srch :=
  match fuel with
  | O => Known term false
  | S f =>
    match x with
    | SL [SY "and"; a; b] => Ops term And (search_of_sx f a) (search_of_sx f b)
    | SL [SY "or"; a; b] => Ops term Or (search_of_sx f a) (search_of_sx f b)
    | SL [SY "xor"; a; b] => Ops term Xor (search_of_sx f a) (search_of_sx f b)
    | SL [SY "not"; a] => Not term (search_of_sx f a)
    | SL [SY "known"; b] => Known term (get_bool b)
    | SL [SY "model"; SZ n] => Single term (ModelSerial n)
    | SL [SY "modelr"; SZ a; SZ b] => Single term (ModelSerialRange a b)
    | SL [SY "chain"; SS s] => Single term (ChainId s)
    | SL [SY "chainr"; SS a; SS b] => Single term (ChainIdRange a b)
    | SL [SY "res"; SZ n] => Single term (ResSerial n)
    | SL [SY "resr"; SZ a; SZ b] => Single term (ResSerialRange a b)
    | SL [SY "icode"; o] => Single term (ResIcode (get_opt get_text o))
    | SL [SY "resid"; SZ n; o] => Single term (ResId n (get_opt get_text o))
    | SL [SY "cname"; SS s] => Single term (ConfName s)
    | SL [SY "calt"; o] => Single term (ConfAlt (get_opt get_text o))
    | SL [SY "cid"; SS s; o] => Single term (ConfId s (get_opt get_text o))
    | SL [SY "serial"; SZ n] => Single term (AtomSerial n)
    | SL [SY "serialr"; SZ a; SZ b] => Single term (AtomSerialRange a b)
    | SL [SY "name"; SS s] => Single term (AtomName s)
    | SL [SY "elem"; SZ e] => Single term (Elem e)
    | SL [SY "b"; f1] => Single term (BFactor (fval_of_sx f1))
    | SL [SY "br"; f1; f2] => Single term (BFactorRange (fval_of_sx f1) (fval_of_sx f2))
    | SL [SY "occ"; f1] => Single term (Occ (fval_of_sx f1))
    | SL [SY "occr"; f1; f2] => Single term (OccRange (fval_of_sx f1) (fval_of_sx f2))
    | SL [SY "backbone"] => Single term Backbone
    | SL [SY "sidechain"] => Single term SideChain
    | SL [SY "hetero"] => Single term Hetero
    | _ => Known term false
    end
  end%string.

Definition show_path5 (x : atom * conformer * residue * chain * model) : sx :=
  let '(a, c, r, ch, m) := x in
  SL [sx_of_atom_short a; SL [SS (c_name c); sopt SS (c_alt c)]; SL [SZ (r_num r); sopt SS (r_icode r)]; SS (ch_id ch); SZ (m_serial m)].

(* (find <level> <index path> <pdb> <search>) -> list of atoms found, each as its serial + name and ancestors' ids.
   The structure is always a whole pdb; the level picks the element the find is started on. *)
Definition nth_or {X} (l : list X) (i : Z) (d : X) : X := nth (Z.to_nat i) l d.
Definition empty_conf : conformer := {| c_name := []; c_alt := None; c_mod := None; c_atoms := [] |}.
Definition empty_res : residue := {| r_num := 0; r_icode := None; r_confs := [] |}.
Definition empty_chain : chain := {| ch_id := []; ch_residues := [] |}.
Definition empty_model : model := {| m_serial := 0; m_chains := [] |}.

Definition sx_a (a : atom) : sx := sx_of_atom a.
Definition run_find (impl : bool) (level : string) (idx : list sx) (p : pdb) (q : srch) : sx :=
  let i k := get_Z (nth k idx (SZ 0)) in
  let m := nth_or p (i 0%nat) empty_model in
  let ch := nth_or (m_chains m) (i 1%nat) empty_chain in
  let r := nth_or (ch_residues ch) (i 2%nat) empty_res in
  let c := nth_or (r_confs r) (i 3%nat) empty_conf in
  let none := {| an_model := None; an_chain := None; an_res := None; an_conf := None |} in
  let ids_c (cf : conformer) := SL [SS (c_name cf); sopt SS (c_alt cf)] in
  let ids_r (rr : residue) := SL [SZ (r_num rr); sopt SS (r_icode rr)] in
  match level with
  | "pdb" =>
      let res := if impl then PDB_find p q
                 else filter (fun x => let '(a, cf, rr, cc, mm) := x in
                        selected {| an_model := Some mm; an_chain := Some cc; an_res := Some rr; an_conf := Some cf |} a q) (awh_pdb p) in
      SL (map (fun x => let '(a, cf, rr, cc, mm) := x in SL [sx_of_atom_short a; ids_c cf; ids_r rr; SS (ch_id cc); SZ (m_serial mm)]) res)
  | "model" =>
      let res := if impl then Model_find m q
                 else filter (fun x => let '(a, cf, rr, cc) := x in
                        selected {| an_model := None; an_chain := Some cc; an_res := Some rr; an_conf := Some cf |} a q) (awh_model m) in
      SL (map (fun x => let '(a, cf, rr, cc) := x in SL [sx_of_atom_short a; ids_c cf; ids_r rr; SS (ch_id cc)]) res)
  | "chain" =>
      let res := if impl then Chain_find ch q
                 else filter (fun x => let '(a, cf, rr) := x in
                        selected {| an_model := None; an_chain := None; an_res := Some rr; an_conf := Some cf |} a q) (awh_chain ch) in
      SL (map (fun x => let '(a, cf, rr) := x in SL [sx_of_atom_short a; ids_c cf; ids_r rr]) res)
  | "residue" =>
      let res := if impl then Residue_find r q
                 else filter (fun x => let '(a, cf) := x in
                        selected {| an_model := None; an_chain := None; an_res := None; an_conf := Some cf |} a q) (awh_res r) in
      SL (map (fun x => let '(a, cf) := x in SL [sx_of_atom_short a; ids_c cf]) res)
  | _ =>
      let res := if impl then Conformer_find c q else filter (fun a => selected none a q) (c_atoms c) in
      SL (map (fun a => SL [sx_of_atom_short a]) res)
  end%string.

Definition run_c12 (x : sx) : sx :=
  match x with
  | SL [SY "find"; SY level; SL idx; p; q] => run_find true level idx (pdb_of_sx p) (search_of_sx 64 q)
  | SL [SY "spec"; SY level; SL idx; p; q] => run_find false level idx (pdb_of_sx p) (search_of_sx 64 q)
  | SL (SY "classify" :: _) => SY "none"
  | _ => SY "bad-input"
  end%string.
