(* C10: interpreter of edit histories over the Model/Edit.v functions (the executable entry point). *)
From Coq Require Import List Ascii String ZArith Bool.
From PV Require Import Base.Sx Base.Text Spec.Hier Model.Edit.
Import ListNotations.
Local Open Scope string_scope.

Definition ret := sx.
Definition r_unit : ret := SY "u".
Definition r_nopath : ret := SY "nopath".
Definition r_panic : ret := SY "panic".

(* apply f to the n-th element when it exists *)
Definition on_nth {A} (n : Z) (l : list A) (f : A -> A * ret) : list A * ret :=
  match nth_error l (Z.to_nat n) with
  | Some x => if Z.ltb n 0 then (l, r_nopath) else let '(x', r) := f x in (update_nth (Z.to_nat n) (fun _ => x') l, r)
  | None => (l, r_nopath)
  end.
Definition idx (path : list sx) (k : nat) : Z := get_Z (nth k path (SZ (-1))).

Definition on_model (path : list sx) (p : pdb) (f : model -> model * ret) : pdb * ret := on_nth (idx path 0) p f.
Definition on_chain path p (f : chain -> chain * ret) :=
  on_model path p (fun m => let '(l, r) := on_nth (idx path 1) (m_chains m) f in (with_chains m l, r)).
Definition on_residue path p (f : residue -> residue * ret) :=
  on_chain path p (fun c => let '(l, r) := on_nth (idx path 2) (ch_residues c) f in (with_residues c l, r)).
Definition on_conformer path p (f : conformer -> conformer * ret) :=
  on_residue path p (fun rr => let '(l, r) := on_nth (idx path 3) (r_confs rr) f in (with_confs rr l, r)).
Definition on_atom path p (f : atom -> atom * ret) :=
  on_conformer path p (fun c => let '(l, r) := on_nth (idx path 4) (c_atoms c) f in (with_atoms c l, r)).

Definition u {A} (x : A) : A * ret := (x, r_unit).
Definition rm_idx {A} (i : Z) (l : list A) : list A * ret :=
  if Z.ltb i 0 then (l, r_panic) else
  match remove_at (Z.to_nat i) l with Some l' => (l', r_unit) | None => (l, r_panic) end.
Definition rm_first {A} (p : A -> bool) (l : list A) : list A * ret :=
  let '(l', b) := remove_first p l in (l', sbool b).
Definition otext_eq (a b : option text) : bool :=
  match a, b with None, None => true | Some x, Some y => text_eqb x y | _, _ => false end.

Definition step (p : pdb) (op : sx) : pdb * ret :=
  match op with
  (* --- removal by predicate --- *)
  | SL [SY "rm_atoms_by"; SY "pdb"; SL _; SZ k] => u (PDB_remove_atoms_by (atom_pred k) p)
  | SL [SY "rm_atoms_by"; SY "model"; SL path; SZ k] => on_model path p (fun m => u (Model_remove_atoms_by (atom_pred k) m))
  | SL [SY "rm_atoms_by"; SY "chain"; SL path; SZ k] => on_chain path p (fun c => u (Chain_remove_atoms_by (atom_pred k) c))
  | SL [SY "rm_atoms_by"; SY "residue"; SL path; SZ k] => on_residue path p (fun r => u (Residue_remove_atoms_by (atom_pred k) r))
  | SL [SY "rm_atoms_by"; SY "conformer"; SL path; SZ k] => on_conformer path p (fun c => u (Conformer_remove_atoms_by (atom_pred k) c))
  | SL [SY "rm_confs_by"; SY "pdb"; SL _; SZ k] => u (PDB_remove_conformers_by (conf_pred k) p)
  | SL [SY "rm_confs_by"; SY "model"; SL path; SZ k] => on_model path p (fun m => u (Model_remove_conformers_by (conf_pred k) m))
  | SL [SY "rm_confs_by"; SY "chain"; SL path; SZ k] => on_chain path p (fun c => u (Chain_remove_conformers_by (conf_pred k) c))
  | SL [SY "rm_confs_by"; SY "residue"; SL path; SZ k] => on_residue path p (fun r => u (Residue_remove_conformers_by (conf_pred k) r))
  | SL [SY "rm_res_by"; SY "pdb"; SL _; SZ k] => u (PDB_remove_residues_by (res_pred k) p)
  | SL [SY "rm_res_by"; SY "model"; SL path; SZ k] => on_model path p (fun m => u (Model_remove_residues_by (res_pred k) m))
  | SL [SY "rm_res_by"; SY "chain"; SL path; SZ k] => on_chain path p (fun c => u (Chain_remove_residues_by (res_pred k) c))
  | SL [SY "rm_chains_by"; SY "pdb"; SL _; SZ k] => u (PDB_remove_chains_by (chain_pred k) p)
  | SL [SY "rm_chains_by"; SY "model"; SL path; SZ k] => on_model path p (fun m => u (Model_remove_chains_by (chain_pred k) m))
  | SL [SY "rm_models_by"; SZ k] => u (PDB_remove_models_by (model_pred k) p)
  (* --- removal by index: panics when out of range, state unchanged --- *)
  | SL [SY "rm_model"; SZ i] => rm_idx i p
  | SL [SY "rm_chain"; SL path; SZ i] => on_model path p (fun m => let '(l, r) := rm_idx i (m_chains m) in (with_chains m l, r))
  | SL [SY "rm_res"; SL path; SZ i] => on_chain path p (fun c => let '(l, r) := rm_idx i (ch_residues c) in (with_residues c l, r))
  | SL [SY "rm_conf"; SL path; SZ i] => on_residue path p (fun rr => let '(l, r) := rm_idx i (r_confs rr) in (with_confs rr l, r))
  | SL [SY "rm_atom"; SL path; SZ i] => on_conformer path p (fun c => let '(l, r) := rm_idx i (c_atoms c) in (with_atoms c l, r))
  (* --- removal of the first match, reporting whether one existed (sequential and parallel twins) --- *)
  | SL [SY "rm_model_serial"; SZ n; _] => rm_first (fun m => Z.eqb (m_serial m) n) p
  | SL [SY "rm_chain_id"; SL path; SS id; _] =>
      on_model path p (fun m => let '(l, r) := rm_first (fun c => text_eqb (ch_id c) id) (m_chains m) in (with_chains m l, r))
  | SL [SY "rm_res_id"; SL path; SZ n; ic; _] =>
      on_chain path p (fun c => let '(l, r) := rm_first (fun x => Z.eqb (r_num x) n && otext_eq (r_icode x) (get_opt get_text ic)) (ch_residues c) in (with_residues c l, r))
  | SL [SY "rm_conf_id"; SL path; SS nm; alt; _] =>
      on_residue path p (fun rr => let '(l, r) := rm_first (fun x => text_eqb (c_name x) nm && otext_eq (c_alt x) (get_opt get_text alt)) (r_confs rr) in (with_confs rr l, r))
  | SL [SY "rm_atom_serial"; SL path; SZ n; _] =>
      on_conformer path p (fun c => let '(l, r) := rm_first (fun a => Z.eqb (a_serial a) n) (c_atoms c) in (with_atoms c l, r))
  | SL [SY "rm_atom_name"; SL path; SS nm; _] =>
      on_conformer path p (fun c => let '(l, r) := rm_first (fun a => text_eqb (a_name a) nm) (c_atoms c) in (with_atoms c l, r))
  (* --- remove_empty --- *)
  | SL [SY "rm_empty"; SY "pdb"; SL _; _] => u (PDB_remove_empty p)
  | SL [SY "rm_empty"; SY "model"; SL path; _] => on_model path p (fun m => u (Model_remove_empty m))
  | SL [SY "rm_empty"; SY "chain"; SL path; _] => on_chain path p (fun c => u (Chain_remove_empty c))
  | SL [SY "rm_empty"; SY "residue"; SL path; _] => on_residue path p (fun r => u (Residue_remove_empty r))
  (* --- keeping selected models --- *)
  | SL [SY "rm_models_except"; SL idxs] =>
      let '(p', r) := PDB_remove_models_except (map (fun i => Z.to_nat (get_Z i)) idxs) p in (p', sopt snat r)
  | SL [SY "rm_all_but_first"] => let '(p', r) := PDB_remove_models_except [0%nat] p in (p', sopt snat r)
  (* --- joins and extensions --- *)
  | SL [SY "join"; SY "pdb"; SL _; o] => u (PDB_join p (pdb_of_sx o))
  | SL [SY "join"; SY "model"; SL path; o] => on_model path p (fun m => u (Model_join m (model_of_sx o)))
  | SL [SY "join"; SY "chain"; SL path; o] => on_chain path p (fun c => u (Chain_join c (chain_of_sx o)))
  | SL [SY "join"; SY "residue"; SL path; o] => on_residue path p (fun r => u (Residue_join r (residue_of_sx o)))
  | SL [SY "join"; SY "conformer"; SL path; o] => on_conformer path p (fun c => u (Conformer_join c (conformer_of_sx o)))
  | SL [SY "extend"; SY "pdb"; SL _; SL os] => u (p ++ map model_of_sx os)%list
  | SL [SY "extend"; SY "model"; SL path; SL os] => on_model path p (fun m => u (with_chains m (m_chains m ++ map chain_of_sx os)%list))
  | SL [SY "extend"; SY "chain"; SL path; SL os] => on_chain path p (fun c => u (with_residues c (ch_residues c ++ map residue_of_sx os)%list))
  | SL [SY "extend"; SY "residue"; SL path; SL os] => on_residue path p (fun r => u (with_confs r (r_confs r ++ map conformer_of_sx os)%list))
  | SL [SY "extend"; SY "conformer"; SL path; SL os] => on_conformer path p (fun c => u (with_atoms c (c_atoms c ++ map atom_of_sx os)%list))
  (* --- adding and inserting --- *)
  | SL [SY "add_model"; o] => u (p ++ [model_of_sx o])%list
  | SL [SY "add_chain"; SL path; o] => on_model path p (fun m => u (with_chains m (m_chains m ++ [chain_of_sx o])%list))
  | SL [SY "add_res"; SL path; o] => on_chain path p (fun c => u (with_residues c (ch_residues c ++ [residue_of_sx o])%list))
  | SL [SY "insert_res"; SL path; SZ i; o] =>
      on_chain path p (fun c => if Z.ltb i 0 then (c, r_panic) else
                                match insert_at (Z.to_nat i) (residue_of_sx o) (ch_residues c) with
                                | Some l => (with_residues c l, r_unit) | None => (c, r_panic) end)
  | SL [SY "add_conf"; SL path; o] => on_residue path p (fun r => u (with_confs r (r_confs r ++ [conformer_of_sx o])%list))
  | SL [SY "add_atom"; SL path; o] => on_conformer path p (fun c => u (with_atoms c (c_atoms c ++ [atom_of_sx o])%list))
  (* --- setters --- *)
  | SL [SY "set"; SY "atom"; SL path; SY field; v] => on_atom path p (fun a => let '(a', b) := upd_atom a field v in (a', sbool b))
  | SL [SY "set"; SY "conformer"; SL path; SY field; v] => on_conformer path p (fun c => let '(c', b) := upd_conformer c field v in (c', sbool b))
  | SL [SY "set"; SY "residue"; SL path; SY field; v] => on_residue path p (fun r => let '(r', b) := upd_residue r field v in (r', sbool b))
  | SL [SY "set"; SY "chain"; SL path; SY field; v] => on_chain path p (fun c => let '(c', b) := upd_chain c field v in (c', sbool b))
  | SL [SY "set"; SY "model"; SL path; SY field; v] => on_model path p (fun m => let '(m', b) := upd_model m field v in (m', sbool b))
  | _ => (p, SY "bad-op")
  end.

(* (hist <pdb> (op ...)) -> ((ret snapshot) ...) : the returned value and the full structure after every step *)
Fixpoint run_ops (p : pdb) (ops : list sx) : list sx :=
  match ops with
  | [] => []
  | o :: r => let '(p', rt) := step p o in SL [rt; sx_of_pdb sx_of_atom p'] :: run_ops p' r
  end.
Definition run_c10 (x : sx) : sx :=
  match x with
  | SL [SY "hist"; p; SL ops] => SL (run_ops (pdb_of_sx p) ops)
  | SL (SY "classify" :: _) => SY "none"
  | _ => SY "bad-input"
  end.
