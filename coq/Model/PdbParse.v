(* PDB reader model, part 2: the record loop of open_pdb_raw_with_options, the post passes, and the gate.
   SEQRES validation is not modelled (inputs of the correspondence carry no SEQRES records). *)
From Coq Require Import List Ascii String ZArith QArith Bool.
From PV Require Import Base.Sx Base.Text Base.Float Spec.Hier Spec.ValidateSpec Gen.Elements Model.Symmetry Model.Validate Model.PdbLex Model.Edit.
Import ListNotations.
Local Open Scope Z_scope.

(* ---------- constructors of the hierarchy ---------- *)
Fixpoint position_sym (s : string) (l : list string) (i : Z) : option Z :=
  match l with [] => None | x :: r => if String.eqb x s then Some i else position_sym s r (i + 1) end.
Definition element_of_symbol (s : text) : option Z := position_sym (string_of_list_ascii (upper s)) ELEMENT_SYMBOLS 1.
Definition finite_f (f : fval) : bool := match f with FFin _ _ | FNegZero => true | _ => false end.
(* Atom::new *)
Definition Atom_new (hetero : bool) (serial : Z) (id name : text) (x y z occ b : fval) (element : text) (charge : Z) : option atom :=
  let id := trim id in let name := trim name in let element := trim element in
  if (valid_text id && valid_text name && valid_text element &&
      finite_f x && finite_f y && finite_f z && finite_f occ && finite_f b)%bool then
    let el := match element_of_symbol element with
              | Some e => Some e
              | None => match element_of_symbol name with
                        | Some e => Some e
                        | None => match name with
                                  | c :: _ => if existsb (Ascii.eqb c) (stext "CHNOS") then element_of_symbol [c] else None
                                  | [] => None
                                  end
                        end
              end in
    Some {| a_hetero := hetero; a_serial := serial; a_id := id; a_name := upper name; a_x := x; a_y := y; a_z := z;
            a_occ := occ; a_b := b; a_elem := el; a_charge := charge; a_atf := None |}
  else None.
(* Atom::deduce_element: the element an atom with this element text and this name gets (the same steps as in Atom_new) *)
Definition deduce_element (element name : text) : option Z :=
  let name := trim name in
  match element_of_symbol (trim element) with
  | Some e => Some e
  | None => match element_of_symbol name with
            | Some e => Some e
            | None => match name with
                      | c :: _ => if existsb (Ascii.eqb c) (stext "CHNOS") then element_of_symbol [c] else None
                      | [] => None
                      end
            end
  end.
Definition is_hydrogen (element name : text) : bool := match deduce_element element name with Some e => Z.eqb e 1 | None => false end.
Definition norm_alt (alt : option text) : option text :=
  match alt with None => None | Some a => prepare_identifier_uppercase a end.
Definition Conformer_new (name : text) (alt : option text) (atoms : list atom) : option conformer :=
  option_map (fun n => {| c_name := n; c_alt := norm_alt alt; c_mod := None; c_atoms := atoms |}) (prepare_identifier_uppercase name).
Definition Residue_new (num : Z) (icode : option text) (confs : list conformer) : option residue :=
  match icode with
  | None => Some {| r_num := num; r_icode := None; r_confs := confs |}
  | Some ic => option_map (fun c => {| r_num := num; r_icode := Some c; r_confs := confs |}) (prepare_identifier_uppercase ic)
  end.
Definition otext_eqb (a b : option text) : bool :=
  match a, b with None, None => true | Some x, Some y => text_eqb x y | _, _ => false end.
(* Residue::add_atom with a valid name *)
Fixpoint add_to_confs (cs : list conformer) (name : text) (alt : option text) (a : atom) : list conformer :=
  match cs with
  | [] => [{| c_name := name; c_alt := alt; c_mod := None; c_atoms := [a] |}]
  | c :: r => if (text_eqb (c_name c) name && otext_eqb (c_alt c) alt)%bool
              then with_atoms c (c_atoms c ++ [a]) :: r else c :: add_to_confs r name alt a
  end.
Definition Residue_add_atom (r : residue) (a : atom) (name : text) (alt : option text) : residue :=
  match prepare_identifier_uppercase name with
  | Some n => with_confs r (add_to_confs (r_confs r) n (norm_alt alt) a)
  | None => r
  end.

(* ---------- reader state ---------- *)
Definition rkey := (Z * option text)%type.
Definition rkey_eqb (a b : rkey) : bool := (Z.eqb (fst a) (fst b) && otext_eqb (snd a) (snd b))%bool.
Definition cur_model := list (text * list (rkey * residue)).   (* IndexMap<String, IndexMap<(isize, Option<String>), Residue>> *)

Record seqpos : Type := { sp_start : Z; sp_start_ins : option text; sp_end : Z; sp_end_ins : option text }.
Definition seqpos_of (p : Z * ascii * Z * ascii) : seqpos :=
  let '(s, si, e, ei) := p in {| sp_start := s; sp_start_ins := opt_char si; sp_end := e; sp_end_ins := opt_char ei |}.
Record seqdiff : Type := { sd_res : text * Z * option text; sd_db : option (text * Z); sd_comment : text }.
Record dbref : Type := { db_name : text; db_acc : text; db_id : text; db_pdbpos : seqpos; db_dbpos : seqpos; db_diffs : list seqdiff }.

Record build : Type := { row0 : option (list fval); row1 : option (list fval); row2 : option (list fval) }.
Definition build_empty : build := {| row0 := None; row1 := None; row2 := None |}.
Definition set_row (b : build) (n : nat) (d : list fval) : build :=
  match n with
  | O => {| row0 := Some d; row1 := row1 b; row2 := row2 b |}
  | S O => {| row0 := row0 b; row1 := Some d; row2 := row2 b |}
  | _ => {| row0 := row0 b; row1 := row1 b; row2 := Some d |}
  end.
Definition get_matrix (b : build) : option (list fval) :=
  match row0 b, row1 b, row2 b with Some a, Some c, Some d => Some (a ++ c ++ d)%list | _, _, _ => None end.
Definition is_set (b : build) : bool := match get_matrix b with Some _ => true | None => false end.
Definition partly_set (b : build) : bool :=
  match row0 b, row1 b, row2 b with None, None, None => false | _, _, _ => true end.

Record pdbfile : Type := {
  pf_id : option text; pf_remarks : list (Z * text); pf_scale : option (list fval); pf_origx : option (list fval);
  pf_mtrix : list (Z * list fval * bool); pf_cell : option (list fval); pf_sym : option nat;
  pf_models : pdb; pf_dbrefs : list (nat * nat * dbref);        (* database reference of chain j of model i *)
  pf_bonds : list (nat * nat) }.                                  (* disulfide bonds as traversal positions of the atoms *)

Record st : Type := {
  s_id : option text; s_remarks : list (Z * text); s_cell : option (list fval); s_sym : option nat;
  s_models : pdb; s_cur_num : Z; s_cur : cur_model;
  s_dbrefs : list (text * dbref * bool); s_mods : list (Z * lexitem); s_bonds : list (Z * lexitem);
  s_scale : build; s_origx : build; s_mtrix : list (Z * build * bool);
  s_last_res : Z; s_res_add : Z; s_last_atom : Z; s_atom_add : Z;
  s_chain_letter : N; s_next_id : Z; s_errors : list diag; s_stop : bool }.
Definition st0 : st :=
  {| s_id := None; s_remarks := []; s_cell := None; s_sym := None; s_models := []; s_cur_num := 0; s_cur := [];
     s_dbrefs := []; s_mods := []; s_bonds := []; s_scale := build_empty; s_origx := build_empty; s_mtrix := [];
     s_last_res := 0; s_res_add := 0; s_last_atom := 0; s_atom_add := 0; s_chain_letter := 0; s_next_id := 0;
     s_errors := []; s_stop := false |}.

(* record update helpers (one per field that changes) *)
Definition up_errors (s : st) (e : list diag) : st :=
  {| s_id := s_id s; s_remarks := s_remarks s; s_cell := s_cell s; s_sym := s_sym s; s_models := s_models s; s_cur_num := s_cur_num s;
     s_cur := s_cur s; s_dbrefs := s_dbrefs s; s_mods := s_mods s; s_bonds := s_bonds s; s_scale := s_scale s; s_origx := s_origx s;
     s_mtrix := s_mtrix s; s_last_res := s_last_res s; s_res_add := s_res_add s; s_last_atom := s_last_atom s; s_atom_add := s_atom_add s;
     s_chain_letter := s_chain_letter s; s_next_id := s_next_id s; s_errors := (s_errors s ++ e)%list; s_stop := s_stop s |}.

Definition model_of_cur (num : Z) (c : cur_model) : model :=
  {| m_serial := num; m_chains := map (fun kc : text * list (rkey * residue) => {| ch_id := fst kc; ch_residues := map snd (snd kc) |}) c |}.

Fixpoint cm_find_chain (c : cur_model) (id : text) : bool :=
  match c with [] => false | (k, _) :: r => if text_eqb k id then true else cm_find_chain r id end.
Fixpoint rs_upsert (rs : list (rkey * residue)) (k : rkey) (mk : unit -> residue) (upd : residue -> residue) : list (rkey * residue) :=
  match rs with
  | [] => [(k, mk tt)]
  | (k', r) :: rest => if rkey_eqb k k' then (k', upd r) :: rest else (k', r) :: rs_upsert rest k mk upd
  end.
Fixpoint cm_upsert (c : cur_model) (id : text) (k : rkey) (mk : unit -> residue) (upd : residue -> residue) : cur_model :=
  match c with
  | [] => [(id, [(k, mk tt)])]
  | (cid, rs) :: rest => if text_eqb cid id then (cid, rs_upsert rs k mk upd) :: rest else (cid, rs) :: cm_upsert rest id k mk upd
  end.

(* ANISOU: chains newest first, residues and atoms in order, first atom whose serial number equals the column value *)
Fixpoint set_atf_atoms (l : list atom) (s : Z) (t : list fval) : list atom * bool :=
  match l with
  | [] => ([], false)
  | a :: r => if Z.eqb (a_serial a) s
              then ({| a_hetero := a_hetero a; a_serial := a_serial a; a_id := a_id a; a_name := a_name a; a_x := a_x a; a_y := a_y a;
                       a_z := a_z a; a_occ := a_occ a; a_b := a_b a; a_elem := a_elem a; a_charge := a_charge a; a_atf := Some t |} :: r, true)
              else let '(r', f) := set_atf_atoms r s t in (a :: r', f)
  end.
Fixpoint set_atf_confs (l : list conformer) s t : list conformer * bool :=
  match l with
  | [] => ([], false)
  | c :: r => let '(atoms, f) := set_atf_atoms (c_atoms c) s t in
              if f then (with_atoms c atoms :: r, true) else let '(r', f') := set_atf_confs r s t in (c :: r', f')
  end.
Fixpoint set_atf_res (l : list (rkey * residue)) s t : list (rkey * residue) * bool :=
  match l with
  | [] => ([], false)
  | (k, x) :: r => let '(cs, f) := set_atf_confs (r_confs x) s t in
                   if f then ((k, with_confs x cs) :: r, true) else let '(r', f') := set_atf_res r s t in ((k, x) :: r', f')
  end.
(* the chains are visited from the last inserted to the first *)
Fixpoint set_atf_chains_rev (l : cur_model) s t : cur_model * bool :=
  match l with
  | [] => ([], false)
  | (id, rs) :: rest =>
      let '(rest', f) := set_atf_chains_rev rest s t in
      if f then ((id, rs) :: rest', true) else let '(rs', f') := set_atf_res rs s t in ((id, rs') :: rest', f')
  end.

Definition letter_of (n : N) : text := [ascii_of_N (65 + n mod 26)].
Definition blank (t : text) : bool := is_nil (trim t).

Definition Symmetry_of (sg : text) : option nat := Symmetry_new (string_of_list_ascii sg).

Section Step.
Variables (discard_h first_only : bool).

Definition push_current (s : st) : st :=
  {| s_id := s_id s; s_remarks := s_remarks s; s_cell := s_cell s; s_sym := s_sym s;
     s_models := (s_models s ++ [model_of_cur (s_cur_num s) (s_cur s)])%list; s_cur_num := s_cur_num s;
     s_cur := []; s_dbrefs := s_dbrefs s; s_mods := s_mods s; s_bonds := s_bonds s; s_scale := s_scale s; s_origx := s_origx s;
     s_mtrix := s_mtrix s; s_last_res := s_last_res s; s_res_add := s_res_add s; s_last_atom := s_last_atom s; s_atom_add := s_atom_add s;
     s_chain_letter := s_chain_letter s; s_next_id := s_next_id s; s_errors := s_errors s; s_stop := s_stop s |}.

Definition step_item (s : st) (ln : Z) (it : lexitem) : st :=
  match it with
  | LHeader id =>
      {| s_id := Some (trim id); s_remarks := s_remarks s; s_cell := s_cell s; s_sym := s_sym s; s_models := s_models s; s_cur_num := s_cur_num s;
         s_cur := s_cur s; s_dbrefs := s_dbrefs s; s_mods := s_mods s; s_bonds := s_bonds s; s_scale := s_scale s; s_origx := s_origx s;
         s_mtrix := s_mtrix s; s_last_res := s_last_res s; s_res_add := s_res_add s; s_last_atom := s_last_atom s; s_atom_add := s_atom_add s;
         s_chain_letter := s_chain_letter s; s_next_id := s_next_id s; s_errors := s_errors s; s_stop := s_stop s |}
  | LRemark num t =>
      (* PDB::add_remark: an invalid type number or invalid text is refused (the error is discarded here), a long text is kept *)
      let keep := (existsb (Z.eqb num) Gen.NameTables.REMARK_TYPES && valid_text t)%bool in
      {| s_id := s_id s; s_remarks := if keep then (s_remarks s ++ [(num, t)])%list else s_remarks s; s_cell := s_cell s; s_sym := s_sym s;
         s_models := s_models s; s_cur_num := s_cur_num s; s_cur := s_cur s; s_dbrefs := s_dbrefs s; s_mods := s_mods s; s_bonds := s_bonds s;
         s_scale := s_scale s; s_origx := s_origx s; s_mtrix := s_mtrix s; s_last_res := s_last_res s; s_res_add := s_res_add s;
         s_last_atom := s_last_atom s; s_atom_add := s_atom_add s; s_chain_letter := s_chain_letter s; s_next_id := s_next_id s;
         s_errors := s_errors s; s_stop := s_stop s |}
  | LAtom hetero b x y z occ bf =>
      if (discard_h && is_hydrogen (ab_element b) (ab_name b))%bool then s else
      let atom_add := if (Z.eqb (ab_serial b) 0 && Z.eqb (s_last_atom s) 99999)%bool then s_atom_add s + 100000 else s_atom_add s in
      let res_add := if (Z.eqb (ab_resnum b) 0 && Z.eqb (s_last_res s) 9999)%bool then s_res_add s + 10000 else s_res_add s in
      let chain := if blank (ab_chain b) then letter_of (s_chain_letter s) else ab_chain b in
      let a := Atom_new hetero (ab_serial b + atom_add) (show_Z (s_next_id s)) (ab_name b) x y z occ bf (ab_element b) (ab_charge b) in
      let valid_ids := (valid_text chain &&
                        match Conformer_new (ab_resname b) (ab_alt b) [] with Some _ => true | None => false end &&
                        match Residue_new 0 (ab_icode b) [] with Some _ => true | None => false end)%bool in
      match a, valid_ids with
      | Some atom, true =>
          (* residues are told apart by the insertion code in the upper-case form it is stored in *)
          let key := (ab_resnum b + res_add, option_map upper (ab_icode b)) in
          let mk (_ : unit) :=
            {| r_num := ab_resnum b + res_add; r_icode := norm_alt (snd key);
               r_confs := match Conformer_new (ab_resname b) (ab_alt b) [atom] with Some c => [c] | None => [] end |} in
          {| s_id := s_id s; s_remarks := s_remarks s; s_cell := s_cell s; s_sym := s_sym s; s_models := s_models s; s_cur_num := s_cur_num s;
             s_cur := cm_upsert (s_cur s) chain key mk (fun r => Residue_add_atom r atom (ab_resname b) (ab_alt b));
             s_dbrefs := s_dbrefs s; s_mods := s_mods s; s_bonds := s_bonds s; s_scale := s_scale s; s_origx := s_origx s; s_mtrix := s_mtrix s;
             s_last_res := ab_resnum b; s_res_add := res_add; s_last_atom := ab_serial b; s_atom_add := atom_add;
             s_chain_letter := s_chain_letter s; s_next_id := s_next_id s + 1; s_errors := s_errors s; s_stop := s_stop s |}
      | _, _ =>
          {| s_id := s_id s; s_remarks := s_remarks s; s_cell := s_cell s; s_sym := s_sym s; s_models := s_models s; s_cur_num := s_cur_num s;
             s_cur := s_cur s; s_dbrefs := s_dbrefs s; s_mods := s_mods s; s_bonds := s_bonds s; s_scale := s_scale s; s_origx := s_origx s;
             s_mtrix := s_mtrix s; s_last_res := s_last_res s; s_res_add := res_add; s_last_atom := s_last_atom s; s_atom_add := atom_add;
             s_chain_letter := s_chain_letter s; s_next_id := s_next_id s + 1;
             s_errors := (s_errors s ++ [mkd DInvalidating "Invalid atom definition" ln])%list; s_stop := s_stop s |}
      end
  | LAnisou serial factors =>
      let '(cur, _) := set_atf_chains_rev (s_cur s) (serial + s_atom_add s) factors in
      {| s_id := s_id s; s_remarks := s_remarks s; s_cell := s_cell s; s_sym := s_sym s; s_models := s_models s; s_cur_num := s_cur_num s;
         s_cur := cur; s_dbrefs := s_dbrefs s; s_mods := s_mods s; s_bonds := s_bonds s; s_scale := s_scale s; s_origx := s_origx s;
         s_mtrix := s_mtrix s; s_last_res := s_last_res s; s_res_add := s_res_add s; s_last_atom := s_last_atom s; s_atom_add := s_atom_add s;
         s_chain_letter := s_chain_letter s; s_next_id := s_next_id s; s_errors := s_errors s; s_stop := s_stop s |}
  | LModel n =>
      let s1 := if is_nil (s_cur s) then s else push_current s in
      let stop := (negb (is_nil (s_cur s)) && first_only)%bool in
      {| s_id := s_id s1; s_remarks := s_remarks s1; s_cell := s_cell s1; s_sym := s_sym s1; s_models := s_models s1;
         s_cur_num := if stop then s_cur_num s1 else n; s_cur := []; s_dbrefs := s_dbrefs s1; s_mods := s_mods s1; s_bonds := s_bonds s1;
         s_scale := s_scale s1; s_origx := s_origx s1; s_mtrix := s_mtrix s1; s_last_res := s_last_res s1; s_res_add := s_res_add s1;
         s_last_atom := s_last_atom s1; s_atom_add := s_atom_add s1; s_chain_letter := s_chain_letter s1; s_next_id := s_next_id s1;
         s_errors := s_errors s1; s_stop := stop |}
  | LScale n d =>
      {| s_id := s_id s; s_remarks := s_remarks s; s_cell := s_cell s; s_sym := s_sym s; s_models := s_models s; s_cur_num := s_cur_num s;
         s_cur := s_cur s; s_dbrefs := s_dbrefs s; s_mods := s_mods s; s_bonds := s_bonds s; s_scale := set_row (s_scale s) n d; s_origx := s_origx s;
         s_mtrix := s_mtrix s; s_last_res := s_last_res s; s_res_add := s_res_add s; s_last_atom := s_last_atom s; s_atom_add := s_atom_add s;
         s_chain_letter := s_chain_letter s; s_next_id := s_next_id s; s_errors := s_errors s; s_stop := s_stop s |}
  | LOrigx n d =>
      {| s_id := s_id s; s_remarks := s_remarks s; s_cell := s_cell s; s_sym := s_sym s; s_models := s_models s; s_cur_num := s_cur_num s;
         s_cur := s_cur s; s_dbrefs := s_dbrefs s; s_mods := s_mods s; s_bonds := s_bonds s; s_scale := s_scale s; s_origx := set_row (s_origx s) n d;
         s_mtrix := s_mtrix s; s_last_res := s_last_res s; s_res_add := s_res_add s; s_last_atom := s_last_atom s; s_atom_add := s_atom_add s;
         s_chain_letter := s_chain_letter s; s_next_id := s_next_id s; s_errors := s_errors s; s_stop := s_stop s |}
  | LMtrix n ser d given =>
      let fix upd (l : list (Z * build * bool)) : list (Z * build * bool) :=
        match l with
        | [] => [(ser, set_row build_empty n d, given)]
        | (i, m, g) :: r => if Z.eqb i ser then (i, set_row m n d, given) :: r else (i, m, g) :: upd r
        end in
      {| s_id := s_id s; s_remarks := s_remarks s; s_cell := s_cell s; s_sym := s_sym s; s_models := s_models s; s_cur_num := s_cur_num s;
         s_cur := s_cur s; s_dbrefs := s_dbrefs s; s_mods := s_mods s; s_bonds := s_bonds s; s_scale := s_scale s; s_origx := s_origx s;
         s_mtrix := upd (s_mtrix s); s_last_res := s_last_res s; s_res_add := s_res_add s; s_last_atom := s_last_atom s; s_atom_add := s_atom_add s;
         s_chain_letter := s_chain_letter s; s_next_id := s_next_id s; s_errors := s_errors s; s_stop := s_stop s |}
  | LCrystal cell sg =>
      let sym := Symmetry_of sg in
      {| s_id := s_id s; s_remarks := s_remarks s; s_cell := Some cell; s_sym := sym; s_models := s_models s; s_cur_num := s_cur_num s;
         s_cur := s_cur s; s_dbrefs := s_dbrefs s; s_mods := s_mods s; s_bonds := s_bonds s; s_scale := s_scale s; s_origx := s_origx s;
         s_mtrix := s_mtrix s; s_last_res := s_last_res s; s_res_add := s_res_add s; s_last_atom := s_last_atom s; s_atom_add := s_atom_add s;
         s_chain_letter := s_chain_letter s; s_next_id := s_next_id s;
         s_errors := match sym with Some _ => s_errors s | None => (s_errors s ++ [mkd DInvalidating "Invalid space group" ln])%list end;
         s_stop := s_stop s |}
  | LDbref chain p db acc id q =>
      let r := {| db_name := db; db_acc := acc; db_id := id; db_pdbpos := seqpos_of p; db_dbpos := seqpos_of q; db_diffs := [] |} in
      {| s_id := s_id s; s_remarks := s_remarks s; s_cell := s_cell s; s_sym := s_sym s; s_models := s_models s; s_cur_num := s_cur_num s;
         s_cur := s_cur s; s_dbrefs := (s_dbrefs s ++ [(chain, r, true)])%list; s_mods := s_mods s; s_bonds := s_bonds s; s_scale := s_scale s;
         s_origx := s_origx s; s_mtrix := s_mtrix s; s_last_res := s_last_res s; s_res_add := s_res_add s; s_last_atom := s_last_atom s;
         s_atom_add := s_atom_add s; s_chain_letter := s_chain_letter s; s_next_id := s_next_id s; s_errors := s_errors s; s_stop := s_stop s |}
  | LDbref1 chain p db id =>
      let r := {| db_name := db; db_acc := []; db_id := id; db_pdbpos := seqpos_of p;
                  db_dbpos := {| sp_start := 0; sp_start_ins := None; sp_end := 0; sp_end_ins := None |}; db_diffs := [] |} in
      {| s_id := s_id s; s_remarks := s_remarks s; s_cell := s_cell s; s_sym := s_sym s; s_models := s_models s; s_cur_num := s_cur_num s;
         s_cur := s_cur s; s_dbrefs := (s_dbrefs s ++ [(chain, r, false)])%list; s_mods := s_mods s; s_bonds := s_bonds s; s_scale := s_scale s;
         s_origx := s_origx s; s_mtrix := s_mtrix s; s_last_res := s_last_res s; s_res_add := s_res_add s; s_last_atom := s_last_atom s;
         s_atom_add := s_atom_add s; s_chain_letter := s_chain_letter s; s_next_id := s_next_id s; s_errors := s_errors s; s_stop := s_stop s |}
  | LDbref2 chain acc b e =>
      let fix upd (l : list (text * dbref * bool)) : list (text * dbref * bool) * bool :=
        match l with
        | [] => ([], false)
        | (c, r, done) :: rest =>
            if text_eqb c chain then
              ((c, {| db_name := db_name r; db_acc := acc; db_id := db_id r; db_pdbpos := db_pdbpos r;
                      db_dbpos := {| sp_start := b; sp_start_ins := None; sp_end := e; sp_end_ins := None |}; db_diffs := db_diffs r |}, true) :: rest, true)
            else let '(rest', f) := upd rest in ((c, r, done) :: rest', f)
        end in
      let '(dbs, found) := upd (s_dbrefs s) in
      {| s_id := s_id s; s_remarks := s_remarks s; s_cell := s_cell s; s_sym := s_sym s; s_models := s_models s; s_cur_num := s_cur_num s;
         s_cur := s_cur s; s_dbrefs := dbs; s_mods := s_mods s; s_bonds := s_bonds s; s_scale := s_scale s; s_origx := s_origx s; s_mtrix := s_mtrix s;
         s_last_res := s_last_res s; s_res_add := s_res_add s; s_last_atom := s_last_atom s; s_atom_add := s_atom_add s;
         s_chain_letter := s_chain_letter s; s_next_id := s_next_id s;
         s_errors := if found then s_errors s else (s_errors s ++ [mkd DBreaking "Solitary DBREF2" ln])%list; s_stop := s_stop s |}
  | LSeqadv chain resname num ins dbpos comment =>
      let d := {| sd_res := (resname, num, ins); sd_db := dbpos; sd_comment := comment |} in
      let fix upd (l : list (text * dbref * bool)) : list (text * dbref * bool) * bool :=
        match l with
        | [] => ([], false)
        | (c, r, done) :: rest =>
            if text_eqb c chain then
              ((c, {| db_name := db_name r; db_acc := db_acc r; db_id := db_id r; db_pdbpos := db_pdbpos r; db_dbpos := db_dbpos r;
                      db_diffs := (db_diffs r ++ [d])%list |}, done) :: rest, true)
            else let '(rest', f) := upd rest in ((c, r, done) :: rest', f)
        end in
      let '(dbs, found) := upd (s_dbrefs s) in
      {| s_id := s_id s; s_remarks := s_remarks s; s_cell := s_cell s; s_sym := s_sym s; s_models := s_models s; s_cur_num := s_cur_num s;
         s_cur := s_cur s; s_dbrefs := dbs; s_mods := s_mods s; s_bonds := s_bonds s; s_scale := s_scale s; s_origx := s_origx s; s_mtrix := s_mtrix s;
         s_last_res := s_last_res s; s_res_add := s_res_add s; s_last_atom := s_last_atom s; s_atom_add := s_atom_add s;
         s_chain_letter := s_chain_letter s; s_next_id := s_next_id s;
         s_errors := if found then s_errors s else (s_errors s ++ [mkd DStrict "Sequence Difference Database not found" ln])%list; s_stop := s_stop s |}
  | LModres _ _ _ _ _ _ =>
      {| s_id := s_id s; s_remarks := s_remarks s; s_cell := s_cell s; s_sym := s_sym s; s_models := s_models s; s_cur_num := s_cur_num s;
         s_cur := s_cur s; s_dbrefs := s_dbrefs s; s_mods := (s_mods s ++ [(ln, it)])%list; s_bonds := s_bonds s; s_scale := s_scale s;
         s_origx := s_origx s; s_mtrix := s_mtrix s; s_last_res := s_last_res s; s_res_add := s_res_add s; s_last_atom := s_last_atom s;
         s_atom_add := s_atom_add s; s_chain_letter := s_chain_letter s; s_next_id := s_next_id s; s_errors := s_errors s; s_stop := s_stop s |}
  | LSSBond _ _ =>
      {| s_id := s_id s; s_remarks := s_remarks s; s_cell := s_cell s; s_sym := s_sym s; s_models := s_models s; s_cur_num := s_cur_num s;
         s_cur := s_cur s; s_dbrefs := s_dbrefs s; s_mods := s_mods s; s_bonds := (s_bonds s ++ [(ln, it)])%list; s_scale := s_scale s;
         s_origx := s_origx s; s_mtrix := s_mtrix s; s_last_res := s_last_res s; s_res_add := s_res_add s; s_last_atom := s_last_atom s;
         s_atom_add := s_atom_add s; s_chain_letter := s_chain_letter s; s_next_id := s_next_id s; s_errors := s_errors s; s_stop := s_stop s |}
  | LMaster num_remark num_empty num_xform num_coord =>
      let s1 := if is_nil (s_cur s) then s else push_current s in
      let xform := (if is_set (s_origx s1) then 3 else 0) + (if is_set (s_scale s1) then 3 else 0) +
                   3 * Z.of_nat (List.length (filter (fun m : Z * build * bool => is_set (snd (fst m))) (s_mtrix s1))) in
      let e1 := if Z.eqb num_remark (Z.of_nat (List.length (s_remarks s1))) then [] else [mkd DStrict "MASTER checksum failed" ln] in
      let e2 := if Z.eqb num_empty 0 then [] else [mkd DLoose "MASTER checksum failed" ln] in
      let e3 := if Z.eqb num_xform xform then [] else [mkd DStrict "MASTER checksum failed" ln] in
      let e4 := if Z.eqb num_coord (Z.of_nat (List.length (p_atoms (s_models s1)))) then [] else [mkd DLoose "MASTER checksum failed" ln] in
      up_errors s1 (e1 ++ e2 ++ e3 ++ e4)%list
  | LTer =>
      {| s_id := s_id s; s_remarks := s_remarks s; s_cell := s_cell s; s_sym := s_sym s; s_models := s_models s; s_cur_num := s_cur_num s;
         s_cur := s_cur s; s_dbrefs := s_dbrefs s; s_mods := s_mods s; s_bonds := s_bonds s; s_scale := s_scale s; s_origx := s_origx s;
         s_mtrix := s_mtrix s; s_last_res := s_last_res s; s_res_add := s_res_add s; s_last_atom := s_last_atom s; s_atom_add := s_atom_add s;
         s_chain_letter := (s_chain_letter s + 1)%N; s_next_id := s_next_id s; s_errors := s_errors s; s_stop := s_stop s |}
  | _ => s
  end.

Definition step_line (atomic_only loose : bool) (s : st) (nl : Z * text) : st :=
  if s_stop s then s else
  match lex_line (fst nl) (snd nl) atomic_only loose with
  | inl (it, errs) => step_item (up_errors s errs) (fst nl) it
  | inr e => up_errors s [e]
  end.
End Step.

(* ---------- BufRead::lines on ASCII input: split at \n, a trailing \r goes with it ---------- *)
Fixpoint split_lines (s : text) (cur : text) : list text :=
  match s with
  | [] => match cur with [] => [] | _ => [rev cur] end
  | c :: r => if Ascii.eqb c "010" then
                (match cur with "013"%char :: c' => rev c' | _ => rev cur end) :: split_lines r []
              else split_lines r (c :: cur)
  end.
Fixpoint number_from (n : Z) (l : list text) : list (Z * text) :=
  match l with [] => [] | x :: r => (n, x) :: number_from (n + 1) r end.

(* ---------- post passes ---------- *)
(* reshuffle_conformers *)
Definition fdiv_count (occ : fval) (count : Z) : fval :=
  match dy_of_fval occ with
  | Some d => match rnd64 (Qmult (Q_of_dy d) (Qmake 1 (Z.to_pos count))) with
              | Some (0, _) => occ          (* 0 / n: the value (and the sign of a zero) is unchanged *)
              | Some r => if (fst r <? 0) then occ else fval_of_dy r
              | None => occ end
  | None => occ
  end.
Fixpoint last_blank (cs : list conformer) (i : nat) (acc : option nat) : option nat :=
  match cs with
  | [] => acc
  | c :: r => last_blank r (S i) (match c_alt c with None => Some i | Some _ => acc end)
  end.
Definition set_occ (a : atom) (o : fval) : atom :=
  {| a_hetero := a_hetero a; a_serial := a_serial a; a_id := a_id a; a_name := a_name a; a_x := a_x a; a_y := a_y a; a_z := a_z a;
     a_occ := o; a_b := a_b a; a_elem := a_elem a; a_charge := a_charge a; a_atf := a_atf a |}.
Definition reshuffle_residue (r : residue) : residue :=
  let count := List.length (r_confs r) in
  if Nat.ltb 1 count then
    match last_blank (r_confs r) 0 None with
    | Some idx =>
        match nth_error (r_confs r) idx, remove_at idx (r_confs r) with
        | Some sh, Some rest =>
            let shared := map (fun a => set_occ a (fdiv_count (a_occ a) (Z.of_nat count - 1))) (c_atoms sh) in
            with_confs r (map (fun c => with_atoms c (c_atoms c ++ shared)) rest)
        | _, _ => r
        end
    | None => r
    end
  else r.
Definition reshuffle (p : pdb) : pdb :=
  map (fun m => with_chains m (map (fun c => with_residues c (map reshuffle_residue (ch_residues c))) (m_chains m))) p.

(* first chain with the id, in traversal order over all models: (model index, chain index) *)
Fixpoint find_chain_in (cs : list chain) (id : text) (j : nat) : option nat :=
  match cs with [] => None | c :: r => if text_eqb (ch_id c) id then Some j else find_chain_in r id (S j) end.
Fixpoint find_chain (p : pdb) (id : text) (i : nat) : option (nat * nat) :=
  match p with
  | [] => None
  | m :: r => match find_chain_in (m_chains m) id 0 with Some j => Some (i, j) | None => find_chain r id (S i) end
  end.

Definition update_chain (p : pdb) (ij : nat * nat) (f : chain -> chain) : pdb :=
  update_nth (fst ij) (fun m => with_chains m (update_nth (snd ij) f (m_chains m))) p.

(* add_modifications *)
Definition apply_modres (p : pdb) (ln : Z) (resname chain : text) (num : Z) (ins : option text) (std comment : text) : pdb * list diag :=
  let nf := [mkd DInvalidating "Modified residue could not be found" ln] in
  (* compared in the upper-case form in which names and insertion codes are stored *)
  let resname := upper resname in let ins := option_map upper ins in
  match find_chain p chain 0 with
  | None => (p, nf)
  | Some ij =>
      match nth_error p (fst ij) with
      | None => (p, nf)
      | Some m =>
        match nth_error (m_chains m) (snd ij) with
        | None => (p, nf)
        | Some c =>
          match position (fun r => (Z.eqb (r_num r) num && otext_eqb (r_icode r) ins)%bool) (ch_residues c) with
          | None => (p, nf)
          | Some ri =>
              match nth_error (ch_residues c) ri with
              | None => (p, nf)
              | Some r =>
                  match position (fun cf => text_eqb (c_name cf) resname) (r_confs r) with
                  | None => (p, nf)
                  | Some ci =>
                      if (valid_text std && valid_text comment)%bool then
                        (update_chain p ij (fun c => with_residues c (update_nth ri (fun r => with_confs r (update_nth ci
                            (fun cf => {| c_name := c_name cf; c_alt := c_alt cf; c_mod := Some (std, comment); c_atoms := c_atoms cf |}) (r_confs r))) (ch_residues c))), [])
                      else (p, [mkd DInvalidating "Invalid characters" ln])
                  end
              end
          end
        end
      end
  end.

(* add_bonds: the SG atom of the named residue in the first chain with that id; positions in the atom traversal *)
Definition count_atoms_before (p : pdb) (mi ci ri : nat) (cfi ai : nat) : nat :=
  (* atoms of all earlier models, chains, residues, conformers, and earlier atoms of the conformer *)
  let before_models := List.length (p_atoms (firstn mi p)) in
  match nth_error p mi with
  | None => before_models
  | Some m =>
      let bc := List.length (flat_map ch_atoms (firstn ci (m_chains m))) in
      match nth_error (m_chains m) ci with
      | None => before_models + bc
      | Some c =>
          let br := List.length (flat_map r_atoms (firstn ri (ch_residues c))) in
          match nth_error (ch_residues c) ri with
          | None => before_models + bc + br
          | Some r => before_models + bc + br + List.length (flat_map c_atoms (firstn cfi (r_confs r))) + ai
          end
      end
  end%nat.
Definition find_sg (p : pdb) (who : text * Z * option text * text) : option nat :=
  let '(resname, num, ins, chain) := who in
  let resname := upper resname in let ins := option_map upper ins in
  match find_chain p chain 0 with
  | None => None
  | Some (mi, ci) =>
      match nth_error p mi with
      | None => None
      | Some m =>
        match nth_error (m_chains m) ci with
        | None => None
        | Some c =>
          match position (fun r => (Z.eqb (r_num r) num && otext_eqb (r_icode r) ins)%bool) (ch_residues c) with
          | None => None
          | Some ri =>
              match nth_error (ch_residues c) ri with
              | None => None
              | Some r =>
                  match position (fun cf => text_eqb (c_name cf) resname) (r_confs r) with
                  | None => None
                  | Some cfi =>
                      match nth_error (r_confs r) cfi with
                      | None => None
                      | Some cf =>
                          match position (fun a => text_eqb (a_name a) (stext "SG")) (c_atoms cf) with
                          | None => None
                          | Some ai => Some (count_atoms_before p mi ci ri cfi ai)
                          end
                      end
                  end
              end
          end
        end
      end
  end.

Definition dlevel_of (l : vlevel) : dlevel :=
  match l with VBreakingError => DBreaking | VInvalidatingError => DInvalidating | VStrictWarning => DStrict
             | VLooseWarning => DLoose | VGeneralWarning => DGeneral end.
Definition fails_level (l : dlevel) (level : Z) : bool :=
  (* Strict 0: all; Medium 1: all but general; Loose 2: all but general and loose *)
  match level with
  | 0 => true
  | 1 => match l with DGeneral => false | _ => true end
  | _ => match l with DGeneral | DLoose => false | _ => true end
  end.

(* merge_long_remark_warnings: all of them become one general warning at the end of the list *)
Definition merge_long_remarks (ds : list diag) : list diag :=
  let is_long (d : diag) := String.eqb (d_short d) "Remark too long" in
  let rest := filter (fun d => negb (is_long d)) ds in
  if existsb is_long ds then (rest ++ [mkd DGeneral "Remark too long" 0])%list else rest.

Definition finish (s : st) : pdbfile * list diag :=
  let s1 := if is_nil (s_cur s) then s else push_current s in
  let models := s_models s1 in
  (* database references *)
  let '(dbs, e_db) := fold_left (fun acc (x : text * dbref * bool) =>
      let '(chain, r, complete) := x in
      if complete then
        match find_chain models chain 0 with
        | Some ij => ((fst acc ++ [(fst ij, snd ij, r)])%list, snd acc)
        | None => acc
        end
      else (fst acc, (snd acc ++ [mkd DStrict "Solitary DBREF1 definition" 0])%list)) (s_dbrefs s1) ([], []) in
  (* a later reference for the same chain replaces an earlier one *)
  let dbs := fold_left (fun acc (x : nat * nat * dbref) =>
      (filter (fun y : nat * nat * dbref => negb (Nat.eqb (fst (fst y)) (fst (fst x)) && Nat.eqb (snd (fst y)) (snd (fst x)))%bool) acc ++ [x])%list) dbs [] in
  let '(scale, e_sc) := match get_matrix (s_scale s1) with
                        | Some m => (Some m, [])
                        | None => (None, if partly_set (s_scale s1) then [mkd DStrict "Invalid SCALE definition" 0] else []) end in
  let '(origx, e_or) := match get_matrix (s_origx s1) with
                        | Some m => (Some m, [])
                        | None => (None, if partly_set (s_origx s1) then [mkd DStrict "Invalid ORIGX definition" 0] else []) end in
  let '(mtrix, e_mt) := fold_left (fun acc (x : Z * build * bool) =>
      let '(i, b, g) := x in
      match get_matrix b with
      | Some m => ((fst acc ++ [(i, m, g)])%list, snd acc)
      | None => (fst acc, (snd acc ++ [mkd DStrict "Invalid MATRIX definition" 0])%list)
      end) (s_mtrix s1) ([], []) in
  let models := reshuffle models in
  let errors := merge_long_remarks (s_errors s1 ++ e_db ++ e_sc ++ e_or ++ e_mt)%list in
  let '(models, e_mod) := fold_left (fun acc (x : Z * lexitem) =>
      match snd x with
      | LModres resname chain num ins std comment =>
          let '(p', e) := apply_modres (fst acc) (fst x) resname chain num ins std comment in (p', (snd acc ++ e)%list)
      | _ => acc
      end) (s_mods s1) (models, []) in
  let '(bonds, e_b) := fold_left (fun acc (x : Z * lexitem) =>
      match snd x with
      | LSSBond a b =>
          match find_sg models a, find_sg models b with
          | Some i, Some j => ((fst acc ++ [(i, j)])%list, snd acc)
          | _, _ => (fst acc, (snd acc ++ [mkd DInvalidating "Could not find a bond partner" (fst x)])%list)
          end
      | _ => acc
      end) (s_bonds s1) ([], []) in
  let e_val := map (fun d : vlevel * string => mkd (dlevel_of (fst d)) (snd d) 0) (Validate.validate models) in
  ({| pf_id := s_id s1; pf_remarks := s_remarks s1; pf_scale := scale; pf_origx := origx; pf_mtrix := mtrix; pf_cell := s_cell s1;
      pf_sym := s_sym s1; pf_models := models; pf_dbrefs := dbs; pf_bonds := bonds |},
   (errors ++ e_mod ++ e_b ++ e_val)%list).

(* options: bit 0 discard hydrogens, bit 1 only first model, bit 2 only atomic coordinates; level 0 strict, 1 medium, 2 loose *)
Definition read_pdb (opts level : Z) (input : text) : (pdbfile * list diag) + list diag :=
  let dh := Z.testbit opts 0 in let fm := Z.testbit opts 1 in let ao := Z.testbit opts 2 in
  let loose := Z.eqb level 2 in
  let s := fold_left (step_line dh fm ao loose) (number_from 1 (split_lines input [])) st0 in
  let '(f, ds) := finish s in
  if existsb (fun d => fails_level (d_level d) level) ds then inr ds else inl (f, ds).
