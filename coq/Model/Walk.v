(* C09: the canonical walk of a structure computed from the nested traversals of Spec/Hier.v (the specification every
   accessor is proved equal to in Props/C09.v), and the bump operations that the mutable iterators are tested with. *)
From Coq Require Import List Ascii String ZArith Bool.
From PV Require Import Base.Sx Base.Text Spec.Hier Model.Edit.
Import ListNotations.
Local Open Scope string_scope.


(* the specification of each accessor (Props/C09.v proves the translated Rust accessor equal to it) *)
Definition Conformer_atom_count c := List.length (c_atoms c).
Definition Conformer_atoms c := c_atoms c.
Definition Residue_conformer_count r := List.length (r_confs r).
Definition Residue_atom_count r := List.length (r_atoms r).
Definition Residue_conformers r := r_confs r.
Definition Residue_atoms r := r_atoms r.
Definition Residue_atoms_with_hierarchy r := r_awh r.
Definition Chain_residue_count c := List.length (ch_residues c).
Definition Chain_conformer_count c := List.length (ch_confs c).
Definition Chain_atom_count c := List.length (ch_atoms c).
Definition Chain_residues c := ch_residues c.
Definition Chain_conformers c := ch_confs c.
Definition Chain_atoms c := ch_atoms c.
Definition Chain_atoms_with_hierarchy c := ch_awh c.
Definition Model_chain_count m := List.length (m_chains m).
Definition Model_residue_count m := List.length (m_residues m).
Definition Model_conformer_count m := List.length (m_confs m).
Definition Model_atom_count m := List.length (m_atoms m).
Definition Model_chains m := m_chains m.
Definition Model_residues m := m_residues m.
Definition Model_conformers m := m_confs m.
Definition Model_atoms m := m_atoms m.
Definition Model_atoms_with_hierarchy m := m_awh m.
Definition PDB_model_count (p : pdb) := List.length p.
Definition PDB_chain_count p := first_model_count Model_chain_count p.
Definition PDB_residue_count p := first_model_count Model_residue_count p.
Definition PDB_conformer_count p := first_model_count Model_conformer_count p.
Definition PDB_atom_count p := first_model_count Model_atom_count p.
Definition PDB_par_residue_count := PDB_residue_count.
Definition PDB_par_conformer_count := PDB_conformer_count.
Definition PDB_par_atom_count := PDB_atom_count.
Definition PDB_total_chain_count p := List.length (p_chains p).
Definition PDB_total_residue_count p := List.length (p_residues p).
Definition PDB_total_conformer_count p := List.length (p_confs p).
Definition PDB_total_atom_count p := List.length (p_atoms p).
Definition PDB_par_total_chain_count := PDB_total_chain_count.
Definition PDB_par_total_residue_count := PDB_total_residue_count.
Definition PDB_par_total_conformer_count := PDB_total_conformer_count.
Definition PDB_par_total_atom_count := PDB_total_atom_count.
Definition PDB_models (p : pdb) := p.
Definition PDB_chains p := p_chains p.
Definition PDB_residues p := p_residues p.
Definition PDB_conformers p := p_confs p.
Definition PDB_atoms p := p_atoms p.
Definition PDB_par_models := PDB_models.
Definition PDB_par_chains := PDB_chains.
Definition PDB_par_residues := PDB_residues.
Definition PDB_par_conformers := PDB_conformers.
Definition PDB_par_atoms := PDB_atoms.
Definition PDB_atoms_with_hierarchy p := p_awh p.
Definition PDB_model (p : pdb) i := nth_error p i.
Definition PDB_chain p i := nth_error (p_chains p) i.
Definition PDB_residue p i := nth_error (p_residues p) i.
Definition PDB_conformer p i := nth_error (p_confs p) i.
Definition PDB_atom p i := nth_error (p_atoms p) i.

Definition id_atom (a : atom) : sx := SL [SZ (a_serial a); SS (a_name a)].
Definition id_conf (c : conformer) : sx := SL [SS (c_name c); sopt SS (c_alt c)].
Definition id_res (r : residue) : sx := SL [SZ (r_num r); sopt SS (r_icode r)].
Definition id_chain (c : chain) : sx := SS (ch_id c).
Definition id_model (m : model) : sx := SZ (m_serial m).
Definition n (k : nat) : sx := SZ (Z.of_nat k).

Definition walk_conformer (c : conformer) : sx :=
  SL [SL [n (Conformer_atom_count c)]; SL (map id_atom (Conformer_atoms c))].
Definition walk_residue (r : residue) : sx :=
  SL [SL [n (Residue_conformer_count r); n (Residue_atom_count r)];
      SL (map id_conf (Residue_conformers r)); SL (map id_atom (Residue_atoms r));
      SL (map (fun t : atom * conformer => SL [id_atom (fst t); id_conf (snd t)]) (Residue_atoms_with_hierarchy r))].
Definition walk_chain (c : chain) : sx :=
  SL [SL [n (Chain_residue_count c); n (Chain_conformer_count c); n (Chain_atom_count c)];
      SL (map id_res (Chain_residues c)); SL (map id_conf (Chain_conformers c)); SL (map id_atom (Chain_atoms c));
      SL (map (fun t : atom * conformer * residue => let '(a, cf, r) := t in SL [id_atom a; id_conf cf; id_res r]) (Chain_atoms_with_hierarchy c))].
Definition walk_model (m : model) : sx :=
  SL [SL [n (Model_chain_count m); n (Model_residue_count m); n (Model_conformer_count m); n (Model_atom_count m)];
      SL (map id_chain (Model_chains m)); SL (map id_res (Model_residues m)); SL (map id_conf (Model_conformers m)); SL (map id_atom (Model_atoms m));
      SL (map (fun t : atom * conformer * residue * chain => let '(a, cf, r, ch) := t in SL [id_atom a; id_conf cf; id_res r; id_chain ch]) (Model_atoms_with_hierarchy m))].
Definition walk_pdb (p : pdb) : sx :=
  SL [SL [n (PDB_model_count p); n (PDB_chain_count p); n (PDB_residue_count p); n (PDB_conformer_count p); n (PDB_atom_count p);
          n (PDB_total_chain_count p); n (PDB_total_residue_count p); n (PDB_total_conformer_count p); n (PDB_total_atom_count p)];
      SL (map id_model (PDB_models p)); SL (map id_chain (PDB_chains p)); SL (map id_res (PDB_residues p));
      SL (map id_conf (PDB_conformers p)); SL (map id_atom (PDB_atoms p));
      SL (map (fun t : atom * conformer * residue * chain * model => let '(a, cf, r, ch, m) := t in SL [id_atom a; id_conf cf; id_res r; id_chain ch; id_model m])
              (PDB_atoms_with_hierarchy p));
      SL (map walk_model (PDB_models p)); SL (map walk_chain (PDB_chains p)); SL (map walk_residue (PDB_residues p));
      SL (map walk_conformer (PDB_conformers p))].
(* the same through the parallel twins where they exist *)
Definition walk_pdb_par (p : pdb) : sx :=
  SL [SL [n (PDB_model_count p); n (PDB_chain_count p); n (PDB_par_residue_count p); n (PDB_par_conformer_count p); n (PDB_par_atom_count p);
          n (PDB_par_total_chain_count p); n (PDB_par_total_residue_count p); n (PDB_par_total_conformer_count p); n (PDB_par_total_atom_count p)];
      SL (map id_model (PDB_par_models p)); SL (map id_chain (PDB_par_chains p)); SL (map id_res (PDB_par_residues p));
      SL (map id_conf (PDB_par_conformers p)); SL (map id_atom (PDB_par_atoms p))].

(* index accessors: (level i) -> id or - *)
Definition nth_pdb (level : string) (p : pdb) (i : nat) : sx :=
  match level with
  | "model" => sopt id_model (PDB_model p i)
  | "chain" => sopt id_chain (PDB_chain p i)
  | "residue" => sopt id_res (PDB_residue p i)
  | "conformer" => sopt id_conf (PDB_conformer p i)
  | _ => sopt id_atom (PDB_atom p i)
  end.

(* bump: what visiting every element exactly once through a mutable iterator and marking it produces *)
Definition bump_atom (a : atom) : atom :=
  {| a_hetero := a_hetero a; a_serial := a_serial a + 1000; a_id := a_id a; a_name := a_name a; a_x := a_x a; a_y := a_y a; a_z := a_z a;
     a_occ := a_occ a; a_b := a_b a; a_elem := a_elem a; a_charge := a_charge a; a_atf := a_atf a |}.
Definition map_atoms_c f (c : conformer) := with_atoms c (map f (c_atoms c)).
Definition map_confs_r f (r : residue) := with_confs r (map f (r_confs r)).
Definition map_res_ch f (c : chain) := with_residues c (map f (ch_residues c)).
Definition map_chains_m f (m : model) := with_chains m (map f (m_chains m)).
Definition bump (level : string) (p : pdb) : pdb :=
  match level with
  | "atom" => map (map_chains_m (map_res_ch (map_confs_r (map_atoms_c bump_atom)))) p
  | "conformer" => map (map_chains_m (map_res_ch (map_confs_r (fun c =>
                     {| c_name := c_name c ++ stext "X"; c_alt := c_alt c; c_mod := c_mod c; c_atoms := c_atoms c |})))) p
  | "residue" => map (map_chains_m (map_res_ch (fun r => {| r_num := r_num r + 1000; r_icode := r_icode r; r_confs := r_confs r |}))) p
  | "chain" => map (map_chains_m (fun c => {| ch_id := ch_id c ++ stext "X"; ch_residues := ch_residues c |})) p
  | _ => map (fun m => {| m_serial := m_serial m + 1000; m_chains := m_chains m |}) p
  end%list.

Definition run_c09 (x : sx) : sx :=
  match x with
  | SL [SY "walk"; p] => walk_pdb (pdb_of_sx p)
  | SL [SY "walkpar"; p] => walk_pdb_par (pdb_of_sx p)
  | SL [SY "nth"; SY level; p; SZ i] => nth_pdb level (pdb_of_sx p) (Z.to_nat i)
  | SL [SY "bump"; SY level; p] => sx_of_pdb sx_of_atom_short (bump level (pdb_of_sx p))
  | SL (SY "classify" :: _) => SY "none"
  | _ => SY "bad-input"
  end.
