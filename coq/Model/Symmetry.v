(* C17 model: reference_tables.rs look-ups, Symmetry, and the checks that make the three tables coherent. *)
From Coq Require Import List Ascii String ZArith Bool Arith.
From PV Require Import Base.Sx Base.Text Gen.SgTables.
Import ListNotations.
Local Open Scope Z_scope.

(* ----- reference_tables.rs (after the fix: index 0 is None instead of an underflow) ----- *)
Fixpoint position_str (s : string) (l : list string) (i : nat) : option nat :=
  match l with
  | [] => None
  | x :: r => if String.eqb x s then Some i else position_str s r (S i)
  end.
Definition get_index_for_symbol (s : string) : option nat :=
  match position_str s HM 0 with
  | Some i => Some (S i)
  | None => option_map S (position_str s HALL 0)
  end.
Definition get1 {A} (l : list A) (index : nat) : option A :=
  match index with O => None | S i => nth_error l i end.
Definition hm_for_index (index : nat) : option string := get1 HM index.
Definition hall_for_index (index : nat) : option string := get1 HALL index.
Definition ops_for_index (index : nat) := get1 OPS index.

(* Symmetry::new trims the symbol; Symmetry::from_index succeeds when the H-M table has the index *)
Definition string_trim (s : string) : string := string_of_list_ascii (trim (list_ascii_of_string s)).
Definition Symmetry_new (s : string) : option nat := get_index_for_symbol (string_trim s).
Definition Symmetry_from_index (index : nat) : option nat := option_map (fun _ => index) (hm_for_index index).
Definition Symmetry_z (index : nat) : option nat := option_map (fun o => S (List.length o)) (ops_for_index index).

(* ----- operators in integer form: rotation entries, translations in twelfths ----- *)
Definition twelfths (v : Z * Z) : option Z :=
  let '(m, e) := v in
  (* 12 * m * 2^e = k + r with |r| <= 12 * 2^-50 *)
  let sh := 60 in                                   (* work in units of 2^-60 *)
  if e <? -200 then None else
  let scaled := if e + sh >=? 0 then 12 * m * 2 ^ (e + sh) else (12 * m) / 2 ^ (- (e + sh)) in
  let unit := 2 ^ sh in
  let k := (scaled + unit / 2) / unit in
  let r := Z.abs (scaled - k * unit) in
  if r <=? 12 * 2 ^ (sh - 50) + 1 then Some k else None.
Definition rot_entry (v : Z * Z) : option Z :=
  match v with (0, 0) => Some 0 | (1, 0) => Some 1 | (-1, 0) => Some (-1) | _ => None end.
Definition iop := (list Z * list Z)%type.      (* 9 rotation entries row-major, 3 translations in twelfths *)
Fixpoint all_some {A} (l : list (option A)) : option (list A) :=
  match l with
  | [] => Some []
  | Some a :: r => option_map (cons a) (all_some r)
  | None :: _ => None
  end.
Definition iop_of (mat : list (Z * Z)) : option iop :=
  match mat with
  | [a; b; c; t1; d; e; f; t2; g; h; i; t3] =>
      match all_some (map rot_entry [a; b; c; d; e; f; g; h; i]), all_some (map twelfths [t1; t2; t3]) with
      | Some r, Some t => Some (r, t)
      | _, _ => None
      end
  | _ => None
  end.
Definition identity_iop : iop := ([1; 0; 0; 0; 1; 0; 0; 0; 1], [0; 0; 0]).
Definition nthz (l : list Z) (n : nat) := nth n l 0.
Definition compose (p q : iop) : iop :=     (* apply p, then q *)
  let '(rp, tp) := p in let '(rq, tq) := q in
  let r i j := nthz rq (3*i+0) * nthz rp (0+j) + nthz rq (3*i+1) * nthz rp (3+j) + nthz rq (3*i+2) * nthz rp (6+j) in
  let t i := (nthz rq (3*i+0) * nthz tp 0 + nthz rq (3*i+1) * nthz tp 1 + nthz rq (3*i+2) * nthz tp 2 + nthz tq i) mod 12 in
  ([r 0 0; r 0 1; r 0 2; r 1 0; r 1 1; r 1 2; r 2 0; r 2 1; r 2 2]%nat, [t 0%nat; t 1%nat; t 2%nat]).
Definition norm (p : iop) : iop := (fst p, map (fun x => x mod 12) (snd p)).
Fixpoint leqb (a b : list Z) : bool :=
  match a, b with [], [] => true | x :: a', y :: b' => Z.eqb x y && leqb a' b' | _, _ => false end.
Definition iop_eqb (p q : iop) := (leqb (fst p) (fst q) && leqb (snd p) (snd q))%bool.
Definition det (r : list Z) :=
  let n := nthz r in
  n 0%nat * (n 4%nat * n 8%nat - n 5%nat * n 7%nat) - n 1%nat * (n 3%nat * n 8%nat - n 5%nat * n 6%nat)
  + n 2%nat * (n 3%nat * n 7%nat - n 4%nat * n 6%nat).
Fixpoint distinct (l : list iop) : bool :=
  match l with [] => true | x :: r => (negb (existsb (iop_eqb x) r) && distinct r)%bool end.
Fixpoint distinct_str (l : list string) : bool :=
  match l with [] => true | x :: r => (negb (existsb (String.eqb x) r) && distinct_str r)%bool end.

(* the operator list of a group as Symmetry::transformations returns it: identity first *)
Definition group_ops (index : nat) : option (list iop) :=
  match ops_for_index index with
  | Some mats => option_map (cons identity_iop) (all_some (map iop_of mats))
  | None => None
  end.
(* exact operators (not reduced modulo the lattice) are pairwise distinct, identity first; rotations have determinant +-1 *)
Definition ops_wellformed (index : nat) : bool :=
  match group_ops index with
  | Some g => (distinct g && forallb (fun p => let d := det (fst p) in Z.eqb d 1 || Z.eqb d (-1)) g)%bool
  | None => false
  end.
Definition ops_closed (index : nat) : bool :=
  match group_ops index with
  | Some g => let ng := map norm g in
              forallb (fun p => forallb (fun q => existsb (iop_eqb (compose p q)) ng) ng) ng
  | None => false
  end.
(* the same demands on an operator list observed through the public API *)
Definition list_closed (g : list iop) : bool :=
  let ng := map norm g in forallb (fun p => forallb (fun q => existsb (iop_eqb (compose p q)) ng) ng) ng.
Definition list_wellformed (g : list iop) : bool :=
  (distinct g && forallb (fun p => let d := det (fst p) in Z.eqb d 1 || Z.eqb d (-1)) g)%bool.
Definition identity_first (g : list iop) : bool := match g with p :: _ => iop_eqb p identity_iop | [] => false end.
(* index -> symbols -> index, both tables *)
Definition symbols_roundtrip (index : nat) : bool :=
  match hm_for_index index, hall_for_index index, Symmetry_from_index index with
  | Some hm, Some hall, Some i =>
      (Nat.eqb i index &&
       match Symmetry_new hm with Some j => Nat.eqb j index | None => false end &&
       match Symmetry_new hall with Some j => Nat.eqb j index | None => false end)%bool
  | _, _, _ => false
  end.
Definition z_ok (index : nat) : bool :=
  match Symmetry_z index, group_ops index with
  | Some z, Some g => Nat.eqb z (List.length g)
  | _, _ => false
  end.

(* ----- CRYST1: save/pdb.rs writes  <54 columns> " " format!("{:11}{:4}", hm, z) ; lex_cryst reads columns 55..66 ----- *)
Definition pad_right (n : nat) (s : text) : text := (s ++ repeat " "%char (n - List.length s))%list.
Definition pad_left (n : nat) (s : text) : text := (repeat " "%char (n - List.length s) ++ s)%list.
Definition cryst1_tail (hm : string) (z : nat) : text :=   (* the line from column 54 on *)
  ([" "%char] ++ pad_right 11 (list_ascii_of_string hm) ++ pad_left 4 (show_Z (Z.of_nat z)))%list.
Definition cryst1_read_symbol (tail : text) : string :=
  (* columns 55 .. min(66, len) of the line = 1 .. 12 of the tail *)
  string_of_list_ascii (trim (firstn 11 (skipn 1 tail))).
Definition cryst1_roundtrip (index : nat) : option nat :=
  match hm_for_index index, Symmetry_z index with
  | Some hm, Some z => Symmetry_new (cryst1_read_symbol (cryst1_tail hm z))
  | _, _ => None
  end.
(* mmCIF: _symmetry.space_group_name_H-M '<hm>' is read first, _symmetry.Int_Tables_number must then agree *)
Definition cif_roundtrip (index : nat) : option nat :=
  match hm_for_index index with
  | Some hm => match Symmetry_new hm with
               | Some i => if match Symmetry_from_index index with Some j => Nat.eqb i j | None => false end then Some i else None
               | None => None end
  | None => None
  end.
Definition long_symbol (index : nat) : bool :=
  match hm_for_index index with Some hm => Nat.ltb 11 (String.length hm) | None => false end.

Definition upto (n : nat) : list nat := seq 1 n.

(* entry points *)
Local Open Scope string_scope.
Definition show_iop (p : iop) : sx := SL [SL (map SZ (fst p)); SL (map SZ (snd p))].
Definition run_c17 (x : sx) : sx :=
  match x with
  | SL [SY "new"; SS s] => sopt snat (Symmetry_new (string_of_list_ascii s))
  | SL [SY "from_index"; SZ i] => sopt snat (Symmetry_from_index (Z.to_nat i))
  | SL [SY "info"; SZ i] =>
      let k := Z.to_nat i in
      SL [sopt (fun s => SS (list_ascii_of_string s)) (hm_for_index k); sopt (fun s => SS (list_ascii_of_string s)) (hall_for_index k);
          sopt snat (Symmetry_z k); sopt (fun g : list iop => SL (map show_iop g)) (group_ops k)]
  | SL [SY "cryst1"; SZ i] => sopt snat (cryst1_roundtrip (Z.to_nat i))
  (* the operator list the implementation returned, judged by the demands of the property *)
  | SL [SY "group"; SZ _; SL ops] =>
      let zs := fun l => all_some (map (fun v => match v with SZ z => Some z | _ => None end) l) in
      match all_some (map (fun o => match o with
                                    | SL [SL r; SL t] => match zs r, zs t with Some r', Some t' => Some (r', t') | _, _ => None end
                                    | _ => None end) ops) with
      | None => SY "not-an-integer-operator"
      | Some g => if negb (identity_first g) then SY "identity-not-first"
                  else if negb (list_wellformed g) then SY "not-wellformed"
                  else if negb (list_closed g) then SY "not-closed" else SY "ok"
      end
  (* what the property demands of both round trips and of the scaled operators *)
  | SL [SY "cryst1spec"; SZ i] => sopt snat (Some (Z.to_nat i))
  | SL [SY "expect"; SZ i; _] => sopt snat (Some (Z.to_nat i))
  | SL [SY "cifspec"; SZ i] => sopt snat (Some (Z.to_nat i))
  | SL [SY "absolute"; SZ _] => sbool true
  | SL [SY "cif"; SZ i] => sopt snat (cif_roundtrip (Z.to_nat i))
  | SL [SY "classify"; SL [SY "cryst1spec"; SZ i]] => if long_symbol (Z.to_nat i) then SY "Known_long_hm_symbol" else SY "none"
  | SL (SY "classify" :: _) => SY "none"
  | _ => SY "bad-input"
  end.
