(* PDB writer model: save_pdb_raw of src/save/pdb.rs (after the C03 repairs). *)
From Coq Require Import List Ascii String ZArith QArith Bool.
From PV Require Import Base.Sx Base.Text Base.Num Base.Float Spec.Hier Gen.Elements Model.Symmetry Model.PdbLex Model.PdbParse Model.CifParse Model.CifWrite.
Import ListNotations.
Local Open Scope Z_scope.

Definition nl : ascii := ascii_of_nat 10.
Definition sp (n : nat) : text := repeat " "%char n.
Definition pad_right (w : nat) (t : text) : text := (t ++ sp (w - List.length t))%list.
Definition pad_left (w : nat) (t : text) : text := (sp (w - List.length t) ++ t)%list.
Fixpoint strip_zeros (t : text) : text := match t with "0"%char :: r => strip_zeros r | _ => t end.

(* one (length, text) field of get_line *)
Definition field_text (length : nat) (t : text) : text :=
  match length with
  | O => t
  | _ =>
    let len := List.length t in
    let cell := skipn (len - Nat.min length len) t in
    let trimmed := if Nat.ltb length len then strip_zeros cell else cell in
    if (negb (is_nil cell) && is_nil trimmed)%bool then pad_right length ["0"%char] else pad_right length trimmed
  end.
Definition get_line (fields : list (nat * text)) : text := flat_map (fun f => field_text (fst f) (snd f)) fields.
(* print_line: padded to 70 columns except at the loose level *)
Definition print_line (level : Z) (fields : list (nat * text)) : text :=
  let line := get_line fields in
  ((if level =? 2 then line else pad_right 70 line) ++ [nl])%list.

(* format!("{:w.p}", f64) and format!("{:w}", integer) *)
Definition fixed (w p : nat) (f : fval) : text :=
  pad_left w (match f with
              | FFin m e => fmt_fixed p false (m, e)
              | FNegZero => fmt_fixed p true (0, 0)
              | FInf => stext "inf" | FNegInf => stext "-inf" | FNaN => stext "NaN"
              end).
Definition S_ (s : string) : text := stext s.
Definition otext_or (d : text) (o : option text) : text := match o with Some t => t | None => d end.

Definition pdb_charge (c : Z) : text :=
  if ((c =? 0) || (c <? -9) || (9 <? c))%bool then [] else [ascii_of_N (Z.to_N (48 + Z.abs c)); if c <? 0 then "-"%char else "+"%char].

Definition residue_name (r : residue) : option text :=
  match r_confs r with
  | [] => None
  | c :: rest => if forallb (fun c' => text_eqb (c_name c') (c_name c)) rest then Some (c_name c) else None
  end.
Definition not_hoh (r : residue) : bool := match residue_name r with Some n => negb (text_eqb n (S_ "HOH")) | None => true end.
Definition seqres_name (r : residue) : text :=
  pad_right 3 (match residue_name r with
               | Some n => n
               | None => match r_confs r with c :: _ => c_name c | [] => [] end
               end).
Fixpoint chunks {A} (fuel : nat) (k : nat) (l : list A) : list (list A) :=
  match fuel with O => [] | S f => match l with [] => [] | _ => firstn k l :: chunks f k (skipn k l) end end.
Fixpoint join_sp (l : list text) : text :=
  match l with [] => [] | [x] => x | x :: r => (x ++ " "%char :: join_sp r)%list end.
Fixpoint skip_while {A} (p : A -> bool) (l : list A) : list A :=
  match l with [] => [] | x :: r => if p x then skip_while p r else l end.
Fixpoint enumerate_from {A} (n : Z) (l : list A) : list (Z * A) :=
  match l with [] => [] | x :: r => (n, x) :: enumerate_from (n + 1) r end.

Definition matrix_lines (level : Z) (name : string) (m : list fval) : text :=
  let g k := nth k m (FFin 0 0) in
  flat_map (fun r : nat =>
    print_line level [(5%nat, S_ name); (0%nat, show_Z (Z.of_nat r + 1)); (0%nat, sp 4);
                      (10%nat, fixed 10 6 (g (r * 4)%nat)); (10%nat, fixed 10 6 (g (r * 4 + 1)%nat)); (10%nat, fixed 10 6 (g (r * 4 + 2)%nat));
                      (0%nat, sp 5); (10%nat, fixed 10 5 (g (r * 4 + 3)%nat))]) [0; 1; 2]%nat.

Definition atom_line (a : atom) (c : conformer) (r : residue) (ch : chain) : text :=
  get_line [(5%nat, show_int (a_serial a)); (0%nat, sp 1); (4%nat, a_name a); (1%nat, otext_or (sp 1) (c_alt c)); (4%nat, c_name c);
            (1%nat, ch_id ch); (4%nat, show_int (r_num r)); (1%nat, otext_or (sp 1) (r_icode r))].
Definition aniso_int (f : fval) : text := pad_left 8 (show_int (ftrunc_Z (fround (fmul f (fval_of_dy (canon 10000 0)))))).
Definition last_opt {A} (l : list A) : option A := match rev l with x :: _ => Some x | [] => None end.

Definition chain_lines (level : Z) (ch : chain) : text :=
  (flat_map (fun r =>
     flat_map (fun c =>
       flat_map (fun a =>
         let element := match a_elem a with Some e => element_symbol e | None => [] end in
         (print_line level [(6%nat, if a_hetero a then S_ "HETATM" else S_ "ATOM  "); (0%nat, atom_line a c r ch); (0%nat, sp 3);
                            (8%nat, fixed 8 3 (a_x a)); (8%nat, fixed 8 3 (a_y a)); (8%nat, fixed 8 3 (a_z a));
                            (6%nat, fixed 6 2 (a_occ a)); (6%nat, fixed 6 2 (a_b a)); (0%nat, sp 10); (2%nat, element); (0%nat, pdb_charge (a_charge a))] ++
          match a_atf a with
          | Some t =>
              let g k := aniso_int (nth k t (FFin 0 0)) in
              print_line level [(6%nat, S_ "ANISOU"); (0%nat, atom_line a c r ch); (0%nat, sp 1);
                                (7%nat, g 0%nat); (7%nat, g 4%nat); (7%nat, g 8%nat); (7%nat, g 1%nat); (7%nat, g 2%nat); (7%nat, g 5%nat);
                                (0%nat, sp 6); (2%nat, element); (0%nat, pdb_charge (a_charge a))]
          | None => []
          end)%list) (c_atoms c)) (r_confs r)) (ch_residues ch) ++
   match last_opt (ch_atoms ch), last_opt (ch_residues ch), last_opt (ch_confs ch) with
   | Some la, Some lr, Some lc =>
       print_line level [(0%nat, S_ "TER"); (5%nat, show_int (a_serial la)); (0%nat, sp 6); (3%nat, c_name lc); (0%nat, sp 1); (1%nat, ch_id ch);
                         (4%nat, show_int (r_num lr))]
   | _, _, _ => []
   end)%list.

Definition find_dbref (f : pdbfile) (j : nat) : option dbref :=
  match find (fun x : nat * nat * dbref => (Nat.eqb (fst (fst x)) 0 && Nat.eqb (snd (fst x)) j)%bool) (pf_dbrefs f) with
  | Some x => Some (snd x) | None => None end.
Fixpoint enum_nat {A} (n : nat) (l : list A) : list (nat * A) :=
  match l with [] => [] | x :: r => (n, x) :: enum_nat (S n) r end.

(* the unit cell a SCALE record can be derived from: the reciprocals of its edges are finite *)
Definition scale_cell (f : pdbfile) : option (list fval) :=
  match pf_cell f with
  | Some c => if forallb (fun k => is_finite (fdiv (FFin 1 0) (nth k c (FFin 0 0)))) [0; 1; 2]%nat then Some c else None
  | None => None
  end.
Definition save_pdb (level : Z) (f : pdbfile) : text :=
  let pl := print_line level in
  let idt := otext_or [] (pf_id f) in
  (* header *)
  (match pf_id f with Some name => pl [(0%nat, (S_ "HEADER" ++ sp 56)%list); (0%nat, pad_right 4 name)] | None => [] end ++
   flat_map (fun r : Z * text => pl [(6%nat, S_ "REMARK"); (0%nat, sp 1); (3%nat, show_int (fst r)); (0%nat, sp 1); (0%nat, snd r)]) (pf_remarks f) ++
   match pf_models f with
   | [] => []
   | m :: _ =>
     let chains := enum_nat 0 (m_chains m) in
     let with_db := flat_map (fun jc : nat * chain => match find_dbref f (fst jc) with Some d => [(snd jc, d)] | None => [] end) chains in
     let seqres := ((level =? 0) || negb (is_nil with_db))%bool in
     (flat_map (fun cd : chain * dbref =>
        let '(ch, d) := cd in
        let pp := db_pdbpos d in let dp := db_dbpos d in
        if ((8 <? Z.of_nat (List.length (db_acc d))) || (12 <? Z.of_nat (List.length (db_id d))) || (999999 <? sp_start dp) || (999999 <? sp_end dp))%bool then
          (pl [(6%nat, S_ "DBREF1"); (0%nat, sp 1); (4%nat, idt); (0%nat, sp 1); (1%nat, ch_id ch); (0%nat, sp 1);
               (4%nat, show_int (sp_start pp)); (1%nat, otext_or [] (sp_start_ins pp)); (0%nat, sp 1);
               (4%nat, show_int (sp_end pp)); (1%nat, otext_or [] (sp_end_ins pp)); (0%nat, sp 1);
               (6%nat, db_name d); (0%nat, sp 15); (20%nat, db_id d)] ++
           pl [(6%nat, S_ "DBREF2"); (0%nat, sp 1); (4%nat, idt); (0%nat, sp 1); (1%nat, ch_id ch); (0%nat, sp 5);
               (22%nat, db_acc d); (0%nat, sp 5); (10%nat, show_int (sp_start dp)); (0%nat, sp 2); (10%nat, show_int (sp_end dp))])%list
        else
          pl [(6%nat, S_ "DBREF"); (0%nat, sp 1); (4%nat, idt); (0%nat, sp 1); (1%nat, ch_id ch); (0%nat, sp 1);
              (4%nat, show_int (sp_start pp)); (1%nat, otext_or [] (sp_start_ins pp)); (0%nat, sp 1);
              (4%nat, show_int (sp_end pp)); (1%nat, otext_or [] (sp_end_ins pp)); (0%nat, sp 1);
              (6%nat, db_name d); (0%nat, sp 1); (8%nat, db_acc d); (0%nat, sp 1); (12%nat, db_id d); (0%nat, sp 1);
              (5%nat, show_int (sp_start dp)); (1%nat, otext_or [] (sp_start_ins dp)); (0%nat, sp 1);
              (5%nat, show_int (sp_end dp)); (1%nat, otext_or [] (sp_end_ins dp))]) with_db ++
      flat_map (fun cd : chain * dbref =>
        let '(ch, d) := cd in
        flat_map (fun dif : seqdiff =>
          let '(rn, num, ins) := sd_res dif in
          pl [(6%nat, S_ "SEQADV"); (0%nat, sp 1); (4%nat, idt); (0%nat, sp 1); (3%nat, rn); (0%nat, sp 1); (1%nat, ch_id ch); (0%nat, sp 1);
              (4%nat, show_int num); (1%nat, otext_or (sp 1) ins); (0%nat, sp 1); (4%nat, db_name d); (0%nat, sp 1); (9%nat, db_acc d); (0%nat, sp 1);
              (3%nat, match sd_db dif with Some x => fst x | None => [] end); (0%nat, sp 1);
              (5%nat, match sd_db dif with Some x => show_int (snd x) | None => [] end); (0%nat, sp 1); (0%nat, sd_comment dif)]) (db_diffs d)) with_db ++
      (if seqres then
         flat_map (fun jc : nat * chain =>
           let ch := snd jc in
           let listed := match find_dbref f (fst jc) with
                         | Some d => skip_while (fun r => negb (Z.eqb (r_num r) (sp_start (db_pdbpos d)) && otext_eqb (r_icode r) (sp_start_ins (db_pdbpos d)))%bool)
                                                (ch_residues ch)
                         | None => ch_residues ch
                         end in
           let names := map seqres_name (filter not_hoh listed) in
           let total := show_int (Z.of_nat (List.length (filter not_hoh (ch_residues ch)))) in
           flat_map (fun ic : Z * list text =>
             pl [(6%nat, S_ "SEQRES"); (0%nat, sp 1); (3%nat, show_int (fst ic)); (0%nat, sp 1); (1%nat, ch_id ch); (0%nat, sp 1);
                 (4%nat, total); (0%nat, sp 2); (0%nat, join_sp (snd ic))]) (enumerate_from 1 (chunks (S (List.length names)) 13 names))) chains
       else []) ++
      flat_map (fun ch : chain =>
        flat_map (fun r =>
          flat_map (fun c => match c_mod c with
                             | Some (std, comment) =>
                                 pl [(6%nat, S_ "MODRES"); (0%nat, sp 6); (3%nat, c_name c); (0%nat, sp 1); (1%nat, ch_id ch); (0%nat, sp 1);
                                     (4%nat, show_int (r_num r)); (1%nat, otext_or (sp 1) (r_icode r)); (0%nat, sp 1); (3%nat, std); (0%nat, sp 2); (0%nat, comment)]
                             | None => [] end) (r_confs r)) (ch_residues ch)) (m_chains m))%list
   end ++
   match pf_cell f with
   | Some c =>
       let g k := nth k c (FFin 0 0) in
       let sym := match pf_sym f with
                  | Some i => (pad_right 11 (sym_hm i) ++ pad_left 4 (sym_z i))%list
                  | None => S_ "P 1           1" end in
       pl [(6%nat, S_ "CRYST1"); (9%nat, fixed 9 3 (g 0%nat)); (9%nat, fixed 9 3 (g 1%nat)); (9%nat, fixed 9 3 (g 2%nat));
           (7%nat, fixed 7 2 (g 3%nat)); (7%nat, fixed 7 2 (g 4%nat)); (7%nat, fixed 7 2 (g 5%nat)); (0%nat, sp 1); (0%nat, sym)]
   | None => []
   end ++
   match pf_origx f with
   | Some m => matrix_lines level "ORIGX" m
   | None => if level =? 0 then matrix_lines level "ORIGX" identity12 else []
   end ++
   match pf_scale f with
   | Some m => matrix_lines level "SCALE" m
   | None => if level =? 0 then
               match scale_cell f with
               | Some c => let inv k := fdiv (FFin 1 0) (nth k c (FFin 0 0)) in let z := FFin 0 0 in
                           matrix_lines level "SCALE" [inv 0%nat; z; z; z; z; inv 1%nat; z; z; z; z; inv 2%nat; z]
               | None => [] end
             else []
   end ++
   flat_map (fun x : Z * list fval * bool =>
     let '(ser, m, given) := x in
     let g k := nth k m (FFin 0 0) in
     flat_map (fun r : nat =>
       pl [(0%nat, (S_ "MTRIX" ++ show_Z (Z.of_nat r + 1))%list); (0%nat, sp 1); (3%nat, show_int ser);
           (10%nat, fixed 10 6 (g (r * 4)%nat)); (10%nat, fixed 10 6 (g (r * 4 + 1)%nat)); (10%nat, fixed 10 6 (g (r * 4 + 2)%nat));
           (0%nat, sp 5); (10%nat, fixed 10 5 (g (r * 4 + 3)%nat)); (0%nat, sp 4); (0%nat, if given then S_ "1" else sp 1)]) [0; 1; 2]%nat) (pf_mtrix f) ++
   (let multiple := (Nat.ltb 1 (List.length (pf_models f)) || match pf_models f with m :: _ => negb (m_serial m =? 0) | [] => false end)%bool in
    flat_map (fun m : model =>
      ((if multiple then pl [(0%nat, S_ "MODEL        "); (0%nat, show_int (m_serial m))] else []) ++
       flat_map (chain_lines level) (filter (fun ch => negb (is_nil (ch_atoms ch))) (m_chains m)) ++
       (if multiple then pl [(0%nat, S_ "ENDMDL")] else []))%list) (pf_models f)) ++
   (if level =? 2 then [] else
      let xform := (if (match pf_origx f with Some _ => true | None => false end || (level =? 0))%bool then 3 else 0) +
                   (if (match pf_scale f with Some _ => true | None => false end ||
                        ((level =? 0) && match scale_cell f with Some _ => true | None => false end))%bool then 3 else 0) +
                   3 * Z.of_nat (List.length (pf_mtrix f)) in
      let z5 := (5%nat, S_ "0") in
      pl [(0%nat, S_ "MASTER    "); (5%nat, show_int (Z.of_nat (List.length (pf_remarks f)))); z5; z5; z5; z5; z5; z5;
          (5%nat, show_int xform); (5%nat, show_int (Z.of_nat (List.length (p_atoms (pf_models f)))));
          (5%nat, show_int (Z.of_nat (List.length (pf_models f)))); z5; z5]) ++
   pl [(0%nat, S_ "END")])%list.
