(* C15: how a file name selects the format and the compression.
   Model of guess_format (src/read/read_options.rs: Path::extension / Path::file_stem on the last component, lower-cased)
   and of check_extension (src/lib.rs: rsplit_once('.') on the whole string, eq_ignore_ascii_case) as used by save and
   save_gz; and the declarative reading of the property: the extension is what follows the last dot of the file name.
   Paths are ASCII, '/'-separated, without a trailing separator and without '.' / '..' components. *)
From Coq Require Import List Ascii String ZArith Bool.
From PV Require Import Base.Sx Base.Text Model.PdbLex.
Import ListNotations.

Inductive fmt : Set := FPdb | FCif.

(* ---------- std::path on the last component ---------- *)
Fixpoint after_last (sep : ascii) (t cur : text) : text :=
  match t with [] => rev cur | c :: r => if Ascii.eqb c sep then after_last sep r [] else after_last sep r (c :: cur) end.
Definition file_name (p : text) : text := after_last "/" p [].
(* rsplitn(2, '.') : (before, after) *)
Fixpoint split_last_dot (t : text) : option (text * text) :=
  match t with
  | [] => None
  | c :: r => match split_last_dot r with
              | Some (b, a) => Some (c :: b, a)
              | None => if Ascii.eqb c "." then Some ([], r) else None
              end
  end.
(* Path::extension of a file name *)
Definition extension (name : text) : option text :=
  match split_last_dot name with
  | Some ([], _) => None            (* ".pdb": a hidden file without extension *)
  | Some (_, a) => Some a
  | None => None
  end.
(* Path::file_stem of a file name *)
Definition file_stem (name : text) : text :=
  match split_last_dot name with
  | Some ([], _) => name
  | Some (b, _) => b
  | None => name
  end.
Definition format_of_ext (e : text) : option fmt :=
  let l := lower e in
  if (text_eqb l (stext "pdb") || text_eqb l (stext "pdb1"))%bool then Some FPdb
  else if (text_eqb l (stext "cif") || text_eqb l (stext "mmcif"))%bool then Some FCif
  else None.
Definition is_gz (e : text) : bool := text_eqb (lower e) (stext "gz").
(* guess_format: (format, compressed) *)
Definition guess_format (path : text) : option (fmt * bool) :=
  let name := file_name path in
  match extension name with
  | Some e =>
      if is_gz e then
        match extension (file_stem name) with
        | Some e2 => option_map (fun f => (f, true)) (format_of_ext e2)
        | None => None
        end
      else option_map (fun f => (f, false)) (format_of_ext e)
  | None => None
  end.

(* ---------- check_extension and the two save entry points ---------- *)
(* rsplit_once('.') on the whole string: what follows the last dot *)
Definition after_dot (p : text) : option text := option_map snd (split_last_dot p).
Definition check_extension (p : text) (e : string) : bool :=
  match after_dot p with Some a => text_eqb (lower a) (stext e) | None => false end.
Definition save_format (p : text) : option fmt :=
  if check_extension p "pdb" then Some FPdb else if check_extension p "cif" then Some FCif else None.
Definition save_gz_format (p : text) : option fmt :=
  if check_extension p "gz" then
    if Nat.ltb (List.length p) 3 then None else
    let q := firstn (List.length p - 3) p in
    if check_extension q "pdb" then Some FPdb else if check_extension q "cif" then Some FCif else None
  else None.
