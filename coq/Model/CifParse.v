(* mmCIF reader model, part 2: parse_mmcif_with_options of src/read/mmcif/parser.rs (after the C06 / C02 / C15 repairs):
   the single items that populate the metadata, the atom_site loop, the post passes and the gate. *)
From Coq Require Import List Ascii String ZArith QArith Bool.
From PV Require Import Base.Sx Base.Text Base.Num Base.Float Spec.Hier Spec.ValidateSpec Model.Symmetry Model.Validate Model.PdbLex Model.Edit Model.PdbParse Model.CifLex.
Import ListNotations.
Local Open Scope Z_scope.

Definition inv (s : string) : diag := mkd DInvalidating s 0.

(* ---------- typed access to a value ---------- *)
Definition show_f64 (f : fval) : text :=
  match f with
  | FFin m e => fmt_shortest false (m, e)
  | FNegZero => stext "-0"
  | FInf => stext "inf"
  | FNegInf => stext "-inf"
  | FNaN => stext "NaN"
  end.
Definition show_Z (z : Z) : text := if z =? 0 then stext "0" else show_Zpos z.
Definition get_text (v : cval) : option text :=
  match v with
  | VText t => Some (trim t)
  | VInap | VUnk => None
  | VNum f => Some (show_f64 f)
  | VNumU f u => Some (show_f64 f ++ "("%char :: show_Z u ++ [")"%char])%list
  end.
Definition get_f64 (v : cval) : option fval + diag :=
  match v with
  | VNum f => inl (Some f)
  | VInap | VUnk => inl None
  | _ => inr (inv "Not a number")
  end.
(* the integer value of a finite float, when it has one *)
Definition integral (f : fval) : option Z :=
  match f with
  | FFin m e => if 0 <=? e then (if e <=? 1100 then Some (m * 2 ^ e) else None) else if m =? 0 then Some 0 else None
  | FNegZero => Some 0
  | _ => None
  end.
Definition get_usize (v : cval) : option Z + diag :=
  match get_f64 v with
  | inr e => inr e
  | inl None => inl None
  | inl (Some f) => match integral f with
                    | Some z => if ((0 <=? z) && (z <? 2 ^ 64))%bool then inl (Some z) else inr (inv "Not an unsigned integer")
                    | None => inr (inv "Not an unsigned integer")
                    end
  end.
Definition get_isize (v : cval) : option Z + diag :=
  match get_f64 v with
  | inr e => inr e
  | inl None => inl None
  | inl (Some f) => match integral f with
                    | Some z => if ((- 2 ^ 63 <=? z) && (z <? 2 ^ 63))%bool then inl (Some z) else inr (inv "Not an integer")
                    | None => inr (inv "Not an integer")
                    end
  end.

(* ---------- metadata under construction ---------- *)
Definition identity12 : list fval := map (fun z : Z => FFin z 0) [1; 0; 0; 0; 0; 1; 0; 0; 0; 0; 1; 0].
Fixpoint set_nth {A} (l : list A) (n : nat) (x : A) : list A :=
  match l, n with
  | [], _ => []
  | _ :: r, O => x :: r
  | y :: r, S k => y :: set_nth r k x
  end.
Record cst : Type := {
  k_id : option text; k_cell : list fval; k_sym : option nat; k_scale : option (list fval); k_origx : option (list fval);
  k_mtrix : list (Z * list fval * bool); k_mtrix_id : option Z; k_models : pdb; k_errors : list diag }.
Definition default_cell : list fval := [FFin 0 0; FFin 0 0; FFin 0 0; FFin 45 1; FFin 45 1; FFin 45 1].
Definition cst0 (id : option text) : cst :=
  {| k_id := id; k_cell := default_cell; k_sym := None; k_scale := None; k_origx := None; k_mtrix := []; k_mtrix_id := None;
     k_models := []; k_errors := [] |}.
Definition k_err (s : cst) (e : list diag) : cst :=
  {| k_id := k_id s; k_cell := k_cell s; k_sym := k_sym s; k_scale := k_scale s; k_origx := k_origx s; k_mtrix := k_mtrix s;
     k_mtrix_id := k_mtrix_id s; k_models := k_models s; k_errors := (k_errors s ++ e)%list |}.
Definition k_set_cell (s : cst) (c : list fval) : cst :=
  {| k_id := k_id s; k_cell := c; k_sym := k_sym s; k_scale := k_scale s; k_origx := k_origx s; k_mtrix := k_mtrix s;
     k_mtrix_id := k_mtrix_id s; k_models := k_models s; k_errors := k_errors s |}.
Definition k_set_sym (s : cst) (y : option nat) : cst :=
  {| k_id := k_id s; k_cell := k_cell s; k_sym := y; k_scale := k_scale s; k_origx := k_origx s; k_mtrix := k_mtrix s;
     k_mtrix_id := k_mtrix_id s; k_models := k_models s; k_errors := k_errors s |}.
Definition k_set_scale (s : cst) (m : option (list fval)) : cst :=
  {| k_id := k_id s; k_cell := k_cell s; k_sym := k_sym s; k_scale := m; k_origx := k_origx s; k_mtrix := k_mtrix s;
     k_mtrix_id := k_mtrix_id s; k_models := k_models s; k_errors := k_errors s |}.
Definition k_set_origx (s : cst) (m : option (list fval)) : cst :=
  {| k_id := k_id s; k_cell := k_cell s; k_sym := k_sym s; k_scale := k_scale s; k_origx := m; k_mtrix := k_mtrix s;
     k_mtrix_id := k_mtrix_id s; k_models := k_models s; k_errors := k_errors s |}.
Definition k_set_mtrix (s : cst) (l : list (Z * list fval * bool)) (id : option Z) : cst :=
  {| k_id := k_id s; k_cell := k_cell s; k_sym := k_sym s; k_scale := k_scale s; k_origx := k_origx s; k_mtrix := l;
     k_mtrix_id := id; k_models := k_models s; k_errors := k_errors s |}.
Definition k_set_models (s : cst) (p : pdb) : cst :=
  {| k_id := k_id s; k_cell := k_cell s; k_sym := k_sym s; k_scale := k_scale s; k_origx := k_origx s; k_mtrix := k_mtrix s;
     k_mtrix_id := k_mtrix_id s; k_models := p; k_errors := k_errors s |}.

(* ---------- single items ---------- *)
Definition starts_with (p : string) (t : text) : bool :=
  let pt := stext p in text_eqb (firstn (List.length pt) t) pt.
Definition ends_with (p : string) (t : text) : bool :=
  let pt := stext p in text_eqb (skipn (List.length t - List.length pt) t) pt && Nat.leb (List.length pt) (List.length t).
Definition is_finite (f : fval) : bool := match f with FFin _ _ | FNegZero => true | _ => false end.
Definition get_cell_value (v : cval) (angle : bool) : fval + diag :=
  match get_f64 v with
  | inr e => inr e
  | inl None => inr (inv "Missing value")
  | inl (Some n) =>
      if (is_finite n && (negb angle || (fle (FFin 0 0) n && negb (fle (FFin 45 3) n))))%bool then inl n
      else inr (inv "Unit cell value out of range")
  end.
(* the digit n places from the end of the name, as a matrix index 0..2 *)
Definition index_back (name : text) (n : nat) : (nat + diag) :=
  match nth_error (rev name) n with
  | Some c => let d := ccode c - 48 in
              if ((1 <=? d) && (d <=? 3))%bool then inl (Z.to_nat (d - 1)) else inr (inv "Matrix item definition incorrect")
  | None => inr (inv "Matrix definition too short")
  end.
Definition count_char (c : ascii) (t : text) : nat := List.length (filter (Ascii.eqb c) t).
(* parse_matrix: the new matrix or the diagnostic *)
Definition parse_matrix (name : text) (v : option fval + diag) (m : list fval) : list fval * list diag :=
  match v with
  | inr e => (m, [e])
  | inl None => (m, [])
  | inl (Some x) =>
    if Nat.eqb (count_char "[" name) 2 then
      match index_back name 4 with
      | inr e => (m, [e])
      | inl r => match index_back name 1 with
                 | inr e => (m, [e])
                 | inl c => (set_nth m (r * 4 + c) x, [])
                 end
      end
    else
      match index_back name 1 with
      | inr e => (m, [e])
      | inl r => (set_nth m (r * 4 + 3) x, [])
      end
  end.
Definition Symmetry_of_index (z : Z) : option nat := if z <=? 1000 then Symmetry_from_index (Z.to_nat z) else None.
Definition osym_eqb (a b : option nat) : bool :=
  match a, b with None, None => true | Some x, Some y => Nat.eqb x y | _, _ => false end.
Fixpoint upd_mtrix (l : list (Z * list fval * bool)) (id : Z) (f : Z * list fval * bool -> Z * list fval * bool) : list (Z * list fval * bool) :=
  match l with
  | [] => []
  | x :: r => if Z.eqb (fst (fst x)) id then f x :: r else x :: upd_mtrix r id f
  end.
Fixpoint find_mtrix (l : list (Z * list fval * bool)) (id : Z) : option (Z * list fval * bool) :=
  match l with [] => None | x :: r => if Z.eqb (fst (fst x)) id then Some x else find_mtrix r id end.

Definition set_cell_at (s : cst) (i : nat) (v : cval) (angle : bool) : cst :=
  match get_cell_value v angle with
  | inl n => k_set_cell s (set_nth (k_cell s) i n)
  | inr e => k_err s [e]
  end.
Definition name_is (name : text) (n : string) : bool := text_eqb name (stext n).
Definition single_item (s : cst) (name : text) (v : cval) : cst :=
  if name_is name "cell.length_a" then set_cell_at s 0 v false
  else if name_is name "cell.length_b" then set_cell_at s 1 v false
  else if name_is name "cell.length_c" then set_cell_at s 2 v false
  else if name_is name "cell.angle_alpha" then set_cell_at s 3 v true
  else if name_is name "cell.angle_beta" then set_cell_at s 4 v true
  else if name_is name "cell.angle_gamma" then set_cell_at s 5 v true
  else if (name_is name "symmetry.Int_Tables_number" || name_is name "space_group.IT_number")%bool then
    match k_sym s with
    | None => match get_usize v with
              | inr e => k_err s [e]
              | inl None => k_err s [inv "Missing value"]
              | inl (Some n) => k_set_sym s (Symmetry_of_index n)
              end
    | Some _ => match get_usize v with
                | inl (Some n) => if osym_eqb (k_sym s) (Symmetry_of_index n) then s else k_err s [inv "Space group does not match"]
                | _ => s
                end
    end
  else if (name_is name "symmetry.space_group_name_H-M" || name_is name "symmetry.space_group_name_Hall" || name_is name "space_group.name_H-M_alt" || name_is name "space_group.name_Hall")%bool then
    match k_sym s with
    | None => match get_text v with
              | None => k_err s [inv "Missing value"]
              | Some t => k_set_sym s (Symmetry_new (string_of_list_ascii t))
              end
    | Some _ => match get_text v with
                | Some t => if osym_eqb (k_sym s) (Symmetry_new (string_of_list_ascii t)) then s else k_err s [inv "Space group does not match"]
                | None => s
                end
    end
  else if starts_with "atom_sites.Cartn_transf_" name then
    let m := match k_scale s with Some m => m | None => identity12 end in
    let '(m', e) := parse_matrix name (get_f64 v) m in
    k_err (k_set_scale s (Some m')) e
  else if starts_with "database_PDB_matrix.origx" name then
    let m := match k_origx s with Some m => m | None => identity12 end in
    let '(m', e) := parse_matrix name (get_f64 v) m in
    k_err (k_set_origx s (Some m')) e
  else if starts_with "struct_ncs_oper." name then
    if ends_with "id" name then
      match get_usize v with
      | inr e => k_err s [e]
      | inl (Some id) => k_set_mtrix s (k_mtrix s ++ [(id, identity12, true)])%list (Some id)
      | inl None => k_err s [inv "MtriX with missing ID"]
      end
    else
      match k_mtrix_id s with
      | None => k_err s [inv "MtriX matrix given without ID"]
      | Some id =>
        if ends_with "code" name then
          match get_text v with
          | Some t => if text_eqb t (stext "given") then k_set_mtrix s (upd_mtrix (k_mtrix s) id (fun x => (fst x, true))) (Some id)
                      else if text_eqb t (stext "generate") then k_set_mtrix s (upd_mtrix (k_mtrix s) id (fun x => (fst x, false))) (Some id)
                      else k_err s [inv "MtriX code invalid"]
          | None => k_err s [inv "MtriX code invalid"]
          end
        else if ends_with "details" name then s
        else
          match find_mtrix (k_mtrix s) id with
          | None => s
          | Some x =>
            let '(m', e) := parse_matrix name (get_f64 v) (snd (fst x)) in
            k_err (k_set_mtrix s (upd_mtrix (k_mtrix s) id (fun y => (fst (fst y), m', snd y))) (Some id)) e
          end
      end
  else s.

(* ---------- the atom_site loop ---------- *)
Fixpoint position_text (l : list text) (x : text) (i : nat) : option nat :=
  match l with [] => None | y :: r => if text_eqb y x then Some i else position_text r x (S i) end.
Definition required_columns : list string :=
  ["atom_site.label_asym_id"; "atom_site.label_comp_id"; "atom_site.id"; "atom_site.label_atom_id"; "atom_site.label_seq_id";
   "atom_site.type_symbol"; "atom_site.Cartn_x"; "atom_site.Cartn_y"; "atom_site.Cartn_z"]%string.

(* Model::add_atom on the hierarchy records (identifiers already known to be valid) *)
Fixpoint upd_first {A} (p : A -> bool) (f : A -> A) (l : list A) : option (list A) :=
  match l with
  | [] => None
  | x :: r => if p x then Some (f x :: r) else option_map (cons x) (upd_first p f r)
  end.
Definition upd_last {A} (p : A -> bool) (f : A -> A) (l : list A) : option (list A) :=
  option_map (@rev A) (upd_first p f (rev l)).
Definition Chain_add_atom (c : chain) (a : atom) (num : Z) (icode : option text) (name : text) (alt : option text) : chain :=
  let ic := norm_alt icode in
  let same (r : residue) := (Z.eqb (r_num r) num && otext_eqb (r_icode r) ic)%bool in
  let add (r : residue) := Residue_add_atom r a name alt in
  match upd_last same add (ch_residues c) with
  | Some rs => with_residues c rs
  | None => with_residues c (ch_residues c ++ [add {| r_num := num; r_icode := ic; r_confs := [] |}])%list
  end.
Definition Model_add_atom (m : model) (a : atom) (chain_id : text) (num : Z) (icode : option text) (name : text) (alt : option text) : model :=
  let id := trim chain_id in
  let add (c : chain) := Chain_add_atom c a num icode name alt in
  match upd_first (fun c => text_eqb (ch_id c) id) add (m_chains m) with
  | Some cs => with_chains m cs
  | None => with_chains m (m_chains m ++ [add {| ch_id := id; ch_residues := [] |}])%list
  end.
Definition set_atf (a : atom) (t : option (list fval)) : atom :=
  {| a_hetero := a_hetero a; a_serial := a_serial a; a_id := a_id a; a_name := a_name a; a_x := a_x a; a_y := a_y a; a_z := a_z a;
     a_occ := a_occ a; a_b := a_b a; a_elem := a_elem a; a_charge := a_charge a; a_atf := t |}.

Record rst : Type := {
  q_models : pdb; q_errors : list diag; q_ids : list text; q_dups : list text; q_first : option Z; q_stop : bool }.
Definition q_err (s : rst) (e : list diag) : rst :=
  {| q_models := q_models s; q_errors := (q_errors s ++ e)%list; q_ids := q_ids s; q_dups := q_dups s; q_first := q_first s; q_stop := q_stop s |}.
Definition mem_text (x : text) (l : list text) : bool := existsb (text_eqb x) l.

(* a getter applied to an optional column: the value (if any) and the diagnostics *)
Definition column {T} (get : cval -> option T + diag) (hdr : list text) (row : list cval) (name : string) : option T * list diag :=
  match position_text hdr (stext name) 0 with
  | None => (None, [])
  | Some i => match get (nth i row VInap) with
              | inl t => (t, [])
              | inr e => (None, [e])
              end
  end.
Definition get_text' (v : cval) : option text + diag := inl (get_text v).

Definition atom_row (discard_h first_only : bool) (hdr : list text) (s : rst) (row : list cval) : rst :=
  if q_stop s then s else
  let missing n := inv "Missing value" in
  (* the steps are chained so that a missing mandatory value ends the row with the diagnostics gathered so far *)
  let '(element, e1) := column get_text' hdr row "atom_site.type_symbol" in
  match element with
  | None => q_err s (e1 ++ [missing tt])
  | Some element =>
  let '(name, e4) := column get_text' hdr row "atom_site.label_atom_id" in
  match name with
  | None => q_err s (e1 ++ e4 ++ [missing tt])
  | Some name =>
  if (discard_h && is_hydrogen element name)%bool then q_err s (e1 ++ e4) else
  let '(model_number, e2) := column get_usize hdr row "atom_site.pdbx_PDB_model_num" in
  let model_number := match model_number with Some n => n | None => 1 end in
  let stop := (first_only && match q_first s with Some f => negb (Z.eqb f model_number) | None => false end)%bool in
  if stop then {| q_models := q_models s; q_errors := (q_errors s ++ e1 ++ e4 ++ e2)%list; q_ids := q_ids s; q_dups := q_dups s;
                  q_first := q_first s; q_stop := true |} else
  let first := if first_only then (match q_first s with None => Some model_number | f => f end) else q_first s in
  let s := {| q_models := q_models s; q_errors := (q_errors s ++ e1 ++ e4 ++ e2)%list; q_ids := q_ids s; q_dups := q_dups s;
              q_first := first; q_stop := false |} in
  let '(atom_type, e3) := column get_text' hdr row "atom_site.group_PDB" in
  let atom_type := match atom_type with Some t => t | None => stext "ATOM" end in
  let '(id, e5) := column get_text' hdr row "atom_site.id" in
  match id with
  | None => q_err s (e3 ++ e5 ++ [missing tt])
  | Some id =>
  let '(residue_name, e6) := column get_text' hdr row "atom_site.label_comp_id" in
  match residue_name with
  | None => q_err s (e3 ++ e5 ++ e6 ++ [missing tt])
  | Some residue_name =>
  let '(auth_seq, e7) := column get_isize hdr row "atom_site.auth_seq_id" in
  let '(residue_number, e8) :=
    match auth_seq with
    | Some n => (n, [])
    | None => let '(seq, e) := column get_isize hdr row "atom_site.label_seq_id" in
              (match seq with Some n => n | None => Z.of_nat (List.length (p_residues (q_models s))) end, e)
    end in
  let '(auth_asym, e9) := column get_text' hdr row "atom_site.auth_asym_id" in
  let '(chain_name, e10) :=
    match auth_asym with
    | Some c => (Some c, [])
    | None => column get_text' hdr row "atom_site.label_asym_id"
    end in
  let pre := (e3 ++ e5 ++ e6 ++ e7 ++ e8 ++ e9 ++ e10)%list in
  match chain_name with
  | None => q_err s (pre ++ [missing tt])
  | Some chain_name =>
  let '(x, ex) := column get_f64 hdr row "atom_site.Cartn_x" in
  match x with
  | None => q_err s (pre ++ ex ++ [missing tt])
  | Some x =>
  let '(y, ey) := column get_f64 hdr row "atom_site.Cartn_y" in
  match y with
  | None => q_err s (pre ++ ex ++ ey ++ [missing tt])
  | Some y =>
  let '(z, ez) := column get_f64 hdr row "atom_site.Cartn_z" in
  match z with
  | None => q_err s (pre ++ ex ++ ey ++ ez ++ [missing tt])
  | Some z =>
  let '(occ, e11) := column get_f64 hdr row "atom_site.occupancy" in
  let '(bf, e12) := column get_f64 hdr row "atom_site.B_iso_or_equiv" in
  let '(charge, e13) := column get_isize hdr row "atom_site.pdbx_formal_charge" in
  let '(alt, e14) := column get_text' hdr row "atom_site.label_alt_id" in
  let '(icode, e15) := column get_text' hdr row "atom_site.pdbx_PDB_ins_code" in
  let occ := match occ with Some o => o | None => FFin 1 0 end in
  let bf := match bf with Some o => o | None => FFin 1 0 end in
  let charge := match charge with Some c => c | None => 0 end in
  let us := [column get_f64 hdr row "atom_site.aniso_U[1][1]"; column get_f64 hdr row "atom_site.aniso_U[1][2]";
             column get_f64 hdr row "atom_site.aniso_U[1][3]"; column get_f64 hdr row "atom_site.aniso_U[2][1]";
             column get_f64 hdr row "atom_site.aniso_U[2][2]"; column get_f64 hdr row "atom_site.aniso_U[2][3]";
             column get_f64 hdr row "atom_site.aniso_U[3][1]"; column get_f64 hdr row "atom_site.aniso_U[3][2]";
             column get_f64 hdr row "atom_site.aniso_U[3][3]"] in
  let eu := flat_map snd us in
  let uvals := map fst us in
  let all_some := forallb (fun o : option fval => match o with Some _ => true | None => false end) uvals in
  let any_some := existsb (fun o : option fval => match o with Some _ => true | None => false end) uvals in
  let aniso := if all_some then Some (map (fun o : option fval => match o with Some v => v | None => FFin 0 0 end) uvals) else None in
  let e16 := if (negb all_some && any_some)%bool then [mkd DStrict "Atom aniso U definition incomplete" 0] else [] in
  (* the model with this number, created when it is new (it stays even when the atom is rejected) *)
  let models := if existsb (fun m => Z.eqb (m_serial m) model_number) (q_models s) then q_models s
                else (q_models s ++ [{| m_serial := model_number; m_chains := [] |}])%list in
  let count := match find (fun m => Z.eqb (m_serial m) model_number) models with
               | Some m => Z.of_nat (List.length (m_atoms m)) | None => 0 end in
  let '(hetero, e17) := if text_eqb atom_type (stext "ATOM") then (false, [])
                        else if text_eqb atom_type (stext "HETATM") then (true, [])
                        else (false, [inv "Atom type not correct"]) in
  let valid_ids := (match prepare_identifier (trim chain_name) with Some _ => true | None => false end
                    && match Residue_new residue_number icode [] with Some _ => true | None => false end
                    && match Conformer_new residue_name alt [] with Some _ => true | None => false end)%bool in
  let errs := (pre ++ ex ++ ey ++ ez ++ e11 ++ e12 ++ e13 ++ e14 ++ e15 ++ eu ++ e16 ++ e17)%list in
  match (if valid_ids then Atom_new hetero count id name x y z occ bf element charge else None) with
  | Some a =>
    let a := match aniso with Some t => set_atf a (Some t) | None => a end in
    let aid := a_id a in
    let dups := if (mem_text aid (q_ids s) && negb (mem_text aid (q_dups s)))%bool then aid :: q_dups s else q_dups s in
    let ids := if mem_text aid (q_ids s) then q_ids s else aid :: q_ids s in
    let models' := match upd_first (fun m => Z.eqb (m_serial m) model_number)
                                   (fun m => Model_add_atom m a chain_name residue_number icode residue_name alt) models with
                   | Some ms => ms | None => models end in
    {| q_models := models'; q_errors := (q_errors s ++ errs)%list; q_ids := ids; q_dups := dups; q_first := q_first s; q_stop := false |}
  | None =>
    {| q_models := models; q_errors := (q_errors s ++ errs ++ [inv "Atom definition incorrect"])%list; q_ids := q_ids s; q_dups := q_dups s;
       q_first := q_first s; q_stop := false |}
  end
  end end end end end end end end.

Definition parse_atoms (discard_h first_only : bool) (hdr : list text) (rows : list (list cval)) (p : pdb) : pdb * list diag :=
  let missing := filter (fun n => match position_text hdr (stext n) 0 with None => true | Some _ => false end) required_columns in
  match missing with
  | _ :: _ => (p, map (fun _ => inv "Missing column in coordinate atoms data loop") missing)
  | [] =>
    let s := fold_left (atom_row discard_h first_only hdr) rows
               {| q_models := p; q_errors := []; q_ids := []; q_dups := []; q_first := None; q_stop := false |} in
    (q_models s, (q_errors s ++ (if is_nil (q_dups s) then [] else [mkd DLoose "Duplicated atom IDs" 0]))%list)
  end.

(* ---------- the whole reader ---------- *)
Definition item_step (discard_h first_only atomic_only : bool) (s : cst) (it : item) : cst :=
  match it with
  | IData (DLoop hdr rows) =>
      if existsb (starts_with "atom_site.") hdr then
        let '(p, e) := parse_atoms discard_h first_only hdr rows (k_models s) in k_err (k_set_models s p) e
      else s
  | IData (DSingle name v) => if atomic_only then s else single_item s name v
  | IFrame _ _ => s
  end.
Definition cell_is_default (c : list fval) : bool :=
  forallb (fun ab : fval * fval => match fcompare (fst ab) (snd ab) with Some Eq => true | _ => false end) (combine c default_cell).

Definition parse_mmcif (opts level : Z) (b : block) : (pdbfile * list diag) + list diag :=
  let dh := Z.testbit opts 0 in let fm := Z.testbit opts 1 in let ao := Z.testbit opts 2 in
  let s := fold_left (item_step dh fm ao) (b_items b) (cst0 (if ao then None else Some (b_name b))) in
  let models := reshuffle (k_models s) in
  let e_val := map (fun d : vlevel * string => mkd (dlevel_of (fst d)) (snd d) 0) (Validate.validate models) in
  let ds := (k_errors s ++ e_val)%list in
  if existsb (fun d => fails_level (d_level d) level) ds then inr ds
  else inl ({| pf_id := k_id s; pf_remarks := []; pf_scale := k_scale s; pf_origx := k_origx s; pf_mtrix := k_mtrix s;
               pf_cell := if cell_is_default (k_cell s) then None else Some (k_cell s); pf_sym := k_sym s;
               pf_models := models; pf_dbrefs := []; pf_bonds := [] |}, ds).

(* None: the lexer model ran out of fuel (excluded by Props/C06.v) *)
Definition read_cif (opts level : Z) (input : text) : option ((pdbfile * list diag) + list diag) :=
  match lex_cif input with
  | None => None
  | Some (inr e) => Some (inr [e])
  | Some (inl b) => Some (parse_mmcif opts level b)
  end.
