(* C13 entry points: exact evaluation of the transformation model on binary64 inputs. *)
From Coq Require Import List Ascii String QArith Qabs ZArith Bool.
From PV Require Import Base.Sx Base.Text Spec.Hier Model.Transform Model.Edit Model.EditRun.
Import ListNotations.
Local Open Scope string_scope.

Definition q_of_fval (f : fval) : Q :=
  match f with
  | FFin m e => if (0 <=? e)%Z then inject_Z (m * 2 ^ e) else Qmake m (Z.to_pos (2 ^ (- e)))
  | _ => 0%Q
  end.
(* a rational whose reduced denominator is a power of two, as m * 2^e with m odd (or 0 0) *)
Definition fval_of_q (q : Q) : fval :=
  let r := Qred q in
  let n := Qnum r in let d := Zpos (Qden r) in
  if Z.eqb n 0 then FFin 0 0 else
  let k := Z.log2 d in
  if Z.eqb (2 ^ k) d then
    (* n / 2^k, n odd when k > 0; when k = 0 strip the factors of two of n *)
    if Z.eqb k 0 then
      let fix strip (fuel : nat) (m e : Z) : Z * Z :=
        match fuel with O => (m, e) | S f => if Z.even m then strip f (m / 2)%Z (e + 1)%Z else (m, e) end in
      let '(m, e) := strip (S (Z.to_nat (Z.log2 (Z.abs n)))) n 0%Z in FFin m e
    else FFin n (- k)
  else FNaN.

Definition mat_of_sx (x : sx) : mat :=
  match map (fun e => q_of_fval (fval_of_sx e)) (get_list x) with
  | [a; b; c; d; e; f; g; h; i; j; k; l] =>
      {| m00 := a; m01 := b; m02 := c; m03 := d; m10 := e; m11 := f; m12 := g; m13 := h; m20 := i; m21 := j; m22 := k; m23 := l |}
  | _ => identity
  end.
Definition sx_of_mat (m : mat) : sx :=
  SL (map (fun q => sx_of_fval (fval_of_q q)) [m00 m; m01 m; m02 m; m03 m; m10 m; m11 m; m12 m; m13 m; m20 m; m21 m; m22 m; m23 m]).
Definition pt_of_sx (x : sx) : pt :=
  match map (fun e => q_of_fval (fval_of_sx e)) (get_list x) with [a; b; c] => (a, b, c) | _ => (0, 0, 0)%Q end.
Definition sx_of_pt (p : pt) : sx :=
  let '(a, b, c) := p in SL (map (fun q => sx_of_fval (fval_of_q q)) [a; b; c]).

(* |fl - exact| <= 4 u (sum |m_ij| |p_j| + |t_i|), u = 2^-53, plus the last rounding of the result *)
Definition within (mrow : Q * Q * Q * Q) (p : pt) (exact got : Q) : bool :=
  let '(a, b, c, t) := mrow in let '(x, y, z) := p in
  let mag := (Qabs a * Qabs x + Qabs b * Qabs y + Qabs c * Qabs z + Qabs t)%Q in
  Qle_bool (Qabs (got - exact)) (mag * (4 # 1) * (1 # 9007199254740992)).

Definition apply_atom (m : mat) (a : atom) : atom :=
  let '(x, y, z) := apply m (q_of_fval (a_x a), q_of_fval (a_y a), q_of_fval (a_z a)) in
  {| a_hetero := a_hetero a; a_serial := a_serial a; a_id := a_id a; a_name := a_name a;
     a_x := fval_of_q x; a_y := fval_of_q y; a_z := fval_of_q z; a_occ := a_occ a; a_b := a_b a;
     a_elem := a_elem a; a_charge := a_charge a; a_atf := a_atf a |}.
Definition apply_conformer m (c : conformer) := with_atoms c (map (apply_atom m) (c_atoms c)).
Definition apply_residue m (r : residue) := with_confs r (map (apply_conformer m) (r_confs r)).
Definition apply_chain m (c : chain) := with_residues c (map (apply_residue m) (ch_residues c)).
Definition apply_model m (x : model) := with_chains x (map (apply_chain m) (m_chains x)).

Definition run_c13 (x : sx) : sx :=
  match x with
  | SL [SY "apply"; m; p] => sx_of_pt (apply (mat_of_sx m) (pt_of_sx p))
  | SL [SY "combine"; a; b] => sx_of_mat (combine (mat_of_sx a) (mat_of_sx b))
  | SL [SY "chain"; SL ms; p] =>
      sx_of_pt (apply (fold_left (fun acc m => combine acc (mat_of_sx m)) ms identity) (pt_of_sx p))
  | SL [SY "ctor"; SY "identity"] => sx_of_mat identity
  | SL [SY "ctor"; SY "translation"; a; b; c] => sx_of_mat (translation (q_of_fval (fval_of_sx a)) (q_of_fval (fval_of_sx b)) (q_of_fval (fval_of_sx c)))
  | SL [SY "ctor"; SY "magnify"; a] => sx_of_mat (magnify (q_of_fval (fval_of_sx a)))
  | SL [SY "ctor"; SY "scale"; a; b; c] => sx_of_mat (scale (q_of_fval (fval_of_sx a)) (q_of_fval (fval_of_sx b)) (q_of_fval (fval_of_sx c)))
  | SL [SY "rotshape"; SY axis; mm] =>
      (* the matrix has the shape of rot_<axis> c s for the c, s it contains, and c^2 + s^2 = 1 within 2^-50 *)
      let m := mat_of_sx mm in
      let '(c, s) := match axis with "x" => (m11 m, m21 m) | "y" => (m00 m, m02 m) | _ => (m00 m, m10 m) end in
      let expect := match axis with "x" => rot_x c s | "y" => rot_y c s | _ => rot_z c s end in
      let same := forallb (fun pq : Q * Q => Qeq_bool (fst pq) (snd pq))
                    (List.combine [m00 m; m01 m; m02 m; m03 m; m10 m; m11 m; m12 m; m13 m; m20 m; m21 m; m22 m; m23 m]
                             [m00 expect; m01 expect; m02 expect; m03 expect; m10 expect; m11 expect; m12 expect; m13 expect;
                              m20 expect; m21 expect; m22 expect; m23 expect]) in
      let unit := Qle_bool (Qabs (c * c + s * s - 1)) (1 # 1125899906842624) in
      if (same && unit)%bool then SY "ok" else if same then SY "not-unit" else SY "wrong-shape"
  | SL [SY "applyfl"; mm; pp; got] =>
      let m := mat_of_sx mm in let p := pt_of_sx pp in
      let '(ex, ey, ez) := apply m p in let '(gx, gy, gz) := pt_of_sx got in
      if (within (m00 m, m01 m, m02 m, m03 m) p ex gx && within (m10 m, m11 m, m12 m, m13 m) p ey gy &&
          within (m20 m, m21 m, m22 m, m23 m) p ez gz)%bool then SY "ok" else SY "outside-bound"
  | SL [SY "level"; SY level; SL path; mm; p] =>
      let m := mat_of_sx mm in
      let pp := pdb_of_sx p in
      let res := match level with
                 | "pdb" => (map (apply_model m) pp, SY "u")
                 | "model" => on_model path pp (fun x => (apply_model m x, SY "u"))
                 | "chain" => on_chain path pp (fun x => (apply_chain m x, SY "u"))
                 | "residue" => on_residue path pp (fun x => (apply_residue m x, SY "u"))
                 | "conformer" => on_conformer path pp (fun x => (apply_conformer m x, SY "u"))
                 | _ => on_atom path pp (fun x => (apply_atom m x, SY "u"))
                 end in
      sx_of_pdb sx_of_atom (fst res)
  | SL (SY "classify" :: _) => SY "none"
  | _ => SY "bad-input"
  end.
