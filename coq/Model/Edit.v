(* C10 model: the public mutators of PDB / Model / Chain / Residue / Conformer / Atom as total functions on the
   hierarchy records.  Every function mirrors one Rust method (named in the comment); an index out of range is
   `Panic` with the state unchanged (Vec::remove / Vec::insert assert before touching the vector). *)
From Coq Require Import List Ascii String ZArith Bool.
From PV Require Import Base.Sx Base.Text Spec.Hier.
Import ListNotations.

(* ---------- list primitives (Vec::retain, remove, insert, position) ---------- *)
Definition retain {A} (keep : A -> bool) (l : list A) : list A := filter keep l.
Fixpoint remove_at {A} (n : nat) (l : list A) : option (list A) :=
  match l, n with
  | [], _ => None
  | _ :: r, O => Some r
  | x :: r, S k => option_map (cons x) (remove_at k r)
  end.
Fixpoint insert_at {A} (n : nat) (x : A) (l : list A) : option (list A) :=
  match n, l with
  | O, _ => Some (x :: l)
  | S k, [] => None
  | S k, y :: r => option_map (cons y) (insert_at k x r)
  end.
Fixpoint position {A} (p : A -> bool) (l : list A) : option nat :=
  match l with
  | [] => None
  | x :: r => if p x then Some O else option_map S (position p r)
  end.
(* remove the first element satisfying p; reports whether one existed *)
Definition remove_first {A} (p : A -> bool) (l : list A) : list A * bool :=
  match position p l with
  | Some i => (match remove_at i l with Some l' => l' | None => l end, true)
  | None => (l, false)
  end.
Fixpoint update_nth {A} (n : nat) (f : A -> A) (l : list A) : list A :=
  match l, n with
  | [], _ => []
  | x :: r, O => f x :: r
  | x :: r, S k => x :: update_nth k f r
  end.

(* ---------- record updates ---------- *)
Definition with_atoms (c : conformer) l := {| c_name := c_name c; c_alt := c_alt c; c_mod := c_mod c; c_atoms := l |}.
Definition with_confs (r : residue) l := {| r_num := r_num r; r_icode := r_icode r; r_confs := l |}.
Definition with_residues (c : chain) l := {| ch_id := ch_id c; ch_residues := l |}.
Definition with_chains (m : model) l := {| m_serial := m_serial m; m_chains := l |}.

(* ---------- removal by predicate ---------- *)
Definition Conformer_remove_atoms_by (p : atom -> bool) c := with_atoms c (retain (fun a => negb (p a)) (c_atoms c)).
Definition Residue_remove_atoms_by p r := with_confs r (map (Conformer_remove_atoms_by p) (r_confs r)).
Definition Chain_remove_atoms_by p c := with_residues c (map (Residue_remove_atoms_by p) (ch_residues c)).
Definition Model_remove_atoms_by p m := with_chains m (map (Chain_remove_atoms_by p) (m_chains m)).
Definition PDB_remove_atoms_by p (x : pdb) : pdb := map (Model_remove_atoms_by p) x.

Definition Residue_remove_conformers_by (p : conformer -> bool) r := with_confs r (retain (fun c => negb (p c)) (r_confs r)).
Definition Chain_remove_conformers_by p c := with_residues c (map (Residue_remove_conformers_by p) (ch_residues c)).
Definition Model_remove_conformers_by p m := with_chains m (map (Chain_remove_conformers_by p) (m_chains m)).
Definition PDB_remove_conformers_by p (x : pdb) : pdb := map (Model_remove_conformers_by p) x.

Definition Chain_remove_residues_by (p : residue -> bool) c := with_residues c (retain (fun r => negb (p r)) (ch_residues c)).
Definition Model_remove_residues_by p m := with_chains m (map (Chain_remove_residues_by p) (m_chains m)).
Definition PDB_remove_residues_by p (x : pdb) : pdb := map (Model_remove_residues_by p) x.

Definition Model_remove_chains_by (p : chain -> bool) m := with_chains m (retain (fun c => negb (p c)) (m_chains m)).
Definition PDB_remove_chains_by p (x : pdb) : pdb := map (Model_remove_chains_by p) x.
Definition PDB_remove_models_by (p : model -> bool) (x : pdb) : pdb := retain (fun m => negb (p m)) x.

(* ---------- remove_empty cascade ---------- *)
Definition Residue_remove_empty r := with_confs r (retain (fun c => negb (is_nil (c_atoms c))) (r_confs r)).
Definition Chain_remove_empty c :=
  with_residues c (retain (fun r => negb (is_nil (r_confs r))) (map Residue_remove_empty (ch_residues c))).
Definition Model_remove_empty m :=
  with_chains m (retain (fun c => negb (is_nil (ch_residues c))) (map Chain_remove_empty (m_chains m))).
Definition PDB_remove_empty (x : pdb) : pdb := retain (fun m => negb (is_nil (m_chains m))) (map Model_remove_empty x).

(* ---------- PDB::remove_models_except ---------- *)
Fixpoint enumerate_from {A} (i : nat) (l : list A) : list (nat * A) :=
  match l with [] => [] | x :: r => (i, x) :: enumerate_from (S i) r end.
Definition PDB_remove_models_except (idxs : list nat) (x : pdb) : pdb * option nat :=
  match x with
  | [] => (x, None)
  | _ =>
      (* refused when some index is out of bounds (an empty selection keeps nothing) *)
      if Nat.leb (List.length x) (fold_right Nat.max 0 idxs) then (x, None)
      else let kept := map snd (filter (fun im => existsb (Nat.eqb (fst im)) idxs) (enumerate_from 0 x)) in
           (kept, Some (List.length x - List.length kept))
  end.

(* ---------- joins ---------- *)
Definition Conformer_join c o := with_atoms c (c_atoms c ++ c_atoms o).
Definition Residue_join r o := with_confs r (r_confs r ++ r_confs o).
Definition Chain_join c o := with_residues c (ch_residues c ++ ch_residues o).
Definition Model_join m o := with_chains m (m_chains m ++ m_chains o).
Definition PDB_join (x o : pdb) : pdb :=
  if (Nat.ltb 1 (List.length x) || Nat.ltb 1 (List.length o))%bool then x ++ o
  else match x, o with
       | [], _ => o
       | _, [] => x
       | m :: _, om :: _ => [Model_join m om]
       end.

(* ---------- setters with validation ---------- *)
Definition finite (f : fval) : bool := match f with FFin _ _ | FNegZero => true | _ => false end.
Definition nonneg (f : fval) : bool := match f with FFin m _ => Z.leb 0 m | FNegZero => true | _ => false end.
Inductive afield : Set := AHetero | ASerial | AId | AName | AX | AY | AZ | AOcc | AB | ACharge | AElement.
Definition afield_of (field : string) : option afield :=
  match field with
  | "hetero" => Some AHetero | "serial" => Some ASerial | "id" => Some AId | "name" => Some AName
  | "x" => Some AX | "y" => Some AY | "z" => Some AZ | "occ" => Some AOcc | "b" => Some AB
  | "charge" => Some ACharge | "element" => Some AElement | _ => None
  end%string.
Definition upd_atom_f (a : atom) (field : afield) (v : sx) : atom * bool :=
  let a' h ser id nm x y z oc b el ch :=
    {| a_hetero := h; a_serial := ser; a_id := id; a_name := nm; a_x := x; a_y := y; a_z := z; a_occ := oc; a_b := b;
       a_elem := el; a_charge := ch; a_atf := a_atf a |} in
  let same := (a, false) in
  match field with
  | AHetero => (a' (get_bool v) (a_serial a) (a_id a) (a_name a) (a_x a) (a_y a) (a_z a) (a_occ a) (a_b a) (a_elem a) (a_charge a), true)
  | ASerial => (a' (a_hetero a) (get_Z v) (a_id a) (a_name a) (a_x a) (a_y a) (a_z a) (a_occ a) (a_b a) (a_elem a) (a_charge a), true)
  | AId => let s := get_text v in
            if (valid_text s && negb (is_nil (trim s)))%bool
            then (a' (a_hetero a) (a_serial a) (trim s) (a_name a) (a_x a) (a_y a) (a_z a) (a_occ a) (a_b a) (a_elem a) (a_charge a), true) else same
  | AName => let s := get_text v in
              if valid_text s
              then (a' (a_hetero a) (a_serial a) (a_id a) (upper (trim s)) (a_x a) (a_y a) (a_z a) (a_occ a) (a_b a) (a_elem a) (a_charge a), true) else same
  | AX => let f := fval_of_sx v in if finite f then (a' (a_hetero a) (a_serial a) (a_id a) (a_name a) f (a_y a) (a_z a) (a_occ a) (a_b a) (a_elem a) (a_charge a), true) else same
  | AY => let f := fval_of_sx v in if finite f then (a' (a_hetero a) (a_serial a) (a_id a) (a_name a) (a_x a) f (a_z a) (a_occ a) (a_b a) (a_elem a) (a_charge a), true) else same
  | AZ => let f := fval_of_sx v in if finite f then (a' (a_hetero a) (a_serial a) (a_id a) (a_name a) (a_x a) (a_y a) f (a_occ a) (a_b a) (a_elem a) (a_charge a), true) else same
  | AOcc => let f := fval_of_sx v in if (finite f && nonneg f)%bool then (a' (a_hetero a) (a_serial a) (a_id a) (a_name a) (a_x a) (a_y a) (a_z a) f (a_b a) (a_elem a) (a_charge a), true) else same
  | AB => let f := fval_of_sx v in if (finite f && nonneg f)%bool then (a' (a_hetero a) (a_serial a) (a_id a) (a_name a) (a_x a) (a_y a) (a_z a) (a_occ a) f (a_elem a) (a_charge a), true) else same
  | ACharge => (a' (a_hetero a) (a_serial a) (a_id a) (a_name a) (a_x a) (a_y a) (a_z a) (a_occ a) (a_b a) (a_elem a) (get_Z v), true)
  | AElement => (a' (a_hetero a) (a_serial a) (a_id a) (a_name a) (a_x a) (a_y a) (a_z a) (a_occ a) (a_b a) (Some (get_Z v)) (a_charge a), true)
  end.
(* Atom::set_pos: all three coordinates or none *)
Definition upd_atom_pos (a : atom) (v : sx) : atom * bool :=
  match v with
  | SL [vx; vy; vz] =>
      let '(fx, fy, fz) := (fval_of_sx vx, fval_of_sx vy, fval_of_sx vz) in
      if (finite fx && finite fy && finite fz)%bool
      then ({| a_hetero := a_hetero a; a_serial := a_serial a; a_id := a_id a; a_name := a_name a; a_x := fx; a_y := fy; a_z := fz;
               a_occ := a_occ a; a_b := a_b a; a_elem := a_elem a; a_charge := a_charge a; a_atf := a_atf a |}, true)
      else (a, false)
  | _ => (a, false)
  end.
Definition upd_atom_atf (a : atom) (v : sx) : atom * bool :=
  ({| a_hetero := a_hetero a; a_serial := a_serial a; a_id := a_id a; a_name := a_name a; a_x := a_x a; a_y := a_y a; a_z := a_z a;
      a_occ := a_occ a; a_b := a_b a; a_elem := a_elem a; a_charge := a_charge a; a_atf := Some (map fval_of_sx (get_list v)) |}, true).
Definition f_pos : string := "pos".
Definition f_atf : string := "atf".
Definition upd_atom (a : atom) (field : string) (v : sx) : atom * bool :=
  if String.eqb field f_pos then upd_atom_pos a v
  else if String.eqb field f_atf then upd_atom_atf a v
  else match afield_of field with Some f => upd_atom_f a f v | None => (a, false) end.

Definition upd_conformer (c : conformer) (field : string) (v : sx) : conformer * bool :=
  match field with
  | "name" => match prepare_identifier_uppercase (get_text v) with
              | Some n => ({| c_name := n; c_alt := c_alt c; c_mod := c_mod c; c_atoms := c_atoms c |}, true)
              | None => (c, false) end
  | "alt" => match prepare_identifier_uppercase (get_text v) with
             | Some n => ({| c_name := c_name c; c_alt := Some n; c_mod := c_mod c; c_atoms := c_atoms c |}, true)
             | None => (c, false) end
  | "noalt" => ({| c_name := c_name c; c_alt := None; c_mod := c_mod c; c_atoms := c_atoms c |}, true)
  | "mod" => match v with
             | SL [SS a; SS b] => if (valid_text a && valid_text b)%bool
                                  then ({| c_name := c_name c; c_alt := c_alt c; c_mod := Some (a, b); c_atoms := c_atoms c |}, true)
                                  else (c, false)
             | _ => (c, false) end
  | _ => (c, false)
  end%string.
Definition upd_residue (r : residue) (field : string) (v : sx) : residue * bool :=
  match field with
  | "num" => ({| r_num := get_Z v; r_icode := r_icode r; r_confs := r_confs r |}, true)
  | "icode" => match prepare_identifier_uppercase (get_text v) with
               | Some n => ({| r_num := r_num r; r_icode := Some n; r_confs := r_confs r |}, true)
               | None => (r, false) end
  | "noicode" => ({| r_num := r_num r; r_icode := None; r_confs := r_confs r |}, true)
  | _ => (r, false)
  end%string.
Definition upd_chain (c : chain) (field : string) (v : sx) : chain * bool :=
  match field with
  | "id" => match prepare_identifier (get_text v) with
            | Some n => ({| ch_id := n; ch_residues := ch_residues c |}, true)
            | None => (c, false) end
  | _ => (c, false)
  end%string.
Definition upd_model (m : model) (field : string) (v : sx) : model * bool :=
  match field with
  | "serial" => ({| m_serial := get_Z v; m_chains := m_chains m |}, true)
  | _ => (m, false)
  end%string.

(* ---------- predicates: an indexed family shared with the harness ---------- *)
Definition atom_pred (k : Z) (a : atom) : bool :=
  match k with
  | 0 => Z.even (a_serial a) | 1 => text_eqb (a_name a) (stext "CA") | 2 => a_hetero a
  | 3 => Z.ltb 5 (a_serial a) | 4 => true | _ => false
  end%Z.
Definition conf_pred (k : Z) (c : conformer) : bool :=
  match k with
  | 0 => is_nil (c_atoms c) | 1 => text_eqb (c_name c) (stext "ALA")
  | 2 => match c_alt c with Some _ => true | None => false end | 3 => true | _ => false
  end%Z.
Definition res_pred (k : Z) (r : residue) : bool :=
  match k with
  | 0 => is_nil (r_confs r) | 1 => Z.ltb (r_num r) 2
  | 2 => match r_icode r with Some _ => true | None => false end | 3 => true | _ => false
  end%Z.
Definition chain_pred (k : Z) (c : chain) : bool :=
  match k with 0 => is_nil (ch_residues c) | 1 => text_eqb (ch_id c) (stext "A") | 2 => true | _ => false end%Z.
Definition model_pred (k : Z) (m : model) : bool :=
  match k with 0 => is_nil (m_chains m) | 1 => Z.odd (m_serial m) | 2 => true | _ => false end%Z.
