(* C18 oracle: validate, and validate_pdb with one rule per documented column range, bounds = the binary64 value of
   the documented decimal (as parsed by the harness' Rust, passed in with the case). *)
From Coq Require Import List Ascii String ZArith Bool.
From PV Require Import Base.Sx Base.Text Spec.Hier Spec.ValidateSpec Model.Validate.
Import ListNotations.
Local Open Scope string_scope.

Definition short_of (f : vfield) : string :=
  match f with
  | VModelSerial => "Model serial number too high" | VChainIdLen => "Chain id too long"
  | VResSerial => "Residue serial number too high" | VResIcodeLen => "Residue insertion code too long"
  | VConfNameLen => "Conformer name too long" | VConfAltLen => "Conformer alternative location too long"
  | VModNameLen => "Residue modification name too long" | VModCommentLen => "Residue modification comment too long"
  | VAtomNameLen => "Atom name too long" | VAtomSerial => "Atom serial number too high"
  | VAtomCharge => "Atom charge out of bounds" | VAtomOcc => "Atom occupancy out of bounds" | VAtomB => "Atom b factor out of bounds"
  | VAtomX => "Atom x position out of bounds" | VAtomY => "Atom y position out of bounds" | VAtomZ => "Atom z position out of bounds"
  end.
(* the harness supplies, for each decimal text of doc_ranges, the binary64 value rustc gives that literal *)
Definition lookup_float (tbl : list sx) (d : string) : vbound :=
  match find (fun e => match e with SL [SS t; _; _] => if list_eq_dec Ascii.ascii_dec t (list_ascii_of_string d) then true else false | _ => false end) tbl with
  | Some (SL [_; SZ m; SZ e]) => BFloat d m e
  | _ => BFloat d 0 0
  end.
Definition is_float_field (f : vfield) : bool :=
  match f with VAtomOcc | VAtomB | VAtomX | VAtomY | VAtomZ => true | _ => false end.
Fixpoint dec_Z (s : string) (acc : Z) : Z :=
  match s with EmptyString => acc | String c r => dec_Z r (acc * 10 + (Z.of_N (Ascii.N_of_ascii c) - 48)) end.
Definition text_Z (s : string) : Z := match s with String "-"%char r => - dec_Z r 0 | _ => dec_Z s 0 end.
Definition doc_rules (tbl : list sx) : list vrule :=
  map (fun d : vfield * option string * string =>
         let '(f, lo, hi) := d in
         let b t := if is_float_field f then lookup_float tbl t else BInt (text_Z t) in
         mk_vrule f ((CGt, b hi) :: match lo with Some l => [(CLt, b l)] | None => [] end) VLooseWarning (short_of f)) doc_ranges.
Definition run_c18 (x : sx) : sx :=
  match x with
  | SL [SY "validate"; p] => show_diags (validate (pdb_of_sx p))
  | SL [SY "validate_pdb"; SL tbl; p] => show_diags (validate_pdb_with (doc_rules tbl) (pdb_of_sx p))
  | SL (SY "classify" :: _) => SY "none"
  | _ => SY "bad-input"
  end.
