(* C14 entry points. *)
From Coq Require Import List Ascii String QArith Qabs ZArith Bool.
From PV Require Import Base.Sx Base.Text Base.Float Base.Sorting2 Spec.Hier Model.SortRenumber Model.Transform Model.TransformRun Model.Geom Model.Walk.
Import ListNotations.
Local Open Scope string_scope.

Definition f64_max : fval := FFin (2 ^ 53 - 1) 971.
Definition f64_min : fval := FFin (- (2 ^ 53 - 1)) 971.
Definition fmin (l : list fval) (d : fval) : fval := fold_left (fun m x => if Qlt_le_dec (q_of_fval x) (q_of_fval m) then x else m) l d.
Definition fmax (l : list fval) (d : fval) : fval := fold_left (fun m x => if Qlt_le_dec (q_of_fval m) (q_of_fval x) then x else m) l d.
Definition bounding_box (p : pdb) : sx :=
  let a := p_atoms p in
  SL [SL [sx_of_fval (fmin (map a_x a) f64_max); sx_of_fval (fmin (map a_y a) f64_max); sx_of_fval (fmin (map a_z a) f64_max)];
      SL [sx_of_fval (fmax (map a_x a) f64_min); sx_of_fval (fmax (map a_y a) f64_min); sx_of_fval (fmax (map a_z a) f64_min)]].

(* a coordinate whose square is not a binary64 number any more: 2^500 and above, or below 2^-500 without being zero *)
Definition far_or_tiny (p : pt) : bool :=
  let '(x, y, z) := p in
  existsb (fun v : Q => let a := Qabs v in
             (Qle_bool (inject_Z (2 ^ 500)) a || (negb (Qeq_bool a 0) && Qle_bool a (1 # (2 ^ 500))))%bool) [x; y; z].
Fixpoint dedup (l : list text) : list text :=
  match l with [] => [] | x :: r => if existsb (text_eqb x) r then dedup r else x :: dedup r end.
Definition contacts (p : pdb) (cutoff : Q) : sx :=
  let ids := ssort text text_cmp (dedup (map ch_id (p_chains p))) in
  (* closer than the cut-off: nothing is closer than a cut-off that is not positive; otherwise compare the squares (exactly) *)
  let d2 := cutoff_d2 cutoff in
  SL (flat_map (fun a => match filter (in_contact p d2 a) ids with
                         | [] => []
                         | l => [SL [SS a; SL (map SS l)]] end) ids).

Fixpoint indices_where {A} (f : A -> bool) (l : list A) (i : Z) : list Z :=
  match l with [] => [] | x :: r => if f x then i :: indices_where f r (i + 1)%Z else indices_where f r (i + 1)%Z end.
Definition qle_b (a b : Q) : bool := if Qlt_le_dec b a then false else true.

(* correctly rounded square root: d is within half a unit in the last place of sqrt s *)
Definition sqrt_ok (s : Q) (d : fval) : bool :=
  match d with
  | FFin 0 _ => Qeq_bool s 0
  | FFin m e =>
      if (m <? 0)%Z then false else
      let E := (Z.log2 m + e)%Z in
      let h := q_of_fval (FFin 1 (E - 53)) in
      let dq := q_of_fval d in
      (qle_b ((dq - h) * (dq - h)) s && qle_b s ((dq + h) * (dq + h)))%bool
  | _ => false
  end.
Definition inside (a : pt) (cell : pt) : bool :=
  let '(x, y, z) := a in let '(ca, cb, cc) := cell in
  (qle_b 0 x && negb (qle_b ca x) && qle_b 0 y && negb (qle_b cb y) && qle_b 0 z && negb (qle_b cc z))%bool.
Definition sum_radius (which : string) (ea eb : option Z) : option (option fval) :=
  (* None = an atom has no element; Some None = a radius is not defined *)
  match ea, eb with
  | Some za, Some zb =>
      match radii za, radii zb with
      | Some (ua, sa), Some (ub, sb) =>
          if String.eqb which "bound" then Some (Some (fadd (fval_of_dy sa) (fval_of_dy sb)))
          else match ua, ub with
               | Some x, Some y => Some (Some (fadd (fval_of_dy x) (fval_of_dy y)))
               | _, _ => Some None
               end
      | _, _ => None
      end
  | _, _ => None
  end.

Definition awh_at (p : pdb) (i : Z) : sx :=
  match nth_error (p_awh p) (Z.to_nat i) with
  | Some (a, c, r, ch, m) => SL [id_atom a; id_conf c; id_res r; id_chain ch; id_model m]
  | None => SY "-"
  end.

Definition run_c14 (x : sx) : sx :=
  match x with
  | SL [SY "bbox"; p] => bounding_box (pdb_of_sx p)
  | SL [SY "contacts"; p; c] => contacts (pdb_of_sx p) (q_of_fval (fval_of_sx c))
  | SL [SY "within"; p; q; r2] =>
      let c := pt_of_sx q in let lim := q_of_fval (fval_of_sx r2) in
      SL (map SZ (indices_where (fun a => qle_b (dist2 (pos a) c) lim) (p_atoms (pdb_of_sx p)) 0%Z))
  | SL [SY "nearest"; p; q] =>
      let c := pt_of_sx q in
      SL (map (fun d => sx_of_fval (fval_of_q d))
              (ssort Q (fun a b => Qcompare a b) (map (fun a => dist2 (pos a) c) (p_atoms (pdb_of_sx p)))))
  | SL [SY "awh"; p; SL idxs] => SL (map (fun i => awh_at (pdb_of_sx p) (get_Z i)) idxs)
  | SL [SY "dist"; a; b; d] =>
      if sqrt_ok (dist2 (pt_of_sx a) (pt_of_sx b)) (fval_of_sx d) then SY "ok" else SY "not-euclidean"
  | SL [SY "wrapdist"; a; b; cell; d] =>
      let pa := pt_of_sx a in let pb := pt_of_sx b in let c := pt_of_sx cell in
      if (inside pa c && inside pb c)%bool then
        let w := wrap_dist2 pa pb c in
        let best := fold_left (fun m k => let v := dist2 pa (image pb c k) in if Qlt_le_dec v m then v else m) shifts w in
        if (Qeq_bool w best && sqrt_ok w (fval_of_sx d))%bool then SY "ok" else SY "not-minimum-image"
      else SY "outside-cell"
  | SL [SY "overlaps"; SY which; ea; eb; d] =>
      match sum_radius which (get_opt get_Z ea) (get_opt get_Z eb) with
      | None => SY "-"
      | Some None => SY "-"
      | Some (Some r) => SL [sbool (qle_b (q_of_fval (fval_of_sx d)) (q_of_fval r))]
      end
  | SL [SY "classify"; SL [SY "dist"; a; b; _]] =>
      if (far_or_tiny (pt_of_sx a) || far_or_tiny (pt_of_sx b))%bool then SY "Known_distance_square_out_of_range" else SY "none"
  | SL (SY "classify" :: _) => SY "none"
  | _ => SY "bad-input"
  end.
