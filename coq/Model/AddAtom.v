(* C08 model: Model::add_atom / Chain::add_atom / Residue::add_atom.
   Containers are association lists (key, children) in storage order; an atom is an opaque payload (its
   s-expression), which is all these operations do with it.
   The model mirrors the code after the fix "normalise the identifier before comparing it with stored ones":
     Model::add_atom    chain_id.trim(), Chain::new (prepare_identifier) or panic, first match in storage order
     Chain::add_atom    Residue::new (prepare_identifier_uppercase of the insertion code) or panic,
                        search from the back, compare (number, normalised insertion code)
     Residue::add_atom  prepare_identifier_uppercase(name) or panic; alternate location normalised the way
                        Conformer::new stores it (invalid or blank -> None); first match in storage order *)
From Coq Require Import List Ascii String ZArith Bool.
From PV Require Import Base.Sx Base.Text Base.Group.
Import ListNotations.

Definition ckey := (text * option text)%type.       (* conformer name, alternate location *)
Definition rkey := (Z * option text)%type.          (* residue number, insertion code *)

Definition otext_eqb (a b : option text) : bool :=
  match a, b with
  | None, None => true
  | Some x, Some y => text_eqb x y
  | _, _ => false
  end.
Definition ckey_eqb (a b : ckey) : bool := (text_eqb (fst a) (fst b) && otext_eqb (snd a) (snd b))%bool.
Definition rkey_eqb (a b : rkey) : bool := (Z.eqb (fst a) (fst b) && otext_eqb (snd a) (snd b))%bool.

Lemma otext_eqb_spec a b : reflect (a = b) (otext_eqb a b).
Proof.
  destruct a as [x|], b as [y|]; simpl; try (constructor; congruence).
  destruct (text_eqb_spec x y); constructor; congruence.
Qed.
Lemma ckey_eqb_spec a b : reflect (a = b) (ckey_eqb a b).
Proof.
  destruct a as [a1 a2], b as [b1 b2]; unfold ckey_eqb; simpl.
  destruct (text_eqb_spec a1 b1), (otext_eqb_spec a2 b2); simpl; constructor; congruence.
Qed.
Lemma rkey_eqb_spec a b : reflect (a = b) (rkey_eqb a b).
Proof.
  destruct a as [a1 a2], b as [b1 b2]; unfold rkey_eqb; simpl.
  destruct (Z.eqb_spec a1 b1), (otext_eqb_spec a2 b2); simpl; constructor; congruence.
Qed.

(* ----- identifier normalisation: raw argument -> stored key, None = the call panics ----- *)
Definition norm_chain (raw : text) : option text := prepare_identifier (trim raw).
Definition norm_res (raw : rkey) : option rkey :=
  match snd raw with
  | None => Some (fst raw, None)
  | Some ic => option_map (fun c => (fst raw, Some c)) (prepare_identifier_uppercase ic)
  end.
Definition norm_alt (alt : option text) : option text :=
  match alt with None => None | Some a => prepare_identifier_uppercase a end.
Definition norm_conf (raw : ckey) : option ckey :=
  option_map (fun n => (n, norm_alt (snd raw))) (prepare_identifier_uppercase (fst raw)).

Section Ops.
Variable A : Type.     (* atom payload *)

Definition confs := list (ckey * list A).
Definition ress := list (rkey * confs).
Definition chains := list (text * ress).

Definition push_atom (l : list A) (a : A) : list A := l ++ [a].
Definition conf_step (cs : confs) (ka : ckey * A) : confs :=
  upsert ckey (A) (list A) ckey_eqb [] push_atom (fst ka) (snd ka) cs.
(* Chain::add_atom searches the residues from the back *)
Definition res_step (rs : ress) (kv : rkey * (ckey * A)) : ress :=
  upsert_last rkey (ckey * A) confs rkey_eqb [] conf_step (fst kv) (snd kv) rs.
Definition chain_step (chs : chains) (kv : text * (rkey * (ckey * A))) : chains :=
  upsert text (rkey * (ckey * A)) ress text_eqb [] res_step (fst kv) (snd kv) chs.

Inductive res (T : Type) : Type := Done (t : T) | Panic.
Arguments Done {T}. Arguments Panic {T}.

(* one add-atom call with raw identifiers, at the three entry points *)
Record op := { o_atom : A; o_chain : text; o_res : rkey; o_conf : ckey }.

Definition Residue_add_atom (cs : confs) (o : op) : res confs :=
  match norm_conf (o_conf o) with
  | Some ck => Done (conf_step cs (ck, o_atom o))
  | None => Panic
  end.
Definition Chain_add_atom (rs : ress) (o : op) : res ress :=
  match norm_res (o_res o), norm_conf (o_conf o) with
  | Some rk, Some ck => Done (res_step rs (rk, (ck, o_atom o)))
  | _, _ => Panic
  end.
Definition Model_add_atom (chs : chains) (o : op) : res chains :=
  match norm_chain (o_chain o), norm_res (o_res o), norm_conf (o_conf o) with
  | Some c, Some rk, Some ck => Done (chain_step chs (c, (rk, (ck, o_atom o))))
  | _, _, _ => Panic
  end.

Fixpoint run_hist {S} (f : S -> op -> res S) (s : S) (ops : list op) : res S :=
  match ops with
  | [] => Done s
  | o :: r => match f s o with Done s' => run_hist f s' r | Panic => Panic end
  end.

(* the code before the fix compared the stored, normalised alternate location / insertion code with the raw
   argument; kept to show what the property excludes (C08_raw_compare_refuted) *)
Definition conf_step_raw (cs : confs) (raw : ckey) (ck : ckey) (a : A) : confs :=
  let fix go (l : confs) : confs :=
    match l with
    | [] => [(ck, [a])]
    | (k, atoms) :: r => if (text_eqb (fst k) (fst ck) && otext_eqb (snd k) (snd raw))%bool
                         then (k, atoms ++ [a]) :: r else (k, atoms) :: go r
    end in go cs.

(* ----- specification: nested first-appearance partition of the normalised operations ----- *)
Definition valid_op (o : op) : bool :=
  match norm_chain (o_chain o), norm_res (o_res o), norm_conf (o_conf o) with
  | Some _, Some _, Some _ => true | _, _, _ => false end.
Definition norm_op (o : op) : text * (rkey * (ckey * A)) :=
  (match norm_chain (o_chain o) with Some c => c | None => [] end,
   (match norm_res (o_res o) with Some r => r | None => (0%Z, None) end,
    (match norm_conf (o_conf o) with Some c => c | None => ([], None) end, o_atom o))).

Definition spec_confs (l : list (ckey * A)) : confs :=
  map (fun ck => (ck, vals ckey A ckey_eqb ck l)) (keys ckey A ckey_eqb l []).
Definition spec_ress (l : list (rkey * (ckey * A))) : ress :=
  map (fun rk => (rk, spec_confs (vals rkey (ckey * A) rkey_eqb rk l))) (keys rkey (ckey * A) rkey_eqb l []).
Definition spec_chains (l : list (text * (rkey * (ckey * A)))) : chains :=
  map (fun c => (c, spec_ress (vals text (rkey * (ckey * A)) text_eqb c l))) (keys text (rkey * (ckey * A)) text_eqb l []).
End Ops.

Arguments Done {T}. Arguments Panic {T}.

(* ----- executable entry points -----
   (hist <entry> (op ...))  with entry in {model, chain, residue},
   op = (atom chain-raw resnum icode-opt confname alt-opt); result (ok snapshot) | panic *)
Definition sx_otext (o : option text) : sx := sopt SS o.
Definition get_otext (x : sx) : option text := get_opt get_text x.
Definition op_of_sx (x : sx) : op sx :=
  match x with
  | SL [a; c; SZ n; ic; cn; alt] =>
      {| o_atom := a; o_chain := get_text c; o_res := (n, get_otext ic); o_conf := (get_text cn, get_otext alt) |}
  | _ => {| o_atom := x; o_chain := []; o_res := (0%Z, None); o_conf := ([], None) |}
  end.
Definition sx_confs (cs : confs sx) : sx :=
  SL (map (fun kc : ckey * list sx => SL [SS (fst (fst kc)); sx_otext (snd (fst kc)); SL (snd kc)]) cs).
Definition sx_ress (rs : ress sx) : sx :=
  SL (map (fun kr : rkey * confs sx => SL [SZ (fst (fst kr)); sx_otext (snd (fst kr)); sx_confs (snd kr)]) rs).
Definition sx_chains (chs : chains sx) : sx :=
  SL (map (fun kc : text * ress sx => SL [SS (fst kc); sx_ress (snd kc)]) chs).
Definition show_res {T} (f : T -> sx) (r : res T) : sx :=
  match r with Done t => SL [SY "ok"%string; f t] | Panic => SY "panic"%string end.

Definition run_addatom (x : sx) : sx :=
  match x with
  | SL [SY "hist"; SY "model"; SL ops] => show_res sx_chains (run_hist sx (Model_add_atom sx) [] (map op_of_sx ops))
  | SL [SY "hist"; SY "chain"; SL ops] => show_res sx_ress (run_hist sx (Chain_add_atom sx) [] (map op_of_sx ops))
  | SL [SY "hist"; SY "residue"; SL ops] => show_res sx_confs (run_hist sx (Residue_add_atom sx) [] (map op_of_sx ops))
  (* the declarative specification, evaluated directly (oracle) *)
  | SL [SY "spec"; SY "model"; SL ops] =>
      let os := map op_of_sx ops in
      if forallb (valid_op sx) os then SL [SY "ok"; sx_chains (spec_chains sx (map (norm_op sx) os))] else SY "panic"
  | SL (SY "classify" :: _) => SY "none"
  | _ => SY "bad-input"
  end%string.
