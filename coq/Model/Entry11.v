(* executable entry points of the C11 model *)
From Coq Require Import List Ascii String ZArith Bool.
From PV Require Import Base.Sx Base.Text Spec.Hier Model.SortRenumber Model.BinFind.
Import ListNotations.
Local Open Scope string_scope.

Definition show_found (x : option (atom * conformer * residue * chain * model)) : sx :=
  match x with
  | None => SY "-"
  | Some (a, c, r, ch, m) =>
      SL [sx_of_atom_short a; SL [SS (c_name c); sopt SS (c_alt c)]; SL [SZ (r_num r); sopt SS (r_icode r)]; SS (ch_id ch); SZ (m_serial m)]
  end.
Definition found_atom (x : option (atom * conformer * residue * chain * model)) : option atom :=
  match x with Some (a, _, _, _, _) => Some a | None => None end.

Definition bond_query (q : sx) : (Z * option text) * (Z * option text) :=
  match q with
  | SL [SZ n1; a1; SZ n2; a2] => ((n1, get_opt get_text a1), (n2, get_opt get_text a2))
  | _ => ((0%Z, None), (0%Z, None))
  end.
(* PDB::add_bond: both ends through the look-up, the bond is stored only when both exist *)
Definition add_bonds (find : Z -> option text -> option atom) (qs : list sx) : list sx * list sx :=
  fold_left (fun acc q =>
    let '((n1, a1), (n2, a2)) := bond_query q in
    match find n1 a1, find n2 a2 with
    | Some x, Some y => (List.app (fst acc) [sbool true], List.app (snd acc) [SL [sx_of_atom_short x; sx_of_atom_short y]])
    | _, _ => (List.app (fst acc) [sbool false], snd acc)
    end) qs (@nil sx, @nil sx).

Definition run_c11 (x : sx) : sx :=
  match x with
  | SL [SY "fullsort"; p] => sx_of_pdb sx_of_atom_short (full_sort (pdb_of_sx p))
  | SL [SY "renumber"; p] => sx_of_pdb sx_of_atom_short (renumber (pdb_of_sx p))
  | SL [SY "renumber2"; p] => sx_of_pdb sx_of_atom_short (renumber (renumber (pdb_of_sx p)))
  | SL [SY "binfind"; p; SZ n; alt] => show_found (PDB_bfind range_cmp (pdb_of_sx p) n (get_opt get_text alt))
  | SL [SY "linfind"; p; SZ n; alt] => show_found (lin_pdb (pdb_of_sx p) n (get_opt get_text alt))
  | SL [SY "bonds"; p; SL qs] =>
      let pp := pdb_of_sx p in
      let '(oks, bs) := add_bonds (fun n a => found_atom (lin_pdb pp n a)) qs in SL [SL oks; SL bs]
  | SL [SY "base26"; SZ n] => SS (base26 (Z.to_N n))
  | SL (SY "classify" :: _) => SY "none"
  | _ => SY "bad-input"
  end.
