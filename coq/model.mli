
val negb : bool -> bool

type nat =
| O
| S of nat

val fst : ('a1 * 'a2) -> 'a1

val snd : ('a1 * 'a2) -> 'a2

val app : 'a1 list -> 'a1 list -> 'a1 list

type comparison =
| Eq
| Lt
| Gt

val compOpp : comparison -> comparison

val add : nat -> nat -> nat

val eqb : bool -> bool -> bool

val rev : 'a1 list -> 'a1 list

val map : ('a1 -> 'a2) -> 'a1 list -> 'a2 list

val flat_map : ('a1 -> 'a2 list) -> 'a1 list -> 'a2 list

val fold_left : ('a1 -> 'a2 -> 'a1) -> 'a2 list -> 'a1 -> 'a1

val existsb : ('a1 -> bool) -> 'a1 list -> bool

type positive =
| XI of positive
| XO of positive
| XH

type n =
| N0
| Npos of positive

type z =
| Z0
| Zpos of positive
| Zneg of positive

module Pos :
 sig
  type mask =
  | IsNul
  | IsPos of positive
  | IsNeg
 end

module Coq_Pos :
 sig
  val succ : positive -> positive

  val add : positive -> positive -> positive

  val add_carry : positive -> positive -> positive

  val pred_double : positive -> positive

  type mask = Pos.mask =
  | IsNul
  | IsPos of positive
  | IsNeg

  val succ_double_mask : mask -> mask

  val double_mask : mask -> mask

  val double_pred_mask : positive -> mask

  val sub_mask : positive -> positive -> mask

  val sub_mask_carry : positive -> positive -> mask

  val mul : positive -> positive -> positive

  val size : positive -> positive

  val compare_cont : comparison -> positive -> positive -> comparison

  val compare : positive -> positive -> comparison

  val iter_op : ('a1 -> 'a1 -> 'a1) -> positive -> 'a1 -> 'a1

  val to_nat : positive -> nat
 end

module N :
 sig
  val succ_double : n -> n

  val double : n -> n

  val add : n -> n -> n

  val sub : n -> n -> n

  val mul : n -> n -> n

  val compare : n -> n -> comparison

  val leb : n -> n -> bool

  val ltb : n -> n -> bool

  val pos_div_eucl : positive -> n -> n * n

  val div_eucl : n -> n -> n * n

  val div : n -> n -> n

  val modulo : n -> n -> n
 end

type ascii =
| Ascii of bool * bool * bool * bool * bool * bool * bool * bool

val zero : ascii

val one : ascii

val shift : bool -> ascii -> ascii

val eqb0 : ascii -> ascii -> bool

val ascii_of_pos : positive -> ascii

val ascii_of_N : n -> ascii

val n_of_digits : bool list -> n

val n_of_ascii : ascii -> n

module Z :
 sig
  val double : z -> z

  val succ_double : z -> z

  val pred_double : z -> z

  val pos_sub : positive -> positive -> z

  val add : z -> z -> z

  val opp : z -> z

  val sub : z -> z -> z

  val mul : z -> z -> z

  val compare : z -> z -> comparison

  val leb : z -> z -> bool

  val ltb : z -> z -> bool

  val abs : z -> z

  val to_nat : z -> nat

  val to_N : z -> n

  val of_N : n -> z

  val pos_div_eucl : positive -> z -> z * z

  val div_eucl : z -> z -> z * z

  val div : z -> z -> z

  val modulo : z -> z -> z

  val log2 : z -> z
 end

type string =
| EmptyString
| String of ascii * string

val string_of_list_ascii : ascii list -> string

val list_ascii_of_string : string -> ascii list

type text = ascii list

type sx =
| SZ of z
| SS of text
| SY of string
| SL of sx list

val code : ascii -> n

val is_digit : ascii -> bool

val digit_val : ascii -> z

val hex_val : ascii -> n option

val hex_digit : n -> ascii

val all_digits : text -> bool

val nat_of_digits : text -> z

val parse_int : text -> z option

val parse_hex : text -> text option

val atom_of : text -> sx

type frames = sx list list

val push_item : sx -> frames -> frames

val flush : text -> frames -> frames

val parse_go : text -> text -> frames -> frames

val parse_sx : text -> sx list

val pos_digits : nat -> z -> text -> text

val show_Z : z -> text

val show_hex : text -> text

val show_sx : sx -> text

val sbool : bool -> sx

val stext : string -> text

val get_Z : sx -> z

type errorLevel =
| BreakingError
| InvalidatingError
| StrictWarning
| LooseWarning
| GeneralWarning

type strictnessLevel =
| Strict
| Medium
| Loose

val fails : errorLevel -> strictnessLevel -> bool

type elevel =
| EBreaking
| EInvalidating
| EStrictW
| ELooseW
| EGeneralW

type 'a outcome =
| Accepted of 'a * elevel list
| Rejected of elevel list

val eE : errorLevel -> elevel

val gate : strictnessLevel -> 'a1 -> errorLevel list -> 'a1 outcome

val elevel_of_Z : z -> errorLevel

val slevel_of_Z : z -> strictnessLevel

val run_levels : sx -> sx

val dispatch : sx -> sx

val run : text -> text
