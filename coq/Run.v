(* Single executable entry point of the model: one s-expression line in, one line out.
   Used both by the extracted OCaml driver and by vm_compute inside Coq. *)
From Coq Require Import List Ascii String ZArith.
From PV Require Import Base.Sx Model.Levels Model.AddAtom Model.Entry11 Model.Search Model.EditRun Model.Walk.
Import ListNotations.

Definition dispatch (x : sx) : sx :=
  match x with
  | SL [SY "C07"; y] => run_levels y
  | SL [SY "C08"; y] => run_addatom y
  | SL [SY "C09"; y] => run_c09 y
  | SL [SY "C10"; y] => run_c10 y
  | SL [SY "C11"; y] => run_c11 y
  | SL [SY "C12"; y] => run_c12 y
  | _ => SY "unknown-entry"
  end%string.

Definition run (line : text) : text :=
  match parse_sx line with
  | [x] => show_sx (dispatch x)
  | _ => stext "parse-error"
  end.
