(* C15 - read options act as pure filters; path-based open / save choose format and compression from the file name.
   Proved for the reader models (tied to the code by the correspondence check of this property and of C01 / C02 / C05 / C06):
   discard_hydrogens is the removal of the hydrogen lines / rows, only_atomic_coords the removal of the single items;
   and for the name functions: a path is decomposed at the last dot of its last component, case-insensitively. *)
From Coq Require Import List Ascii String ZArith Bool Lia.
From PV Require Import Base.Sx Base.Text Spec.Hier Model.PdbLex Model.PdbParse Model.CifLex Model.CifParse Model.Names Proofs.C15names Proofs.C15filter Proofs.C15first Proofs.C15cif.
Import ListNotations.

(* 1. discard_hydrogens, PDB reader model: reading with the option is reading the numbered lines without the hydrogen lines
      (lines that lex, without a diagnostic, to an atom whose element column reads H) *)
Theorem C15_pdb_discard_hydrogens_is_a_filter : forall fm ao loose lines s,
  (forall nl, In nl lines -> forall b, match lex_line (fst nl) (snd nl) ao loose with
             | inl (LAtom _ b' _ _ _ _ _, _ :: _) => b' = b -> is_hydrogen (ab_element b) (ab_name b) = false
             | _ => True end) ->
  fold_left (step_line true fm ao loose) lines s =
  fold_left (step_line false fm ao loose) (filter (fun nl => negb (hydrogen_line ao loose nl)) lines) s.
Proof. exact pdb_discard_hydrogens_is_a_filter. Qed.
(* 2. discard_hydrogens, mmCIF reader model: the atom loop with the option is the atom loop over the rows whose type_symbol is not H *)
Theorem C15_cif_discard_hydrogens_is_a_filter : forall fo hdr rows s,
  fold_left (atom_row true fo hdr) rows s =
  fold_left (atom_row false fo hdr) (filter (fun row => negb (hydrogen_row hdr row)) rows) s.
Proof. exact cif_discard_hydrogens_is_a_filter. Qed.
(* 3. only_atomic_coords, mmCIF reader model: the single items are not looked at *)
Theorem C15_cif_atomic_only_is_a_filter : forall dh fo items s,
  fold_left (item_step dh fo true) items s = fold_left (item_step dh fo false) (filter (fun it => negb (is_single it)) items) s.
Proof. exact cif_atomic_only_is_a_filter. Qed.
(* 4. opening by name: format from the extension of the last component, without regard to case; .gz selects decompression
      and the format comes from the extension in front of it *)
Theorem C15_open_plain : forall dir stem ext, stem <> [] -> no_char "/" stem = true -> no_char "/" ext = true -> no_char "." ext = true ->
  is_gz ext = false ->
  guess_format (path_of dir (stem ++ "."%char :: ext)) = option_map (fun f => (f, false)) (format_of_ext ext).
Proof. exact guess_plain. Qed.
Theorem C15_open_gz : forall dir stem ext g, stem <> [] -> no_char "/" stem = true -> no_char "/" ext = true -> no_char "." ext = true ->
  no_char "/" g = true -> no_char "." g = true -> is_gz g = true ->
  guess_format (path_of dir (stem ++ "."%char :: ext ++ "."%char :: g)) = option_map (fun f => (f, true)) (format_of_ext ext).
Proof. exact guess_gz. Qed.
Theorem C15_open_no_extension : forall dir name, no_char "/" name = true -> no_char "." name = true -> guess_format (path_of dir name) = None.
Proof. exact guess_no_extension. Qed.
Theorem C15_open_hidden_file : forall dir name, no_char "/" name = true -> no_char "." name = true ->
  guess_format (path_of dir ("."%char :: name)) = None.
Proof. exact guess_hidden. Qed.
(* 5. saving by name *)
Theorem C15_save_by_extension : forall pre ext, no_char "." ext = true -> save_format (pre ++ "."%char :: ext) = save_class ext.
Proof. exact save_by_extension. Qed.
Theorem C15_save_no_extension : forall p, no_char "." p = true -> save_format p = None.
Proof. exact save_no_extension. Qed.
Theorem C15_save_gz_by_extension : forall pre ext g, no_char "." ext = true -> no_char "." g = true -> is_gz g = true ->
  save_gz_format (pre ++ "."%char :: ext ++ "."%char :: g) = save_class ext.
Proof. exact save_gz_by_extension. Qed.
Theorem C15_save_gz_needs_gz : forall p, check_extension p "gz" = false -> save_gz_format p = None.
Proof. exact save_gz_needs_gz. Qed.

(* only_first_model in the PDB reader model: until the record that starts a second model (a MODEL record met while the model
   being built has atoms) every line is treated as without the option; that record closes the first model exactly as without
   the option, opens no new model and stops the reader; a stopped reader ignores the rest of the input.  So for every input the
   reader under the option is the unrestricted reader on the lines before that record, followed by that one step. *)
Theorem C15_pdb_first_model_same_before : forall dh ao loose s nl, starts_second_model ao loose s nl = false ->
  step_line dh true ao loose s nl = step_line dh false ao loose s nl.
Proof. exact pdb_first_model_same_before. Qed.
Theorem C15_pdb_second_model_record_stops : forall dh ao loose s nl, s_stop s = false -> starts_second_model ao loose s nl = true ->
  let t := step_line dh true ao loose s nl in
  let u := step_line dh false ao loose s nl in
  s_stop t = true /\ s_models t = s_models u /\ s_cur t = [] /\ s_cur u = [] /\ s_errors t = s_errors u /\ s_cur_num t = s_cur_num s.
Proof. exact pdb_second_model_record_stops. Qed.
Theorem C15_pdb_stopped_reader_ignores_rest : forall dh fo ao loose lines s, s_stop s = true ->
  fold_left (step_line dh fo ao loose) lines s = s.
Proof. exact pdb_stopped_reader_ignores_rest. Qed.
Theorem C15_pdb_only_first_model_is_a_prefix : forall dh ao loose lines s, s_stop s = false ->
  fold_left (step_line dh true ao loose) lines s =
  let '(pre, hit) := before_second_model dh ao loose lines s in
  let s' := fold_left (step_line dh false ao loose) pre s in
  match hit with Some nl => step_line dh true ao loose s' nl | None => s' end.
Proof. exact pdb_only_first_model_is_a_prefix. Qed.

(* only_first_model in the row loop of the mmCIF reader model: a row of another model than the one settled on stops the loop
   and leaves the structure as it is; a stopped loop ignores the rows that follow *)
Theorem C15_cif_row_of_another_model_stops : forall dh hdr s row f element e1 name e4,
  q_stop s = false -> q_first s = Some f -> Z.eqb f (row_model hdr row) = false ->
  column get_text' hdr row "atom_site.type_symbol" = (Some element, e1) ->
  column get_text' hdr row "atom_site.label_atom_id" = (Some name, e4) ->
  (dh && is_hydrogen element name)%bool = false ->
  let t := atom_row dh true hdr s row in
  q_stop t = true /\ q_models t = q_models s /\ q_ids t = q_ids s /\ q_first t = q_first s.
Proof. exact cif_row_of_another_model_stops. Qed.
Theorem C15_cif_stopped_rows_ignored : forall dh fo hdr rows s, q_stop s = true -> fold_left (atom_row dh fo hdr) rows s = s.
Proof. exact cif_stopped_rows_ignored. Qed.

Print Assumptions C15_pdb_discard_hydrogens_is_a_filter.
Print Assumptions C15_cif_discard_hydrogens_is_a_filter.
Print Assumptions C15_cif_atomic_only_is_a_filter.
Print Assumptions C15_open_plain.
Print Assumptions C15_open_gz.
Print Assumptions C15_open_no_extension.
Print Assumptions C15_open_hidden_file.
Print Assumptions C15_save_by_extension.
Print Assumptions C15_save_no_extension.
Print Assumptions C15_save_gz_by_extension.
Print Assumptions C15_save_gz_needs_gz.
Print Assumptions C15_pdb_first_model_same_before.
Print Assumptions C15_pdb_second_model_record_stops.
Print Assumptions C15_pdb_stopped_reader_ignores_rest.
Print Assumptions C15_pdb_only_first_model_is_a_prefix.
Print Assumptions C15_cif_row_of_another_model_stops.
Print Assumptions C15_cif_stopped_rows_ignored.
