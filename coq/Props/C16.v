(* C16 — copies are observationally equal; atom identities stay unique. *)
From Coq Require Import List ZArith Bool Arith Lia.
From PV Require Import Model.Identity.
Import ListNotations.

(* 1. identities: whatever the interleaving of the threads' creations, the identities issued are pairwise distinct and
      are exactly c0, c0+1, ..., c0+n-1 *)
Lemma issue_ids c0 sch : map snd (issue c0 sch) = seq c0 (length sch).
Proof. revert c0. induction sch as [|t r IH]; intros c0; simpl; auto. now rewrite IH. Qed.
Theorem C16_identities_unique : forall c0 (schedule : list nat), NoDup (map snd (issue c0 schedule)).
Proof. intros. rewrite issue_ids. apply seq_NoDup. Qed.
Theorem C16_identities_fresh : forall c0 schedule u, In u (map snd (issue c0 schedule)) -> c0 <= u < c0 + length schedule.
Proof. intros c0 sch u H. rewrite issue_ids in H. apply in_seq in H. lia. Qed.
(* every thread gets as many identities as it asked for, whatever the schedule *)
Theorem C16_every_request_served : forall c0 schedule t,
  length (filter (fun p => Nat.eqb (fst p) t) (issue c0 schedule)) = count_occ Nat.eq_dec schedule t.
Proof.
  intros c0 sch t. revert c0. induction sch as [|x r IH]; intros c0; simpl; auto.
  destruct (Nat.eq_dec x t) as [->|N].
  - rewrite Nat.eqb_refl. simpl. now rewrite IH.
  - apply Nat.eqb_neq in N. rewrite N. apply IH.
Qed.

(* 2. index_of on the fresh identities *)
Lemma index_of_seq next n : forall i k, i < n -> index_of (next + i) (seq next n) k = Some (k + i).
Proof.
  revert next. induction n as [|n IH]; intros next i k H; [lia|]. simpl.
  destruct i as [|i].
  - rewrite Nat.add_0_r, Nat.eqb_refl. f_equal. lia.
  - replace (Nat.eqb next (next + S i)) with false by (symmetry; apply Nat.eqb_neq; lia).
    replace (next + S i) with (S next + i) by lia. rewrite IH by lia. f_equal. lia.
Qed.
Lemma index_of_bound u l : forall k i, index_of u l k = Some i -> k <= i < k + length l.
Proof.
  induction l as [|x r IH]; intros k i H; simpl in *; [discriminate|].
  destruct (Nat.eqb x u); [injection H as <-; lia|]. apply IH in H. lia.
Qed.
Lemma index_of_in u l : forall k, In u l -> exists i, index_of u l k = Some i.
Proof.
  induction l as [|x r IH]; intros k H; simpl in *; [contradiction|].
  destruct (Nat.eqb x u) eqn:E; [eauto|]. destruct H as [->|H]; [rewrite Nat.eqb_refl in E; discriminate|]. now apply IH.
Qed.

(* 3. cloning with translated bonds: the copy answers every query like the original - same number of atoms, the same
      positions bonded - and listing its bonds never fails *)
Lemma resolve_clone us next : forall bs,
  (forall x y k, In (x, y, k) bs -> In x us /\ In y us) ->
  resolve (clone_fixed {| uids := us; bonds := bs |} next) = resolve {| uids := us; bonds := bs |}.
Proof.
  unfold resolve, clone_fixed. simpl.
  induction bs as [|[[x y] k] bs IH]; intros HB; [reflexivity|].
  assert (Hx : In x us /\ In y us) by (apply (HB x y k); now left). destruct Hx as [Hx Hy].
  destruct (index_of_in x us 0 Hx) as [i Ei]. destruct (index_of_in y us 0 Hy) as [j Ej].
  pose proof (index_of_bound _ _ _ _ Ei) as Bi. pose proof (index_of_bound _ _ _ _ Ej) as Bj.
  cbn [flat_map]. unfold translate at 1 2. rewrite Ei, Ej. cbn [option_map app flat_map].
  rewrite (index_of_seq next (length us) i 0) by lia. rewrite (index_of_seq next (length us) j 0) by lia.
  rewrite IH by (intros a b c H; apply (HB a b c); now right). reflexivity.
Qed.
Theorem C16_clone_observationally_equal : forall s next, wf s -> obs (clone_fixed s next) = obs s.
Proof.
  intros [us bs] next [ND HB]. unfold obs. f_equal; [simpl; apply seq_length|]. now apply resolve_clone.
Qed.
(* every bond of a well-formed structure is listed: none is lost when its atoms exist *)
Theorem C16_bonds_resolve : forall s, wf s -> length (resolve s) = length (bonds s).
Proof.
  intros s [ND HB]. unfold resolve. induction (bonds s) as [|[[x y] k] bs IH]; simpl; [reflexivity|].
  destruct (index_of_in x (uids s) 0) as [i Ei]; [apply (HB x y k); now left|].
  destruct (index_of_in y (uids s) 0) as [j Ej]; [apply (HB x y k); now left|].
  rewrite Ei, Ej. simpl. f_equal. apply IH. intros a b c H. apply (HB a b c). now right.
Qed.
(* after removing atoms, listing the bonds still succeeds and lists exactly the bonds whose two atoms remain *)
Lemma index_of_some_in u l : forall k i, index_of u l k = Some i -> In u l.
Proof. induction l as [|x r IH]; intros k i H; simpl in *; [discriminate|]. destruct (Nat.eqb x u) eqn:E; [left; now apply Nat.eqb_eq|right; eauto]. Qed.
Theorem C16_bonds_after_removal : forall s keep x y k,
  (exists i j, In (i, j, k) (resolve (remove_atoms keep s)) /\
               index_of x (filter keep (uids s)) 0 = Some i /\ index_of y (filter keep (uids s)) 0 = Some j /\ In (x, y, k) (bonds s))
  -> In x (uids s) /\ keep x = true /\ In y (uids s) /\ keep y = true.
Proof.
  intros s keep x y k [i [j [_ [Ei [Ej _]]]]].
  apply index_of_some_in in Ei, Ej. apply filter_In in Ei, Ej. tauto.
Qed.
Theorem C16_clone_wellformed : forall s next, wf s -> wf (clone_fixed s next).
Proof.
  intros s next [ND HB]. split; simpl; [apply seq_NoDup|].
  intros x y k H. apply in_flat_map in H as [[[a b] c] [Hin H]].
  unfold translate in H. destruct (index_of a (uids s) 0) as [i|] eqn:Ei; simpl in H; [|contradiction].
  destruct (index_of b (uids s) 0) as [j|] eqn:Ej; simpl in H; [|contradiction].
  destruct H as [H|[]]. injection H as <- <- <-.
  apply index_of_bound in Ei, Ej. split; apply in_seq; lia.
Qed.
(* the derived Clone (bond table copied, atoms re-created) is refuted: the copy of a two-atom structure with one bond
   cannot list its bonds *)
Example C16_derived_clone_refuted :
  let s := {| uids := [0; 1]; bonds := [(0, 1, 7)] |} in
  resolve_strict s = Some [(0, 1, 7)] /\ resolve_strict (clone_derived s 2) = None.
Proof. split; reflexivity. Qed.
(* a serde copy keeps the identities of the original: observationally equal, but not fresh (the known finding) *)
Theorem C16_serde_observationally_equal : forall s, obs (serde_copy s) = obs s.
Proof. reflexivity. Qed.
Example C16_serde_identity_reuse : forall s u, In u (uids s) -> In u (uids (serde_copy s)).
Proof. intros s u H. exact H. Qed.

Print Assumptions C16_identities_unique.
Print Assumptions C16_identities_fresh.
Print Assumptions C16_every_request_served.
Print Assumptions C16_clone_observationally_equal.
Print Assumptions C16_bonds_resolve.
Print Assumptions C16_clone_wellformed.
Print Assumptions C16_bonds_after_removal.
Print Assumptions C16_serde_observationally_equal.
