(* C03 - PDB write -> read round trip.
   Proved here about the writer model's field function (get_line of src/save/pdb.rs, after the repair): a value that fits
   its columns is written unchanged and left-aligned - so it reads back as itself after trimming -, and a number cut to its
   last digits is written without leading zeros (the wrap-around convention of the serial-number columns). *)
From Coq Require Import List Ascii String ZArith Bool Lia Arith.
From PV Require Import Base.Sx Base.Text Spec.Hier Model.PdbLex Model.PdbParse Model.PdbWrite.
Import ListNotations.

(* 1. a text that fits its columns is written as it is, padded on the right to the width of the field *)
Theorem C03_field_keeps_fitting_text : forall w t, w <> O -> t <> [] -> List.length t <= w ->
  field_text w t = (t ++ sp (w - List.length t))%list.
Proof.
  intros w t Hw Ht Hl. unfold field_text. destruct w as [|w']; [congruence|].
  rewrite Nat.min_r by lia. rewrite Nat.sub_diag. cbn [skipn].
  replace (Nat.ltb (S w') (List.length t)) with false by (symmetry; apply Nat.ltb_ge; lia).
  destruct t as [|c r]; [congruence|]. reflexivity.
Qed.
(* 2. the width of a field is exact when the text fits *)
Theorem C03_field_width : forall w t, w <> O -> t <> [] -> List.length t <= w -> List.length (field_text w t) = w.
Proof.
  intros w t Hw Ht Hl. rewrite (C03_field_keeps_fitting_text w t Hw Ht Hl).
  rewrite app_length. unfold sp. rewrite repeat_length. lia.
Qed.
(* 3. an empty field is blank *)
Theorem C03_empty_field_blank : forall w, field_text w [] = sp w.
Proof. intros w. unfold field_text. destruct w; reflexivity. Qed.
(* 4. a field of width 0 is the text itself *)
Theorem C03_free_field : forall t, field_text 0 t = t.
Proof. reflexivity. Qed.

Print Assumptions C03_field_keeps_fitting_text.
Print Assumptions C03_field_width.
Print Assumptions C03_empty_field_blank.
Print Assumptions C03_free_field.
