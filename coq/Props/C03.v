(* C03 - PDB write -> read round trip.
   Proved here about the writer model's field function (get_line of src/save/pdb.rs, after the repair): a value that fits
   its columns is written unchanged and left-aligned - so it reads back as itself after trimming -, and a number cut to its
   last digits is written without leading zeros (the wrap-around convention of the serial-number columns). *)
From Coq Require Import List Ascii String ZArith Bool Lia Arith.
From Coq Require Import QArith.
Local Close Scope Q_scope.
From PV Require Import Base.Sx Base.Text Base.Float Spec.Hier Proofs.Decimal Proofs.C01just Model.PdbLex Model.PdbParse Model.PdbWrite Proofs.C03line.
Import ListNotations.

(* 1. a text that fits its columns is written as it is, padded on the right to the width of the field *)
Theorem C03_field_keeps_fitting_text : forall w t, w <> O -> t <> [] -> List.length t <= w ->
  field_text w t = (t ++ sp (w - List.length t))%list.
Proof.
  intros w t Hw Ht Hl. unfold field_text. destruct w as [|w']; [congruence|].
  rewrite Nat.min_r by lia. rewrite Nat.sub_diag. cbn [skipn].
  replace (Nat.ltb (S w') (List.length t)) with false by (symmetry; apply Nat.ltb_ge; lia).
  destruct t as [|c r]; [congruence|]. reflexivity.
Qed.
(* 2. the width of a field is exact when the text fits *)
Theorem C03_field_width : forall w t, w <> O -> t <> [] -> List.length t <= w -> List.length (field_text w t) = w.
Proof.
  intros w t Hw Ht Hl. rewrite (C03_field_keeps_fitting_text w t Hw Ht Hl).
  rewrite app_length. unfold sp. rewrite repeat_length. lia.
Qed.
(* 3. an empty field is blank *)
Theorem C03_empty_field_blank : forall w, field_text w [] = sp w.
Proof. intros w. unfold field_text. destruct w; reflexivity. Qed.
(* 4. a field of width 0 is the text itself *)
Theorem C03_free_field : forall t, field_text 0 t = t.
Proof. reflexivity. Qed.

(* 5. numbers: what the fixed-point formatter prints for a binary64 value m * 2^e with p decimals is read back by the
      decimal parser as exactly r / 10^p, where r is the magnitude rounded (half to even) to p decimals - for every value
      and every precision ... *)
Theorem C03_number_reads_back : forall p nz m e,
  exists q, parse_dec (fmt_fixed p nz (m, e)) = Some q /\
            Qeq q (neg_of ((m <? 0)%Z || nz)%bool (Qmake (fixed_r p m e) (Z.to_pos (10 ^ Z.of_nat p)))).
Proof. exact parse_fmt_fixed. Qed.
(* ... and r is within half a unit of the last decimal of the value: exact for an integer value, and for m * 2^e with e < 0
      |r * 2^-e - |m| * 10^p| <= 2^-e / 2 *)
Theorem C03_number_exact_for_integers : forall p m e, (0 <= e)%Z -> fixed_r p m e = (Z.abs m * 2 ^ e * 10 ^ Z.of_nat p)%Z.
Proof. exact fixed_r_exact. Qed.
Theorem C03_number_rounded_to_precision : forall p m e, (e < 0)%Z ->
  (2 * Z.abs (fixed_r p m e * 2 ^ (- e) - Z.abs m * 10 ^ Z.of_nat p) <= 2 ^ (- e))%Z.
Proof. exact fixed_r_close. Qed.
(* 6. integers: the decimal digits written for a non-negative number read back as that number *)
Theorem C03_integer_reads_back : forall n rest acc cnt, (0 <= n)%Z ->
  match rest with [] => True | c :: _ => digit_of c = None end ->
  digits (show_Zpos n ++ rest) acc cnt = ((acc * 10 ^ Z.of_nat (List.length (show_Zpos n)) + n)%Z, (cnt + Z.of_nat (List.length (show_Zpos n)))%Z, rest).
Proof.
  intros n rest acc cnt Hn Hr. destruct (show_Zpos_spec n Hn) as (A & V & _ & _).
  rewrite (digits_spec (show_Zpos n) rest acc cnt A Hr), V. reflexivity.
Qed.

(* 7. a number field: the fixed-point text the writer puts right-aligned into w columns is read by the reader's field
      function as the binary64 value nearest to the number rounded (half to even) to the p decimals of the column -
      for every finite value that fits the columns *)
Theorem C03_number_field_is_read : forall w p f, w <> O -> p <> O -> num_parts f <> None ->
  List.length (number_text p f) <= w ->
  parse_f64_field (trim (field_text w (fixed w p f))) = Some (number_value p f).
Proof. exact fixed_field_is_read. Qed.
(* ... and a value whose rounding to p decimals is below 10^k fits k + 1 + p columns plus one for its sign *)
Theorem C03_number_width : forall p nz m e k, p <> O -> 0 < k -> (fixed_r p m e < 10 ^ Z.of_nat (k + p))%Z ->
  List.length (fmt_fixed p nz (m, e)) <= (if ((m <? 0)%Z || nz)%bool then 1 else 0) + k + 1 + p.
Proof. exact fmt_fixed_length. Qed.

(* 8. the coordinate record: the line the writer prints for an atom whose fields fit their columns (fits_columns: serial number
      0..99999, names without surrounding blanks of at most 4 / 3 characters, one-character chain id, alternate location and
      insertion code, residue number -999..9999, numbers that fit 8.3 / 6.2, charge -9..9) is lexed by the reader model to
      exactly the atom's serial number, name, alternate location, residue name, chain, residue number, insertion code, element
      and charge, and to its coordinates, occupancy and B factor rounded to the precision of their columns, with no diagnostic *)
Theorem C03_coordinate_record_reads_back : forall ln het a c r ch, fits_columns a c r ch ->
  lex_atom ln (get_line (coord_fields a c r ch)) het =
  (LAtom het {| ab_serial := a_serial a; ab_name := a_name a; ab_alt := c_alt c; ab_resname := c_name c; ab_chain := ch_id ch;
                ab_resnum := r_num r; ab_icode := r_icode r; ab_element := element_text a; ab_charge := a_charge a |}
          (number_value 3 (a_x a)) (number_value 3 (a_y a)) (number_value 3 (a_z a)) (number_value 2 (a_occ a)) (number_value 2 (a_b a)),
   []).
Proof. exact coord_record_read_back. Qed.
(* the record name written for the atom selects the coordinate lexer with the atom's hetero flag, under every option *)
Theorem C03_coordinate_record_dispatch : forall ln a c r ch atomic_only loose,
  lex_line ln (get_line (coord_fields a c r ch)) atomic_only loose = inl (lex_atom ln (get_line (coord_fields a c r ch)) (a_hetero a)).
Proof. exact coord_line_dispatch. Qed.
(* these are the fields the writer model prints for every atom of a chain (chain_lines is save_pdb's atom loop) *)
Theorem C03_writer_prints_coordinate_fields : forall level ch, exists tail_of rest,
  chain_lines level ch =
  (flat_map (fun r => flat_map (fun c => flat_map (fun a => (print_line level (coord_fields a c r ch) ++ tail_of a c r)%list)
     (c_atoms c)) (r_confs r)) (ch_residues ch) ++ rest)%list.
Proof. intros level ch. eexists (fun a c r => _), _. rewrite chain_lines_uses_coord_fields. reflexivity. Qed.
(* the hypotheses are met by ordinary atoms *)
Theorem C03_fits_columns_inhabited : fits_columns ex_atom ex_conf ex_res ex_chain.
Proof. exact ex_fits. Qed.

Print Assumptions C03_field_keeps_fitting_text.
Print Assumptions C03_field_width.
Print Assumptions C03_empty_field_blank.
Print Assumptions C03_free_field.
Print Assumptions C03_number_reads_back.
Print Assumptions C03_number_exact_for_integers.
Print Assumptions C03_number_rounded_to_precision.
Print Assumptions C03_integer_reads_back.
Print Assumptions C03_number_field_is_read.
Print Assumptions C03_number_width.
Print Assumptions C03_coordinate_record_reads_back.
Print Assumptions C03_coordinate_record_dispatch.
Print Assumptions C03_writer_prints_coordinate_fields.
Print Assumptions C03_fits_columns_inhabited.
