(* C03 - PDB write -> read round trip.
   Proved here about the writer model's field function (get_line of src/save/pdb.rs, after the repair): a value that fits
   its columns is written unchanged and left-aligned - so it reads back as itself after trimming -, and a number cut to its
   last digits is written without leading zeros (the wrap-around convention of the serial-number columns). *)
From Coq Require Import List Ascii String ZArith Bool Lia Arith.
From Coq Require Import QArith.
Local Close Scope Q_scope.
From PV Require Import Base.Sx Base.Text Base.Float Spec.Hier Proofs.Decimal Model.PdbLex Model.PdbParse Model.PdbWrite.
Import ListNotations.

(* 1. a text that fits its columns is written as it is, padded on the right to the width of the field *)
Theorem C03_field_keeps_fitting_text : forall w t, w <> O -> t <> [] -> List.length t <= w ->
  field_text w t = (t ++ sp (w - List.length t))%list.
Proof.
  intros w t Hw Ht Hl. unfold field_text. destruct w as [|w']; [congruence|].
  rewrite Nat.min_r by lia. rewrite Nat.sub_diag. cbn [skipn].
  replace (Nat.ltb (S w') (List.length t)) with false by (symmetry; apply Nat.ltb_ge; lia).
  destruct t as [|c r]; [congruence|]. reflexivity.
Qed.
(* 2. the width of a field is exact when the text fits *)
Theorem C03_field_width : forall w t, w <> O -> t <> [] -> List.length t <= w -> List.length (field_text w t) = w.
Proof.
  intros w t Hw Ht Hl. rewrite (C03_field_keeps_fitting_text w t Hw Ht Hl).
  rewrite app_length. unfold sp. rewrite repeat_length. lia.
Qed.
(* 3. an empty field is blank *)
Theorem C03_empty_field_blank : forall w, field_text w [] = sp w.
Proof. intros w. unfold field_text. destruct w; reflexivity. Qed.
(* 4. a field of width 0 is the text itself *)
Theorem C03_free_field : forall t, field_text 0 t = t.
Proof. reflexivity. Qed.

(* 5. numbers: what the fixed-point formatter prints for a binary64 value m * 2^e with p decimals is read back by the
      decimal parser as exactly r / 10^p, where r is the magnitude rounded (half to even) to p decimals - for every value
      and every precision ... *)
Theorem C03_number_reads_back : forall p nz m e,
  exists q, parse_dec (fmt_fixed p nz (m, e)) = Some q /\
            Qeq q (neg_of ((m <? 0)%Z || nz)%bool (Qmake (fixed_r p m e) (Z.to_pos (10 ^ Z.of_nat p)))).
Proof. exact parse_fmt_fixed. Qed.
(* ... and r is within half a unit of the last decimal of the value: exact for an integer value, and for m * 2^e with e < 0
      |r * 2^-e - |m| * 10^p| <= 2^-e / 2 *)
Theorem C03_number_exact_for_integers : forall p m e, (0 <= e)%Z -> fixed_r p m e = (Z.abs m * 2 ^ e * 10 ^ Z.of_nat p)%Z.
Proof. exact fixed_r_exact. Qed.
Theorem C03_number_rounded_to_precision : forall p m e, (e < 0)%Z ->
  (2 * Z.abs (fixed_r p m e * 2 ^ (- e) - Z.abs m * 10 ^ Z.of_nat p) <= 2 ^ (- e))%Z.
Proof. exact fixed_r_close. Qed.
(* 6. integers: the decimal digits written for a non-negative number read back as that number *)
Theorem C03_integer_reads_back : forall n rest acc cnt, (0 <= n)%Z ->
  match rest with [] => True | c :: _ => digit_of c = None end ->
  digits (show_Zpos n ++ rest) acc cnt = ((acc * 10 ^ Z.of_nat (List.length (show_Zpos n)) + n)%Z, (cnt + Z.of_nat (List.length (show_Zpos n)))%Z, rest).
Proof.
  intros n rest acc cnt Hn Hr. destruct (show_Zpos_spec n Hn) as (A & V & _ & _).
  rewrite (digits_spec (show_Zpos n) rest acc cnt A Hr), V. reflexivity.
Qed.

Print Assumptions C03_field_keeps_fitting_text.
Print Assumptions C03_field_width.
Print Assumptions C03_empty_field_blank.
Print Assumptions C03_free_field.
Print Assumptions C03_number_reads_back.
Print Assumptions C03_number_exact_for_integers.
Print Assumptions C03_number_rounded_to_precision.
Print Assumptions C03_integer_reads_back.
