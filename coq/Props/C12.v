(* C12 — structured search selects exactly the atoms for which the expression is true. *)
From Coq Require Import List Ascii ZArith Bool.
From PV Require Import Base.Sx Base.Text Base.Kleene Spec.Hier Model.Search.
Import ListNotations.

Notation srch := (search term).

Lemma eval3_ext (v1 v2 : valuation term) q : (forall t, v1 t = v2 t) -> eval3 term v1 q = eval3 term v2 q.
Proof. intros H. induction q as [[] a IHa b IHb|a IH|t|b]; simpl; rewrite ?IHa, ?IHb, ?IH, ?H; reflexivity. Qed.

(* base level: Conformer::find after any stages already applied *)
Lemma conf_ok : forall ms q c,
  Conformer_find c (staged term ms q) = filter (fun a => holds term (ms ++ [v_atom a]) q) (awh_conf c).
Proof.
  intros ms q c. unfold Conformer_find, awh_conf. apply filter_ext. intros a.
  change (add_info term (v_atom a) (staged term ms q)) with (staged term [v_atom a] (staged term ms q)).
  rewrite <- staged_app. apply sel_staged.
Qed.
Lemma res_ok : forall ms q r,
  Residue_find r (staged term ms q) =
  filter (fun tc => holds term (ms ++ [v_conf (snd tc); v_atom (fst tc)]) q) (awh_res r).
Proof. intros. apply (parent_ok term residue conformer atom r_confs v_conf Conformer_find awh_conf (fun a => [v_atom a])); [discriminate|apply conf_ok]. Qed.
Lemma chain_ok : forall ms q c,
  Chain_find c (staged term ms q) =
  filter (fun t => holds term (ms ++ [v_res (snd t); v_conf (snd (fst t)); v_atom (fst (fst t))]) q) (awh_chain c).
Proof. intros. apply (parent_ok term chain residue (atom * conformer) ch_residues v_res Residue_find awh_res
                        (fun tc => [v_conf (snd tc); v_atom (fst tc)])); [discriminate|apply res_ok]. Qed.
Lemma model_ok : forall ms q m,
  Model_find m (staged term ms q) =
  filter (fun t => holds term (ms ++ [v_chain (snd t); v_res (snd (fst t)); v_conf (snd (fst (fst t))); v_atom (fst (fst (fst t)))]) q) (awh_model m).
Proof. intros. apply (parent_ok term model chain (atom * conformer * residue) m_chains v_chain Chain_find awh_chain
                        (fun t => [v_res (snd t); v_conf (snd (fst t)); v_atom (fst (fst t))])); [discriminate|apply chain_ok]. Qed.
Lemma pdb_ok : forall ms q p,
  PDB_find p (staged term ms q) =
  filter (fun t => holds term (ms ++ [v_model (snd t); v_chain (snd (fst t)); v_res (snd (fst (fst t)));
                                    v_conf (snd (fst (fst (fst t)))); v_atom (fst (fst (fst (fst t))))]) q) (awh_pdb p).
Proof. intros. apply (parent_ok term pdb model (atom * conformer * residue * chain) (fun p => p) v_model Model_find awh_model
                        (fun t => [v_chain (snd t); v_res (snd (fst t)); v_conf (snd (fst (fst t))); v_atom (fst (fst (fst t)))]));
       [discriminate|apply model_ok]. Qed.

(* the stage-by-stage valuation is the declarative meaning of each term on the atom and the ancestors in the tuple *)
Lemma sem5 m ch r c a t :
  first_some term [v_model m; v_chain ch; v_res r; v_conf c; v_atom a] t =
  term_sem {| an_model := Some m; an_chain := Some ch; an_res := Some r; an_conf := Some c |} a t.
Proof. destruct t; simpl; unfold orelse, unk; simpl; try reflexivity; try (destruct (a_elem a); reflexivity); destruct (is_amino_acid c); reflexivity. Qed.
Lemma sem4 ch r c a t :
  first_some term [v_chain ch; v_res r; v_conf c; v_atom a] t =
  term_sem {| an_model := None; an_chain := Some ch; an_res := Some r; an_conf := Some c |} a t.
Proof. destruct t; simpl; unfold orelse, unk; simpl; try reflexivity; try (destruct (a_elem a); reflexivity); destruct (is_amino_acid c); reflexivity. Qed.
Lemma sem3 r c a t :
  first_some term [v_res r; v_conf c; v_atom a] t =
  term_sem {| an_model := None; an_chain := None; an_res := Some r; an_conf := Some c |} a t.
Proof. destruct t; simpl; unfold orelse, unk; simpl; try reflexivity; try (destruct (a_elem a); reflexivity); destruct (is_amino_acid c); reflexivity. Qed.
Lemma sem2 c a t :
  first_some term [v_conf c; v_atom a] t =
  term_sem {| an_model := None; an_chain := None; an_res := None; an_conf := Some c |} a t.
Proof. destruct t; simpl; unfold orelse, unk; simpl; try reflexivity; try (destruct (a_elem a); reflexivity); destruct (is_amino_acid c); reflexivity. Qed.
Lemma sem1 a t :
  first_some term [v_atom a] t = term_sem {| an_model := None; an_chain := None; an_res := None; an_conf := None |} a t.
Proof. destruct t; simpl; unfold orelse; simpl; try reflexivity; destruct (a_elem a); reflexivity. Qed.

(* ----- the property, at every level: find returns, in traversal order, exactly the tuples whose expression is
         not false under strong Kleene evaluation of the declarative term semantics; any expression, any structure ----- *)
Theorem C12_pdb_find : forall (p : pdb) (q : srch),
  PDB_find p q = filter (fun t => let '(a, c, r, ch, m) := t in
     selected {| an_model := Some m; an_chain := Some ch; an_res := Some r; an_conf := Some c |} a q) (awh_pdb p).
Proof.
  intros p q. change q with (staged term [] q) at 1. rewrite (pdb_ok [] q p). apply filter_ext. intros [[[[a c] r] ch] m]. simpl.
  unfold holds, selected. now rewrite (eval3_ext _ _ q (sem5 m ch r c a)).
Qed.
Theorem C12_model_find : forall (m : model) (q : srch),
  Model_find m q = filter (fun t => let '(a, c, r, ch) := t in
     selected {| an_model := None; an_chain := Some ch; an_res := Some r; an_conf := Some c |} a q) (awh_model m).
Proof.
  intros m q. change q with (staged term [] q) at 1. rewrite (model_ok [] q m). apply filter_ext. intros [[[a c] r] ch]. simpl.
  unfold holds, selected. now rewrite (eval3_ext _ _ q (sem4 ch r c a)).
Qed.
Theorem C12_chain_find : forall (ch : chain) (q : srch),
  Chain_find ch q = filter (fun t => let '(a, c, r) := t in
     selected {| an_model := None; an_chain := None; an_res := Some r; an_conf := Some c |} a q) (awh_chain ch).
Proof.
  intros ch q. change q with (staged term [] q) at 1. rewrite (chain_ok [] q ch). apply filter_ext. intros [[a c] r]. simpl.
  unfold holds, selected. now rewrite (eval3_ext _ _ q (sem3 r c a)).
Qed.
Theorem C12_residue_find : forall (r : residue) (q : srch),
  Residue_find r q = filter (fun t => let '(a, c) := t in
     selected {| an_model := None; an_chain := None; an_res := None; an_conf := Some c |} a q) (awh_res r).
Proof.
  intros r q. change q with (staged term [] q) at 1. rewrite (res_ok [] q r). apply filter_ext. intros [a c]. simpl.
  unfold holds, selected. now rewrite (eval3_ext _ _ q (sem2 c a)).
Qed.
Theorem C12_conformer_find : forall (c : conformer) (q : srch),
  Conformer_find c q = filter (fun a =>
     selected {| an_model := None; an_chain := None; an_res := None; an_conf := None |} a q) (c_atoms c).
Proof.
  intros c q. change q with (staged term [] q) at 1. rewrite (conf_ok [] q c). apply filter_ext. intros a. simpl.
  unfold holds, selected. now rewrite (eval3_ext _ _ q (sem1 a)).
Qed.

(* the partial evaluation itself: folding and staging agree with Kleene evaluation for every expression tree *)
Theorem C12_staged_kleene : forall (m : valuation term) ms (q : srch),
  complete term (staged term (m :: ms) q) = eval3 term (first_some term (m :: ms)) q.
Proof. intros. apply staged_kleene. Qed.
Theorem C12_simplify_sound : forall (v : valuation term) (q : srch), eval3 term v (simplify term q) = eval3 term v q.
Proof. intros. apply eval_simplify. Qed.

From Coq Require Import String.
Local Open Scope string_scope.
(* non-vacuity: an element term on an atom without element is unknown; negation keeps it unknown and the atom is selected,
   while a decided false conjunct rejects it *)
Definition ex_a : atom := {| a_hetero := false; a_serial := 7; a_id := []; a_name := stext "CA"; a_x := FNaN; a_y := FNaN; a_z := FNaN;
                             a_occ := FNaN; a_b := FNaN; a_elem := None; a_charge := 0; a_atf := None |}.
Definition ex_c : conformer := {| c_name := stext "ALA"; c_alt := None; c_mod := None; c_atoms := [ex_a] |}.
Example C12_witness :
  Conformer_find ex_c (Not term (Single term (Elem 6))) = [ex_a] /\
  Conformer_find ex_c (Ops term And (Not term (Single term (Elem 6))) (Single term (AtomSerial 8))) = [] /\
  Residue_find {| r_num := 1; r_icode := None; r_confs := [ex_c] |} (Single term Backbone) = [(ex_a, ex_c)].
Proof. repeat split; vm_compute; reflexivity. Qed.

Print Assumptions C12_pdb_find.
Print Assumptions C12_model_find.
Print Assumptions C12_chain_find.
Print Assumptions C12_residue_find.
Print Assumptions C12_conformer_find.
Print Assumptions C12_staged_kleene.
Print Assumptions C12_simplify_sound.
