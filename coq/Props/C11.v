(* C11 — sorting and renumbering give canonical order; binary lookup equals linear scan. *)
From Coq Require Import List Ascii ZArith Bool Arith Lia Permutation.
From PV Require Import Base.Sx Base.Text Base.Sorting2 Spec.Hier Model.SortRenumber Model.BinFind Proofs.C11find Proofs.C11renum.
Import ListNotations.

(* 1. every sort of the family is a stable sort by the level's identifier: ordered, nothing added or lost,
      ties in their previous order; and these three facts determine the result (so the statement does not
      depend on which stable algorithm std or rayon use) *)
Theorem C11_sort_atoms : forall c,
  sorted atom atom_cmp (c_atoms (Conformer_sort c)) /\
  Permutation (c_atoms c) (c_atoms (Conformer_sort c)) /\
  (forall a, filter (eqv atom atom_cmp a) (c_atoms (Conformer_sort c)) = filter (eqv atom atom_cmp a) (c_atoms c)).
Proof. intros c. repeat split; [apply ssort_sorted, good_atom|apply ssort_perm|intros; apply ssort_stable, good_atom]. Qed.
Theorem C11_sort_conformers : forall r,
  sorted conformer conformer_cmp (r_confs (Residue_sort r)) /\
  Permutation (r_confs r) (r_confs (Residue_sort r)) /\
  (forall a, filter (eqv conformer conformer_cmp a) (r_confs (Residue_sort r)) = filter (eqv conformer conformer_cmp a) (r_confs r)).
Proof. intros c. repeat split; [apply ssort_sorted, good_conformer|apply ssort_perm|intros; apply ssort_stable, good_conformer]. Qed.
Theorem C11_sort_residues : forall c,
  sorted residue residue_cmp (ch_residues (Chain_sort c)) /\
  Permutation (ch_residues c) (ch_residues (Chain_sort c)) /\
  (forall a, filter (eqv residue residue_cmp a) (ch_residues (Chain_sort c)) = filter (eqv residue residue_cmp a) (ch_residues c)).
Proof. intros c. repeat split; [apply ssort_sorted, good_residue|apply ssort_perm|intros; apply ssort_stable, good_residue]. Qed.
Theorem C11_sort_chains : forall m,
  sorted chain chain_cmp (m_chains (Model_sort m)) /\
  Permutation (m_chains m) (m_chains (Model_sort m)) /\
  (forall a, filter (eqv chain chain_cmp a) (m_chains (Model_sort m)) = filter (eqv chain chain_cmp a) (m_chains m)).
Proof. intros c. repeat split; [apply ssort_sorted, good_chain|apply ssort_perm|intros; apply ssort_stable, good_chain]. Qed.
Theorem C11_sort_models : forall p,
  sorted model model_cmp (PDB_sort p) /\ Permutation p (PDB_sort p) /\
  (forall a, filter (eqv model model_cmp a) (PDB_sort p) = filter (eqv model model_cmp a) p).
Proof. intros c. repeat split; [apply ssort_sorted, good_model|apply ssort_perm|intros; apply ssort_stable, good_model]. Qed.
Theorem C11_stable_sort_determined : forall (A : Type) (cmp : A -> A -> comparison), good_cmp cmp ->
  forall l l', sorted A cmp l' -> (forall a, filter (eqv A cmp a) l' = filter (eqv A cmp a) l) -> l' = ssort A cmp l.
Proof. intros. now apply stable_sort_unique. Qed.
Theorem C11_sort_idempotent : forall (A : Type) (cmp : A -> A -> comparison), good_cmp cmp ->
  forall l, ssort A cmp (ssort A cmp l) = ssort A cmp l.
Proof. intros. now apply ssort_idem. Qed.

(* 2. slice::binary_search_by (size-halving loop): for any comparator that is "not Greater" on a prefix of
      length k and Greater after it, with the Equal elements at the end of the prefix, the result is the last
      element of the prefix exactly when an Equal element exists *)
Theorem C11_binary_search : forall (f : nat -> comparison) (n k : nat),
  k <= n -> (forall i, i < k -> f i <> Gt) -> (forall i, k <= i -> i < n -> f i = Gt) ->
  (forall i j, i <= j -> j < k -> f i = Eq -> f j = Eq) -> 1 <= n ->
  match bsearch f n with
  | Some b => f b = Eq /\ b = k - 1 /\ 1 <= k
  | None => forall i, i < n -> f i <> Eq
  end.
Proof. intros. now apply bsearch_correct. Qed.

(* non-vacuity and the defect that was repaired: on a renumbered two-residue chain the look-up with the
   comparator as shipped (range above the target = Less) misses an atom that the linear scan finds *)
Definition ex_atom (n : Z) : atom :=
  {| a_hetero := false; a_serial := n; a_id := []; a_name := []; a_x := FNaN; a_y := FNaN; a_z := FNaN;
     a_occ := FNaN; a_b := FNaN; a_elem := None; a_charge := 0; a_atf := None |}.
Definition ex_res (num : Z) (serials : list Z) : residue :=
  {| r_num := num; r_icode := None; r_confs := [ {| c_name := []; c_alt := None; c_mod := None; c_atoms := map ex_atom serials |} ] |}.
Definition ex_chain : chain := {| ch_id := []; ch_residues := [ex_res 1 [1; 2]; ex_res 2 [3; 4]; ex_res 3 [5]]%Z |}.
Example C11_lookup_witness :
  option_map (fun x => a_serial (fst (fst x))) (Chain_bfind range_cmp ex_chain 5 None) = Some 5%Z /\
  option_map (fun x => a_serial (fst (fst (fst x)))) (lin_chain ex_chain 5 None) = Some 5%Z.
Proof. split; vm_compute; reflexivity. Qed.
Example C11_inverted_comparator_refuted :
  Chain_bfind range_cmp_inverted ex_chain 5 None = None /\ lin_chain ex_chain 5 None <> None.
Proof. split; vm_compute; [reflexivity|discriminate]. Qed.

(* the binary look-up is the linear scan: at every level, for every structure whose atom serial numbers increase strictly in
   traversal order and that has no empty container, every serial number and every alternate location *)
Theorem C11_binary_find_is_linear_find_conformer : forall c n, increasing (serials (c_atoms c)) = true ->
  Conformer_bfind c n = find (fun a => Z.eqb (a_serial a) n) (c_atoms c).
Proof. exact Conformer_bfind_linear. Qed.
Theorem C11_binary_find_is_linear_find_chain : forall c n alt,
  (forall r, In r (ch_residues c) -> r_atoms r <> []) -> increasing (serials (ch_atoms c)) = true ->
  option_map (fun x => (x, c)) (Chain_bfind range_cmp c n alt) = lin_chain c n alt.
Proof. exact Chain_bfind_linear. Qed.
Theorem C11_binary_find_is_linear_find_model : forall m n alt,
  (forall c, In c (m_chains m) -> ch_atoms c <> [] /\ forall r, In r (ch_residues c) -> r_atoms r <> []) ->
  increasing (serials (m_atoms m)) = true ->
  option_map (fun x => (x, m)) (Model_bfind range_cmp m n alt) = lin_model m n alt.
Proof. exact Model_bfind_linear. Qed.
Theorem C11_binary_find_is_linear_find : forall p n alt,
  match p with
  | [] => True
  | m :: _ => (forall c, In c (m_chains m) -> ch_atoms c <> [] /\ forall r, In r (ch_residues c) -> r_atoms r <> []) /\
              increasing (serials (m_atoms m)) = true
  end -> PDB_bfind range_cmp p n alt = lin_pdb p n alt.
Proof. exact PDB_bfind_linear. Qed.

(* renumber hands out the serial numbers 1, 2, 3, ... in traversal order, so on every renumbered structure without empty
   containers the binary look-up is the linear scan *)
Theorem C11_renumbered_serials_increase : forall p,
  match renumber p with [] => True | m :: _ => increasing (serials (m_atoms m)) = true end.
Proof. exact renumbered_increasing. Qed.
Theorem C11_binary_find_on_renumbered : forall p n alt,
  (forall m, In m p -> forall c, In c (m_chains m) -> ch_residues c <> [] /\ forall r, In r (ch_residues c) -> r_atoms r <> []) ->
  PDB_bfind range_cmp (renumber p) n alt = lin_pdb (renumber p) n alt.
Proof. exact renumbered_find. Qed.

Print Assumptions C11_sort_atoms.
Print Assumptions C11_sort_conformers.
Print Assumptions C11_sort_residues.
Print Assumptions C11_sort_chains.
Print Assumptions C11_sort_models.
Print Assumptions C11_stable_sort_determined.
Print Assumptions C11_sort_idempotent.
Print Assumptions C11_binary_search.
Print Assumptions C11_binary_find_is_linear_find_conformer.
Print Assumptions C11_binary_find_is_linear_find_chain.
Print Assumptions C11_binary_find_is_linear_find_model.
Print Assumptions C11_binary_find_is_linear_find.
Print Assumptions C11_renumbered_serials_increase.
Print Assumptions C11_binary_find_on_renumbered.
