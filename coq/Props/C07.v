(* C07 — strictness level alone decides accept/reject, monotonically, for read and save.
   Statements only; each closed by a direct proof term or a short tactic proof over the regenerated table. *)
From Coq Require Import List Bool Ascii.
From PV Require Import Base.Sx Gen.LevelTable Spec.LevelsSpec Model.Levels.
Import ListNotations.

(* 1. the table in the code is the documented table (all 15 pairs, by computation on the regenerated definition) *)
Theorem C07_fails_table : forall e l, fails e l = fails_doc (eE e) (eS l).
Proof. intros e l; destruct e, l; reflexivity. Qed.

Theorem C07_enum_bijection : (forall e, Ee (eE e) = e) /\ (forall e, eE (Ee e) = e)
                          /\ (forall l, Se (eS l) = l) /\ (forall l, eS (Se l) = l).
Proof. repeat split; intros x; destruct x; reflexivity. Qed.

(* 2. monotone in the level: what fails at a looser level fails at every stricter level *)
Theorem C07_fails_monotone : forall e a b, looser (eS a) (eS b) = true -> fails e b = true -> fails e a = true.
Proof. intros e a b; destruct e, a, b; simpl; intros; congruence. Qed.

(* 3. gate laws *)
Theorem C07_gate_contract : forall (A : Type) l (a : A) ds,
  gate_contract (eS l) a (map eE ds) (gate l a ds).
Proof.
  intros A l a ds. unfold gate_contract, gate.
  assert (H : existsb (fun e => fails_doc e (eS l)) (map eE ds) = existsb (fun e => fails e l) ds).
  { induction ds as [|d ds IH]; simpl; [reflexivity|]. now rewrite IH, C07_fails_table. }
  rewrite H. destruct (existsb _ ds); split; intros; congruence.
Qed.

Theorem C07_reject_nonempty : forall (A : Type) l (a : A) ds rs,
  gate l a ds = Rejected rs -> rs <> [] /\ exists e, In e ds /\ fails e l = true.
Proof.
  intros A l a ds rs. unfold gate. destruct (existsb _ ds) eqn:E; [|discriminate].
  intros H; injection H as <-. apply existsb_exists in E as [e [Hin Hf]].
  split; [|now exists e]. destruct ds; [contradiction|discriminate].
Qed.

Theorem C07_accept_all_pass : forall (A : Type) l (a : A) ds b rs,
  gate l a ds = Accepted b rs -> b = a /\ rs = map eE ds /\ forall e, In e ds -> fails e l = false.
Proof.
  intros A l a ds b rs. unfold gate. destruct (existsb _ ds) eqn:E; [discriminate|].
  intros H; injection H as <- <-. repeat split; try reflexivity.
  intros e Hin. destruct (fails e l) eqn:F; [|reflexivity].
  assert (existsb (fun e => fails e l) ds = true) by (apply existsb_exists; now exists e). congruence.
Qed.

(* 4. acceptance is monotone for any reader whose diagnostics shrink (as sets) towards looser levels and whose
      structure does not depend on the level.  Both readers have this shape: the only level-dependent step is
      lex_remark, which turns an over-long REMARK into a GeneralWarning unless the level is Loose. *)
Section Reader.
  Variables (T A : Type) (structure : T -> A) (diags : StrictnessLevel -> T -> list ErrorLevel).
  Hypothesis diags_shrink : forall a b t, looser (eS a) (eS b) = true -> incl (diags b t) (diags a t).
  Definition read (l : StrictnessLevel) (t : T) := gate l (structure t) (diags l t).

  Theorem C07_accept_monotone : forall a b t s ds,
    looser (eS a) (eS b) = true -> read a t = Accepted s ds ->
    exists ds', read b t = Accepted s ds'.
  Proof.
    intros a b t s ds Hl Ha. apply C07_accept_all_pass in Ha as [-> [_ Hall]].
    unfold read, gate. destruct (existsb _ (diags b t)) eqn:E.
    - apply existsb_exists in E as [e [Hin Hf]].
      apply (diags_shrink a b t Hl) in Hin. apply Hall in Hin.
      apply (C07_fails_monotone e a b Hl) in Hf. congruence.
    - eexists; reflexivity.
  Qed.
End Reader.

(* 5. a refused save leaves the file map untouched; an accepted save changes exactly the target *)
Theorem C07_save_refused_unchanged : forall l ds ok content f p r f',
  save_gate l ds ok content f p = (r, f') -> r <> SaveOk -> f' = f.
Proof.
  intros l ds ok content f p r f'. unfold save_gate.
  destruct (existsb _ ds); [intros H; now injection H as <- <-|].
  destruct ok; intros H; injection H as <- <-; [congruence|reflexivity].
Qed.
Theorem C07_save_refused_iff : forall l ds content f p,
  (exists e, In e ds /\ fails e l = true) <-> fst (save_gate l ds true content f p) <> SaveOk.
Proof.
  intros l ds content f p. unfold save_gate. destruct (existsb _ ds) eqn:E; simpl.
  - split; [discriminate|]. intros _. apply existsb_exists in E. exact E.
  - split; [|congruence]. intros [e [Hin Hf]].
    assert (existsb (fun e => fails e l) ds = true) by (apply existsb_exists; now exists e). congruence.
Qed.
Lemma fs_get_set_same f p c : fs_get (fs_set f p c) p = Some c.
Proof.
  induction f as [|[q d] r IH]; simpl.
  - destruct (list_eq_dec ascii_dec p p); congruence.
  - destruct (list_eq_dec ascii_dec p q) eqn:E; simpl; rewrite E; auto.
Qed.
Lemma fs_get_set_other f p q c : q <> p -> fs_get (fs_set f p c) q = fs_get f q.
Proof.
  intros N. induction f as [|[r d] f IH]; simpl.
  - destruct (list_eq_dec ascii_dec q p); congruence.
  - destruct (list_eq_dec ascii_dec p r) eqn:E; simpl.
    + subst r. destruct (list_eq_dec ascii_dec q p); congruence.
    + destruct (list_eq_dec ascii_dec q r); auto.
Qed.
Theorem C07_save_ok_frame : forall l ds content f p f',
  save_gate l ds true content f p = (SaveOk, f') ->
  fs_get f' p = Some content /\ forall q, q <> p -> fs_get f' q = fs_get f q.
Proof.
  intros l ds content f p f'. unfold save_gate. destruct (existsb _ ds); [discriminate|].
  intros H; injection H as <-. split; [apply fs_get_set_same|intros; now apply fs_get_set_other].
Qed.

(* the oracle used by the correspondence is the model's wrapper *)
Theorem C07_save_gate_doc : forall l ds ok content f p,
  save_gate l ds ok content f p = save_gate_doc (eS l) (map eE ds) ok content f p.
Proof.
  intros. unfold save_gate, save_gate_doc.
  assert (H : existsb (fun e => fails_doc e (eS l)) (map eE ds) = existsb (fun e => fails e l) ds).
  { induction ds as [|d ds IH]; simpl; [reflexivity|]. now rewrite IH, C07_fails_table. }
  rewrite H. reflexivity.
Qed.

(* non-vacuity: a concrete diagnostic list accepted at Loose, rejected at Medium *)
Example C07_witness :
  gate Loose tt [GeneralWarning; LooseWarning] = Accepted tt [EGeneralW; ELooseW] /\
  gate Medium tt [GeneralWarning; LooseWarning] = Rejected [EGeneralW; ELooseW].
Proof. split; reflexivity. Qed.

Print Assumptions C07_fails_table.
Print Assumptions C07_fails_monotone.
Print Assumptions C07_gate_contract.
Print Assumptions C07_reject_nonempty.
Print Assumptions C07_accept_all_pass.
Print Assumptions C07_accept_monotone.
Print Assumptions C07_save_refused_unchanged.
Print Assumptions C07_save_refused_iff.
Print Assumptions C07_save_ok_frame.
Print Assumptions C07_save_gate_doc.
