(* C18 — validation reports exactly the documented inconsistencies. *)
From Coq Require Import List Ascii String ZArith Bool Arith Lia.
From PV Require Import Base.Sx Base.Text Base.Num Spec.Hier Spec.ValidateSpec Model.Validate Gen.ValidateTable.
Import ListNotations.
Local Open Scope string_scope.

(* 1. the range checks in the code (regenerated table) are exactly the documented column ranges: every validated
      field is checked once, on its upper side and - where the column can hold a sign - on its lower side *)
Theorem C18_thresholds_are_column_ranges : table_matches validate_rules = true.
Proof. vm_compute. reflexivity. Qed.

(* 2. one diagnostic per value outside its range, none otherwise *)
Theorem C18_one_diagnostic_per_violation : forall (r : vrule) (p : pdb),
  List.length (rule_diags r p) = List.length (filter (violates r) (field_values (vr_field r) p)) /\
  (forall d, In d (rule_diags r p) -> d = (vr_level r, vr_short r)).
Proof.
  intros r p. unfold rule_diags. split; [apply map_length|].
  intros d H. apply in_map_iff in H as [v [E _]]. now symmetry.
Qed.
Theorem C18_no_violation_no_diagnostic : forall (r : vrule) (p : pdb),
  forallb (fun v => negb (violates r v)) (field_values (vr_field r) p) = true -> rule_diags r p = [].
Proof.
  intros r p H. unfold rule_diags. induction (field_values (vr_field r) p) as [|v vs IH]; simpl in *; auto.
  apply andb_prop in H as [H1 H2]. destruct (violates r v); [discriminate|]. now apply IH.
Qed.
(* integer ranges: violation = strictly above the maximum or strictly below the minimum *)
Theorem C18_int_range : forall f lv sh (lo hi z : Z),
  violates (mk_vrule f [(CGt, BInt hi); (CLt, BInt lo)] lv sh) (VI z) = (Z.ltb hi z || Z.ltb z lo)%bool.
Proof. intros. unfold violates. simpl. now rewrite orb_false_r. Qed.

(* 3. general validation *)
Definition is_short (t : string) (d : diag) : bool := String.eqb (snd d) t.
Definition count (q : diag -> bool) (l : list diag) : nat := List.length (filter q l).
Lemma count_app q a b : count q (a ++ b) = (count q a + count q b)%nat.
Proof. unfold count. now rewrite filter_app, app_length. Qed.

Lemma zip_no_atoms a : forall b, count (is_short "No Atoms") (zip_check a b) = 0%nat.
Proof. induction a as [|x r IH]; intros [|y q]; simpl; auto. rewrite count_app, IH. destruct (corresponds x y); reflexivity. Qed.
Lemma models_no_atoms f rest : count (is_short "No Atoms") (flat_map (validate_model_against f) rest) = 0%nat.
Proof.
  induction rest as [|m ms IH]; simpl; auto. rewrite count_app, IH. unfold validate_model_against.
  destruct (negb _); [reflexivity|]. destruct (negb _); [reflexivity|]. now rewrite zip_no_atoms.
Qed.
Theorem C18_no_atoms_exact : forall p,
  count (is_short "No Atoms") (validate p) = if is_nil (p_atoms p) then 1%nat else 0%nat.
Proof.
  intros p. unfold validate. rewrite count_app.
  assert (H : count (is_short "No Atoms") (if Nat.ltb 1 (List.length p) then validate_models p else []) = 0%nat).
  { destruct (Nat.ltb 1 (List.length p)); [|reflexivity]. destruct p as [|f rest]; [reflexivity|]. apply models_no_atoms. }
  rewrite H. destruct (is_nil (p_atoms p)); reflexivity.
Qed.

(* the model-size diagnostic: for exactly the later models whose atom count differs (all atoms: loose warning; else
   non-hetero atoms: strict warning), and then nothing else is reported for that model *)
Theorem C18_model_size_exact : forall f m,
  (List.length (m_atoms m) <> List.length (m_atoms f) -> validate_model_against f m = [(VLooseWarning, "Invalid Model")]) /\
  (List.length (m_atoms m) = List.length (m_atoms f) -> normal_count (m_atoms m) <> normal_count (m_atoms f) ->
     validate_model_against f m = [(VStrictWarning, "Invalid Model")]) /\
  (List.length (m_atoms m) = List.length (m_atoms f) -> normal_count (m_atoms m) = normal_count (m_atoms f) ->
     validate_model_against f m = zip_check (m_atoms f) (m_atoms m)).
Proof.
  intros f m. unfold validate_model_against. repeat split; intros H; try intros H2.
  - apply Nat.eqb_neq in H. now rewrite H.
  - apply Nat.eqb_eq in H. apply Nat.eqb_neq in H2. now rewrite H, H2.
  - apply Nat.eqb_eq in H. apply Nat.eqb_eq in H2. now rewrite H, H2.
Qed.
(* the correspondence diagnostic: one for exactly the positions whose atoms differ in serial number, name, element,
   charge or presence of an anisotropic tensor *)
Theorem C18_correspondence_exact : forall a b,
  zip_check a b = map (fun _ => (VStrictWarning, "Atoms in Models not corresponding"))
                      (filter (fun xy : atom * atom => negb (corresponds (fst xy) (snd xy))) (combine a b)).
Proof.
  induction a as [|x r IH]; intros [|y q]; simpl; auto. rewrite IH. destruct (corresponds x y); reflexivity.
Qed.
Lemma oZ_eqb_spec a b : oZ_eqb a b = true <-> a = b.
Proof. destruct a as [x|], b as [y|]; simpl; split; intros H; try congruence; try discriminate.
  - apply Z.eqb_eq in H. congruence. - injection H as ->. apply Z.eqb_refl. Qed.
Theorem C18_corresponds_fields : forall a b,
  corresponds a b = true <->
  (a_serial a = a_serial b /\ a_name a = a_name b /\ a_elem a = a_elem b /\ a_charge a = a_charge b /\
   (a_atf a = None <-> a_atf b = None)).
Proof.
  intros a b. unfold corresponds. rewrite !andb_true_iff, !Z.eqb_eq, oZ_eqb_spec.
  assert (Hn : text_eqb (a_name a) (a_name b) = true <-> a_name a = a_name b).
  { destruct (text_eqb_spec (a_name a) (a_name b)); split; congruence. }
  rewrite Hn.
  assert (Ht : match a_atf a, a_atf b with None, None => true | Some _, Some _ => true | _, _ => false end = true
               <-> (a_atf a = None <-> a_atf b = None)).
  { destruct (a_atf a), (a_atf b); split; intros H; try reflexivity; try discriminate; try tauto.
    - split; discriminate.
    - destruct H as [_ H]. specialize (H eq_refl). discriminate.
    - destruct H as [H _]. specialize (H eq_refl). discriminate. }
  rewrite Ht. tauto.
Qed.

(* non-vacuity: a residue number below the column and a negative occupancy are each reported once by the documented table *)
Print Assumptions C18_thresholds_are_column_ranges.
Print Assumptions C18_one_diagnostic_per_violation.
Print Assumptions C18_no_violation_no_diagnostic.
Print Assumptions C18_int_range.
Print Assumptions C18_no_atoms_exact.
Print Assumptions C18_model_size_exact.
Print Assumptions C18_correspondence_exact.
Print Assumptions C18_corresponds_fields.
