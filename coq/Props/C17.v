(* C17 — space-group tables are coherent for all 230 groups and survive both formats.
   Every statement is over the indices 1..230 (or the two out-of-range neighbours) of the tables regenerated from
   the reference files on every run; the proofs are finite computations (Proofs/C17tables.v) lifted by forallb_forall. *)
From Coq Require Import List String ZArith Bool Arith Lia.
From PV Require Import Base.Sx Base.Text Gen.SgTables Model.Symmetry Proofs.C17tables.
Import ListNotations.

Lemma in_upto i n : (1 <= i <= n)%nat -> In i (upto n).
Proof. intros H. unfold upto. apply in_seq. lia. Qed.

Theorem C17_table_sizes : (List.length HM = 230 /\ List.length HALL = 230 /\ List.length OPS = 230)%nat.
Proof. exact tables_have_230. Qed.
Theorem C17_symbols_distinct : distinct_str HM = true /\ distinct_str HALL = true.
Proof. exact symbols_distinct. Qed.
(* index, Hermann-Mauguin symbol and Hall symbol name the same group *)
Theorem C17_three_ways_agree : forall i, (1 <= i <= 230)%nat -> symbols_roundtrip i = true.
Proof. intros i H. apply (proj1 (forallb_forall _ _) all_symbols_roundtrip), in_upto, H. Qed.
(* Z = number of operators, identity first *)
Theorem C17_z_counts_operators : forall i, (1 <= i <= 230)%nat -> z_ok i = true.
Proof. intros i H. apply (proj1 (forallb_forall _ _) all_z_ok), in_upto, H. Qed.
(* operators pairwise distinct, integer rotations of determinant +-1, translations multiples of 1/12 *)
Theorem C17_operators_wellformed : forall i, (1 <= i <= 230)%nat -> ops_wellformed i = true.
Proof. intros i H. apply (proj1 (forallb_forall _ _) all_ops_wellformed), in_upto, H. Qed.
(* closed under composition modulo whole-cell translations *)
Theorem C17_operators_closed : forall i, (1 <= i <= 230)%nat -> ops_closed i = true.
Proof. intros i H. apply (proj1 (forallb_forall _ _) all_ops_closed), in_upto, H. Qed.
Theorem C17_out_of_range : Symmetry_from_index 0 = None /\ Symmetry_from_index 231 = None /\
  hm_for_index 0 = None /\ hall_for_index 0 = None /\ ops_for_index 0 = None /\ ops_for_index 231 = None.
Proof. exact out_of_range_none. Qed.
(* mmCIF symmetry items: every group comes back *)
Theorem C17_mmcif_roundtrip : forall i, (1 <= i <= 230)%nat -> cif_roundtrip i = Some i.
Proof.
  intros i H. pose proof (proj1 (forallb_forall _ _) all_cif_roundtrip i (in_upto i 230 H)) as E. simpl in E.
  destruct (cif_roundtrip i) as [j|]; [|discriminate]. apply Nat.eqb_eq in E. now subst.
Qed.
(* CRYST1: every group whose Hermann-Mauguin symbol fits the ten columns the writer gives it comes back ... *)
Theorem C17_cryst1_roundtrip : forall i, (1 <= i <= 230)%nat -> long_symbol i = false -> cryst1_roundtrip i = Some i.
Proof.
  intros i H L. pose proof (proj1 (forallb_forall _ _) short_cryst1_roundtrip i (in_upto i 230 H)) as E. simpl in E.
  rewrite L in E. simpl in E. destruct (cryst1_roundtrip i) as [j|]; [|discriminate]. apply Nat.eqb_eq in E. now subst.
Qed.
(* ... and the ten groups with symbols of more than eleven characters (origin choice ":2") do not: the known finding, stated exactly *)
Theorem C17_cryst1_known_long_symbols :
  filter long_symbol (upto 230) = [125; 126; 129; 130; 133; 134; 137; 138; 141; 142]%nat /\
  forall i, In i (filter long_symbol (upto 230)) -> cryst1_roundtrip i <> Some i.
Proof.
  split; [exact long_symbols_are|]. intros i H E.
  pose proof (proj1 (forallb_forall _ _) long_cryst1_fails i H) as F. simpl in F. rewrite E in F.
  rewrite Nat.eqb_refl in F. discriminate.
Qed.

Print Assumptions C17_table_sizes.
Print Assumptions C17_symbols_distinct.
Print Assumptions C17_three_ways_agree.
Print Assumptions C17_z_counts_operators.
Print Assumptions C17_operators_wellformed.
Print Assumptions C17_operators_closed.
Print Assumptions C17_out_of_range.
Print Assumptions C17_mmcif_roundtrip.
Print Assumptions C17_cryst1_roundtrip.
Print Assumptions C17_cryst1_known_long_symbols.
