(* C02 - mmCIF reading recovers what the data items state, whatever the layout.
   The document specification (Spec/CifSpec.v) is a function of the abstract document alone, so layout independence of
   the expected result holds by construction; the reader model is compared with it on every generated layout.  Proved
   here, for every input: the lexer takes each legal spelling of a value for that value (white space and comments
   skipped; bare word, quoted string, text field), the atom_site rows are read through the column names only (any order
   of the columns gives the same result), foreign items, loops and save frames leave the state untouched, numeric access
   never substitutes a value, and an InvalidatingError rejects the read at every level. *)
From Coq Require Import List Ascii String ZArith Bool Lia Arith Permutation.
From PV Require Import Base.Sx Base.Text Base.Num Spec.Hier Model.PdbLex Model.PdbParse Model.CifLex Model.CifParse Proofs.C06lex Proofs.C02lay Proofs.C02col Proofs.C02seq.
Import ListNotations.

(* 1. white space and comments between tokens do not matter *)
Theorem C02_whitespace_skipped : forall ws t, forallb is_tws ws = true -> parse_value (ws ++ t) = parse_value t.
Proof. intros ws t H. unfold parse_value. rewrite (tcw_ws ws t H). reflexivity. Qed.
Theorem C02_comment_skipped : forall c e t, forallb (fun x => negb (is_eol x)) c = true -> is_eol e = true ->
  parse_value ("#"%char :: c ++ e :: t) = parse_value t.
Proof. intros c e t H He. unfold parse_value. rewrite (tcw_comment c e t H He). reflexivity. Qed.
Theorem C02_layout_before_item : forall fuel ws t, forallb is_tws ws = true -> parse_data_item fuel (ws ++ t) = parse_data_item fuel t.
Proof. intros fuel ws t H. unfold parse_data_item. rewrite (tcw_ws ws t H). reflexivity. Qed.

(* 2. every spelling of a textual value gives the text *)
Theorem C02_single_quoted : forall s rest, forallb (fun c => negb (Ascii.eqb c "'") && negb (is_eol c))%bool s = true ->
  parse_value ("'"%char :: s ++ "'"%char :: rest) = (inl (VText s), rest).
Proof.
  intros s rest H. unfold parse_value. rewrite tcw_stop by reflexivity.
  assert (R : reserved ("'"%char :: s ++ "'"%char :: rest) = false) by reflexivity. rewrite R.
  cbn [Ascii.eqb Bool.eqb]. cbv iota. rewrite (enclosed_content "'" s rest [] H). reflexivity.
Qed.
Theorem C02_double_quoted : forall s rest, forallb (fun c => negb (Ascii.eqb c """") && negb (is_eol c))%bool s = true ->
  parse_value (""""%char :: s ++ """"%char :: rest) = (inl (VText s), rest).
Proof.
  intros s rest H. unfold parse_value. rewrite tcw_stop by reflexivity.
  assert (R : reserved (""""%char :: s ++ """"%char :: rest) = false) by reflexivity. rewrite R.
  cbn [Ascii.eqb Bool.eqb]. cbv iota. rewrite (enclosed_content """" s rest [] H). reflexivity.
Qed.
(* a text field gives its lines, with the line end that precedes the closing semicolon (values are trimmed when used) *)
Theorem C02_text_field : forall s nl rest, field_clean false s = true -> is_eol nl = true ->
  parse_value (";"%char :: s ++ nl :: ";"%char :: rest) = (inl (VText (s ++ [nl])), rest).
Proof.
  intros s nl rest H Hn. unfold parse_value. rewrite tcw_stop by reflexivity.
  assert (R : reserved (";"%char :: s ++ nl :: ";"%char :: rest) = false) by reflexivity. rewrite R.
  cbn [Ascii.eqb Bool.eqb]. cbv iota. rewrite (text_field_content s false [] nl rest H Hn eq_refl). reflexivity.
Qed.
Theorem C02_text_field_trimmed : forall s nl, is_eol nl = true -> get_text (VText (s ++ [nl])) = get_text (VText s).
Proof.
  intros s nl Hn. unfold get_text. f_equal. unfold trim.
  assert (W : is_ws nl = true).
  { destruct nl as [b0 b1 b2 b3 b4 b5 b6 b7]. revert Hn. destruct b0, b1, b2, b3, b4, b5, b6, b7; vm_compute; congruence. }
  assert (T : forall x, trim_r (x ++ [nl]) = trim_r x).
  { intros x. unfold trim_r. rewrite rev_app_distr. simpl. rewrite W. reflexivity. }
  (* trim_l commutes with appending a character unless the text is all white space *)
  assert (L : forall x, trim_r (trim_l (x ++ [nl])) = trim_r (trim_l x)).
  { induction x as [|c r IH]; simpl; [rewrite W; reflexivity|]. destruct (is_ws c); [exact IH|]. apply (T (c :: r)). }
  apply L.
Qed.
(* a bare word is the number it has the shape of, and its text otherwise *)
Theorem C02_bare_word : forall c w rest, is_ordinary c = true -> Ascii.eqb c "." = false -> Ascii.eqb c "?" = false ->
  forallb (fun x => negb (is_aws x)) w = true ->
  match rest with [] => True | x :: _ => is_aws x = true end -> reserved (c :: w ++ rest) = false ->
  parse_value (c :: w ++ rest) = (inl (match parse_numeric (c :: w) with Some v => v | None => VText (c :: w) end), rest).
Proof. exact bare_word. Qed.

(* 2b. the atom_site rows are read through the column names only: any order of the columns (the same permutation of the
       header and of a row), and foreign columns anywhere, give the same result *)
Theorem C02_column_order : forall dh fo hdr row hdr' row' s,
  List.length hdr = List.length row -> List.length hdr' = List.length row' -> NoDup hdr ->
  Permutation (combine hdr row) (combine hdr' row') -> atom_row dh fo hdr' s row' = atom_row dh fo hdr s row.
Proof. exact row_column_order. Qed.
Theorem C02_mandatory_columns_order : forall hdr hdr', Permutation hdr hdr' ->
  filter (fun n => match position_text hdr' (stext n) 0 with None => true | Some _ => false end) required_columns =
  filter (fun n => match position_text hdr (stext n) 0 with None => true | Some _ => false end) required_columns.
Proof. exact missing_columns_order. Qed.
Theorem C02_foreign_column : forall T (get : cval -> option T + diag) h v hdr row name,
  text_eqb h (stext name) = false -> column get (h :: hdr) (v :: row) name = column get hdr row name.
Proof. exact column_extra. Qed.

(* 2c. foreign content: save frames, loops of other categories and single items the reader does not know leave the
       state as it is, wherever they stand *)
Theorem C02_frame_inert : forall dh fo ao s name items, item_step dh fo ao s (IFrame name items) = s.
Proof. reflexivity. Qed.
Theorem C02_foreign_loop_inert : forall dh fo ao s hdr rows, existsb (starts_with "atom_site.") hdr = false ->
  item_step dh fo ao s (IData (DLoop hdr rows)) = s.
Proof. intros. cbn [item_step]. rewrite H. reflexivity. Qed.
Theorem C02_foreign_item_inert : forall dh fo ao s name v, recognised name = false ->
  item_step dh fo ao s (IData (DSingle name v)) = s.
Proof. intros. cbn [item_step]. destruct ao; [reflexivity|]. apply foreign_single. assumption. Qed.

(* 2d. the lexer inverts the printer on whole constructs: for every sequence of values, every legal spelling of each (bare
       word, quoted, text field, '.', '?'), and every separator made of white space and comments:
       - the value loop reads back exactly the values and goes on with what follows them;
       - a printed loop (header names, then the values) is read back as its names and its values in rows of the header's width;
       - a printed single item is read back as its name and value *)
Theorem C02_values_read_back : forall toks vs, tokens toks vs -> forall fuel tail, ends_word tail ->
  values (List.length toks + fuel) (render toks ++ tail) =
  option_map (fun r : list cval * text => (vs ++ fst r, snd r)%list) (values fuel tail).
Proof. exact values_render. Qed.
Theorem C02_loop_read_back : forall g0 hs g s v r vs tail e tail' fuel,
  gap g0 -> hs <> [] -> Forall header_ok hs -> separator g -> spelled s v -> tokens r vs -> ends_word tail ->
  parse_value tail = (inr e, tail') ->
  (List.length hs < fuel)%nat -> (S (List.length r) < fuel)%nat ->
  Nat.modulo (List.length (v :: vs)) (List.length hs) = O ->
  parse_data_item fuel (g0 ++ stext "loop_" ++ render_headers hs ++ g ++ s ++ render r ++ tail) =
  Some (inl (DLoop (map snd hs) (chunk (S (List.length (v :: vs))) (List.length hs) (v :: vs))), tail').
Proof. exact loop_render. Qed.
Theorem C02_item_read_back : forall g0 name g s v rest fuel,
  gap g0 -> forallb (fun x => negb (is_aws x)) name = true -> separator g -> spelled s v -> ends_word rest ->
  parse_data_item fuel (g0 ++ "_"%char :: name ++ g ++ s ++ rest) = Some (inl (DSingle name v), rest).
Proof. exact item_render. Qed.

(* 3. numeric access never substitutes a value *)
Theorem C02_number_or_error : forall v f, get_f64 v = inl (Some f) -> v = VNum f.
Proof. intros v f. destruct v; simpl; intros H; inversion H; reflexivity. Qed.
Theorem C02_text_in_numeric_column : forall t, get_f64 (VText t) = inr (inv "Not a number").
Proof. reflexivity. Qed.

(* 4. an InvalidatingError anywhere rejects the read at every level *)
Theorem C02_invalidating_rejects : forall opts level b d,
  In d (k_errors (fold_left (item_step (Z.testbit opts 0) (Z.testbit opts 1) (Z.testbit opts 2)) (b_items b)
                            (cst0 (if Z.testbit opts 2 then None else Some (b_name b))))) ->
  d_level d = DInvalidating -> exists ds, parse_mmcif opts level b = inr ds.
Proof.
  intros opts level b d Hin Hl. unfold parse_mmcif.
  match goal with |- context [existsb ?f ?l] => destruct (existsb f l) eqn:E end; [eexists; reflexivity|].
  exfalso. rewrite existsb_app in E. apply orb_false_elim in E as [E1 _].
  assert (X : existsb (fun d0 : diag => fails_level (d_level d0) level) (k_errors (fold_left (item_step (Z.testbit opts 0) (Z.testbit opts 1) (Z.testbit opts 2)) (b_items b)
                            (cst0 (if Z.testbit opts 2 then None else Some (b_name b))))) = true).
  { apply existsb_exists. exists d. split; [exact Hin|]. rewrite Hl. unfold fails_level. destruct level as [|[| |]|]; reflexivity. }
  congruence.
Qed.

Print Assumptions C02_whitespace_skipped.
Print Assumptions C02_comment_skipped.
Print Assumptions C02_layout_before_item.
Print Assumptions C02_single_quoted.
Print Assumptions C02_double_quoted.
Print Assumptions C02_text_field.
Print Assumptions C02_text_field_trimmed.
Print Assumptions C02_bare_word.
Print Assumptions C02_column_order.
Print Assumptions C02_mandatory_columns_order.
Print Assumptions C02_foreign_column.
Print Assumptions C02_frame_inert.
Print Assumptions C02_foreign_loop_inert.
Print Assumptions C02_foreign_item_inert.
Print Assumptions C02_values_read_back.
Print Assumptions C02_loop_read_back.
Print Assumptions C02_item_read_back.
Print Assumptions C02_number_or_error.
Print Assumptions C02_text_in_numeric_column.
Print Assumptions C02_invalidating_rejects.
