(* C08 — adding atoms builds a hierarchy with one child per identifier, in order. *)
From Coq Require Import List Ascii ZArith Bool.
From PV Require Import Base.Sx Base.Text Base.Group Model.AddAtom.
Import ListNotations.

Section C08.
Variable A : Type.

Lemma fold_push (vs : list A) : forall acc, fold_left (push_atom A) vs acc = acc ++ vs.
Proof. induction vs as [|v r IH]; intros acc; simpl; [now rewrite app_nil_r|]. rewrite IH. unfold push_atom. now rewrite <- app_assoc. Qed.

Lemma conf_fold (l : list (ckey * A)) : fold_left (conf_step A) l [] = spec_confs A l.
Proof.
  change (fold_left (conf_step A) l []) with (build ckey A (list A) ckey_eqb [] (push_atom A) l).
  rewrite (build_eq_group _ _ _ _ ckey_eqb_spec). unfold group, spec_confs.
  apply map_ext. intros ck. now rewrite fold_push.
Qed.

Lemma res_fold (l : list (rkey * (ckey * A))) : fold_left (res_step A) l [] = spec_ress A l.
Proof.
  change (fold_left (res_step A) l []) with (fold_left (step_last rkey (ckey * A) (confs A) rkey_eqb [] (conf_step A)) l []).
  rewrite (fold_step_last_eq _ _ _ _ rkey_eqb_spec) by constructor.
  change (fold_left _ l []) with (build rkey (ckey * A) (confs A) rkey_eqb [] (conf_step A) l).
  rewrite (build_eq_group _ _ _ _ rkey_eqb_spec). unfold group, spec_ress.
  apply map_ext. intros rk. now rewrite conf_fold.
Qed.

Lemma chain_fold (l : list (text * (rkey * (ckey * A)))) : fold_left (chain_step A) l [] = spec_chains A l.
Proof.
  change (fold_left (chain_step A) l []) with (build text (rkey * (ckey * A)) (ress A) text_eqb [] (res_step A) l).
  rewrite (build_eq_group _ _ _ _ text_eqb_spec). unfold group, spec_chains.
  apply map_ext. intros c. now rewrite res_fold.
Qed.

Lemma run_model_fold ops : forall s, forallb (valid_op A) ops = true ->
  run_hist A (Model_add_atom A) s ops = Done (fold_left (chain_step A) (map (norm_op A) ops) s).
Proof.
  induction ops as [|o r IH]; intros s H; simpl; [reflexivity|].
  simpl in H. apply andb_prop in H as [Ho Hr].
  unfold Model_add_atom, valid_op, norm_op in *.
  destruct (norm_chain (o_chain A o)), (norm_res (o_res A o)), (norm_conf (o_conf A o)); try discriminate.
  now rewrite IH.
Qed.

(* 1. any history of valid Model::add_atom calls yields exactly the nested first-appearance partition *)
Theorem C08_model_history : forall ops, forallb (valid_op A) ops = true ->
  run_hist A (Model_add_atom A) [] ops = Done (spec_chains A (map (norm_op A) ops)).
Proof. intros ops H. rewrite run_model_fold by exact H. now rewrite chain_fold. Qed.

(* the same for the chain- and residue-level entry points *)
Definition valid_rc (o : op A) : bool :=
  match norm_res (o_res A o), norm_conf (o_conf A o) with Some _, Some _ => true | _, _ => false end.
Definition valid_c (o : op A) : bool := match norm_conf (o_conf A o) with Some _ => true | None => false end.

Theorem C08_chain_history : forall ops, forallb valid_rc ops = true ->
  run_hist A (Chain_add_atom A) [] ops = Done (spec_ress A (map (fun o => snd (norm_op A o)) ops)).
Proof.
  intros ops H. rewrite <- res_fold. generalize (@nil (rkey * confs A)).
  induction ops as [|o r IH]; intros s; simpl; [reflexivity|].
  simpl in H. apply andb_prop in H as [Ho Hr]. unfold Chain_add_atom, valid_rc, norm_op in *. simpl.
  destruct (norm_res (o_res A o)), (norm_conf (o_conf A o)); try discriminate. now rewrite IH.
Qed.
Theorem C08_residue_history : forall ops, forallb valid_c ops = true ->
  run_hist A (Residue_add_atom A) [] ops = Done (spec_confs A (map (fun o => snd (snd (norm_op A o))) ops)).
Proof.
  intros ops H. rewrite <- conf_fold. generalize (@nil (ckey * list A)).
  induction ops as [|o r IH]; intros s; simpl; [reflexivity|].
  simpl in H. apply andb_prop in H as [Ho Hr]. unfold Residue_add_atom, valid_c, norm_op in *. simpl.
  destruct (norm_conf (o_conf A o)); try discriminate. now rewrite IH.
Qed.

(* an invalid identifier anywhere makes the history panic (the documented behaviour) and never yields a structure *)
Theorem C08_invalid_panics : forall ops, forallb (valid_op A) ops = false ->
  run_hist A (Model_add_atom A) [] ops = Panic.
Proof.
  intros ops. generalize (@nil (text * ress A)). induction ops as [|o r IH]; intros s; simpl; [discriminate|].
  unfold Model_add_atom at 1. unfold valid_op at 1.
  destruct (norm_chain (o_chain A o)), (norm_res (o_res A o)), (norm_conf (o_conf A o)); simpl; auto.
Qed.
End C08.

(* 2. what the partition means, for any key type: exactly one child per distinct key ... *)
Section Partition.
Variables (K V : Type) (eqb : K -> K -> bool).
Hypothesis eqb_spec : forall a b, reflect (a = b) (eqb a b).

Theorem C08_one_child_per_key : forall (l : list (K * V)), NoDup (keys K V eqb l []).
Proof. intros l. exact (keys_nodup K V unit eqb eqb_spec tt (fun i _ => i) l []). Qed.

Lemma keys_in_gen (l : list (K * V)) : forall seen k, In k (keys K V eqb l seen) <-> (In k (map fst l) /\ ~ In k seen).
Proof.
  induction l as [|[k' v] r IH]; intros seen k; simpl; [tauto|].
  destruct (existsb (eqb k') seen) eqn:E.
  - rewrite IH. apply (existsb_In K eqb eqb_spec) in E. split; [tauto|]. intros [[<-|H] N]; tauto.
  - apply (existsb_nIn K eqb eqb_spec) in E. simpl. rewrite IH. simpl. split.
    + intros [<-|[H N]]; [tauto|]. split; [tauto|]. tauto.
    + intros [[<-|H] N]; [tauto|]. destruct (eqb_spec k' k); [tauto|]. right. split; [exact H|]. intros [X|X]; tauto.
Qed.
(* ... every key that was used has a child ... *)
Theorem C08_every_key_present : forall (l : list (K * V)) k, In k (keys K V eqb l []) <-> In k (map fst l).
Proof. intros l k. rewrite keys_in_gen. simpl. tauto. Qed.

(* ... in order of first insertion: a further call appends a child exactly when its key is new and never
   reorders existing children *)
Lemma keys_snoc_gen (l : list (K * V)) k v : forall seen,
  keys K V eqb (l ++ [(k, v)]) seen =
  keys K V eqb l seen ++ (if (existsb (eqb k) seen || existsb (eqb k) (keys K V eqb l seen))%bool then [] else [k]).
Proof.
  induction l as [|[k' v'] r IH]; intros seen; simpl.
  - rewrite orb_false_r. destruct (existsb (eqb k) seen); reflexivity.
  - destruct (existsb (eqb k') seen) eqn:E; [apply IH|].
    simpl. rewrite IH. f_equal. f_equal. simpl.
    destruct (eqb k k'); simpl; [now rewrite orb_true_r|]. reflexivity.
Qed.
Theorem C08_first_insertion_order : forall (l : list (K * V)) k v,
  keys K V eqb (l ++ [(k, v)]) [] =
  keys K V eqb l [] ++ (if existsb (eqb k) (keys K V eqb l []) then [] else [k]).
Proof. intros. now rewrite keys_snoc_gen. Qed.

(* ... and each child holds exactly the values added under its key, in insertion order *)
Theorem C08_content : forall (l : list (K * V)) k v k',
  vals K V eqb k' (l ++ [(k, v)]) = vals K V eqb k' l ++ (if eqb k' k then [v] else []).
Proof. intros. unfold vals. rewrite filter_app, map_app. simpl. destruct (eqb k' k); reflexivity. Qed.
End Partition.

(* 3. identifiers are compared in the form in which they are stored: re-normalising a stored key is the identity,
      so an atom added under the stored spelling always lands in the existing child *)
Theorem C08_norm_chain_stable : forall raw c, norm_chain raw = Some c -> norm_chain c = Some c.
Proof.
  unfold norm_chain. intros raw c H. pose proof (prepare_identifier_idem _ _ H) as H2.
  unfold prepare_identifier in H. destruct (valid_text (trim raw) && negb (is_nil (trim (trim raw))))%bool; [|discriminate].
  injection H as <-. rewrite !trim_idem in *. exact H2.
Qed.
Theorem C08_norm_conf_stable : forall raw k, norm_conf raw = Some k -> norm_conf k = Some k.
Proof.
  unfold norm_conf. intros [n a] [n' a']; simpl.
  destruct (prepare_identifier_uppercase n) eqn:E; simpl; [|discriminate].
  intros H; injection H as <- <-. rewrite (prepare_identifier_uppercase_idem _ _ E). simpl. f_equal. f_equal.
  destruct a as [a|]; simpl; [|reflexivity].
  destruct (prepare_identifier_uppercase a) eqn:Ea; simpl; [|reflexivity].
  apply (prepare_identifier_uppercase_idem _ _ Ea).
Qed.
Theorem C08_norm_res_stable : forall raw k, norm_res raw = Some k -> norm_res k = Some k.
Proof.
  unfold norm_res. intros [n ic] [n' ic']; simpl. destruct ic as [ic|]; simpl.
  - destruct (prepare_identifier_uppercase ic) eqn:E; simpl; [|discriminate].
    intros H; injection H as <- <-. simpl. now rewrite (prepare_identifier_uppercase_idem _ _ E).
  - intros H; injection H as <- <-. reflexivity.
Qed.

From Coq Require Import String.
Local Open Scope string_scope.
(* non-vacuity: mixed-case, padded identifiers end up in one conformer of one residue of one chain *)
Definition ex_ops : list (op nat) :=
  [ {| o_atom := 1; o_chain := stext " A"; o_res := (-3, Some (stext "b"))%Z; o_conf := (stext "ala", Some (stext "a")) |};
    {| o_atom := 2; o_chain := stext "A "; o_res := (-3, Some (stext "B "))%Z; o_conf := (stext "ALA ", Some (stext "A")) |};
    {| o_atom := 3; o_chain := stext "A"; o_res := (-3, Some (stext "B"))%Z; o_conf := (stext "Ala", Some (stext " ")) |} ].
Example C08_witness :
  run_hist nat (Model_add_atom nat) [] ex_ops =
  Done [(stext "A", [((-3, Some (stext "B"))%Z, [((stext "ALA", Some (stext "A")), [1; 2]); ((stext "ALA", None), [3])])])].
Proof. vm_compute. reflexivity. Qed.

(* what the comparison of the raw argument (the code before the fix) did on the same history: two conformers
   with the same identifier (ALA, A) *)
Example C08_raw_compare_refuted :
  let c1 := conf_step_raw nat [] (stext "ala", Some (stext "a")) (stext "ALA", Some (stext "A")) 1 in
  let c2 := conf_step_raw nat c1 (stext "ala", Some (stext "a")) (stext "ALA", Some (stext "A")) 2 in
  map fst c2 = [(stext "ALA", Some (stext "A")); (stext "ALA", Some (stext "A"))].
Proof. vm_compute. reflexivity. Qed.

Print Assumptions C08_model_history.
Print Assumptions C08_chain_history.
Print Assumptions C08_residue_history.
Print Assumptions C08_invalid_panics.
Print Assumptions C08_one_child_per_key.
Print Assumptions C08_every_key_present.
Print Assumptions C08_first_insertion_order.
Print Assumptions C08_content.
Print Assumptions C08_norm_chain_stable.
Print Assumptions C08_norm_conf_stable.
Print Assumptions C08_norm_res_stable.
