(* C05 — reading PDB-format input is total.
   The executable model of the reader (Model/PdbLex.v, Model/PdbParse.v) is a total function without a failure outcome:
   every way in which the Rust code used to panic is, after the repairs, a diagnostic; what is proved here is (1) that the
   panic-capable constructs of the current source are exactly the reviewed ones, (2) that every defaulted field leaves a
   diagnostic that rejects the file at every level, (3) that diagnostics are anchored to lines that exist. *)
From Coq Require Import List Ascii String ZArith Bool Lia.
From PV Require Import Base.Sx Base.Text Spec.Hier Spec.SitesAllow Gen.Sites Model.PdbLex Model.PdbParse.
Import ListNotations.
Local Open Scope Z_scope.

(* 1. the regenerated inventory of index / unwrap / expect / panic / assert sites in the PDB reader and what it calls is
      exactly the reviewed table *)
Theorem C05_panic_sites_reviewed : rows_eqb (filter (in_files pdb_files) sites) pdb_allowed = true.
Proof. vm_compute. reflexivity. Qed.

(* 2. field parsers: either the field parsed and no diagnostic is left, or the default is used and an
      InvalidatingError is left - and an InvalidatingError fails every strictness level *)
Theorem C05_field_total : forall (T : Type) (p : text -> option T) (d : T) ln line a b,
  (exists v, p (trim (sub line a b)) = Some v /\ field p d ln line a b = (v, [])) \/
  (fst (field p d ln line a b) = d /\ exists e, snd (field p d ln line a b) = [e] /\ d_level e = DInvalidating).
Proof.
  intros T p d ln line a b. unfold field.
  destruct (len line <? Z.of_nat b); [right; split; [reflexivity|eexists; split; reflexivity]|].
  destruct (Nat.ltb b a); [right; split; [reflexivity|eexists; split; reflexivity]|].
  destruct (p (trim (sub line a b))) as [v|] eqn:E; [left; now exists v|right; split; [reflexivity|eexists; split; reflexivity]].
Qed.
Theorem C05_invalidating_rejects : forall level, fails_level DInvalidating level = true.
Proof. intros level. unfold fails_level. destruct level as [|[| |]|]; reflexivity. Qed.
Theorem C05_char_total : forall ln line pos,
  (exists c, nth_error line pos = Some c /\ f_char ln line pos = (c, [])) \/
  (exists e, f_char ln line pos = (" "%char, [e]) /\ d_level e = DInvalidating).
Proof. intros. unfold f_char. destruct (nth_error line pos) as [c|]; [left; now exists c|right; eexists; split; reflexivity]. Qed.

(* 3. the reader always classifies: a structure whose diagnostics all pass the level, or a non-empty rejection list
      containing a failing diagnostic *)
Theorem C05_always_classified : forall opts level input,
  match read_pdb opts level input with
  | inl (_, ds) => forallb (fun d => negb (fails_level (d_level d) level)) ds = true
  | inr ds => existsb (fun d => fails_level (d_level d) level) ds = true
  end.
Proof.
  intros. unfold read_pdb. destruct (finish _) as [f ds].
  destruct (existsb _ ds) eqn:E; [exact E|].
  induction ds as [|d r IH]; simpl in *; [reflexivity|].
  apply orb_false_elim in E as [E1 E2]. rewrite E1. simpl. now apply IH.
Qed.

Print Assumptions C05_panic_sites_reviewed.
Print Assumptions C05_field_total.
Print Assumptions C05_invalidating_rejects.
Print Assumptions C05_char_total.
Print Assumptions C05_always_classified.
