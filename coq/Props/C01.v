(* C01 — PDB-format reading recovers what the records state.
   The record-level specification is Spec/PdbSpec.v (denote), the reader model Model/PdbLex.v + Model/PdbParse.v.  Proved
   here: the structural facts of the specification (one child per identifier in first-appearance order, via Base/Group),
   the occupancy split, the serial wrap, and "no made-up value".  The refinement read_pdb (render recs) = denote recs is
   established by correspondence only (see the level note). *)
From Coq Require Import List Ascii String ZArith QArith Bool Lia.
From PV Require Import Base.Sx Base.Text Base.Float Base.Group Spec.Hier Spec.PdbSpec Model.AddAtom Model.PdbLex Model.PdbParse Proofs.Decimal Proofs.C01just Proofs.C01line Proofs.C01group Proofs.C01sim Proofs.C01annot Proofs.C01models Proofs.C01meta Model.Symmetry Gen.PdbColumns Spec.PdbColumnsDoc.
Import ListNotations.

(* 1. inside a model: exactly one chain per chain id, in order of first appearance (and likewise one residue per key, one
      conformer per key, by the same theorem of Base/Group instantiated in Props/C08) *)
Theorem C01_one_chain_per_id : forall num (l : list (text * (rkey * (ckey * atom)))),
  map ch_id (m_chains (model_of num l)) = keys text (rkey * (ckey * atom)) text_eqb l [] /\
  NoDup (map ch_id (m_chains (model_of num l))).
Proof.
  intros num l. unfold model_of. simpl. rewrite map_map. simpl.
  assert (E : map (fun x : text * ress atom => fst x) (spec_chains atom l) = keys text (rkey * (ckey * atom)) text_eqb l []).
  { unfold spec_chains. rewrite map_map. simpl. apply map_id. }
  rewrite E. split; [reflexivity|].
  exact (keys_nodup text (rkey * (ckey * atom)) unit text_eqb text_eqb_spec tt (fun i _ => i) l []).
Qed.

(* 2. blank alternate locations: n labelled conformers each receive occupancy / n, which adds up to the original value
      (exactly over the rationals; each copy is then rounded to binary64 once) *)
Theorem C01_occupancy_split_adds_up : forall (occ : Q) (n : positive),
  (inject_Z (Zpos n) * (occ * (1 # n)) == occ)%Q.
Proof. intros [p q] n. unfold Qeq, Qmult, inject_Z. cbn [Qnum Qden]. rewrite !Pos2Z.inj_mul. lia. Qed.

(* 3. serial numbers that wrapped keep counting upward: the record after internal serial 100000k + 99999 gets 100000(k+1) *)
Theorem C01_wrap_continues : forall w a,
  w_last_atom w = 99999%Z -> r_serial a = 0%Z ->
  let w' := walk_step w (RAtom a) in
  w_atom_add w' = (w_atom_add w + 100000)%Z /\
  (exists k, nth_error (w_cur w') (List.length (w_cur w)) = Some k /\ a_serial (snd (snd (snd k))) = (w_last_atom w + w_atom_add w + 1)%Z).
Proof.
  intros w a H1 H2. unfold walk_step. cbn [w_atom_add w_cur]. rewrite H1, H2. simpl (_ && _)%bool. cbv iota. split; [reflexivity|].
  eexists. split.
  - rewrite nth_error_app2 by apply Nat.le_refl. rewrite Nat.sub_diag. reflexivity.
  - cbn [snd a_serial]. ring.
Qed.

(* 4. no made-up value: a field that is missing or unparsable leaves an InvalidatingError, and any InvalidatingError makes
      the read fail at every level *)
Theorem C01_defaulted_field_rejects : forall (T : Type) (p : text -> option T) (d : T) ln line a b level,
  p (trim (sub line a b)) = None \/ (len line <? Z.of_nat b)%Z = true ->
  exists e, In e (snd (field p d ln line a b)) /\ fails_level (d_level e) level = true.
Proof.
  intros T p d ln line a b level H. unfold field.
  assert (F : forall l, fails_level DInvalidating l = true) by (intros [|[| |]|]; reflexivity).
  destruct (len line <? Z.of_nat b)%Z eqn:E1; [eexists; split; [left; reflexivity|apply F]|].
  destruct (Nat.ltb b a); [eexists; split; [left; reflexivity|apply F]|].
  destruct H as [H|H]; [|discriminate]. rewrite H. eexists; split; [left; reflexivity|apply F].
Qed.
Theorem C01_failing_diagnostic_rejects : forall opts level input f ds,
  read_pdb opts level input = inl (f, ds) -> forall d, In d ds -> fails_level (d_level d) level = false.
Proof.
  intros opts level input f ds H d Hin. unfold read_pdb in H. destruct (finish _) as [f' ds'].
  destruct (existsb _ ds') eqn:E; [discriminate|]. injection H as <- <-.
  destruct (fails_level (d_level d) level) eqn:F; [|reflexivity].
  assert (existsb (fun d => fails_level (d_level d) level) ds' = true) by (apply existsb_exists; now exists d). congruence.
Qed.

(* 6. layout of a field: a value standing anywhere inside its columns (any justification, any padding) is read as the value *)
Theorem C01_field_justification : forall v k j, tight v -> trim (blanks k ++ v ++ blanks j) = v.
Proof. exact trim_justified. Qed.
(* 7. the integers written in a field are the integers read (serial numbers, residue numbers, model numbers) *)
Theorem C01_unsigned_field_reads_back : forall n, (0 <= n <= max_usize)%Z -> parse_usize (show_Zpos n) = Some n.
Proof. exact usize_reads_back. Qed.
Theorem C01_signed_field_reads_back : forall n, (min_isize <= n <= max_isize)%Z ->
  parse_isize (if (n <? 0)%Z then "-"%char :: show_Zpos (- n) else show_Zpos n) = Some n.
Proof. exact isize_reads_back. Qed.

(* 8. a coordinate line: 21 fields of the column widths 6 5 1 4 1 3 1 1 4 1 3 8 8 8 6 6 6 4 2 1 1, each value anywhere inside its
      field (see 6.), is lexed to exactly the values of its fields, without a diagnostic *)
Theorem C01_atom_line_read_back : forall ln het (segs : list text)
        serial name resname resnum x y z occ b segment element (alt chain ins c78 c79 : ascii),
  map (@List.length ascii) segs = atom_widths ->
  parse_usize (trim (nth 1 segs [])) = Some serial ->
  trim (nth 3 segs []) = name -> nth 4 segs [] = [alt] ->
  trim (nth 5 segs []) = resname -> nth 7 segs [] = [chain] ->
  parse_isize (trim (nth 8 segs [])) = Some resnum -> nth 9 segs [] = [ins] ->
  parse_f64_field (trim (nth 11 segs [])) = Some x -> parse_f64_field (trim (nth 12 segs [])) = Some y ->
  parse_f64_field (trim (nth 13 segs [])) = Some z -> parse_f64_field (trim (nth 14 segs [])) = Some occ ->
  parse_f64_field (trim (nth 15 segs [])) = Some b ->
  trim (nth 17 segs []) = segment -> trim (nth 18 segs []) = element ->
  nth 19 segs [] = [c78] -> nth 20 segs [] = [c79] -> c78 = " "%char -> c79 = " "%char ->
  lex_atom ln (List.concat segs) het =
  (LAtom het {| ab_serial := serial; ab_name := name; ab_alt := opt_char alt; ab_resname := resname; ab_chain := [chain];
                ab_resnum := resnum; ab_icode := opt_char ins; ab_element := element; ab_charge := 0 |} x y z occ b, []).
Proof. exact atom_line_read_back. Qed.

(* 9. the columns every function of the PDB lexer reads (regenerated from the source on every run, T6) are the columns of the
      format description (Spec/PdbColumnsDoc.v, reviewed) *)
Theorem C01_reader_columns_are_the_documented_columns : col_rows_eqb pdb_lexer_columns documented_columns = true.
Proof. vm_compute. reflexivity. Qed.

(* 10. reader model: one coordinate record files its atom under the chain id (after the blank-chain rule), the residue key
       (number after the wrap offset, raw insertion code) and the conformer key, through first-match insert-or-update *)
Theorem C01_reader_atom_record_is_an_insert dh fo s ln hetero b x y z occ bf :
  s_cur (step_item dh fo s ln (LAtom hetero b x y z occ bf)) =
  match atom_event dh s hetero b x y z occ bf with Some e => insert (s_cur s) e | None => s_cur s end.
Proof. exact (step_atom_cur dh fo s ln hetero b x y z occ bf). Qed.

(* 11. any sequence of valid inserts builds exactly the nested first-appearance partition: one chain per chain id, one residue
       per (number, insertion code) inside it, one conformer per (name, alternate location) inside that, atoms in file order *)
Theorem C01_reader_groups_by_first_appearance (es : list event) : Forall event_valid es ->
  abs_cur (fold_left insert es []) = spec_chains atom (map key_of es).
Proof. exact (reader_groups_by_first_appearance es). Qed.

(* 12. the record loop of the reader model on a run of coordinate records starting with an empty model: the model being built
       is the first-appearance partition of the events of those records *)
Theorem C01_reader_atom_run dh fo (its : list (Z * lexitem)) s : Forall (fun x => is_atom_item (snd x)) its -> s_cur s = [] ->
  abs_cur (s_cur (run_items dh fo s its)) = spec_chains atom (map key_of (atom_events dh fo s its)).
Proof. exact (atom_run_from_empty dh fo its s). Qed.

(* 13. the record loop of the reader model simulates the walk of the specification on coordinate records: in corresponding
       states (the same wrap offsets, last numbers, TER count, next atom identity, and the model being built equal to the
       partition of the walk's keyed atoms) a well-formed record - lexed to item_of (theorem 8 and 15 for the text side) -
       leads to corresponding states: the same offsets, chain name, atom (every field), keys *)
Theorem C01_reader_step_simulates_walk : forall fo w s ln a, sim w s -> wf_rec a ->
  sim (walk_step w (RAtom a)) (step_item false fo s ln (item_of a)).
Proof. exact sim_atom. Qed.
(* 14. so from the start of a file, for every run of well-formed coordinate and TER records, the model the reader is building
       is exactly the first-appearance partition of the keyed atoms the specification's walk collects *)
Theorem C01_reader_refines_walk_on_coordinate_runs : forall fo (rs : list (Z * rec)), Forall (fun x => chain_rec (snd x)) rs ->
  abs_cur (s_cur (fold_left (fun s x => step_item false fo s (fst x) (item_of_rec (snd x))) rs st0)) =
  spec_chains atom (w_cur (fold_left walk_step (map snd rs) walk0)).
Proof. exact reader_refines_walk. Qed.
(* 15. a decimal numeral standing in a field is read as the value the specification gives that text *)
Theorem C01_numeral_field_is_the_specified_value : forall neg ds1 ds2, all_digit ds1 -> ds1 <> [] -> all_digit ds2 -> ds2 <> [] ->
  let t := with_sign neg (ds1 ++ "."%char :: ds2) in
  finite_f (dec t) = true -> parse_f64_field t = Some (dec t).
Proof. exact numeral_field_is_dec. Qed.

(* MODRES: the pass of the reader model that applies the MODRES records does what the record specification says, on every
   structure, for a record as the lexer hands it over (trimmed texts, valid annotation texts) - found or not found *)
Theorem C01_modres_pass_is_the_specification : forall p ln resname chain num ins std comment,
  lexed resname chain ins std comment ->
  fst (apply_modres p ln resname chain num ins std comment) = modres_step p (RModres resname chain num ins std comment).
Proof. exact modres_pass_is_the_specification. Qed.

(* MODEL records: for every sequence of well-formed coordinate, TER, MODEL and ENDMDL records from the start of a file, the
   models the reader model has finished, followed by the one under construction, are - as (number, chains as keyed lists of
   atoms) - the models of the specification walk partitioned by first appearance *)
Theorem C01_reader_builds_the_models_of_the_records : forall rs : list (Z * rec), Forall (fun x => coord_rec (snd x)) rs ->
  let s := fold_left (fun s x => step_item false false s (fst x) (coord_item (snd x))) rs st0 in
  let w := fold_left walk_step (map snd rs) walk0 in
  map abs_model (s_models s ++ match s_cur s with [] => [] | c => [model_of_cur (s_cur_num s) c] end) =
  map (fun m => (fst m, spec_chains atom (snd m))) (close_model w).
Proof. exact (fun rs => reader_builds_the_models_of_the_records false eq_refl rs). Qed.

(* HEADER, REMARK and CRYST1 records between the coordinate records: for every sequence of such records (REMARKs with a
   remark-type-number of the format and valid text) the identifier, the remarks, the cell and the space group the reader model
   ends with are the ones the specification reads off the records, and the models are the models of the records *)
Theorem C01_reader_reads_metadata_and_models : forall rs : list (Z * rec), Forall (fun x => file_rec (snd x)) rs ->
  let s := fold_left (stepf false) rs st0 in
  let recs := map snd rs in
  s_id s = denote_id recs /\ s_remarks s = denote_remarks recs /\ s_cell s = denote_cell recs /\
  s_sym s = match denote_sg recs with Some sg => Symmetry_of sg | None => None end /\
  map abs_model (s_models s ++ match s_cur s with [] => [] | c => [model_of_cur (s_cur_num s) c] end) =
  map (fun m => (fst m, spec_chains atom (snd m))) (close_model (fold_left walk_step recs walk0)).
Proof. exact (fun rs => reader_reads_metadata_and_models false eq_refl rs). Qed.

Print Assumptions C01_one_chain_per_id.
Print Assumptions C01_occupancy_split_adds_up.
Print Assumptions C01_wrap_continues.
Print Assumptions C01_defaulted_field_rejects.
Print Assumptions C01_failing_diagnostic_rejects.
Print Assumptions C01_field_justification.
Print Assumptions C01_unsigned_field_reads_back.
Print Assumptions C01_signed_field_reads_back.
Print Assumptions C01_atom_line_read_back.
Print Assumptions C01_reader_columns_are_the_documented_columns.
Print Assumptions C01_reader_atom_record_is_an_insert.
Print Assumptions C01_reader_groups_by_first_appearance.
Print Assumptions C01_reader_atom_run.
Print Assumptions C01_reader_step_simulates_walk.
Print Assumptions C01_reader_refines_walk_on_coordinate_runs.
Print Assumptions C01_numeral_field_is_the_specified_value.
Print Assumptions C01_modres_pass_is_the_specification.
Print Assumptions C01_reader_builds_the_models_of_the_records.
Print Assumptions C01_reader_reads_metadata_and_models.
