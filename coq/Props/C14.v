(* C14 — spatial and geometric queries equal a brute-force computation. *)
From Coq Require Import List QArith Qabs ZArith Bool Permutation.
From PV Require Import Base.Text Spec.Hier Model.Transform Model.Geom Proofs.C14geom.
Import ListNotations.
From Coq Require Import Psatz.
Local Open Scope Q_scope.

(* atom distance is symmetric and Euclidean (the squared distance is the sum of the squared coordinate differences) *)
Theorem C14_dist2_sym : forall p q, dist2 p q == dist2 q p.
Proof. exact L14_dist2_sym. Qed.
Theorem C14_dist2_nonneg : forall p q, 0 <= dist2 p q.
Proof. exact L14_dist2_nonneg. Qed.
Theorem C14_dist2_zero : forall p, dist2 p p == 0.
Proof. exact L14_dist2_zero. Qed.

(* wrapped distance inside an orthogonal cell = the minimum over the 27 neighbouring images *)
Theorem C14_wrap_minimum : forall ax ay az bx by_ bz ca cb cc,
  0 < ca -> 0 < cb -> 0 < cc ->
  0 <= ax < ca -> 0 <= bx < ca -> 0 <= ay < cb -> 0 <= by_ < cb -> 0 <= az < cc -> 0 <= bz < cc ->
  (forall k, In k shifts -> wrap_dist2 (ax, ay, az) (bx, by_, bz) (ca, cb, cc) <= dist2 (ax, ay, az) (image (bx, by_, bz) (ca, cb, cc) k)) /\
  (exists k, In k shifts /\ wrap_dist2 (ax, ay, az) (bx, by_, bz) (ca, cb, cc) == dist2 (ax, ay, az) (image (bx, by_, bz) (ca, cb, cc) k)).
Proof.
  intros. split.
  - intros k Hk. now apply (L14_wrap_le_images (ax, ay, az) (bx, by_, bz) (ca, cb, cc) k).
  - now apply (L14_wrap_is_an_image (ax, ay, az) (bx, by_, bz) (ca, cb, cc)).
Qed.

(* bounding box: every coordinate lies between the reported corners and each face is attained (or the list is empty) *)
Theorem C14_bbox_tight : forall (l : list Q) (lo hi : Q),
  (forall x, In x l -> qmin_list l hi <= x /\ x <= qmax_list l lo) /\
  (qmin_list l hi = hi \/ In (qmin_list l hi) l) /\ (qmax_list l lo = lo \/ In (qmax_list l lo) l).
Proof.
  intros l lo hi. repeat split.
  - now apply L14_qmin_lower. - now apply L14_qmax_upper. - apply L14_qmin_attained. - apply L14_qmax_attained.
Qed.

(* chains in contact: exactly the pairs of differently named chains that have an atom pair closer than the cut-off; symmetric *)
Theorem C14_contacts_exact : forall p d2 a b,
  in_contact p d2 a b = true <->
  a <> b /\ exists c1 c2, In c1 (p_chains p) /\ In c2 (p_chains p) /\ ch_id c1 = a /\ ch_id c2 = b /\ close d2 c1 c2 = true.
Proof. exact L14_contact_spec. Qed.
Theorem C14_contacts_symmetric : forall p d2 a b, in_contact p d2 a b = in_contact p d2 b a.
Proof. exact L14_contact_sym. Qed.

(* every cut-off: against a cut-off that is not positive no two chains are in contact, and for a positive one comparing the squares
   is comparing the distances *)
Lemma existsb_all_false {A} (f : A -> bool) l : (forall x, f x = false) -> existsb f l = false.
Proof. intros H. induction l as [|x r IH]; [reflexivity|]. cbn [existsb]. now rewrite H, IH. Qed.
Theorem C14_contacts_nonpositive_cutoff : forall p c a b, c <= 0 -> in_contact p (cutoff_d2 c) a b = false.
Proof.
  intros p c a b Hc. unfold cutoff_d2. apply Qle_bool_iff in Hc. rewrite Hc.
  assert (Hclose : forall c1 c2, close 0 c1 c2 = false).
  { intros c1 c2. unfold close. apply existsb_all_false. intros x. apply existsb_all_false. intros y.
    destruct (Qlt_le_dec (adist2 x y) 0) as [H|H]; [|reflexivity]. exfalso. unfold adist2 in H.
    exact (Qlt_not_le _ _ H (C14_dist2_nonneg _ _)). }
  unfold in_contact. destruct (negb (text_eqb a b)); [|reflexivity]. cbn [andb].
  apply existsb_all_false. intros c1. destruct (text_eqb (ch_id c1) a); [|reflexivity]. cbn [andb].
  apply existsb_all_false. intros c2. rewrite Hclose. apply andb_false_r.
Qed.
Theorem C14_cutoff_squares : forall d c, 0 <= d -> 0 < c -> (d * d < cutoff_d2 c <-> d < c).
Proof.
  intros d c Hd Hc. unfold cutoff_d2. destruct (Qle_bool c 0) eqn:E.
  - apply Qle_bool_iff in E. exfalso. exact (Qlt_not_le _ _ Hc E).
  - split; intros H.
    + destruct (Qlt_le_dec d c) as [L|L]; [exact L|]. exfalso. apply (Qlt_not_le _ _ H). nra.
    + nra.
Qed.

(* the spatial trees: rstar's contract, stated as hypotheses about an arbitrary tree implementation, gives the brute-force
   scan; what pdbtbx adds - the envelope of an atom is its position and distance_2 is the squared Euclidean distance to
   that same point - is what the contract requires of the stored objects *)
Section RStar.
  Variable tree : Type.
  Variable bulk_load : list atom -> tree.
  Variable elements : tree -> list atom.
  Variable locate_within : tree -> pt -> Q -> list atom.
  Hypothesis bulk_load_perm : forall l, Permutation (elements (bulk_load l)) l.
  Hypothesis locate_contract : forall t c r2 a,
    In a (locate_within t c r2) <-> In a (elements t) /\ dist2 (pos a) c <= r2.
  Theorem C14_rtree_brute_force : forall (p : pdb) c r2 a,
    In a (locate_within (bulk_load (p_atoms p)) c r2) <-> In a (p_atoms p) /\ adist2_to a c <= r2.
  Proof.
    intros p c r2 a. rewrite locate_contract. unfold adist2_to. split; intros [H1 H2]; split; auto.
    - eapply Permutation_in; [apply bulk_load_perm|exact H1].
    - eapply Permutation_in; [apply Permutation_sym, bulk_load_perm|exact H1].
  Qed.
End RStar.

Print Assumptions C14_dist2_sym.
Print Assumptions C14_dist2_nonneg.
Print Assumptions C14_dist2_zero.
Print Assumptions C14_wrap_minimum.
Print Assumptions C14_bbox_tight.
Print Assumptions C14_contacts_exact.
Print Assumptions C14_contacts_symmetric.
Print Assumptions C14_rtree_brute_force.
Print Assumptions C14_contacts_nonpositive_cutoff.
Print Assumptions C14_cutoff_squares.
