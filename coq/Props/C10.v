(* C10 — editing operations do exactly what they say and nothing else.
   Each mutator of Model/Edit.v is characterised by its effect on the flat traversals (what is removed / added)
   and its frame (everything else, in the same order).  All statements hold for every structure, hence after
   any interleaving of operations. *)
From Coq Require Import List Ascii ZArith Bool Arith Lia.
From Coq Require String.
From PV Require Import Base.Sx Base.Text Spec.Hier Model.Edit.
Import ListNotations.

Lemma filter_flat_map {X Y} (p : Y -> bool) (f : X -> list Y) l :
  filter p (flat_map f l) = flat_map (fun x => filter p (f x)) l.
Proof. induction l as [|x r IH]; simpl; auto. now rewrite filter_app, IH. Qed.
Lemma flat_map_map {X Y Z} (f : X -> Y) (g : Y -> list Z) l : flat_map g (map f l) = flat_map (fun x => g (f x)) l.
Proof. induction l as [|x r IH]; simpl; auto. now rewrite IH. Qed.

Lemma map_flat_map {X Y Z} (g : Y -> Z) (f : X -> list Y) l : map g (flat_map f l) = flat_map (fun x => map g (f x)) l.
Proof. induction l as [|x r IH]; simpl; auto. now rewrite map_app, IH. Qed.

(* ---- 1. removal by predicate: surviving elements = the filtered traversal, order kept; containers above stay ---- *)
Definition ckey (c : conformer) := (c_name c, c_alt c, c_mod c).
Definition rkey (r : residue) := (r_num r, r_icode r).
Lemma rab_res_confs pr r : map ckey (r_confs (Residue_remove_atoms_by pr r)) = map ckey (r_confs r).
Proof. unfold Residue_remove_atoms_by. simpl. rewrite map_map. reflexivity. Qed.
Lemma rab_chain_confs pr c : map ckey (ch_confs (Chain_remove_atoms_by pr c)) = map ckey (ch_confs c).
Proof. unfold ch_confs, Chain_remove_atoms_by. simpl. rewrite flat_map_map, !map_flat_map. apply flat_map_ext. intros r. apply rab_res_confs. Qed.
Lemma rab_model_confs pr m : map ckey (m_confs (Model_remove_atoms_by pr m)) = map ckey (m_confs m).
Proof. unfold m_confs, Model_remove_atoms_by. simpl. rewrite flat_map_map, !map_flat_map. apply flat_map_ext. intros c. apply rab_chain_confs. Qed.
Lemma rab_chain_res pr c : map rkey (ch_residues (Chain_remove_atoms_by pr c)) = map rkey (ch_residues c).
Proof. unfold Chain_remove_atoms_by. simpl. rewrite map_map. reflexivity. Qed.
Lemma rab_model_res pr m : map rkey (m_residues (Model_remove_atoms_by pr m)) = map rkey (m_residues m).
Proof. unfold m_residues, Model_remove_atoms_by. simpl. rewrite flat_map_map, !map_flat_map. apply flat_map_ext. intros c. apply rab_chain_res. Qed.
Lemma rab_model_chains pr m : map ch_id (m_chains (Model_remove_atoms_by pr m)) = map ch_id (m_chains m).
Proof. unfold Model_remove_atoms_by. simpl. rewrite map_map. reflexivity. Qed.

Theorem C10_remove_atoms_by : forall pr (p : pdb),
  p_atoms (PDB_remove_atoms_by pr p) = filter (fun a => negb (pr a)) (p_atoms p) /\
  map ckey (p_confs (PDB_remove_atoms_by pr p)) = map ckey (p_confs p) /\
  map rkey (p_residues (PDB_remove_atoms_by pr p)) = map rkey (p_residues p) /\
  map ch_id (p_chains (PDB_remove_atoms_by pr p)) = map ch_id (p_chains p) /\
  map m_serial (PDB_remove_atoms_by pr p) = map m_serial p.
Proof.
  intros pr p. unfold PDB_remove_atoms_by, p_atoms, p_confs, p_residues, p_chains.
  repeat split.
  - rewrite flat_map_map, filter_flat_map. apply flat_map_ext. intros m.
    unfold m_atoms, Model_remove_atoms_by. simpl. rewrite flat_map_map, filter_flat_map. apply flat_map_ext. intros c.
    unfold ch_atoms, Chain_remove_atoms_by. simpl. rewrite flat_map_map, filter_flat_map. apply flat_map_ext. intros r.
    unfold r_atoms, Residue_remove_atoms_by. simpl. rewrite flat_map_map, filter_flat_map. apply flat_map_ext. intros cf.
    reflexivity.
  - rewrite flat_map_map, !map_flat_map. apply flat_map_ext. intros m. apply rab_model_confs.
  - rewrite flat_map_map, !map_flat_map. apply flat_map_ext. intros m. apply rab_model_res.
  - rewrite flat_map_map, !map_flat_map. apply flat_map_ext. intros m. apply rab_model_chains.
  - rewrite map_map. reflexivity.
Qed.
Theorem C10_remove_conformers_by : forall pr (p : pdb),
  p_confs (PDB_remove_conformers_by pr p) = filter (fun c => negb (pr c)) (p_confs p).
Proof.
  intros pr p. unfold PDB_remove_conformers_by, p_confs. rewrite flat_map_map, filter_flat_map. apply flat_map_ext. intros m.
  unfold m_confs, Model_remove_conformers_by. simpl. rewrite flat_map_map, filter_flat_map. apply flat_map_ext. intros c.
  unfold ch_confs, Chain_remove_conformers_by. simpl. rewrite flat_map_map, filter_flat_map. apply flat_map_ext. intros r. reflexivity.
Qed.
Theorem C10_remove_residues_by : forall pr (p : pdb),
  p_residues (PDB_remove_residues_by pr p) = filter (fun r => negb (pr r)) (p_residues p).
Proof.
  intros pr p. unfold PDB_remove_residues_by, p_residues. rewrite flat_map_map, filter_flat_map. apply flat_map_ext. intros m.
  unfold m_residues, Model_remove_residues_by. simpl. rewrite flat_map_map, filter_flat_map. apply flat_map_ext. intros c. reflexivity.
Qed.
Theorem C10_remove_chains_by : forall pr (p : pdb),
  p_chains (PDB_remove_chains_by pr p) = filter (fun c => negb (pr c)) (p_chains p).
Proof.
  intros pr p. unfold PDB_remove_chains_by, p_chains. rewrite flat_map_map, filter_flat_map. apply flat_map_ext. intros m. reflexivity.
Qed.
Theorem C10_remove_models_by : forall pr (p : pdb), PDB_remove_models_by pr p = filter (fun m => negb (pr m)) p.
Proof. reflexivity. Qed.

(* ---- 2. removal by index: in range = exactly that element goes; out of range = refused (the caller panics) ---- *)
Theorem C10_remove_at : forall (A : Type) (n : nat) (l : list A),
  (n < length l -> remove_at n l = Some (firstn n l ++ skipn (S n) l)) /\
  (length l <= n -> remove_at n l = None).
Proof.
  intros A n l. revert n. induction l as [|x r IH]; intros n; split; intros H.
  - simpl in H; lia.
  - destruct n; reflexivity.
  - destruct n as [|n]; [reflexivity|]. simpl in H.
    destruct (IH n) as [H1 _]. cbn [remove_at firstn skipn app]. rewrite H1 by lia. reflexivity.
  - destruct n as [|n]; [simpl in H; lia|]. simpl in H.
    destruct (IH n) as [_ H2]. cbn [remove_at]. rewrite H2 by lia. reflexivity.
Qed.
Theorem C10_insert_at : forall (A : Type) (n : nat) (x : A) (l : list A),
  (n <= length l -> insert_at n x l = Some (firstn n l ++ x :: skipn n l)) /\
  (length l < n -> insert_at n x l = None).
Proof.
  intros A n x l. revert n. induction l as [|y r IH]; intros n; split; intros H.
  - simpl in H. assert (n = 0) by lia. subst. reflexivity.
  - destruct n; [simpl in H; lia|reflexivity].
  - destruct n as [|n]; [reflexivity|]. simpl in H.
    destruct (IH n) as [H1 _]. cbn [insert_at firstn skipn app]. rewrite H1 by lia. reflexivity.
  - destruct n as [|n]; [simpl in H; lia|]. simpl in H.
    destruct (IH n) as [_ H2]. cbn [insert_at]. rewrite H2 by lia. reflexivity.
Qed.

(* ---- 3. removal by identifier: only the first match goes, and the result says whether one existed ---- *)
Theorem C10_remove_first : forall (A : Type) (p : A -> bool) (l : list A),
  (forallb (fun x => negb (p x)) l = true /\ remove_first p l = (l, false)) \/
  (exists l1 x l2, l = l1 ++ x :: l2 /\ p x = true /\ forallb (fun y => negb (p y)) l1 = true /\
                   remove_first p l = (l1 ++ l2, true)).
Proof.
  intros A p l. unfold remove_first. induction l as [|x r IH]; simpl.
  - left. auto.
  - destruct (p x) eqn:E.
    + right. exists [], x, r. simpl. auto.
    + destruct IH as [[Hn Hr]|[l1 [y [l2 [-> [Hy [Hn Hr]]]]]]].
      * left. simpl. split; [exact Hn|]. destruct (position p r); [discriminate|reflexivity].
      * right. exists (x :: l1), y, l2. simpl. rewrite E. simpl. repeat split; auto.
        destruct (position p (l1 ++ y :: l2)) as [i|]; [|discriminate]. simpl.
        destruct (remove_at i (l1 ++ y :: l2)); simpl in *; injection Hr as Hr; now rewrite Hr.
Qed.

(* ---- 4. remove_empty: afterwards no container is empty, no atom is lost, and a second call changes nothing ---- *)
Definition nonempty_conf (c : conformer) := negb (is_nil (c_atoms c)).
Definition nonempty_res (r : residue) := (negb (is_nil (r_confs r)) && forallb nonempty_conf (r_confs r))%bool.
Definition nonempty_chain (c : chain) := (negb (is_nil (ch_residues c)) && forallb nonempty_res (ch_residues c))%bool.
Definition nonempty_model (m : model) := (negb (is_nil (m_chains m)) && forallb nonempty_chain (m_chains m))%bool.
Lemma forallb_filter {A} (p : A -> bool) l : forallb p (filter p l) = true.
Proof. induction l as [|x r IH]; simpl; auto. destruct (p x) eqn:E; simpl; auto. now rewrite E. Qed.
Lemma forallb_filter2 {A} (p q : A -> bool) l : forallb q l = true -> forallb q (filter p l) = true.
Proof. induction l as [|x r IH]; simpl; auto. intros H. apply andb_prop in H as [H1 H2]. destruct (p x); simpl; auto. now rewrite H1, IH. Qed.
Lemma forallb_map {A B} (f : A -> B) (q : B -> bool) l : forallb q (map f l) = forallb (fun x => q (f x)) l.
Proof. induction l as [|x r IH]; simpl; auto. now rewrite IH. Qed.
Lemma forallb_true {A} (q : A -> bool) l : (forall x, q x = true) -> forallb q l = true.
Proof. intros H. induction l; simpl; auto. now rewrite H. Qed.

Lemma forallb_filter_map {A B} (f : A -> B) (p q : B -> bool) l :
  (forall x, p (f x) = true -> q (f x) = true) -> forallb q (filter p (map f l)) = true.
Proof. intros H. induction l as [|x r IH]; simpl; auto. destruct (p (f x)) eqn:E; simpl; auto. now rewrite (H x E). Qed.

Lemma res_remove_empty_ok r : forallb nonempty_conf (r_confs (Residue_remove_empty r)) = true.
Proof. unfold Residue_remove_empty, retain. simpl. apply forallb_filter. Qed.
Lemma chain_remove_empty_ok c : forallb nonempty_res (ch_residues (Chain_remove_empty c)) = true.
Proof.
  unfold Chain_remove_empty, retain. simpl. apply forallb_filter_map. intros r H.
  unfold nonempty_res. now rewrite H, res_remove_empty_ok.
Qed.
Lemma model_remove_empty_ok m : forallb nonempty_chain (m_chains (Model_remove_empty m)) = true.
Proof.
  unfold Model_remove_empty, retain. simpl. apply forallb_filter_map. intros c H.
  unfold nonempty_chain. now rewrite H, chain_remove_empty_ok.
Qed.
Theorem C10_remove_empty_no_empties : forall p, forallb nonempty_model (PDB_remove_empty p) = true.
Proof.
  intros p. unfold PDB_remove_empty, retain. apply forallb_filter_map. intros m H.
  unfold nonempty_model. now rewrite H, model_remove_empty_ok.
Qed.

Lemma flat_map_filter_nonempty {X Y} (f : X -> list Y) l :
  flat_map f (filter (fun x => negb (is_nil (f x))) l) = flat_map f l.
Proof. induction l as [|x r IH]; simpl; auto. destruct (f x) eqn:E; simpl; auto. rewrite E. simpl. now rewrite IH. Qed.
Lemma res_remove_empty_atoms r : r_atoms (Residue_remove_empty r) = r_atoms r.
Proof. unfold Residue_remove_empty, r_atoms, retain. simpl. apply flat_map_filter_nonempty. Qed.
Lemma flat_map_filter_gen {X Y} (f : X -> list Y) (keep : X -> bool) l :
  (forall x, keep x = false -> f x = []) -> flat_map f (filter keep l) = flat_map f l.
Proof. intros H. induction l as [|x r IH]; simpl; auto. destruct (keep x) eqn:E; simpl; rewrite IH; auto. now rewrite (H x E). Qed.
Lemma chain_remove_empty_atoms c : ch_atoms (Chain_remove_empty c) = ch_atoms c.
Proof.
  unfold Chain_remove_empty, ch_atoms, retain. simpl.
  rewrite flat_map_filter_gen.
  - rewrite flat_map_map. apply flat_map_ext. intros r. apply res_remove_empty_atoms.
  - intros r H. unfold r_atoms. destruct (r_confs r); [reflexivity|discriminate].
Qed.
Lemma model_remove_empty_atoms m : m_atoms (Model_remove_empty m) = m_atoms m.
Proof.
  unfold Model_remove_empty, m_atoms, retain. simpl.
  rewrite flat_map_filter_gen.
  - rewrite flat_map_map. apply flat_map_ext. intros c. apply chain_remove_empty_atoms.
  - intros c H. unfold ch_atoms. destruct (ch_residues c); [reflexivity|discriminate].
Qed.
Theorem C10_remove_empty_keeps_atoms : forall p, p_atoms (PDB_remove_empty p) = p_atoms p.
Proof.
  intros p. unfold PDB_remove_empty, p_atoms, retain.
  rewrite flat_map_filter_gen.
  - rewrite flat_map_map. apply flat_map_ext. intros m. apply model_remove_empty_atoms.
  - intros m H. unfold m_atoms. destruct (m_chains m); [reflexivity|discriminate].
Qed.

(* ---- 5. keeping selected models ---- *)
Theorem C10_remove_models_except_refused : forall idxs (p : pdb),
  (p = [] \/ length p <= fold_right Nat.max 0 idxs) ->
  PDB_remove_models_except idxs p = (p, None).
Proof.
  intros idxs p H. unfold PDB_remove_models_except. destruct p as [|m ms]; [reflexivity|].
  destruct H as [H|H]; try discriminate.
  apply Nat.leb_le in H. now rewrite H.
Qed.
Lemma enumerate_nth {A} (l : list A) : forall i k x, In (k, x) (enumerate_from i l) <-> (i <= k /\ nth_error l (k - i) = Some x).
Proof.
  induction l as [|y r IH]; intros i k x; simpl.
  - split; [tauto|]. intros [_ H]. destruct (k - i); discriminate.
  - rewrite IH. split.
    + intros [H|[H1 H2]].
      * injection H as <- <-. split; [lia|]. now rewrite Nat.sub_diag.
      * split; [lia|]. replace (k - i) with (S (k - S i)) by lia. exact H2.
    + intros [H1 H2]. destruct (Nat.eq_dec i k) as [->|N].
      * left. rewrite Nat.sub_diag in H2. simpl in H2. now injection H2 as ->.
      * right. split; [lia|]. replace (k - i) with (S (k - S i)) in H2 by lia. exact H2.
Qed.
Theorem C10_remove_models_except_accepted : forall idxs (p : pdb),
  p <> [] -> fold_right Nat.max 0 idxs < length p ->
  let kept := map snd (filter (fun im => existsb (Nat.eqb (fst im)) idxs) (enumerate_from 0 p)) in
  PDB_remove_models_except idxs p = (kept, Some (length p - length kept)) /\
  (forall m, In m kept <-> exists i, In i idxs /\ nth_error p i = Some m).
Proof.
  intros idxs p Hp Hmax kept. split.
  - unfold PDB_remove_models_except. destruct p as [|m ms]; [congruence|].
    apply Nat.leb_gt in Hmax. rewrite Hmax. reflexivity.
  - intros m. unfold kept. rewrite in_map_iff. split.
    + intros [[k x] [E H]]. simpl in E. subst x. apply filter_In in H as [H1 H2]. simpl in H2.
      apply existsb_exists in H2 as [i [Hin He]]. apply Nat.eqb_eq in He. subst i.
      apply enumerate_nth in H1 as [_ H1]. rewrite Nat.sub_0_r in H1. now exists k.
    + intros [i [Hin Hn]]. exists (i, m). split; [reflexivity|]. apply filter_In. split.
      * apply enumerate_nth. rewrite Nat.sub_0_r. split; [lia|exact Hn].
      * simpl. apply existsb_exists. exists i. split; [exact Hin|apply Nat.eqb_refl].
Qed.

(* ---- 6. join / extend: the other structure's content is appended, nothing else moves ---- *)
Theorem C10_join_atoms : forall (c o : conformer) (r ro : residue) (ch cho : chain) (m mo : model),
  c_atoms (Conformer_join c o) = c_atoms c ++ c_atoms o /\
  r_atoms (Residue_join r ro) = r_atoms r ++ r_atoms ro /\
  ch_atoms (Chain_join ch cho) = ch_atoms ch ++ ch_atoms cho /\
  m_atoms (Model_join m mo) = m_atoms m ++ m_atoms mo.
Proof. intros. unfold r_atoms, ch_atoms, m_atoms. simpl. rewrite !flat_map_app. auto. Qed.
Theorem C10_pdb_join_atoms : forall (p o : pdb), p_atoms (PDB_join p o) = p_atoms p ++ p_atoms o.
Proof.
  intros p o. unfold PDB_join, p_atoms.
  destruct (Nat.ltb 1 (length p) || Nat.ltb 1 (length o))%bool eqn:E; [apply flat_map_app|].
  apply orb_false_elim in E as [E1 E2]. apply Nat.ltb_ge in E1, E2.
  destruct p as [|m ms]; [reflexivity|]. destruct o as [|mo mos]; [simpl; now rewrite app_nil_r|].
  destruct ms; [|simpl in E1; lia]. destruct mos; [|simpl in E2; lia].
  simpl. rewrite !app_nil_r. unfold m_atoms. simpl. apply flat_map_app.
Qed.

(* ---- 7. setters: a rejected value leaves the atom untouched; an accepted one never stores a non-finite number,
        a negative occupancy or B factor, or text with characters outside the printable range ---- *)
Definition valid_atom (a : atom) : bool :=
  (finite (a_x a) && finite (a_y a) && finite (a_z a) && finite (a_occ a) && finite (a_b a) &&
   valid_text (a_id a) && valid_text (a_name a))%bool.
Theorem C10_atom_setter_rejects : forall a f v, snd (upd_atom a f v) = false -> fst (upd_atom a f v) = a.
Proof.
  intros a f v. unfold upd_atom.
  destruct (String.eqb f f_pos).
  { unfold upd_atom_pos. destruct v as [| | |[|vx [|vy [|vz [|]]]]]; simpl; try reflexivity.
    destruct (finite (fval_of_sx vx) && finite (fval_of_sx vy) && finite (fval_of_sx vz))%bool; simpl; congruence. }
  destruct (String.eqb f f_atf); [simpl; discriminate|].
  destruct (afield_of f) as [fd|]; [|reflexivity].
  destruct fd; simpl; try discriminate;
  repeat match goal with |- context [if ?b then _ else _] => destruct b end; simpl; congruence.
Qed.

Theorem C10_atom_setter_keeps_valid : forall a f v, valid_atom a = true -> valid_atom (fst (upd_atom a f v)) = true.
Proof.
  intros a f v Hv. unfold upd_atom.
  destruct (String.eqb f f_pos).
  { unfold upd_atom_pos. destruct v as [| | |[|vx [|vy [|vz [|]]]]]; simpl; try exact Hv.
    destruct (finite (fval_of_sx vx) && finite (fval_of_sx vy) && finite (fval_of_sx vz))%bool eqn:E; simpl; [|exact Hv].
    unfold valid_atom in *. simpl.
    repeat match type of Hv with (_ && _)%bool = true => let H := fresh "H" in apply andb_prop in Hv as [Hv H] end.
    repeat match type of E with (_ && _)%bool = true => let H := fresh "H" in apply andb_prop in E as [E H] end.
    repeat (apply andb_true_intro; split); auto. }
  destruct (String.eqb f f_atf); [exact Hv|].
  destruct (afield_of f) as [fd|]; [|exact Hv].
  unfold valid_atom in *.
  repeat match type of Hv with (_ && _)%bool = true => let H := fresh "H" in apply andb_prop in Hv as [Hv H] end.
  destruct fd; simpl;
  repeat match goal with |- context [if ?b then _ else _] => destruct b eqn:? end; simpl;
  repeat match goal with H : (_ && _)%bool = true |- _ => apply andb_prop in H as [? ?] end;
  repeat (apply andb_true_intro; split); auto using valid_trim.
  all: try (rewrite valid_text_upper; apply valid_trim; assumption).
Qed.

(* the empty id, which set_id refuses, does not get into an atom through any setter either (an all-blank text is stored
   trimmed: it is refused as well) *)
Theorem C10_atom_setter_keeps_id_nonempty : forall a f v, a_id a <> [] -> a_id (fst (upd_atom a f v)) <> [].
Proof.
  intros a f v Hv. unfold upd_atom.
  destruct (String.eqb f f_pos).
  { unfold upd_atom_pos. destruct v as [| | |[|vx [|vy [|vz [|]]]]]; simpl; try exact Hv.
    destruct (finite (fval_of_sx vx) && finite (fval_of_sx vy) && finite (fval_of_sx vz))%bool; simpl; exact Hv. }
  destruct (String.eqb f f_atf); [exact Hv|].
  destruct (afield_of f) as [fd|]; [|exact Hv].
  destruct fd; simpl; try exact Hv;
  try (match goal with |- context [if ?b then _ else _] => destruct b eqn:E end; simpl; try exact Hv).
  apply andb_prop in E as [_ E]. destruct (trim (get_text v)); [discriminate E|discriminate].
Qed.

Print Assumptions C10_remove_atoms_by.
Print Assumptions C10_remove_conformers_by.
Print Assumptions C10_remove_residues_by.
Print Assumptions C10_remove_chains_by.
Print Assumptions C10_remove_models_by.
Print Assumptions C10_remove_at.
Print Assumptions C10_insert_at.
Print Assumptions C10_remove_first.
Print Assumptions C10_remove_empty_no_empties.
Print Assumptions C10_remove_empty_keeps_atoms.
Print Assumptions C10_remove_models_except_refused.
Print Assumptions C10_remove_models_except_accepted.
Print Assumptions C10_join_atoms.
Print Assumptions C10_pdb_join_atoms.
Print Assumptions C10_atom_setter_rejects.
Print Assumptions C10_atom_setter_keeps_valid.
Print Assumptions C10_atom_setter_keeps_id_nonempty.
