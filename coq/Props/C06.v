(* C06 - reading mmCIF input is total.
   The executable model of the reader (Model/CifLex.v, Model/CifParse.v) mirrors the repaired code; proved here:
   (1) the panic-capable constructs of the current source are exactly the reviewed ones, (2) the lexer terminates: its
   loops consume input, so the fuel never runs out, (3) the reader always classifies and a lexer failure is a
   BreakingError, (4) the facts the reviewed sites lean on: loop rows have the width of the header, matrix indices are
   below 3, unit-cell setters only see values they accept, the uncertainty accumulator stays within u32. *)
From Coq Require Import List Ascii String ZArith Bool Lia Arith.
From PV Require Import Base.Sx Base.Text Base.Num Spec.Hier Spec.SitesAllow Gen.Sites Model.PdbLex Model.PdbParse Model.CifLex Model.CifParse Proofs.C06lex.
Import ListNotations.

(* 1. the regenerated inventory of index / unwrap / expect / panic / assert sites in the mmCIF reader and what it calls is
      exactly the reviewed table *)
Theorem C06_panic_sites_reviewed : rows_eqb (filter (in_files cif_files) sites) cif_allowed = true.
Proof. vm_compute. reflexivity. Qed.

(* 2. termination: with the fuel lex_cif hands out no loop of the lexer runs dry, for every input *)
Theorem C06_lexer_terminates : forall input, lex_cif input <> None.
Proof. exact lex_cif_total. Qed.

(* 3. a lexer failure is a BreakingError ... *)
Lemma parse_data_item_err fuel t e t' : parse_data_item fuel t = Some (inr e, t') -> d_level e = DBreaking.
Proof.
  unfold parse_data_item. intros H.
  repeat match type of H with
  | context [match ?x with _ => _ end] => destruct x eqn:?; try discriminate
  | context [if ?x then _ else _] => destruct x eqn:?; try discriminate
  | context [let '(_, _) := ?x in _] => destruct x eqn:?
  end; inversion H; reflexivity.
Qed.
Lemma parse_item_err fuel t e t' : parse_item fuel t = Some (inr e, t') -> d_level e = DBreaking.
Proof.
  unfold parse_item. intros H.
  destruct (starts_ci "save_" t).
  - destruct (span_id t0). destruct (frame_items fuel t2) as [[ds t3]|]; [|discriminate].
    destruct (starts_ci "save_" t3); inversion H; reflexivity.
  - destruct (parse_data_item fuel t) as [[[d|e0] t1]|] eqn:E; inversion H; subst. eapply parse_data_item_err; eassumption.
Qed.
Lemma block_items_err fuel : forall t e, block_items fuel t = Some (inr e) -> d_level e = DBreaking.
Proof.
  induction fuel as [|f IH]; intros t e H; [discriminate|].
  cbn [block_items] in H.
  destruct (tcw false t) as [|c r]; [discriminate|].
  destruct (parse_item (S f) (c :: r)) as [[[it|e0] t1]|] eqn:E; [| |discriminate].
  - destruct (block_items f t1) as [[its|e1]|] eqn:E1; inversion H; subst. eapply IH; eassumption.
  - inversion H; subst. eapply parse_item_err; eassumption.
Qed.
Theorem C06_lexer_errors_break : forall input e, lex_cif input = Some (inr e) -> d_level e = DBreaking.
Proof.
  intros input e. unfold lex_cif, lex_cif_fuel.
  destruct (starts_ci "data_" (tcw false input)); [|intros H; inversion H; reflexivity].
  destruct (span_id t). destruct (block_items _ t1) as [[its|e1]|] eqn:E; intros H; inversion H; subst.
  eapply block_items_err; eassumption.
Qed.
(* ... and the reader always classifies: a structure whose diagnostics all pass the level, or a rejection list that
   holds a failing diagnostic; never the out-of-fuel outcome *)
Theorem C06_always_classified : forall opts level input,
  match read_cif opts level input with
  | Some (inl (_, ds)) => forallb (fun d => negb (fails_level (d_level d) level)) ds = true
  | Some (inr ds) => existsb (fun d => fails_level (d_level d) level) ds = true
  | None => False
  end.
Proof.
  intros. unfold read_cif.
  pose proof (lex_cif_total input) as T. pose proof (C06_lexer_errors_break input) as B.
  destruct (lex_cif input) as [[b|e]|]; [| |congruence].
  - unfold parse_mmcif.
    match goal with |- context [existsb ?f ?l] => generalize l; intros ds end.
    destruct (existsb _ ds) eqn:E; [exact E|].
    induction ds as [|d r IH]; simpl in *; [reflexivity|].
    apply orb_false_elim in E as [E1 E2]. rewrite E1. simpl. now apply IH.
  - simpl. rewrite (B e eq_refl). unfold fails_level. destruct level as [|[| |]|]; reflexivity.
Qed.

(* 4a. the rows of a loop: as wide as the header (so row[x] of a header position exists), and they are the values in order *)
Lemma mod_sub k n : k <> 0 -> n mod k = 0 -> n <> 0 -> k <= n /\ (n - k) mod k = 0.
Proof.
  intros Hk H Hn. apply Nat.mod_divides in H; [|exact Hk]. destruct H as [c Hc].
  destruct c as [|c]; [lia|]. split; [nia|].
  replace (n - k) with (c * k) by nia. apply Nat.mod_mul. exact Hk.
Qed.
Lemma chunk_rows fuel : forall k (l : list cval), k <> 0 -> List.length l mod k = 0 -> List.length l < fuel ->
  Forall (fun row => List.length row = k) (chunk fuel k l) /\ List.concat (chunk fuel k l) = l.
Proof.
  induction fuel as [|f IH]; intros k l Hk Hm Hl; [lia|].
  cbn [chunk]. destruct l as [|x r] eqn:El; [split; [constructor|reflexivity]|].
  rewrite <- El in *. assert (Hn : List.length l <> 0) by (subst l; simpl; lia).
  destruct (mod_sub k (List.length l) Hk Hm Hn) as [Hle Hm'].
  destruct (IH k (skipn k l) Hk) as [F C]; [rewrite skipn_length; exact Hm'|rewrite skipn_length; lia|].
  split.
  - constructor; [rewrite firstn_length; lia|exact F].
  - cbn [List.concat]. rewrite C. apply firstn_skipn.
Qed.
Theorem C06_rows_match_header : forall fuel t hs rows t',
  parse_data_item fuel t = Some (inl (DLoop hs rows), t') ->
  hs <> [] /\ Forall (fun row => List.length row = List.length hs) rows.
Proof.
  intros fuel t hs rows t'. unfold parse_data_item.
  destruct (starts_ci "loop_" (tcw false t)) as [t1|].
  - destruct (headers fuel (tcw false t1)) as [[hs0 t2]|]; [|discriminate].
    destruct (values fuel t2) as [[vs t3]|]; [|discriminate].
    destruct (Nat.eqb (List.length hs0) 0) eqn:E0; [discriminate|].
    destruct (Nat.eqb (List.length vs mod List.length hs0) 0) eqn:Em; [|discriminate].
    intros H. inversion H; subst. apply Nat.eqb_neq in E0. apply Nat.eqb_eq in Em.
    split; [intros ->; simpl in E0; lia|].
    apply (chunk_rows (S (List.length vs)) (List.length hs) vs E0 Em). lia.
  - destruct (starts_ci "_" (tcw false t)) as [t1|]; [|discriminate].
    destruct (span_id t1). destruct (parse_value t2) as [[v|e] t3]; discriminate.
Qed.
Theorem C06_rows_are_the_values : forall k (vs : list cval), k <> 0 -> List.length vs mod k = 0 ->
  List.concat (chunk (S (List.length vs)) k vs) = vs.
Proof. intros k vs Hk Hm. apply (chunk_rows (S (List.length vs)) k vs Hk Hm). lia. Qed.

(* 4b. matrix indices taken from an item name are 0, 1 or 2 *)
Theorem C06_matrix_index_in_range : forall name n i, index_back name n = inl i -> i < 3.
Proof.
  intros name n i. unfold index_back.
  destruct (nth_error (rev name) n) as [c|]; [|discriminate].
  destruct ((1 <=? ccode c - 48)%Z && (ccode c - 48 <=? 3)%Z)%bool eqn:E; [|discriminate].
  intros H. inversion H; subst. apply andb_prop in E as [E1 E2]. apply Z.leb_le in E1. apply Z.leb_le in E2. lia.
Qed.

(* 4c. the value handed to a unit-cell setter is finite, and an angle lies in [0, 360) *)
Theorem C06_cell_value_in_range : forall v angle n, get_cell_value v angle = inl n ->
  is_finite n = true /\ (angle = true -> fle (FFin 0 0) n = true /\ fle (FFin 45 3) n = false).
Proof.
  intros v angle n. unfold get_cell_value.
  destruct (get_f64 v) as [[x|]|e]; [|discriminate|discriminate].
  destruct (is_finite x && (negb angle || (fle (FFin 0 0) x && negb (fle (FFin 45 3) x))))%bool eqn:E; [|discriminate].
  intros H. inversion H; subst. apply andb_prop in E as [E1 E2]. split; [exact E1|].
  intros ->. simpl in E2. apply andb_prop in E2 as [E3 E4]. split; [exact E3|]. now apply negb_true_iff in E4.
Qed.

(* 4d. the uncertainty of a numeric value fits the 32-bit accumulator *)
Theorem C06_uncertainty_fits : forall t f u, parse_numeric t = Some (VNumU f u) -> (u <= max_u32)%Z.
Proof.
  intros t f u. unfold parse_numeric. intros H.
  repeat match type of H with
  | context [match ?x with _ => _ end] => destruct x eqn:?; try discriminate
  | context [if ?x then _ else _] => destruct x eqn:?; try discriminate
  | context [let '(_, _) := ?x in _] => destruct x eqn:?
  end;
  inversion H; subst;
  repeat match goal with
  | E : (if ?c then None else _) = Some _ |- _ => destruct c eqn:?; [discriminate|]
  | E : match ?r with _ => _ end = Some _ |- _ => destruct r; try discriminate
  | E : Some _ = Some _ |- _ => inversion E; subst; clear E
  end;
  try match goal with E : (max_u32 <? _)%Z = false |- _ => apply Z.ltb_ge in E; exact E end.
Qed.

Print Assumptions C06_panic_sites_reviewed.
Print Assumptions C06_lexer_terminates.
Print Assumptions C06_lexer_errors_break.
Print Assumptions C06_always_classified.
Print Assumptions C06_rows_match_header.
Print Assumptions C06_rows_are_the_values.
Print Assumptions C06_matrix_index_in_range.
Print Assumptions C06_cell_value_in_range.
Print Assumptions C06_uncertainty_fits.
