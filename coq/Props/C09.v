(* C09 — all ways of walking a structure agree.
   Every read-only accessor, as translated from the current Rust source into Gen/Accessors.v (T3), equals its
   nested-traversal specification from Spec/Hier.v, for every structure. *)
From Coq Require Import List Arith Lia.
From PV Require Import Base.Text Spec.Hier Gen.Accessors.
Import ListNotations.

(* ----- arithmetic of counts ----- *)
Lemma sum_len {X Y} (f : X -> list Y) l : list_sum (map (fun x => length (f x)) l) = length (flat_map f l).
Proof. induction l as [|x r IH]; simpl; auto. now rewrite app_length, IH. Qed.
Lemma fold_add_len {X Y} (f : X -> list Y) l : forall n, fold_left (fun acc x => acc + length (f x)) l n = n + length (flat_map f l).
Proof. induction l as [|x r IH]; intros n; simpl; [lia|]. rewrite IH, app_length. lia. Qed.
Lemma fold_add_len' {X Y} (f : X -> list Y) l : forall n, fold_left (fun acc x => length (f x) + acc) l n = n + length (flat_map f l).
Proof. induction l as [|x r IH]; intros n; simpl; [lia|]. rewrite IH, app_length. lia. Qed.
Lemma fold_ext {X} (g h : nat -> X -> nat) l : (forall a x, g a x = h a x) -> forall n, fold_left g l n = fold_left h l n.
Proof. intros E. induction l as [|x r IH]; intros n; simpl; auto. now rewrite E, IH. Qed.
Lemma map_id' {X} (l : list X) : map (fun t => t) l = l. Proof. apply map_id. Qed.

(* rewriting an accessor by its specification underneath map / flat_map / fold *)
Ltac under L :=
  repeat first
    [ rewrite (map_ext _ _ L)
    | rewrite (flat_map_ext _ _ L)
    | rewrite L ].
Ltac fin := rewrite ?map_id', ?sum_len, ?fold_add_len, ?fold_add_len'; simpl; try reflexivity; try lia.

(* ================= Conformer ================= *)
Theorem Conformer_atoms_spec c : Conformer_atoms c = c_atoms c. Proof. reflexivity. Qed.
Theorem Conformer_par_atoms_spec c : Conformer_par_atoms c = c_atoms c. Proof. reflexivity. Qed.
Theorem Conformer_atom_count_spec c : Conformer_atom_count c = length (c_atoms c). Proof. reflexivity. Qed.
Theorem Conformer_atom_spec c i : Conformer_atom c i = nth_error (c_atoms c) i. Proof. reflexivity. Qed.

(* ================= Residue ================= *)
Theorem Residue_conformers_spec r : Residue_conformers r = r_confs r. Proof. reflexivity. Qed.
Theorem Residue_par_conformers_spec r : Residue_par_conformers r = r_confs r. Proof. reflexivity. Qed.
Theorem Residue_atoms_spec r : Residue_atoms r = r_atoms r.
Proof. unfold Residue_atoms, r_atoms. under Conformer_atoms_spec. now rewrite Residue_conformers_spec. Qed.
Theorem Residue_par_atoms_spec r : Residue_par_atoms r = r_atoms r.
Proof. unfold Residue_par_atoms, r_atoms. under Conformer_par_atoms_spec. now rewrite Residue_par_conformers_spec. Qed.
Theorem Residue_conformer_count_spec r : Residue_conformer_count r = length (r_confs r). Proof. reflexivity. Qed.
Theorem Residue_atom_count_spec r : Residue_atom_count r = length (r_atoms r).
Proof.
  unfold Residue_atom_count, r_atoms. rewrite Residue_conformers_spec.
  rewrite (fold_ext _ (fun acc x => length (c_atoms x) + acc)) by (intros; now rewrite Conformer_atom_count_spec). fin.
Qed.
Theorem Residue_par_atom_count_spec r : Residue_par_atom_count r = length (r_atoms r).
Proof. unfold Residue_par_atom_count, r_atoms. rewrite Residue_par_conformers_spec. under Conformer_atom_count_spec. fin. Qed.
Theorem Residue_conformer_spec r i : Residue_conformer r i = nth_error (r_confs r) i. Proof. reflexivity. Qed.
Theorem Residue_atom_spec r i : Residue_atom r i = nth_error (r_atoms r) i.
Proof. unfold Residue_atom. now rewrite Residue_atoms_spec. Qed.
Theorem Residue_atoms_with_hierarchy_spec r : Residue_atoms_with_hierarchy r = r_awh r.
Proof. unfold Residue_atoms_with_hierarchy, r_awh. rewrite map_id', Residue_conformers_spec. apply flat_map_ext. intros c. now rewrite Conformer_atoms_spec. Qed.

(* ================= Chain ================= *)
Theorem Chain_residues_spec c : Chain_residues c = ch_residues c. Proof. reflexivity. Qed.
Theorem Chain_par_residues_spec c : Chain_par_residues c = ch_residues c. Proof. reflexivity. Qed.
Theorem Chain_conformers_spec c : Chain_conformers c = ch_confs c.
Proof. unfold Chain_conformers, ch_confs. under Residue_conformers_spec. now rewrite Chain_residues_spec. Qed.
Theorem Chain_par_conformers_spec c : Chain_par_conformers c = ch_confs c.
Proof. unfold Chain_par_conformers, ch_confs. under Residue_par_conformers_spec. now rewrite Chain_par_residues_spec. Qed.
Theorem Chain_atoms_spec c : Chain_atoms c = ch_atoms c.
Proof. unfold Chain_atoms, ch_atoms. under Residue_atoms_spec. now rewrite Chain_residues_spec. Qed.
Theorem Chain_par_atoms_spec c : Chain_par_atoms c = ch_atoms c.
Proof. unfold Chain_par_atoms, ch_atoms. under Residue_par_atoms_spec. now rewrite Chain_par_residues_spec. Qed.
Theorem Chain_residue_count_spec c : Chain_residue_count c = length (ch_residues c). Proof. reflexivity. Qed.
Theorem Chain_conformer_count_spec c : Chain_conformer_count c = length (ch_confs c).
Proof. unfold Chain_conformer_count, ch_confs. rewrite Chain_residues_spec. under Residue_conformer_count_spec. fin. Qed.
Theorem Chain_par_conformer_count_spec c : Chain_par_conformer_count c = length (ch_confs c).
Proof. unfold Chain_par_conformer_count, ch_confs. rewrite Chain_par_residues_spec. under Residue_conformer_count_spec. fin. Qed.
Theorem Chain_atom_count_spec c : Chain_atom_count c = length (ch_atoms c).
Proof. unfold Chain_atom_count, ch_atoms. rewrite Chain_residues_spec. under Residue_atom_count_spec. fin. Qed.
Theorem Chain_par_atom_count_spec c : Chain_par_atom_count c = length (ch_atoms c).
Proof. unfold Chain_par_atom_count, ch_atoms. rewrite Chain_par_residues_spec. under Residue_par_atom_count_spec. fin. Qed.
Theorem Chain_residue_spec c i : Chain_residue c i = nth_error (ch_residues c) i. Proof. reflexivity. Qed.
Theorem Chain_conformer_spec c i : Chain_conformer c i = nth_error (ch_confs c) i.
Proof. unfold Chain_conformer. now rewrite Chain_conformers_spec. Qed.
Theorem Chain_atom_spec c i : Chain_atom c i = nth_error (ch_atoms c) i.
Proof. unfold Chain_atom. now rewrite Chain_atoms_spec. Qed.
Theorem Chain_atoms_with_hierarchy_spec c : Chain_atoms_with_hierarchy c = ch_awh c.
Proof. unfold Chain_atoms_with_hierarchy, ch_awh. rewrite Chain_residues_spec. apply flat_map_ext. intros r. now rewrite Residue_atoms_with_hierarchy_spec. Qed.

(* ================= Model ================= *)
Theorem Model_chains_spec m : Model_chains m = m_chains m. Proof. reflexivity. Qed.
Theorem Model_par_chains_spec m : Model_par_chains m = m_chains m. Proof. reflexivity. Qed.
Theorem Model_residues_spec m : Model_residues m = m_residues m.
Proof. unfold Model_residues, m_residues. under Chain_residues_spec. now rewrite Model_chains_spec. Qed.
Theorem Model_par_residues_spec m : Model_par_residues m = m_residues m.
Proof. unfold Model_par_residues, m_residues. under Chain_par_residues_spec. now rewrite Model_par_chains_spec. Qed.
Theorem Model_conformers_spec m : Model_conformers m = m_confs m.
Proof. unfold Model_conformers, m_confs. under Chain_conformers_spec. now rewrite Model_chains_spec. Qed.
Theorem Model_par_conformers_spec m : Model_par_conformers m = m_confs m.
Proof. unfold Model_par_conformers, m_confs. under Chain_par_conformers_spec. now rewrite Model_par_chains_spec. Qed.
Theorem Model_atoms_spec m : Model_atoms m = m_atoms m.
Proof. unfold Model_atoms, m_atoms. under Chain_atoms_spec. now rewrite Model_chains_spec. Qed.
Theorem Model_par_atoms_spec m : Model_par_atoms m = m_atoms m.
Proof. unfold Model_par_atoms, m_atoms. under Chain_par_atoms_spec. now rewrite Model_par_chains_spec. Qed.
Theorem Model_chain_count_spec m : Model_chain_count m = length (m_chains m). Proof. reflexivity. Qed.
Theorem Model_residue_count_spec m : Model_residue_count m = length (m_residues m).
Proof. unfold Model_residue_count, m_residues. rewrite Model_chains_spec. under Chain_residue_count_spec. fin. Qed.
Theorem Model_par_residue_count_spec m : Model_par_residue_count m = length (m_residues m).
Proof. unfold Model_par_residue_count, m_residues. rewrite Model_par_chains_spec. under Chain_residue_count_spec. fin. Qed.
Theorem Model_conformer_count_spec m : Model_conformer_count m = length (m_confs m).
Proof. unfold Model_conformer_count, m_confs. rewrite Model_chains_spec. under Chain_conformer_count_spec. fin. Qed.
Theorem Model_par_conformer_count_spec m : Model_par_conformer_count m = length (m_confs m).
Proof. unfold Model_par_conformer_count, m_confs. rewrite Model_par_chains_spec. under Chain_par_conformer_count_spec. fin. Qed.
Theorem Model_atom_count_spec m : Model_atom_count m = length (m_atoms m).
Proof. unfold Model_atom_count, m_atoms. rewrite Model_chains_spec. under Chain_atom_count_spec. fin. Qed.
Theorem Model_par_atom_count_spec m : Model_par_atom_count m = length (m_atoms m).
Proof. unfold Model_par_atom_count, m_atoms. rewrite Model_par_chains_spec. under Chain_par_atom_count_spec. fin. Qed.
Theorem Model_chain_spec m i : Model_chain m i = nth_error (m_chains m) i. Proof. reflexivity. Qed.
Theorem Model_residue_spec m i : Model_residue m i = nth_error (m_residues m) i.
Proof. unfold Model_residue. now rewrite Model_residues_spec. Qed.
Theorem Model_conformer_spec m i : Model_conformer m i = nth_error (m_confs m) i.
Proof. unfold Model_conformer. now rewrite Model_conformers_spec. Qed.
Theorem Model_atom_spec m i : Model_atom m i = nth_error (m_atoms m) i.
Proof. unfold Model_atom. now rewrite Model_atoms_spec. Qed.
Theorem Model_atoms_with_hierarchy_spec m : Model_atoms_with_hierarchy m = m_awh m.
Proof. unfold Model_atoms_with_hierarchy, m_awh. rewrite Model_chains_spec. apply flat_map_ext. intros c. now rewrite Chain_atoms_with_hierarchy_spec. Qed.

(* ================= PDB ================= *)
Theorem PDB_models_spec p : PDB_models p = p. Proof. reflexivity. Qed.
Theorem PDB_par_models_spec p : PDB_par_models p = p. Proof. reflexivity. Qed.
Theorem PDB_chains_spec p : PDB_chains p = p_chains p.
Proof. unfold PDB_chains, p_chains. under Model_chains_spec. now rewrite PDB_models_spec. Qed.
Theorem PDB_par_chains_spec p : PDB_par_chains p = p_chains p.
Proof. unfold PDB_par_chains, p_chains. under Model_par_chains_spec. now rewrite PDB_par_models_spec. Qed.
Theorem PDB_residues_spec p : PDB_residues p = p_residues p.
Proof. unfold PDB_residues, p_residues. under Model_residues_spec. now rewrite PDB_models_spec. Qed.
Theorem PDB_par_residues_spec p : PDB_par_residues p = p_residues p.
Proof. unfold PDB_par_residues, p_residues. under Model_par_residues_spec. now rewrite PDB_par_models_spec. Qed.
Theorem PDB_conformers_spec p : PDB_conformers p = p_confs p.
Proof. unfold PDB_conformers, p_confs. under Model_conformers_spec. now rewrite PDB_models_spec. Qed.
Theorem PDB_par_conformers_spec p : PDB_par_conformers p = p_confs p.
Proof. unfold PDB_par_conformers, p_confs. under Model_par_conformers_spec. now rewrite PDB_par_models_spec. Qed.
Theorem PDB_atoms_spec p : PDB_atoms p = p_atoms p.
Proof. unfold PDB_atoms, p_atoms. under Model_atoms_spec. now rewrite PDB_models_spec. Qed.
Theorem PDB_par_atoms_spec p : PDB_par_atoms p = p_atoms p.
Proof. unfold PDB_par_atoms, p_atoms. under Model_par_atoms_spec. now rewrite PDB_par_models_spec. Qed.

Theorem PDB_model_count_spec p : PDB_model_count p = length p. Proof. reflexivity. Qed.
(* the plain structure-level counts refer to the first model *)
Ltac first_model p L := destruct p as [|m0 ms]; [reflexivity|]; simpl; apply L.
Theorem PDB_chain_count_spec p : PDB_chain_count p = first_model_count (fun m => length (m_chains m)) p.
Proof. unfold PDB_chain_count, pdb_models. first_model p Model_chain_count_spec. Qed.
Theorem PDB_residue_count_spec p : PDB_residue_count p = first_model_count (fun m => length (m_residues m)) p.
Proof. unfold PDB_residue_count, pdb_models. first_model p Model_residue_count_spec. Qed.
Theorem PDB_par_residue_count_spec p : PDB_par_residue_count p = first_model_count (fun m => length (m_residues m)) p.
Proof. unfold PDB_par_residue_count, pdb_models. first_model p Model_par_residue_count_spec. Qed.
Theorem PDB_conformer_count_spec p : PDB_conformer_count p = first_model_count (fun m => length (m_confs m)) p.
Proof. unfold PDB_conformer_count, pdb_models. first_model p Model_conformer_count_spec. Qed.
Theorem PDB_par_conformer_count_spec p : PDB_par_conformer_count p = first_model_count (fun m => length (m_confs m)) p.
Proof. unfold PDB_par_conformer_count, pdb_models. first_model p Model_par_conformer_count_spec. Qed.
Theorem PDB_atom_count_spec p : PDB_atom_count p = first_model_count (fun m => length (m_atoms m)) p.
Proof. unfold PDB_atom_count, pdb_models. first_model p Model_atom_count_spec. Qed.
Theorem PDB_par_atom_count_spec p : PDB_par_atom_count p = first_model_count (fun m => length (m_atoms m)) p.
Proof. unfold PDB_par_atom_count, pdb_models. first_model p Model_par_atom_count_spec. Qed.
(* the total counts refer to all models *)
Theorem PDB_total_chain_count_spec p : PDB_total_chain_count p = length (p_chains p).
Proof. unfold PDB_total_chain_count, p_chains, pdb_models.
  rewrite (fold_ext _ (fun acc x => acc + length (m_chains x))) by (intros; now rewrite Model_chain_count_spec). fin. Qed.
Theorem PDB_total_residue_count_spec p : PDB_total_residue_count p = length (p_residues p).
Proof. unfold PDB_total_residue_count, p_residues, pdb_models.
  rewrite (fold_ext _ (fun acc x => acc + length (m_residues x))) by (intros; now rewrite Model_residue_count_spec). fin. Qed.
Theorem PDB_total_conformer_count_spec p : PDB_total_conformer_count p = length (p_confs p).
Proof. unfold PDB_total_conformer_count, p_confs, pdb_models.
  rewrite (fold_ext _ (fun acc x => acc + length (m_confs x))) by (intros; now rewrite Model_conformer_count_spec). fin. Qed.
Theorem PDB_total_atom_count_spec p : PDB_total_atom_count p = length (p_atoms p).
Proof. unfold PDB_total_atom_count, p_atoms, pdb_models.
  rewrite (fold_ext _ (fun acc x => acc + length (m_atoms x))) by (intros; now rewrite Model_atom_count_spec). fin. Qed.
Theorem PDB_par_total_chain_count_spec p : PDB_par_total_chain_count p = length (p_chains p).
Proof. unfold PDB_par_total_chain_count, p_chains, pdb_models. under Model_chain_count_spec. fin. Qed.
Theorem PDB_par_total_residue_count_spec p : PDB_par_total_residue_count p = length (p_residues p).
Proof. unfold PDB_par_total_residue_count, p_residues, pdb_models. under Model_par_residue_count_spec. fin. Qed.
Theorem PDB_par_total_conformer_count_spec p : PDB_par_total_conformer_count p = length (p_confs p).
Proof. unfold PDB_par_total_conformer_count, p_confs, pdb_models. under Model_par_conformer_count_spec. fin. Qed.
Theorem PDB_par_total_atom_count_spec p : PDB_par_total_atom_count p = length (p_atoms p).
Proof. unfold PDB_par_total_atom_count, p_atoms, pdb_models. under Model_par_atom_count_spec. fin. Qed.

Theorem PDB_model_spec p i : PDB_model p i = nth_error p i. Proof. reflexivity. Qed.
Theorem PDB_chain_spec p i : PDB_chain p i = nth_error (p_chains p) i.
Proof. unfold PDB_chain. now rewrite PDB_chains_spec. Qed.
Theorem PDB_residue_spec p i : PDB_residue p i = nth_error (p_residues p) i.
Proof. unfold PDB_residue. now rewrite PDB_residues_spec. Qed.
Theorem PDB_conformer_spec p i : PDB_conformer p i = nth_error (p_confs p) i.
Proof. unfold PDB_conformer. now rewrite PDB_conformers_spec. Qed.
Theorem PDB_atom_spec p i : PDB_atom p i = nth_error (p_atoms p) i.
Proof. unfold PDB_atom. now rewrite PDB_atoms_spec. Qed.
Theorem PDB_atoms_with_hierarchy_spec p : PDB_atoms_with_hierarchy p = p_awh p.
Proof. unfold PDB_atoms_with_hierarchy, p_awh. rewrite PDB_models_spec. apply flat_map_ext. intros m. now rewrite Model_atoms_with_hierarchy_spec. Qed.

(* ----- consequences stated once, for every structure ----- *)
(* every tuple names the atom's actual ancestors *)
Theorem C09_hierarchy_ancestors : forall p a c r ch m,
  In (a, c, r, ch, m) (p_awh p) -> In m p /\ In ch (m_chains m) /\ In r (ch_residues ch) /\ In c (r_confs r) /\ In a (c_atoms c).
Proof.
  intros p a c r ch m H. unfold p_awh in H. apply in_flat_map in H as [m' [Hm H]].
  apply in_map_iff in H as [[[[a' c'] r'] ch'] [E H]]. injection E as -> -> -> -> ->.
  unfold m_awh in H. apply in_flat_map in H as [ch' [Hch H]]. apply in_map_iff in H as [[[a' c'] r'] [E H]]. injection E as -> -> -> ->.
  unfold ch_awh in H. apply in_flat_map in H as [r' [Hr H]]. apply in_map_iff in H as [[a' c'] [E H]]. injection E as -> -> ->.
  unfold r_awh in H. apply in_flat_map in H as [c' [Hc H]]. apply in_map_iff in H as [a' [E H]]. injection E as -> ->.
  auto.
Qed.
(* the tuples list the atoms in traversal order *)
Theorem C09_hierarchy_atoms : forall p, map (fun t => fst (fst (fst (fst t)))) (p_awh p) = p_atoms p.
Proof.
  intros p. unfold p_awh, p_atoms. induction p as [|m ms IH]; simpl; auto. rewrite map_app, IH. f_equal. rewrite map_map. simpl.
  unfold m_awh, m_atoms. induction (m_chains m) as [|c cs IHc]; simpl; auto. rewrite map_app, IHc. f_equal. rewrite map_map. simpl.
  unfold ch_awh, ch_atoms. induction (ch_residues c) as [|r rs IHr]; simpl; auto. rewrite map_app, IHr. f_equal. rewrite map_map. simpl.
  unfold r_awh, r_atoms. induction (r_confs r) as [|cf cfs IHcf]; simpl; auto. rewrite map_app, IHcf. f_equal. rewrite map_map. simpl. apply map_id.
Qed.
(* reverse iteration is the exact reverse; a parallel reduction gives the same count whatever the split *)
Theorem C09_count_split_independent : forall (X : Type) (f : X -> nat) (l1 l2 : list X),
  list_sum (map f (l1 ++ l2)) = list_sum (map f l1) + list_sum (map f l2).
Proof. intros. rewrite map_app. apply list_sum_app. Qed.

Print Assumptions Conformer_atoms_spec.
Print Assumptions Conformer_par_atoms_spec.
Print Assumptions Conformer_atom_count_spec.
Print Assumptions Conformer_atom_spec.
Print Assumptions Residue_conformers_spec.
Print Assumptions Residue_par_conformers_spec.
Print Assumptions Residue_atoms_spec.
Print Assumptions Residue_par_atoms_spec.
Print Assumptions Residue_conformer_count_spec.
Print Assumptions Residue_atom_count_spec.
Print Assumptions Residue_par_atom_count_spec.
Print Assumptions Residue_conformer_spec.
Print Assumptions Residue_atom_spec.
Print Assumptions Residue_atoms_with_hierarchy_spec.
Print Assumptions Chain_residues_spec.
Print Assumptions Chain_par_residues_spec.
Print Assumptions Chain_conformers_spec.
Print Assumptions Chain_par_conformers_spec.
Print Assumptions Chain_atoms_spec.
Print Assumptions Chain_par_atoms_spec.
Print Assumptions Chain_residue_count_spec.
Print Assumptions Chain_conformer_count_spec.
Print Assumptions Chain_par_conformer_count_spec.
Print Assumptions Chain_atom_count_spec.
Print Assumptions Chain_par_atom_count_spec.
Print Assumptions Chain_residue_spec.
Print Assumptions Chain_conformer_spec.
Print Assumptions Chain_atom_spec.
Print Assumptions Chain_atoms_with_hierarchy_spec.
Print Assumptions Model_chains_spec.
Print Assumptions Model_par_chains_spec.
Print Assumptions Model_residues_spec.
Print Assumptions Model_par_residues_spec.
Print Assumptions Model_conformers_spec.
Print Assumptions Model_par_conformers_spec.
Print Assumptions Model_atoms_spec.
Print Assumptions Model_par_atoms_spec.
Print Assumptions Model_chain_count_spec.
Print Assumptions Model_residue_count_spec.
Print Assumptions Model_par_residue_count_spec.
Print Assumptions Model_conformer_count_spec.
Print Assumptions Model_par_conformer_count_spec.
Print Assumptions Model_atom_count_spec.
Print Assumptions Model_par_atom_count_spec.
Print Assumptions Model_chain_spec.
Print Assumptions Model_residue_spec.
Print Assumptions Model_conformer_spec.
Print Assumptions Model_atom_spec.
Print Assumptions Model_atoms_with_hierarchy_spec.
Print Assumptions PDB_models_spec.
Print Assumptions PDB_par_models_spec.
Print Assumptions PDB_chains_spec.
Print Assumptions PDB_par_chains_spec.
Print Assumptions PDB_residues_spec.
Print Assumptions PDB_par_residues_spec.
Print Assumptions PDB_conformers_spec.
Print Assumptions PDB_par_conformers_spec.
Print Assumptions PDB_atoms_spec.
Print Assumptions PDB_par_atoms_spec.
Print Assumptions PDB_model_count_spec.
Print Assumptions PDB_chain_count_spec.
Print Assumptions PDB_residue_count_spec.
Print Assumptions PDB_par_residue_count_spec.
Print Assumptions PDB_conformer_count_spec.
Print Assumptions PDB_par_conformer_count_spec.
Print Assumptions PDB_atom_count_spec.
Print Assumptions PDB_par_atom_count_spec.
Print Assumptions PDB_total_chain_count_spec.
Print Assumptions PDB_total_residue_count_spec.
Print Assumptions PDB_total_conformer_count_spec.
Print Assumptions PDB_total_atom_count_spec.
Print Assumptions PDB_par_total_chain_count_spec.
Print Assumptions PDB_par_total_residue_count_spec.
Print Assumptions PDB_par_total_conformer_count_spec.
Print Assumptions PDB_par_total_atom_count_spec.
Print Assumptions PDB_model_spec.
Print Assumptions PDB_chain_spec.
Print Assumptions PDB_residue_spec.
Print Assumptions PDB_conformer_spec.
Print Assumptions PDB_atom_spec.
Print Assumptions PDB_atoms_with_hierarchy_spec.
Print Assumptions C09_hierarchy_ancestors.
Print Assumptions C09_hierarchy_atoms.
Print Assumptions C09_count_split_independent.
