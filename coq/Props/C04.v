(* C04 - mmCIF write -> read round trip.
   Proved here over the tables regenerated from the source (Gen/CifTags.v, T5): the writer's tags are the reader's tags. *)
From Coq Require Import List Ascii String ZArith Bool Lia.
From Coq Require Import QArith.
Local Close Scope Q_scope.
From PV Require Import Base.Float Proofs.Decimal Proofs.Shortest.
From PV Require Import Base.Sx Base.Text Spec.Hier Gen.CifTags Model.PdbLex Model.PdbParse Model.CifLex Model.CifParse Model.CifWrite Proofs.C02col Proofs.C02seq Proofs.C04table Proofs.C04cells.
Import ListNotations.
Local Open Scope string_scope.

(* the tags of a piece of writer text: the words that start a line (after blanks) with an underscore, without it *)
Fixpoint words (t : text) (cur : text) : list text :=
  match t with
  | [] => match cur with [] => [] | _ => [rev cur] end
  | c :: r => if is_aws c then (match cur with [] => words r [] | _ => rev cur :: words r [] end) else words r (c :: cur)
  end.
Definition tags_of (s : string) : list text :=
  flat_map (fun w => match w with "_"%char :: r => [r] | _ => [] end) (words (fill (stext s) []) []).
Definition writer_tags : list text := flat_map (fun f => tags_of (fst f)) cif_writer_formats ++ tags_of cif_writer_aniso_header.

(* tags the writer emits for completeness of the file and the reader does not use (reviewed) *)
Definition ignored_tags : list string :=
  ["entry.id"; "audit_conform.dict_name"; "audit_conform.dict_version"; "audit_conform.dict_location"; "cell.entry_id"; "cell.Z_PDB";
   "atom_sites.entry_id"; "database_PDB_matrix.entry_id"; "symmetry.entry_id"; "symmetry.pdbx_full_space_group_name_H-M";
   "atom_site.label_entity_id"].
Definition reader_knows (t : text) : bool :=
  (existsb (fun c => text_eqb t (stext (fst c))) cif_reader_columns ||
   existsb (fun n => text_eqb t (stext n)) cif_reader_items ||
   existsb (fun p => starts_with p t) cif_reader_prefixes)%bool.

(* 1. every tag the writer emits is read by the reader or is on the reviewed list of ignored tags *)
Theorem C04_writer_tags_are_reader_tags :
  forallb (fun t => (reader_knows t || existsb (fun n => text_eqb t (stext n)) ignored_tags)%bool) writer_tags = true.
Proof. vm_compute. reflexivity. Qed.
(* 2. every mandatory column of the reader, and every optional one, is written *)
Theorem C04_reader_columns_are_written :
  forallb (fun c => existsb (text_eqb (stext (fst c))) writer_tags) cif_reader_columns = true.
Proof. vm_compute. reflexivity. Qed.
(* 3. every metadata item the reader understands through an exact name is written, except the alternative spellings *)
Theorem C04_reader_items_are_written :
  forallb (fun n => (existsb (text_eqb (stext n)) writer_tags ||
                     existsb (String.eqb n) ["space_group.IT_number"; "symmetry.space_group_name_Hall"; "space_group.name_H-M_alt"; "space_group.name_Hall"])%bool)
          cif_reader_items = true.
Proof. vm_compute. reflexivity. Qed.
(* 4. the tables of the hand-written reader model are the regenerated ones *)
Theorem C04_model_required_columns : forall n, In n required_columns <-> In (n, true) cif_reader_columns.
Proof.
  intros n. split.
  - intros H. vm_compute in H. repeat (destruct H as [H|H]; [subst n; vm_compute; tauto|]). contradiction.
  - intros H. vm_compute in H. repeat (destruct H as [H|H]; [inversion H; subst n; vm_compute; tauto|]). contradiction.
Qed.
Theorem C04_model_items_are_the_source_items : forall name,
  recognised name = (existsb (fun n => text_eqb name (stext n)) cif_reader_items || existsb (fun p => starts_with p name) cif_reader_prefixes)%bool.
Proof.
  intros name. unfold recognised, name_is. cbn [cif_reader_items cif_reader_prefixes existsb].
  rewrite !orb_false_r. rewrite <- !orb_assoc. reflexivity.
Qed.

(* 5. numbers written in full ({} of f64: unit cell, scale, origx, NCS matrices): the shortest-digits text of a non-zero
      binary64 value m * 2^e is read back by the decimal parser as a rational that rounds to exactly that value; the digits are
      only ever accepted by the printer after this very test, and the text is proved to parse to them *)
Theorem C04_full_precision_number_reads_back : forall nz m e D t, (m <> 0)%Z -> shortest_digits (m, e) = Some (D, t) ->
  exists q, parse_dec (fmt_shortest nz (m, e)) = Some q /\ rnd64 q = Some (m, e).
Proof. exact fmt_shortest_reads_back. Qed.
Theorem C04_printed_digits_round_to_the_value : forall m e D t, shortest_digits (m, e) = Some (D, t) ->
  rnd64 (dec_q D t) = Some (Z.abs m, e) /\ (0 <= D)%Z.
Proof. exact shortest_sound. Qed.
(* 6. the five-decimal numbers of the atom table (print_float prints either an integer followed by ".0" or the shortest digits
      of the rounded value): a fixed-point text reads back as exactly the decimal it shows *)
Theorem C04_fixed_text_reads_back : forall neg ds1 ds2, all_digit ds1 -> ds1 <> [] -> all_digit ds2 -> ds2 <> [] ->
  parse_dec (with_sign neg (ds1 ++ "."%char :: ds2)) =
  Some (neg_of neg (Qmake (dval ds1 * 10 ^ Z.of_nat (List.length ds2) + dval ds2) (Z.to_pos (10 ^ Z.of_nat (List.length ds2))))).
Proof. exact parse_dec_fraction. Qed.

(* 5. the aligned atom_site table: for any structure, if every cell the writer prints is a legal unquoted spelling (the
      property's precondition on identifiers; integers and the record names always are, below), the lexer reads the loop
      the writer printed - its literal header (regenerated from the source) followed by the padded rows - as exactly the
      column names of the literal and, row by row, the values of the cells *)
Theorem C04_written_atom_table_is_read : forall (p : pdb) fuel,
  let anisou := has_aniso p in
  let lines := table p in
  let sizes := match lines with l0 :: _ => fold_left widths lines (repeat 1%nat (List.length l0)) | [] => [] end in
  lines <> [] ->
  Forall (fun l : list text => match l with t0 :: ts => legal_cell t0 /\ Forall (fun t => legal_cell (cell t)) ts | [] => False end) lines ->
  Forall (fun l : list text => List.length l = List.length (written_headers anisou)) lines ->
  (List.length (written_headers anisou) * S (List.length lines) + 2 < fuel)%nat ->
  exists tail',
  parse_data_item fuel (line 6 [if anisou then stext cif_writer_aniso_header else []] ++ flat_map (render_line sizes) lines ++ line 7 [])%list =
  Some (inl (DLoop (map snd (written_headers anisou)) (map (row_vals bare_val sizes) lines)), tail').
Proof. exact written_atom_table_is_read. Qed.
(* the layout of any table is a sequence of tokens: each cell after a separator of blanks (or the line end of the row before) *)
Theorem C04_table_layout_is_a_token_sequence : forall sizes lines carry tail,
  (carry ++ flat_map (render_line sizes) lines ++ tail)%list =
  (render (fst (table_toks carry sizes lines)) ++ snd (table_toks carry sizes lines) ++ tail)%list.
Proof. exact table_render. Qed.
(* integers and record names are legal unquoted spellings, whatever the structure *)
Theorem C04_integer_cells_are_legal : forall z, bare (show_int z).
Proof. exact show_int_bare. Qed.
Theorem C04_record_name_cells_are_legal : forall h : bool, bare (if h then stext "HETATM" else stext "ATOM").
Proof. exact record_name_bare. Qed.

(* 6. with that, for every structure whose identifiers (atom id and name, residue name, chain id, alternate location, insertion
      code) are legal unquoted spellings - the precondition of the property - every cell of the table is one: the numbers
      print_float and the integer formatter produce, the element symbols, the generated label ids and the record names are
      proved legal for every value; and the loop is read back as its cells *)
Theorem C04_cells_of_legal_identifiers_are_legal : forall p, ids_legal p -> Forall row_cells_legal (table p).
Proof. exact table_cells_legal. Qed.
Theorem C04_printed_numbers_are_legal : forall num, legal_cell (print_float num).
Proof. exact print_float_legal. Qed.
Theorem C04_written_atom_table_is_read_for_legal_identifiers : forall (p : pdb) fuel,
  let anisou := has_aniso p in
  let lines := table p in
  let sizes := match lines with l0 :: _ => fold_left widths lines (repeat 1%nat (List.length l0)) | [] => [] end in
  ids_legal p -> lines <> [] ->
  Forall (fun l : list text => List.length l = List.length (written_headers anisou)) lines ->
  (List.length (written_headers anisou) * S (List.length lines) + 2 < fuel)%nat ->
  exists tail',
  parse_data_item fuel (line 6 [if anisou then stext cif_writer_aniso_header else []] ++ flat_map (render_line sizes) lines ++ line 7 [])%list =
  Some (inl (DLoop (map snd (written_headers anisou)) (map (row_vals bare_val sizes) lines)), tail').
Proof. exact written_atom_table_is_read_ids. Qed.
(* a decidable criterion for a legal unquoted spelling (used for the finite tables above) *)
Theorem C04_legal_spelling_decidable : forall t, legalb t = true -> legal_cell t.
Proof. exact legalb_legal. Qed.

Print Assumptions C04_writer_tags_are_reader_tags.
Print Assumptions C04_reader_columns_are_written.
Print Assumptions C04_reader_items_are_written.
Print Assumptions C04_model_required_columns.
Print Assumptions C04_model_items_are_the_source_items.
Print Assumptions C04_full_precision_number_reads_back.
Print Assumptions C04_printed_digits_round_to_the_value.
Print Assumptions C04_fixed_text_reads_back.
Print Assumptions C04_written_atom_table_is_read.
Print Assumptions C04_table_layout_is_a_token_sequence.
Print Assumptions C04_integer_cells_are_legal.
Print Assumptions C04_record_name_cells_are_legal.
Print Assumptions C04_cells_of_legal_identifiers_are_legal.
Print Assumptions C04_printed_numbers_are_legal.
Print Assumptions C04_written_atom_table_is_read_for_legal_identifiers.
Print Assumptions C04_legal_spelling_decidable.
