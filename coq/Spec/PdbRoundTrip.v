(* C03 specification: when is a re-read structure the original "with every number rounded to its column's precision" and
   everything else the same; and an independent fixed-column reading of the ATOM / HETATM lines of a file.
   Not compared: atom ids (not stored in the PDB format) and bonds (not written).  The lower triangle of an anisotropic
   tensor is not stored either (ANISOU holds six numbers): tensors are compared on the upper triangle and the re-read one
   has to be symmetric. *)
From Coq Require Import List Ascii String ZArith QArith Qround Qabs Bool.
From PV Require Import Base.Sx Base.Text Base.Num Base.Float Spec.Hier Spec.CifRoundTrip Spec.PdbSpec.
Import ListNotations.
Local Open Scope Z_scope.

(* y is the binary64 value of k / 10^p for an integer k within half a unit (plus a thousandth) of x * 10^p *)
Definition is_round (p : Z) (x y : fval) : bool :=
  match dy_of_fval x, dy_of_fval y with
  | Some dx, Some dy' =>
      let q := Qmult (Q_of_dy dx) (inject_Z (10 ^ p)) in
      let k0 := Qfloor q in
      existsb (fun k => (Qle_bool (Qabs (Qminus (inject_Z k) q)) (Qmake 501 1000)) &&
                        match rnd64 (Qmake k (Z.to_pos (10 ^ p))) with Some r => feq (fval_of_dy r) y | None => false end)%bool
              [k0 - 1; k0; k0 + 1; k0 + 2]
  | _, _ => false
  end.

Definition omod_eq (a b : option (text * text)) : bool :=
  match a, b with None, None => true | Some (x, y), Some (x', y') => (text_eqb x x' && text_eqb y y')%bool | _, _ => false end.
Definition tensor_rt (t t' : list fval) : bool :=
  let g (l : list fval) k := nth k l (FFin 0 0) in
  (forallb (fun k => is_round 4 (g t k) (g t' k)) [0; 1; 2; 4; 5; 8]%nat &&
   feq (g t' 3%nat) (g t' 1%nat) && feq (g t' 6%nat) (g t' 2%nat) && feq (g t' 7%nat) (g t' 5%nat))%bool.
Definition atom_rt_pdb (a b : atom) : bool :=
  (Bool.eqb (a_hetero a) (a_hetero b) && Z.eqb (a_serial a) (a_serial b) && text_eqb (a_name a) (a_name b) &&
   is_round 3 (a_x a) (a_x b) && is_round 3 (a_y a) (a_y b) && is_round 3 (a_z a) (a_z b) &&
   is_round 2 (a_occ a) (a_occ b) && is_round 2 (a_b a) (a_b b) &&
   oZ_eq (a_elem a) (a_elem b) && Z.eqb (a_charge a) (a_charge b) &&
   match a_atf a, a_atf b with
   | None, None => true
   | Some t, Some t' => tensor_rt t t'
   | _, _ => false
   end)%bool.
Definition conformer_rt_pdb (a b : conformer) : bool :=
  (text_eqb (c_name a) (c_name b) && otext_eq (c_alt a) (c_alt b) && omod_eq (c_mod a) (c_mod b) && all2 atom_rt_pdb (c_atoms a) (c_atoms b))%bool.
Definition residue_rt_pdb (a b : residue) : bool :=
  (Z.eqb (r_num a) (r_num b) && otext_eq (r_icode a) (r_icode b) && all2 conformer_rt_pdb (r_confs a) (r_confs b))%bool.
Definition chain_rt_pdb (a b : chain) : bool := (text_eqb (ch_id a) (ch_id b) && all2 residue_rt_pdb (ch_residues a) (ch_residues b))%bool.
Definition model_rt_pdb (a b : model) : bool := (Z.eqb (m_serial a) (m_serial b) && all2 chain_rt_pdb (m_chains a) (m_chains b))%bool.
Definition pdb_rt_pdb (a b : pdb) : bool := all2 model_rt_pdb a b.

Definition cell_rt (a b : list fval) : bool :=
  all2 (fun pa pb : Z * fval => is_round (fst pa) (snd pa) (snd pb)) (combine [3; 3; 3; 2; 2; 2] a) (combine [3; 3; 3; 2; 2; 2] b).
Definition matrix_rt (a b : list fval) : bool :=
  let ps := [6; 6; 6; 5; 6; 6; 6; 5; 6; 6; 6; 5] in
  all2 (fun pa pb : Z * fval => is_round (fst pa) (snd pa) (snd pb)) (combine ps a) (combine ps b).

(* ---------- an independent reading of the fixed columns of the coordinate lines ---------- *)
Definition cols (line : text) (a b : nat) : text := firstn (b - a + 1) (skipn (a - 1) line).     (* columns a..b, 1-based *)
Fixpoint lines_of (t cur : text) : list text :=
  match t with
  | [] => match cur with [] => [] | _ => [rev cur] end
  | c :: r => if Ascii.eqb c (ascii_of_nat 10) then rev cur :: lines_of r [] else lines_of r (c :: cur)
  end.
Definition starts (p : string) (l : text) : bool := text_eqb (firstn (String.length p) l) (stext p).
Record fixed_atom : Type := {
  fa_hetero : bool; fa_serial : text; fa_name : text; fa_alt : text; fa_resname : text; fa_chain : text; fa_resnum : text; fa_icode : text;
  fa_x : text; fa_y : text; fa_z : text; fa_occ : text; fa_b : text; fa_element : text; fa_charge : text }.
Definition fixed_atoms (file : text) : list fixed_atom :=
  flat_map (fun l =>
    if (starts "ATOM  " l || starts "HETATM" l)%bool then
      [{| fa_hetero := starts "HETATM" l; fa_serial := trim (cols l 7 11); fa_name := trim (cols l 13 16); fa_alt := trim (cols l 17 17);
          fa_resname := trim (cols l 18 21); fa_chain := trim (cols l 22 22); fa_resnum := trim (cols l 23 26); fa_icode := trim (cols l 27 27);
          fa_x := trim (cols l 31 38); fa_y := trim (cols l 39 46); fa_z := trim (cols l 47 54); fa_occ := trim (cols l 55 60); fa_b := trim (cols l 61 66);
          fa_element := trim (cols l 77 78); fa_charge := trim (cols l 79 80) |}]
    else []) (lines_of file []).
