(* C18 specification: the vocabulary of range rules and the table derived from the PDB column layout
   (wwPDB format v3.3: width and precision of every validated column). *)
From Coq Require Import List Ascii String ZArith Bool.
From PV Require Import Base.Sx Spec.Hier Base.Num.
Import ListNotations.
Open Scope string_scope.

Inductive vfield : Set :=
| VModelSerial | VChainIdLen | VResSerial | VResIcodeLen | VConfNameLen | VConfAltLen | VModNameLen | VModCommentLen
| VAtomNameLen | VAtomSerial | VAtomCharge | VAtomOcc | VAtomB | VAtomX | VAtomY | VAtomZ.
Inductive vcmp : Set := CGt | CLt | CGe | CLe.         (* the value is out of range when  value <cmp> bound *)
Inductive vbound : Set :=
| BInt (z : Z)
| BFloat (decimal : string) (m e : Z).                 (* literal text and the binary64 value it denotes *)
Inductive vlevel : Set := VBreakingError | VInvalidatingError | VStrictWarning | VLooseWarning | VGeneralWarning.
Record vrule : Set := mk_vrule { vr_field : vfield; vr_bounds : list (vcmp * vbound); vr_level : vlevel; vr_short : string }.

Definition vfield_eqb (a b : vfield) : bool :=
  match a, b with
  | VModelSerial, VModelSerial | VChainIdLen, VChainIdLen | VResSerial, VResSerial | VResIcodeLen, VResIcodeLen
  | VConfNameLen, VConfNameLen | VConfAltLen, VConfAltLen | VModNameLen, VModNameLen | VModCommentLen, VModCommentLen
  | VAtomNameLen, VAtomNameLen | VAtomSerial, VAtomSerial | VAtomCharge, VAtomCharge | VAtomOcc, VAtomOcc
  | VAtomB, VAtomB | VAtomX, VAtomX | VAtomY, VAtomY | VAtomZ, VAtomZ => true
  | _, _ => false
  end.

(* ----- the documented ranges: (field, lowest value that fits, highest value that fits), as decimal text -----
   ATOM columns: serial 7-11 (5 digits), name 13-16 (4), altLoc 17 (1), resName 18-20 (3), chainID 22 (1),
   resSeq 23-26 (4 digits with sign: -999..9999), iCode 27 (1), x/y/z 31-54 (8.3: -999.999..9999.999),
   occupancy 55-60 (6.2: -99.99..999.99), tempFactor 61-66 (6.2), charge 79-80 (digit and sign: -9..9);
   MODEL serial 11-14 (4 digits); MODRES resName 25-27 (3), comment 30-70 (41). *)
Definition doc_ranges : list (vfield * option string * string) := [
  (VModelSerial, None, "9999");
  (VChainIdLen, None, "1");
  (VResSerial, Some "-999", "9999");
  (VResIcodeLen, None, "1");
  (VConfNameLen, None, "3");
  (VConfAltLen, None, "1");
  (VModNameLen, None, "3");
  (VModCommentLen, None, "41");
  (VAtomNameLen, None, "4");
  (VAtomSerial, None, "99999");
  (VAtomCharge, Some "-9", "9");
  (VAtomOcc, Some "-99.99", "999.99");
  (VAtomB, Some "-99.99", "999.99");
  (VAtomX, Some "-999.999", "9999.999");
  (VAtomY, Some "-999.999", "9999.999");
  (VAtomZ, Some "-999.999", "9999.999")
].

(* a bound as its literal text *)
Fixpoint pos_dec (fuel : nat) (n : Z) (acc : string) : string :=
  match fuel with
  | O => acc
  | S f => let d := String (Ascii.ascii_of_N (48 + Z.to_N (n mod 10))) acc in
           if (n <? 10)%Z then d else pos_dec f (n / 10)%Z d
  end.
Definition Z_dec (z : Z) : string :=
  let a := Z.abs z in let s := pos_dec (S (Z.to_nat (Z.log2 a))) a "" in
  if (z <? 0)%Z then String "-"%char s else s.
Definition bound_text (b : vbound) : string := match b with BInt z => Z_dec z | BFloat d _ _ => d end.

(* a rule table agrees with the documented ranges when every field is checked exactly once, on exactly its upper
   side (value > max) and, when it has one, its lower side (value < min) *)
Definition rule_matches (r : vrule) (d : vfield * option string * string) : bool :=
  let '(f, lo, hi) := d in
  vfield_eqb (vr_field r) f &&
  match lo, vr_bounds r with
  | None, [(CGt, b)] => String.eqb (bound_text b) hi
  | Some l, [(CGt, b1); (CLt, b2)] => String.eqb (bound_text b1) hi && String.eqb (bound_text b2) l
  | Some l, [(CLt, b2); (CGt, b1)] => String.eqb (bound_text b1) hi && String.eqb (bound_text b2) l
  | _, _ => false
  end.
Definition table_matches (rules : list vrule) : bool :=
  (Nat.eqb (List.length rules) (List.length doc_ranges) &&
   forallb (fun d => Nat.eqb (List.length (filter (fun r => rule_matches r d) rules)) 1) doc_ranges)%bool.
