(* C07 specification: the documented failure table and the gate contract.
   Hand-written from the documentation of StrictnessLevel / ErrorLevel; independent of the code. *)
From Coq Require Import List Bool.
Import ListNotations.

Inductive elevel : Set := EBreaking | EInvalidating | EStrictW | ELooseW | EGeneralW.
Inductive slevel : Set := LStrict | LMedium | LLoose.

(* "Strict: any diagnostic; Medium: anything above a general warning; Loose: anything above a loose warning" *)
Definition fails_doc (e : elevel) (l : slevel) : bool :=
  match l with
  | LStrict => true
  | LMedium => match e with EGeneralW => false | _ => true end
  | LLoose => match e with EGeneralW | ELooseW => false | _ => true end
  end.

(* looser-or-equal order on strictness levels *)
Definition looser (a b : slevel) : bool :=   (* b is at least as loose as a *)
  match a, b with
  | LStrict, _ => true
  | LMedium, (LMedium | LLoose) => true
  | LLoose, LLoose => true
  | _, _ => false
  end.

Inductive outcome (A : Type) : Type :=
| Accepted (a : A) (ds : list elevel)
| Rejected (ds : list elevel).
Arguments Accepted {A}. Arguments Rejected {A}.

(* The gate contract as a relation between the diagnostics produced and the outcome *)
Definition gate_contract {A} (l : slevel) (a : A) (ds : list elevel) (o : outcome A) : Prop :=
  (existsb (fun e => fails_doc e l) ds = true -> o = Rejected ds) /\
  (existsb (fun e => fails_doc e l) ds = false -> o = Accepted a ds).
