(* C05 / C06: the reviewed inventory of panic-capable constructs in the reader code.  Every row was read in the source and
   its guard is stated; the regenerated inventory (Gen/Sites.v, T7) must be exactly this table, so that a new index,
   unwrap, expect, panic or assert in the readers - or the disappearance of a reviewed one - is noticed on the next run. *)
From Coq Require Import List String Bool Arith.
Import ListNotations.
Open Scope string_scope.

Definition row := (string * string * string * nat)%type.
Definition row_eqb (a b : row) : bool :=
  let '(f1, g1, k1, n1) := a in let '(f2, g2, k2, n2) := b in
  (String.eqb f1 f2 && String.eqb g1 g2 && String.eqb k1 k2 && Nat.eqb n1 n2)%bool.
Fixpoint rows_eqb (a b : list row) : bool :=
  match a, b with [], [] => true | x :: r, y :: s => (row_eqb x y && rows_eqb r s)%bool | _, _ => false end.
Definition in_files (files : list string) (r : row) : bool := existsb (String.eqb (fst (fst (fst r)))) files.

Definition pdb_files : list string :=
  ["read/pdb/lexer.rs"; "read/pdb/parser.rs"; "read/pdb/validate.rs"; "error/context.rs"; "validate.rs"; "structs/symmetry.rs";
   "reference_tables.rs"].
Definition pdb_allowed : list row := [
  (* display: lines[0] of a Range context, which is built from at least one line *)
  ("error/context.rs", "display", "index", 1);
  (* position: first line of a non-empty text *)
  ("error/context.rs", "position", "unwrap", 1);
  (* range: only built by the mmCIF lexer, from two positions of the same text *)
  ("error/context.rs", "range", "index", 1);
  (* chars[78], chars[79]: under chars.len() >= 80; to_digit after is_ascii_digit, u32 -> isize *)
  ("read/pdb/lexer.rs", "lex_atom_basics", "index", 7);
  ("read/pdb/lexer.rs", "lex_atom_basics", "unwrap", 2);
  (* chars[10..50], [50..59], [62..66]: under line.chars().count() >= 66 *)
  ("read/pdb/lexer.rs", "lex_header", "index", 3);
  (* chars[59]: under chars.len() >= 60 *)
  ("read/pdb/lexer.rs", "lex_mtrix", "index", 1);
  (* chars[39..48]: under chars.len() >= 48 *)
  ("read/pdb/lexer.rs", "lex_seqadv", "index", 1);
  (* chars[index..index + 3]: loop condition index + 3 <= min(len, 71) *)
  ("read/pdb/lexer.rs", "lex_seqres", "index", 1);
  (* the deferred lists only ever receive SSBond / Modres items *)
  ("read/pdb/parser.rs", "add_bonds", "panic", 1);
  ("read/pdb/parser.rs", "add_modifications", "panic", 1);
  (* cycle() never ends; the key was inserted on the line before; Conformer / Residue / Chain constructors after the
     validity test of the identifiers that precedes them *)
  ("read/pdb/parser.rs", "open_pdb_raw_with_options", "expect", 7);
  (* (0u128..) never ends *)
  ("read/pdb/parser.rs", "open_pdb_raw_with_options", "unwrap", 1);
  (* lines[min..=max] of indices taken from the enumeration of the same SEQRES lines *)
  ("read/pdb/validate.rs", "validate_seqres", "index", 1);
  (* these accessors are not used while reading; the index was validated by from_index / new *)
  ("structs/symmetry.rs", "hall_symbol", "expect", 1);
  ("structs/symmetry.rs", "herman_mauguin_symbol", "expect", 1);
  ("structs/symmetry.rs", "transformations", "unwrap", 1);
  ("structs/symmetry.rs", "transformations_absolute", "unwrap", 1);
  ("structs/symmetry.rs", "z", "unwrap", 1);
  (* conformer(index) of an index found by enumerating the same conformers *)
  ("validate.rs", "reshuffle_conformers", "unwrap", 1);
  (* model(0) under model_count() > 1; atom(index) under index < atom_count() of two models with equal counts *)
  ("validate.rs", "validate_models", "unwrap", 5)
].
