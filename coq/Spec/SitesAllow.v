(* C05 / C06: the reviewed inventory of panic-capable constructs in the reader code.  Every row was read in the source and
   its guard is stated; the regenerated inventory (Gen/Sites.v, T7) must be exactly this table, so that a new index,
   unwrap, expect, panic or assert in the readers - or the disappearance of a reviewed one - is noticed on the next run. *)
From Coq Require Import List String Bool Arith.
Import ListNotations.
Open Scope string_scope.

Definition row := (string * string * string * nat)%type.
Definition row_eqb (a b : row) : bool :=
  let '(f1, g1, k1, n1) := a in let '(f2, g2, k2, n2) := b in
  (String.eqb f1 f2 && String.eqb g1 g2 && String.eqb k1 k2 && Nat.eqb n1 n2)%bool.
Fixpoint rows_eqb (a b : list row) : bool :=
  match a, b with [], [] => true | x :: r, y :: s => (row_eqb x y && rows_eqb r s)%bool | _, _ => false end.
Definition in_files (files : list string) (r : row) : bool := existsb (String.eqb (fst (fst (fst r)))) files.

Definition pdb_files : list string :=
  ["read/pdb/lexer.rs"; "read/pdb/parser.rs"; "read/pdb/validate.rs"; "error/context.rs"; "validate.rs"; "structs/symmetry.rs";
   "reference_tables.rs"].
Definition pdb_allowed : list row := [
  (* display: lines[0] of a Range context, which is built from at least one line *)
  ("error/context.rs", "display", "index", 1);
  (* position: first line of a non-empty text *)
  ("error/context.rs", "position", "unwrap", 1);
  (* chars[78], chars[79]: under chars.len() >= 80; to_digit after is_ascii_digit, u32 -> isize *)
  ("read/pdb/lexer.rs", "lex_atom_basics", "index", 7);
  ("read/pdb/lexer.rs", "lex_atom_basics", "unwrap", 2);
  (* chars[10..50], [50..59], [62..66]: under line.chars().count() >= 66 *)
  ("read/pdb/lexer.rs", "lex_header", "index", 3);
  (* chars[59]: under chars.len() >= 60 *)
  ("read/pdb/lexer.rs", "lex_mtrix", "index", 1);
  (* chars[39..48]: under chars.len() >= 48 *)
  ("read/pdb/lexer.rs", "lex_seqadv", "index", 1);
  (* chars[index..index + 3]: loop condition index + 3 <= min(len, 71) *)
  ("read/pdb/lexer.rs", "lex_seqres", "index", 1);
  (* the deferred lists only ever receive SSBond / Modres items *)
  ("read/pdb/parser.rs", "add_bonds", "panic", 1);
  ("read/pdb/parser.rs", "add_modifications", "panic", 1);
  (* cycle() never ends; the key was inserted on the line before; Conformer / Residue / Chain constructors after the
     validity test of the identifiers that precedes them *)
  ("read/pdb/parser.rs", "open_pdb_raw_with_options", "expect", 7);
  (* (0u128..) never ends *)
  ("read/pdb/parser.rs", "open_pdb_raw_with_options", "unwrap", 1);
  (* lines[min..=max] of indices taken from the enumeration of the same SEQRES lines *)
  ("read/pdb/validate.rs", "validate_seqres", "index", 1);
  (* these accessors are not used while reading; the index was validated by from_index / new *)
  ("structs/symmetry.rs", "hall_symbol", "expect", 1);
  ("structs/symmetry.rs", "herman_mauguin_symbol", "expect", 1);
  ("structs/symmetry.rs", "transformations", "unwrap", 1);
  ("structs/symmetry.rs", "transformations_absolute", "unwrap", 1);
  ("structs/symmetry.rs", "z", "unwrap", 1);
  (* conformer(index) of an index found by enumerating the same conformers *)
  ("validate.rs", "reshuffle_conformers", "unwrap", 1);
  (* model(0) under model_count() > 1; atom(index) under index < atom_count() of two models with equal counts *)
  ("validate.rs", "validate_models", "unwrap", 5)
].

(* ---------- the mmCIF reader and what it calls ---------- *)
Definition cif_files : list string :=
  ["read/mmcif/lexer.rs"; "read/mmcif/parser.rs"; "error/context.rs"; "validate.rs"; "structs/symmetry.rs"; "reference_tables.rs";
   "structs/unit_cell.rs"].
Definition cif_allowed : list row := [
  (* display: lines[0] of a Range context; Context::range builds it from start.text.lines().take(k), k >= 1, of a text in which
     a later position exists, hence a non-empty text *)
  ("error/context.rs", "display", "index", 1);
  (* position: first line of a non-empty text *)
  ("error/context.rs", "position", "unwrap", 1);
  (* text[pat.len_utf8()..bytes], text[bytes + c.len_utf8()..], text[bytes + 1..] ('\n' / '\r' is one byte), text[bytes..]:
     offsets are sums of len_utf8 of the characters walked over from the start of the same text *)
  ("read/mmcif/lexer.rs", "parse_enclosed", "index", 4);
  (* text[..end], text[end..]: end is the byte offset returned by str::find, or the length *)
  ("read/mmcif/lexer.rs", "parse_identifier", "index", 2);
  (* text[1..bytes], text[bytes + 1..] at the closing ';' (one byte), text[bytes..]: the leading ';' is one byte and the offset
     is advanced by len_utf8 of every character, by 1 for '\n' / '\r' *)
  ("read/mmcif/lexer.rs", "parse_multiline_string", "index", 3);
  (* text[..number_end]: a count of ASCII characters (sign, digits, point, exponent) taken from the start of the text *)
  ("read/mmcif/lexer.rs", "parse_numeric", "index", 1);
  (* chars().next() of a text its callers know to be non-empty (it starts with '.' or an ordinary character);
     chars().nth(n) under text.len() > n where the first n characters are ASCII (5 times) *)
  ("read/mmcif/lexer.rs", "parse_numeric", "unwrap", 6);
  (* text[1..] after starts_with('.') / starts_with('?') *)
  ("read/mmcif/lexer.rs", "parse_value", "index", 2);
  (* chars().next() after the is_empty test *)
  ("read/mmcif/lexer.rs", "parse_value", "unwrap", 1);
  (* text[bytes..] twice: the offset adds len_utf8 of every character walked over and 1 or 2 for the line end *)
  ("read/mmcif/lexer.rs", "skip_to_eol", "index", 2);
  (* text[pattern.len()..]: the pattern is ASCII and the first pattern.len() characters matched it *)
  ("read/mmcif/lexer.rs", "start_with", "index", 1);
  (* text[n..]: n counts the ASCII white space characters walked over *)
  ("read/mmcif/lexer.rs", "trim_whitespace", "index", 2);
  (* row[x]: x is a position in the header and every row has as many values as the header (C06_rows_match_header);
     aniso_temp[i][j] on a 3 x 3 array with literal indices (18 times); values[k] inside the parse_column macro (not counted
     by the inventory, macro definitions are opaque to it): k < 27 = the number of columns of the table *)
  ("read/mmcif/parser.rs", "parse_atoms", "index", 19);
  (* positions_ holds no Err after the early return; nine aniso unwraps under all(Option::is_some); next_back() right after add_model *)
  ("read/mmcif/parser.rs", "parse_atoms", "unwrap", 11);
  (* matrix_mut()[r][c], [r][3]: r, c < 3 by the filter in get_index (C06_matrix_index_in_range) *)
  ("read/mmcif/parser.rs", "parse_matrix", "index", 4);
  (* the MtriX with the id stored in mtrix_id was pushed when that id was stored *)
  ("read/mmcif/parser.rs", "parse_mmcif_with_options", "expect", 1);
  (* single.name[..]: the full range *)
  ("read/mmcif/parser.rs", "parse_mmcif_with_options", "index", 1);
  (* scale / origx as_mut() right after they were set when absent *)
  ("read/mmcif/parser.rs", "parse_mmcif_with_options", "unwrap", 2);
  (* these accessors are not used while reading; the index was validated by from_index / new *)
  ("structs/symmetry.rs", "hall_symbol", "expect", 1);
  ("structs/symmetry.rs", "herman_mauguin_symbol", "expect", 1);
  ("structs/symmetry.rs", "transformations", "unwrap", 1);
  ("structs/symmetry.rs", "transformations_absolute", "unwrap", 1);
  ("structs/symmetry.rs", "z", "unwrap", 1);
  (* the setters are only called with a value accepted by get_cell_value: finite, an angle within [0, 360) (C06_cell_value_in_range) *)
  ("structs/unit_cell.rs", "set_a", "assert", 1);
  ("structs/unit_cell.rs", "set_alpha", "assert", 2);
  ("structs/unit_cell.rs", "set_b", "assert", 1);
  ("structs/unit_cell.rs", "set_beta", "assert", 2);
  ("structs/unit_cell.rs", "set_c", "assert", 1);
  ("structs/unit_cell.rs", "set_gamma", "assert", 2);
  (* conformer(index) of an index found by enumerating the same conformers *)
  ("validate.rs", "reshuffle_conformers", "unwrap", 1);
  (* model(0) under model_count() > 1; atom(index) under index < atom_count() of two models with equal counts *)
  ("validate.rs", "validate_models", "unwrap", 5)
].
