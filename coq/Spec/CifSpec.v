(* C02 / C04 specification: what an abstract mmCIF document states, independent of its layout (column order, spelling of
   the values, white space, comments, foreign content) and of the reader's lexer and column handling.
   A document is the data block name, the metadata items and the atom_site rows, each value given by its meaning:
   identifier text, the decimal text of a number, or absent. *)
From Coq Require Import List Ascii String ZArith QArith Bool.
From PV Require Import Base.Sx Base.Text Base.Float Base.Group Spec.Hier Spec.PdbSpec Model.AddAtom.
Import ListNotations.
Local Open Scope Z_scope.

Record crow : Type := {
  w_hetero : bool; w_id : text; w_type : text; w_name : text; w_alt : option text; w_comp : text;
  w_label_asym : text; w_auth_asym : option text; w_label_seq : option Z; w_auth_seq : option Z; w_ins : option text;
  w_x : text; w_y : text; w_z : text; w_occ : option text; w_b : option text; w_charge : option Z; w_model : option Z;
  w_aniso : option (list text) }.
Record cdoc : Type := {
  d_name : text;
  d_cell : option (list text);                        (* a b c alpha beta gamma *)
  d_sym_index : option Z; d_sym_name : option text;
  d_scale : option (list (option text)); d_origx : option (list (option text));     (* 12 entries, row major, absent = identity *)
  d_ncs : list (Z * option bool * list (option text));                                (* id, given / generate, 12 entries *)
  d_rows : list crow }.

Definition ident12 : list fval := map (fun z : Z => FFin z 0) [1; 0; 0; 0; 0; 1; 0; 0; 0; 0; 1; 0].
Definition matrix_of (m : list (option text)) : list fval :=
  map (fun p : option text * fval => match fst p with Some t => dec t | None => snd p end) (combine m ident12).

(* ---------- the hierarchy ---------- *)
Definition row_model (r : crow) : Z := match w_model r with Some n => n | None => 1 end.
Definition row_resnum (r : crow) : option Z := match w_auth_seq r with Some n => Some n | None => w_label_seq r end.
Definition row_chain (r : crow) : text := trim (match w_auth_asym r with Some c => c | None => w_label_asym r end).
(* the atom of a row; its serial number is its position among the rows of its model *)
Definition row_atom (serial : Z) (r : crow) : atom :=
  {| a_hetero := w_hetero r; a_serial := serial; a_id := trim (w_id r); a_name := upper (trim (w_name r));
     a_x := dec (w_x r); a_y := dec (w_y r); a_z := dec (w_z r);
     a_occ := match w_occ r with Some t => dec t | None => FFin 1 0 end;
     a_b := match w_b r with Some t => dec t | None => FFin 1 0 end;
     a_elem := infer_element (w_type r) (w_name r);
     a_charge := match w_charge r with Some c => c | None => 0 end;
     a_atf := option_map (map dec) (w_aniso r) |}.
Fixpoint number_rows (l : list crow) (i : Z) : list (text * (rkey * (ckey * atom))) :=
  match l with
  | [] => []
  | r :: rest =>
      (row_chain r, ((match row_resnum r with Some n => n | None => 0 end, w_ins r),
                     ((upper (trim (w_comp r)), upper_opt (w_alt r)), row_atom i r))) :: number_rows rest (i + 1)
  end.
Definition model_numbers (rows : list crow) : list Z :=
  keys Z crow Z.eqb (map (fun r => (row_model r, r)) rows) [].
Definition denote_cif_models (rows : list crow) : pdb :=
  map (fun n => model_of n (number_rows (filter (fun r => Z.eqb (row_model r) n) rows) 0)) (model_numbers rows).

(* ---------- metadata ---------- *)
Definition denote_cif_cell (d : cdoc) : option (list fval) := option_map (map dec) (d_cell d).
Definition denote_cif_scale (d : cdoc) : option (list fval) := option_map matrix_of (d_scale d).
Definition denote_cif_origx (d : cdoc) : option (list fval) := option_map matrix_of (d_origx d).
Definition denote_cif_ncs (d : cdoc) : list (Z * list fval * bool) :=
  map (fun x : Z * option bool * list (option text) =>
         let '(id, g, m) := x in (id, matrix_of m, match g with Some b => b | None => true end)) (d_ncs d).

(* ---------- which documents the property speaks about ---------- *)
(* every row states its residue number (author or label) *)
Definition rows_complete (d : cdoc) : bool :=
  forallb (fun r => match row_resnum r with Some _ => true | None => false end) (d_rows d).
