(* The in-memory hierarchy of pdbtbx as plain records, with the canonical s-expression codec shared with
   harness/src/snap.rs, and the nested traversals that define what "the atoms of a chain" etc. mean. *)
From Coq Require Import List Ascii String ZArith Bool.
From PV Require Import Base.Sx Base.Text.
Import ListNotations.

(* a binary64 value: finite m * 2^e (m odd or 0), or one of the special values *)
Inductive fval : Set := FFin (m e : Z) | FNegZero | FInf | FNegInf | FNaN.

Record atom : Set := {
  a_hetero : bool; a_serial : Z; a_id : text; a_name : text;
  a_x : fval; a_y : fval; a_z : fval; a_occ : fval; a_b : fval;
  a_elem : option Z; a_charge : Z; a_atf : option (list fval) }.
Record conformer : Set := { c_name : text; c_alt : option text; c_mod : option (text * text); c_atoms : list atom }.
Record residue : Set := { r_num : Z; r_icode : option text; r_confs : list conformer }.
Record chain : Set := { ch_id : text; ch_residues : list residue }.
Record model : Set := { m_serial : Z; m_chains : list chain }.
Definition pdb := list model.

(* ----- nested traversals (the specification side of every flat accessor) ----- *)
Definition r_atoms (r : residue) : list atom := flat_map c_atoms (r_confs r).
Definition ch_confs (c : chain) : list conformer := flat_map r_confs (ch_residues c).
Definition ch_atoms (c : chain) : list atom := flat_map r_atoms (ch_residues c).
Definition m_residues (m : model) : list residue := flat_map ch_residues (m_chains m).
Definition m_confs (m : model) : list conformer := flat_map ch_confs (m_chains m).
Definition m_atoms (m : model) : list atom := flat_map ch_atoms (m_chains m).
Definition p_chains (p : pdb) : list chain := flat_map m_chains p.
Definition p_residues (p : pdb) : list residue := flat_map m_residues p.
Definition p_confs (p : pdb) : list conformer := flat_map m_confs p.
Definition p_atoms (p : pdb) : list atom := flat_map m_atoms p.

(* ----- codec ----- *)
Definition fval_of_sx (x : sx) : fval :=
  match x with
  | SL [SZ m; SZ e] => FFin m e
  | SY "nz" => FNegZero | SY "inf" => FInf | SY "-inf" => FNegInf | _ => FNaN
  end%string.
Definition sx_of_fval (f : fval) : sx :=
  match f with
  | FFin m e => SL [SZ m; SZ e]
  | FNegZero => SY "nz" | FInf => SY "inf" | FNegInf => SY "-inf" | FNaN => SY "nan"
  end%string.

Definition zero_f := FFin 0 0.
Definition atom_of_sx (x : sx) : atom :=
  match x with
  | SL [h; SZ ser; SS id; SS nm; fx; fy; fz; fo; fb; el; SZ ch; atf] =>
      {| a_hetero := get_bool h; a_serial := ser; a_id := id; a_name := nm;
         a_x := fval_of_sx fx; a_y := fval_of_sx fy; a_z := fval_of_sx fz; a_occ := fval_of_sx fo; a_b := fval_of_sx fb;
         a_elem := get_opt get_Z el; a_charge := ch;
         a_atf := get_opt (fun t => map fval_of_sx (get_list t)) atf |}
  | SL [SZ ser; SS nm] =>      (* short form used by the structural properties *)
      {| a_hetero := false; a_serial := ser; a_id := []; a_name := nm;
         a_x := zero_f; a_y := zero_f; a_z := zero_f; a_occ := zero_f; a_b := zero_f;
         a_elem := None; a_charge := 0; a_atf := None |}
  | _ => {| a_hetero := false; a_serial := (-1)%Z; a_id := []; a_name := [];
            a_x := FNaN; a_y := FNaN; a_z := FNaN; a_occ := FNaN; a_b := FNaN; a_elem := None; a_charge := 0; a_atf := None |}
  end.
Definition sx_of_atom (a : atom) : sx :=
  SL [sbool (a_hetero a); SZ (a_serial a); SS (a_id a); SS (a_name a);
      sx_of_fval (a_x a); sx_of_fval (a_y a); sx_of_fval (a_z a); sx_of_fval (a_occ a); sx_of_fval (a_b a);
      sopt SZ (a_elem a); SZ (a_charge a); sopt (fun t => SL (map sx_of_fval t)) (a_atf a)].
Definition sx_of_atom_short (a : atom) : sx := SL [SZ (a_serial a); SS (a_name a)].

Definition conformer_of_sx (x : sx) : conformer :=
  match x with
  | SL [SS nm; alt; md; SL atoms] =>
      {| c_name := nm; c_alt := get_opt get_text alt;
         c_mod := get_opt (fun m => match m with SL [SS a; SS b] => (a, b) | _ => ([], []) end) md;
         c_atoms := map atom_of_sx atoms |}
  | _ => {| c_name := []; c_alt := None; c_mod := None; c_atoms := [] |}
  end.
Definition residue_of_sx (x : sx) : residue :=
  match x with
  | SL [SZ n; ic; SL cs] => {| r_num := n; r_icode := get_opt get_text ic; r_confs := map conformer_of_sx cs |}
  | _ => {| r_num := 0; r_icode := None; r_confs := [] |}
  end.
Definition chain_of_sx (x : sx) : chain :=
  match x with
  | SL [SS id; SL rs] => {| ch_id := id; ch_residues := map residue_of_sx rs |}
  | _ => {| ch_id := []; ch_residues := [] |}
  end.
Definition model_of_sx (x : sx) : model :=
  match x with
  | SL [SZ n; SL cs] => {| m_serial := n; m_chains := map chain_of_sx cs |}
  | _ => {| m_serial := 0; m_chains := [] |}
  end.
Definition pdb_of_sx (x : sx) : pdb := map model_of_sx (get_list x).

Section Show.
Variable af : atom -> sx.
Definition sx_of_conformer (c : conformer) : sx :=
  SL [SS (c_name c); sopt SS (c_alt c); sopt (fun m : text * text => SL [SS (fst m); SS (snd m)]) (c_mod c); SL (map af (c_atoms c))].
Definition sx_of_residue (r : residue) : sx := SL [SZ (r_num r); sopt SS (r_icode r); SL (map sx_of_conformer (r_confs r))].
Definition sx_of_chain (c : chain) : sx := SL [SS (ch_id c); SL (map sx_of_residue (ch_residues c))].
Definition sx_of_model (m : model) : sx := SL [SZ (m_serial m); SL (map sx_of_chain (m_chains m))].
Definition sx_of_pdb (p : pdb) : sx := SL (map sx_of_model p).
End Show.


(* defaults used by the translation of `v[0]` (only evaluated under a non-emptiness test) *)
Definition default_Atom : atom := atom_of_sx (SY "none"%string).
Definition default_Conformer : conformer := {| c_name := []; c_alt := None; c_mod := None; c_atoms := [] |}.
Definition default_Residue : residue := {| r_num := 0; r_icode := None; r_confs := [] |}.
Definition default_Chain : chain := {| ch_id := []; ch_residues := [] |}.
Definition default_Model : model := {| m_serial := 0; m_chains := [] |}.

(* atoms with their ancestors, nested traversal: ((((atom, conformer), residue), chain), model) *)
Definition r_awh (r : residue) : list (atom * conformer) := flat_map (fun c => map (fun a => (a, c)) (c_atoms c)) (r_confs r).
Definition ch_awh (c : chain) : list (atom * conformer * residue) := flat_map (fun r => map (fun h => (h, r)) (r_awh r)) (ch_residues c).
Definition m_awh (m : model) : list (atom * conformer * residue * chain) := flat_map (fun c => map (fun h => (h, c)) (ch_awh c)) (m_chains m).
Definition p_awh (p : pdb) : list (atom * conformer * residue * chain * model) := flat_map (fun m => map (fun h => (h, m)) (m_awh m)) p.
(* the first model, to which the plain structure-level counts refer *)
Definition first_model_count (f : model -> nat) (p : pdb) : nat := match p with [] => 0 | m :: _ => f m end.
