(* C01 specification: what a list of abstract PDB records states (independent of the reader's column handling and of
   its record loop): models, first-appearance partition into chains / residues / conformers, atom fields as the binary64
   value of the decimal text, tensors, serial-number wrap, redistribution of blank alternate locations, simple metadata. *)
From Coq Require Import List Ascii String ZArith QArith Bool.
From PV Require Import Base.Sx Base.Text Base.Float Base.Group Spec.Hier Gen.Elements Model.AddAtom.
Import ListNotations.
Local Open Scope Z_scope.

Record arec : Type := {
  r_hetero : bool; r_serial : Z; r_name : text; r_alt : option text; r_resname : text; r_chain : text; r_resnum : Z; r_ins : option text;
  r_x : text; r_y : text; r_z : text; r_occ : text; r_b : text;     (* decimal text of the columns *)
  r_element : text; r_charge : Z; r_atf : option (list Z) }.             (* ANISOU integers u11 u22 u33 u12 u13 u23 *)
Inductive rec : Type :=
| RModel (n : Z) | REndmdl | RTer | RAtom (a : arec)
| RHeader (id : text) | RRemark (n : Z) (t : text)
| RCryst (cell : list text) (sg : text)
| RScale (m : list text) | ROrigx (m : list text) | RMtrix (ser : Z) (m : list text) (given : bool)
(* annotations of the chains and residues: database reference of a chain, a difference with the database sequence, a modified residue *)
| RDbref (chain : text) (pos : Z * option text * Z * option text) (db acc id : text) (dbpos : Z * option text * Z * option text)
| RSeqadv (resname chain : text) (num : Z) (ins : option text) (dbres : option (text * Z)) (comment : text)
| RModres (resname chain : text) (num : Z) (ins : option text) (std comment : text).

Definition dec (t : text) : fval :=
  match parse_dec t with
  | Some q => match rnd64 q with
              | Some (0, _) => match t with "-"%char :: _ => FNegZero | _ => FFin 0 0 end
              | Some d => fval_of_dy d
              | None => FInf end
  | None => FNaN
  end.

Fixpoint pos_sym (s : string) (l : list string) (i : Z) : option Z :=
  match l with [] => None | x :: r => if String.eqb x s then Some i else pos_sym s r (i + 1) end.
Definition elem_of (s : text) : option Z := pos_sym (string_of_list_ascii (upper s)) ELEMENT_SYMBOLS 1.
(* element: the element column, else the atom name when it is a symbol, else its first letter when that is one of C H N O S *)
Definition infer_element (element name : text) : option Z :=
  match elem_of (trim element) with
  | Some e => Some e
  | None => match elem_of (trim name) with
            | Some e => Some e
            | None => match trim name with
                      | c :: _ => if existsb (Ascii.eqb c) (stext "CHNOS") then elem_of [c] else None
                      | [] => None end
            end
  end.
Definition tensor (u : list Z) : option (list fval) :=
  match u with
  | [a; b; c; d; e; f] =>
      let t i := match rnd64 (Qmake i 10000) with Some (0, _) => FFin 0 0 | Some x => fval_of_dy x | None => FInf end in
      Some [t a; t d; t e; t d; t b; t f; t e; t f; t c]
  | _ => None
  end.

(* ----- one pass over the records: model boundaries, TER count, wrap offsets, running atom id ----- *)
Record walk : Type := {
  w_models : list (Z * list (text * (rkey * (ckey * atom))));   (* finished models, atoms with their keys in record order *)
  w_num : Z; w_cur : list (text * (rkey * (ckey * atom)));
  w_ters : N; w_last_atom : Z; w_atom_add : Z; w_last_res : Z; w_res_add : Z; w_next_id : Z }.
Definition walk0 : walk :=
  {| w_models := []; w_num := 0; w_cur := []; w_ters := 0; w_last_atom := 0; w_atom_add := 0; w_last_res := 0; w_res_add := 0; w_next_id := 0 |}.
Definition close_model (w : walk) : list (Z * list (text * (rkey * (ckey * atom)))) :=
  match w_cur w with [] => w_models w | c => (w_models w ++ [(w_num w, c)])%list end.
Definition upper_opt (o : option text) : option text := option_map (fun t => upper (trim t)) o.
Definition walk_step (w : walk) (r : rec) : walk :=
  match r with
  | RModel n =>
      {| w_models := close_model w; w_num := n; w_cur := []; w_ters := w_ters w; w_last_atom := w_last_atom w; w_atom_add := w_atom_add w;
         w_last_res := w_last_res w; w_res_add := w_res_add w; w_next_id := w_next_id w |}
  | RTer =>
      {| w_models := w_models w; w_num := w_num w; w_cur := w_cur w; w_ters := (w_ters w + 1)%N; w_last_atom := w_last_atom w;
         w_atom_add := w_atom_add w; w_last_res := w_last_res w; w_res_add := w_res_add w; w_next_id := w_next_id w |}
  | RAtom a =>
      (* serial numbers that wrapped keep counting upward *)
      let aadd := if (Z.eqb (r_serial a) 0 && Z.eqb (w_last_atom w) 99999)%bool then w_atom_add w + 100000 else w_atom_add w in
      let radd := if (Z.eqb (r_resnum a) 0 && Z.eqb (w_last_res w) 9999)%bool then w_res_add w + 10000 else w_res_add w in
      let chain := if is_nil (trim (r_chain a)) then [ascii_of_N (65 + w_ters w mod 26)] else r_chain a in
      let atm := {| a_hetero := r_hetero a; a_serial := r_serial a + aadd; a_id := show_Z (w_next_id w); a_name := upper (trim (r_name a));
                   a_x := dec (r_x a); a_y := dec (r_y a); a_z := dec (r_z a); a_occ := dec (r_occ a); a_b := dec (r_b a);
                   a_elem := infer_element (r_element a) (r_name a); a_charge := r_charge a;
                   a_atf := match r_atf a with Some u => tensor u | None => None end |} in
      (* the insertion code in the case-normalised form in which it is stored: 10a and 10A are one residue *)
      let key := (chain, ((r_resnum a + radd, upper_opt (r_ins a)), ((upper (trim (r_resname a)), upper_opt (r_alt a)), atm))) in
      {| w_models := w_models w; w_num := w_num w; w_cur := (w_cur w ++ [key])%list; w_ters := w_ters w; w_last_atom := r_serial a;
         w_atom_add := aadd; w_last_res := r_resnum a; w_res_add := radd; w_next_id := w_next_id w + 1 |}
  | _ => w
  end.

(* ----- blank alternate locations: the atoms of the unlabelled conformer go to every labelled conformer, the occupancy
         divided so that the copies add up to the original value ----- *)
Definition divide (occ : fval) (n : Z) : fval :=
  match dy_of_fval occ with
  | Some d => match rnd64 (Qmult (Q_of_dy d) (Qmake 1 (Z.to_pos n))) with
              | Some (0, _) => occ | Some r => fval_of_dy r | None => occ end
  | None => occ
  end.
Definition set_occ (a : atom) (o : fval) : atom :=
  {| a_hetero := a_hetero a; a_serial := a_serial a; a_id := a_id a; a_name := a_name a; a_x := a_x a; a_y := a_y a; a_z := a_z a;
     a_occ := o; a_b := a_b a; a_elem := a_elem a; a_charge := a_charge a; a_atf := a_atf a |}.
Definition redistribute (cs : list (ckey * list atom)) : list (ckey * list atom) :=
  let blanks := filter (fun c : ckey * list atom => match snd (fst c) with None => true | Some _ => false end) cs in
  let labelled := filter (fun c : ckey * list atom => match snd (fst c) with None => false | Some _ => true end) cs in
  match blanks, labelled with
  | [b], _ :: _ =>
      let n := Z.of_nat (List.length labelled) in
      map (fun c : ckey * list atom => (fst c, (snd c ++ map (fun a => set_occ a (divide (a_occ a) n)) (snd b))%list)) labelled
  | _, _ => cs
  end.

Definition residue_of (k : rkey) (cs : list (ckey * list atom)) : residue :=
  {| r_num := fst k; r_icode := upper_opt (snd k);
     r_confs := map (fun c : ckey * list atom => {| c_name := fst (fst c); c_alt := snd (fst c); c_mod := None; c_atoms := snd c |}) (redistribute cs) |}.
Definition model_of (num : Z) (l : list (text * (rkey * (ckey * atom)))) : model :=
  {| m_serial := num;
     m_chains := map (fun c : text * ress atom => {| ch_id := fst c; ch_residues := map (fun r : rkey * confs atom => residue_of (fst r) (snd r)) (snd c) |})
                     (spec_chains atom l) |}.
Definition denote_models (rs : list rec) : pdb :=
  let w := fold_left walk_step rs walk0 in
  map (fun m : Z * list (text * (rkey * (ckey * atom))) => model_of (fst m) (snd m)) (close_model w).

(* metadata: the last record of each kind wins *)
Definition last_some {A} (f : rec -> option A) (rs : list rec) : option A :=
  fold_left (fun acc r => match f r with Some x => Some x | None => acc end) rs None.
Definition denote_id := last_some (fun r => match r with RHeader id => Some (trim id) | _ => None end).
Definition denote_remarks (rs : list rec) : list (Z * text) :=
  flat_map (fun r => match r with RRemark n t => [(n, trim_r t)] | _ => [] end) rs.
Definition denote_cell := last_some (fun r => match r with RCryst cell _ => Some (map dec cell) | _ => None end).
Definition denote_sg := last_some (fun r => match r with RCryst _ sg => Some sg | _ => None end).
Definition denote_scale := last_some (fun r => match r with RScale m => Some (map dec m) | _ => None end).
Definition denote_origx := last_some (fun r => match r with ROrigx m => Some (map dec m) | _ => None end).
Definition denote_mtrix (rs : list rec) : list (Z * list fval * bool) :=
  flat_map (fun r => match r with RMtrix ser m g => [(ser, map dec m, g)] | _ => [] end) rs.


(* ----- annotations: MODRES, DBREF, SEQADV -----
   A record names its chain by the chain identifier as it stands and its residue by number and insertion code, the residue
   name and the insertion code in any case (they are stored in upper case).  The annotation goes to the first model that has
   a chain of that name (the models of a file describe the same molecule; the readers annotate the first one). *)
Fixpoint find_pos {A} (p : A -> bool) (l : list A) (k : nat) : option nat :=
  match l with [] => None | x :: r => if p x then Some k else find_pos p r (S k) end.
Fixpoint upd_nth {A} (n : nat) (f : A -> A) (l : list A) : list A :=
  match n, l with O, x :: r => f x :: r | S k, x :: r => x :: upd_nth k f r | _, [] => [] end.
Definition has_chain (c : text) (m : model) : bool := existsb (fun ch => text_eqb (ch_id ch) c) (m_chains m).
Definition set_mod (resname : text) (md : text * text) (r : residue) : residue :=
  match find_pos (fun cf => text_eqb (c_name cf) (upper (trim resname))) (r_confs r) 0 with
  | Some k => {| r_num := r_num r; r_icode := r_icode r;
                 r_confs := upd_nth k (fun cf => {| c_name := c_name cf; c_alt := c_alt cf; c_mod := Some md; c_atoms := c_atoms cf |}) (r_confs r) |}
  | None => r
  end.
Definition same_okey (a b : option text) : bool :=
  match a, b with None, None => true | Some x, Some y => text_eqb x y | _, _ => false end.
Definition modres_step (p : pdb) (r : rec) : pdb :=
  match r with
  | RModres resname chain num ins std comment =>
      match find_pos (has_chain (trim chain)) p 0 with
      | Some mi =>
          upd_nth mi (fun m =>
            match find_pos (fun ch => text_eqb (ch_id ch) (trim chain)) (m_chains m) 0 with
            | Some ci => {| m_serial := m_serial m;
                            m_chains := upd_nth ci (fun ch =>
                              match find_pos (fun rs => (Z.eqb (r_num rs) num && same_okey (r_icode rs) (upper_opt ins))%bool) (ch_residues ch) 0 with
                              | Some ri => {| ch_id := ch_id ch; ch_residues := upd_nth ri (set_mod resname (trim std, trim comment)) (ch_residues ch) |}
                              | None => ch
                              end) (m_chains m) |}
            | None => m
            end) p
      | None => p
      end
  | _ => p
  end.
Definition denote_annotated (rs : list rec) : pdb := fold_left modres_step rs (denote_models rs).

Definition pos_of (p : Z * option text * Z * option text) : Z * option text * Z * option text :=
  let '(a, ai, b, bi) := p in
  let blank o := match o with Some t => match trim t with [] => None | x => Some x end | None => None end in
  (a, blank ai, b, blank bi).
(* the SEQADV records of a chain that stand after its DBREF record *)
Fixpoint seqadv_after (chain : text) (seen : bool) (rs : list rec) : list (text * Z * option text * option (text * Z) * text) :=
  match rs with
  | [] => []
  | RDbref c _ _ _ _ _ :: r => seqadv_after chain (seen || text_eqb (trim c) chain)%bool r
  | RSeqadv resname c num ins dbres comment :: r =>
      if (seen && text_eqb (trim c) chain)%bool
      then (trim resname, num, match ins with Some t => match trim t with [] => None | x => Some x end | None => None end,
            option_map (fun d : text * Z => (trim (fst d), snd d)) dbres, trim comment) :: seqadv_after chain seen r
      else seqadv_after chain seen r
  | _ :: r => seqadv_after chain seen r
  end.
(* (model index, chain index, (database, accession, id code), positions in the file, positions in the database, differences):
   one entry per chain that a DBREF record names, in the first model that has the chain; one DBREF record per chain is assumed *)
Definition denote_dbrefs (rs : list rec) :
  list (nat * nat * (text * text * text) * (Z * option text * Z * option text) * (Z * option text * Z * option text)
        * list (text * Z * option text * option (text * Z) * text)) :=
  let p := denote_models rs in
  flat_map (fun im : nat * model =>
    flat_map (fun jc : nat * chain =>
      if match find_pos (has_chain (ch_id (snd jc))) p 0 with Some k => Nat.eqb k (fst im) | None => false end then
        match find (fun r => match r with RDbref c _ _ _ _ _ => text_eqb (trim c) (ch_id (snd jc)) | _ => false end) rs with
        | Some (RDbref c pos db acc id dbpos) =>
            [(fst im, fst jc, (trim db, trim acc, trim id), pos_of pos, pos_of dbpos, seqadv_after (ch_id (snd jc)) false rs)]
        | _ => []
        end
      else [])
      (combine (seq 0 (List.length (m_chains (snd im)))) (m_chains (snd im))))
    (combine (seq 0 (List.length p)) p).
