(* C04 specification: when is a re-read structure the original "with every atom number rounded to five decimals" and
   everything else the same.  Independent of the writer's arithmetic: a number y is an acceptable rounding of x when y is
   the binary64 value of k / 10^5 for an integer k within half a unit (plus a thousandth, for the case where x * 10^5 sits
   on a half) of x * 10^5.  Atom serial numbers are not written to mmCIF and are not compared; neither are the
   modification of a conformer, remarks, database references and bonds (not part of the property's list). *)
From Coq Require Import List Ascii String ZArith QArith Qround Qabs Bool.
From PV Require Import Base.Sx Base.Text Base.Num Base.Float Spec.Hier.
Import ListNotations.
Local Open Scope Z_scope.

Definition feq (a b : fval) : bool := match fcompare a b with Some Eq => true | _ => false end.
Definition is_round5 (x y : fval) : bool :=
  match dy_of_fval x, dy_of_fval y with
  | Some dx, Some dy' =>
      let q := Qmult (Q_of_dy dx) (inject_Z 100000) in
      let k0 := Qfloor q in
      existsb (fun k => (Qle_bool (Qabs (Qminus (inject_Z k) q)) (Qmake 501 1000)) &&
                        match rnd64 (Qmake k 100000) with Some r => feq (fval_of_dy r) y | None => false end)%bool
              [k0 - 1; k0; k0 + 1; k0 + 2]
  | _, _ => false
  end.

Definition otext_eq (a b : option text) : bool :=
  match a, b with None, None => true | Some x, Some y => text_eqb x y | _, _ => false end.
Definition oZ_eq (a b : option Z) : bool :=
  match a, b with None, None => true | Some x, Some y => Z.eqb x y | _, _ => false end.
Fixpoint all2 {A} (f : A -> A -> bool) (l l' : list A) : bool :=
  match l, l' with
  | [], [] => true
  | x :: r, y :: s => (f x y && all2 f r s)%bool
  | _, _ => false
  end.
Definition atom_rt (a b : atom) : bool :=
  (Bool.eqb (a_hetero a) (a_hetero b) && text_eqb (a_id a) (a_id b) && text_eqb (a_name a) (a_name b) &&
   is_round5 (a_x a) (a_x b) && is_round5 (a_y a) (a_y b) && is_round5 (a_z a) (a_z b) &&
   is_round5 (a_occ a) (a_occ b) && is_round5 (a_b a) (a_b b) &&
   oZ_eq (a_elem a) (a_elem b) && Z.eqb (a_charge a) (a_charge b) &&
   match a_atf a, a_atf b with
   | None, None => true
   | Some t, Some t' => all2 is_round5 t t'
   | _, _ => false
   end)%bool.
Definition conformer_rt (a b : conformer) : bool :=
  (text_eqb (c_name a) (c_name b) && otext_eq (c_alt a) (c_alt b) && all2 atom_rt (c_atoms a) (c_atoms b))%bool.
Definition residue_rt (a b : residue) : bool :=
  (Z.eqb (r_num a) (r_num b) && otext_eq (r_icode a) (r_icode b) && all2 conformer_rt (r_confs a) (r_confs b))%bool.
Definition chain_rt (a b : chain) : bool := (text_eqb (ch_id a) (ch_id b) && all2 residue_rt (ch_residues a) (ch_residues b))%bool.
Definition model_rt (a b : model) : bool := (Z.eqb (m_serial a) (m_serial b) && all2 chain_rt (m_chains a) (m_chains b))%bool.
Definition pdb_rt (a b : pdb) : bool := all2 model_rt a b.

Definition ofl_eq (a b : option (list fval)) : bool :=
  match a, b with None, None => true | Some x, Some y => all2 feq x y | _, _ => false end.

(* the structures the round trip is claimed for (the reader's normal form): every container non-empty, identifiers unique
   among siblings, model numbers distinct, no residue mixing an unlabelled conformer with labelled ones *)
Fixpoint nodupb {A} (eqb : A -> A -> bool) (l : list A) : bool :=
  match l with [] => true | x :: r => (negb (existsb (eqb x) r) && nodupb eqb r)%bool end.
Definition residue_nf (r : residue) : bool :=
  (negb (match r_confs r with [] => true | _ => false end) &&
   forallb (fun c => negb (match c_atoms c with [] => true | _ => false end)) (r_confs r) &&
   nodupb (fun a b : conformer => (text_eqb (c_name a) (c_name b) && otext_eq (c_alt a) (c_alt b))%bool) (r_confs r) &&
   (match r_confs r with [_] => true | cs => forallb (fun c => match c_alt c with Some _ => true | None => false end) cs end))%bool.
Definition chain_nf (c : chain) : bool :=
  (negb (match ch_residues c with [] => true | _ => false end) && forallb residue_nf (ch_residues c) &&
   nodupb (fun a b : residue => (Z.eqb (r_num a) (r_num b) && otext_eq (r_icode a) (r_icode b))%bool) (ch_residues c))%bool.
Definition model_nf (m : model) : bool :=
  (negb (match m_chains m with [] => true | _ => false end) && forallb chain_nf (m_chains m) &&
   nodupb (fun a b : chain => text_eqb (ch_id a) (ch_id b)) (m_chains m))%bool.
Definition pdb_nf (p : pdb) : bool :=
  (forallb model_nf p && nodupb (fun a b : model => Z.eqb (m_serial a) (m_serial b)) p)%bool.
