(* S-expressions: the exchange format between the Rust harness and the model.
   Grammar (one expression per line):
     sx    ::= int | #hex | symbol | '(' sx* ')'
     int   ::= '-'? [0-9]+
     #hex  ::= '#' ([0-9a-f][0-9a-f])*        a byte string
     symbol::= any other run of non-blank, non-paren characters
   The parser is a stack machine, structurally recursive on the input. *)
From Coq Require Import List Ascii String ZArith Bool.
Import ListNotations.
Open Scope char_scope.

Definition text := list ascii.

Inductive sx : Type :=
| SZ (z : Z)
| SS (s : text)          (* byte string, printed as #hex *)
| SY (s : string)        (* symbol *)
| SL (l : list sx).

(* ---------- characters ---------- *)
Definition code (c : ascii) : N := N_of_ascii c.
Definition is_digit (c : ascii) : bool := (N.leb 48 (code c) && N.leb (code c) 57)%bool.
Definition digit_val (c : ascii) : Z := Z.of_N (code c) - 48.
Definition hex_val (c : ascii) : option N :=
  let n := code c in
  if (N.leb 48 n && N.leb n 57)%bool then Some (n - 48)%N
  else if (N.leb 97 n && N.leb n 102)%bool then Some (n - 87)%N
  else None.
Definition hex_digit (n : N) : ascii :=
  if N.ltb n 10 then ascii_of_N (48 + n) else ascii_of_N (87 + n).

(* ---------- atoms ---------- *)
Fixpoint all_digits (s : text) : bool :=
  match s with [] => true | c :: r => (is_digit c && all_digits r)%bool end.
Definition nat_of_digits (s : text) : Z := fold_left (fun acc c => acc * 10 + digit_val c)%Z s 0%Z.
Definition parse_int (s : text) : option Z :=
  match s with
  | [] => None
  | "-" :: r => match r with [] => None | _ => if all_digits r then Some (- nat_of_digits r)%Z else None end
  | _ => if all_digits s then Some (nat_of_digits s) else None
  end.
Fixpoint parse_hex (s : text) : option text :=
  match s with
  | [] => Some []
  | a :: b :: r =>
      match hex_val a, hex_val b, parse_hex r with
      | Some x, Some y, Some t => Some (ascii_of_N (16 * x + y) :: t)
      | _, _, _ => None
      end
  | _ => None
  end.
Definition atom_of (tok : text) : sx :=
  match tok with
  | "#" :: r => match parse_hex r with Some t => SS t | None => SY (string_of_list_ascii tok) end
  | _ => match parse_int tok with Some z => SZ z | None => SY (string_of_list_ascii tok) end
  end.

(* ---------- parser ---------- *)
(* linear-time reversal (List.rev is quadratic; tokens can be thousands of characters long) *)
Definition frev {A} (l : list A) : list A := rev_append l [].
Definition frames := list (list sx).   (* innermost first, each frame reversed *)
Definition push_item (x : sx) (st : frames) : frames :=
  match st with [] => [[x]] | f :: r => (x :: f) :: r end.
Definition flush (tok : text) (st : frames) : frames :=
  match tok with [] => st | _ => push_item (atom_of (frev tok)) st end.
Fixpoint parse_go (s : text) (tok : text) (st : frames) : frames :=
  match s with
  | [] => flush tok st
  | c :: r =>
      if Ascii.eqb c "(" then parse_go r [] ([] :: flush tok st)
      else if Ascii.eqb c ")" then
        match flush tok st with
        | f :: st' => parse_go r [] (push_item (SL (frev f)) st')
        | [] => parse_go r [] []
        end
      else if (Ascii.eqb c " " || Ascii.eqb c "009" || Ascii.eqb c "010" || Ascii.eqb c "013")%bool
      then parse_go r [] (flush tok st)
      else parse_go r (c :: tok) st
  end.
Definition parse_sx (s : text) : list sx :=
  match parse_go s [] [[]] with
  | [f] => frev f
  | _ => [SY "unbalanced"]
  end.

(* ---------- printer ---------- *)
Fixpoint pos_digits (fuel : nat) (n : Z) (acc : text) : text :=
  match fuel with
  | O => acc
  | S f => let d := ascii_of_N (48 + Z.to_N (n mod 10)) in
           if (n <? 10)%Z then d :: acc else pos_digits f (n / 10)%Z (d :: acc)
  end.
Definition show_Z (z : Z) : text :=
  let a := Z.abs z in
  let ds := pos_digits (S (Z.to_nat (Z.log2 a))) a [] in
  if (z <? 0)%Z then "-" :: ds else ds.
Definition show_hex (s : text) : text :=
  flat_map (fun c => let n := code c in [hex_digit (n / 16); hex_digit (n mod 16)]) s.
Fixpoint show_sx (x : sx) : text :=
  match x with
  | SZ z => show_Z z
  | SS s => "#" :: show_hex s
  | SY s => list_ascii_of_string s
  | SL l =>
      let fix go (l : list sx) : text :=
        match l with
        | [] => []
        | [y] => show_sx y
        | y :: r => show_sx y ++ " " :: go r
        end in
      "(" :: go l ++ [")"]
  end.
Definition show_sxs (l : list sx) : text :=
  match l with [x] => show_sx x | _ => show_sx (SL l) end.

(* ---------- helpers for decoders / encoders ---------- *)
Definition sbool (b : bool) : sx := SY (if b then "t" else "f")%string.
Definition sopt {A} (f : A -> sx) (o : option A) : sx :=
  match o with None => SY "-"%string | Some a => SL [f a] end.
Definition sN (n : N) : sx := SZ (Z.of_N n).
Definition snat (n : nat) : sx := SZ (Z.of_nat n).
Definition stext (s : string) : text := list_ascii_of_string s.

Definition get_bool (x : sx) : bool := match x with SY "t"%string => true | _ => false end.
Definition get_Z (x : sx) : Z := match x with SZ z => z | _ => 0%Z end.
Definition get_text (x : sx) : text := match x with SS s => s | _ => [] end.
Definition get_list (x : sx) : list sx := match x with SL l => l | _ => [] end.
Definition get_opt {A} (f : sx -> A) (x : sx) : option A :=
  match x with SL [y] => Some (f y) | _ => None end.

Example parse_ex :
  parse_sx (stext "(add -12 #4142 (x) -)") = [SL [SY "add"; SZ (-12); SS (stext "AB"); SL [SY "x"]; SY "-"]]%string.
Proof. vm_compute. reflexivity. Qed.
Example show_ex :
  show_sxs [SL [SY "add"; SZ (-120); SS (stext "AB"); SL []; SZ 0]]%string = stext "(add -120 #4142 () 0)".
Proof. vm_compute. reflexivity. Qed.

(* one line in, one line out: `(<entry> <payload>)` is handed to f as the payload *)
Definition run_with (f : sx -> sx) (line : text) : text :=
  match parse_sx line with
  | [SL [SY _; y]] => show_sx (f y)
  | _ => stext "parse-error"
  end.
