(* binary64 as exact dyadic rationals: rounding to nearest-even, Rust's f64 FromStr grammar, {:.p} and {} printing.
   Cross-checked against rustc on thousands of vectors (see DESIGN.md 10b); used wherever the code parses, prints or
   adds floating-point numbers. *)
From Coq Require Import ZArith QArith List String Ascii Bool.
From PV Require Import Spec.Hier.
Import ListNotations.
Local Open Scope Z_scope.

Definition dy := (Z * Z)%type.   (* m * 2^e, canonical: m odd or (0,0) *)
Fixpoint strip2 (fuel : nat) (m e : Z) : dy :=
  match fuel with
  | O => (m, e)
  | S f => if Z.eqb m 0 then (0, 0) else if Z.even m then strip2 f (m / 2) (e + 1) else (m, e)
  end.
Definition canon (m e : Z) : dy := strip2 (Z.to_nat (Z.log2 (Z.abs m)) + 1) m e.
Definition Q_of_dy (x : dy) : Q :=
  let '(m, e) := x in if 0 <=? e then inject_Z (m * 2 ^ e) else Qmake m (Z.to_pos (2 ^ (- e))).

(* round-half-even of p/q, p >= 0, q > 0 *)
Definition rhe (p q : Z) : Z :=
  let f := p / q in let r := p mod q in
  match Z.compare (2 * r) q with Lt => f | Gt => f + 1 | Eq => if Z.even f then f else f + 1 end.

(* binary64 round-to-nearest-even of a rational; None on overflow *)
Definition rnd64 (q : Q) : option dy :=
  let n := Qnum q in let d := Zpos (Qden q) in
  if Z.eqb n 0 then Some (0, 0) else
  let a := Z.abs n in
  let E0 := Z.log2 a - Z.log2 d in
  let ge := if 0 <=? E0 then d * 2 ^ E0 <=? a else d <=? a * 2 ^ (- E0) in
  let E := if ge then E0 else E0 - 1 in
  let ue := Z.max (E - 52) (-1074) in
  let mant := if 0 <=? ue then rhe a (d * 2 ^ ue) else rhe (a * 2 ^ (- ue)) d in
  (* overflow is only possible near the top of the exponent range; the test is skipped elsewhere (2^1024 is costly to build) *)
  if (if 1023 <=? E then 2 ^ 1024 <=? mant * (if 0 <=? ue then 2 ^ ue else 1) else false) then None else
  Some (canon (Z.sgn n * mant) ue).

Definition dy_of_fval (f : fval) : option dy :=
  match f with FFin m e => Some (m, e) | FNegZero => Some (0, 0) | _ => None end.
Definition fval_of_dy (x : dy) : fval := FFin (fst x) (snd x).
(* floating-point addition of two finite values *)
Definition fadd (a b : fval) : fval :=
  match dy_of_fval a, dy_of_fval b with
  | Some x, Some y => match rnd64 (Qplus (Q_of_dy x) (Q_of_dy y)) with Some r => fval_of_dy r | None => FInf end
  | _, _ => FNaN
  end.

(* ---------- decimal text ---------- *)
Definition digit_of (c : ascii) : option Z :=
  let n := Z.of_N (N_of_ascii c) in if (48 <=? n) && (n <=? 57) then Some (n - 48) else None.
Fixpoint digits (s : list ascii) (acc : Z) (cnt : Z) : Z * Z * list ascii :=
  match s with
  | c :: r => match digit_of c with Some d => digits r (acc * 10 + d) (cnt + 1) | None => (acc, cnt, s) end
  | [] => (acc, cnt, s)
  end.
(* grammar of <f64 as FromStr> without inf/nan: [+-] digits [. digits] [ (e|E) [+-] digits ], at least one mantissa digit *)
Definition parse_dec (s : list ascii) : option Q :=
  let '(neg, s1) := match s with "-"%char :: r => (true, r) | "+"%char :: r => (false, r) | _ => (false, s) end in
  let '(ip, ic, s2) := digits s1 0 0 in
  let '(m, fc, s3) := match s2 with "."%char :: r => let '(m, c, r') := digits r ip 0 in (m, c, r') | _ => (ip, 0, s2) end in
  if (ic + fc =? 0) then None else
  let '(ex, ok, s4) := match s3 with
     | c :: r => if (Ascii.eqb c "e" || Ascii.eqb c "E")%bool then
         let '(eneg, r1) := match r with "-"%char :: r' => (true, r') | "+"%char :: r' => (false, r') | _ => (false, r) end in
         let '(ev, ec, r2) := digits r1 0 0 in (if eneg then - ev else ev, negb (ec =? 0), r2)
       else (0, true, s3)
     | [] => (0, true, s3) end in
  match s4 with
  | [] =>
    if ok then let e10 := ex - fc in
      let v := if 0 <=? e10 then inject_Z (m * 10 ^ e10) else Qmake m (Z.to_pos (10 ^ (- e10))) in
      Some (if neg then Qopp v else v)
    else None
  | _ => None
  end.
(* the sign of a negative zero is kept by the caller when it matters *)
Definition parse_f64 (s : list ascii) : option dy :=
  match parse_dec s with Some q => rnd64 q | None => None end.

(* ---------- printing ---------- *)
Definition ascii_of_digit (d : Z) : ascii := ascii_of_N (Z.to_N (d + 48)).
Fixpoint show_nat_digits (fuel : nat) (n : Z) (acc : list ascii) : list ascii :=
  match fuel with
  | O => acc
  | S f => let acc' := ascii_of_digit (n mod 10) :: acc in if n <? 10 then acc' else show_nat_digits f (n / 10) acc'
  end.
Definition show_Zpos (n : Z) : list ascii := show_nat_digits (Z.to_nat (Z.log2 n) + 2) n [].
Definition pad0 (k : nat) (s : list ascii) : list ascii := (repeat "0"%char k ++ s)%list.
(* Rust {:.p}: exact value rounded half-even to p decimals, sign kept even for -0.000 *)
Definition fmt_fixed (p : nat) (neg_zero : bool) (x : dy) : list ascii :=
  let '(m, e) := x in
  let a := Z.abs m in let P := 10 ^ Z.of_nat p in
  let r := if 0 <=? e then a * 2 ^ e * P else rhe (a * P) (2 ^ (- e)) in
  let ip := r / P in let fp := r mod P in
  let fs := show_Zpos fp in
  let fs' := if (p =? 0)%nat then [] else ("."%char :: pad0 (p - List.length fs) fs) in
  let sg := if ((m <? 0) || neg_zero)%bool then ["-"%char] else [] in
  (sg ++ show_Zpos ip ++ fs')%list.

Definition qabs_num_den (x : dy) : Z * Z :=
  let '(m, e) := x in if 0 <=? e then (Z.abs m * 2 ^ e, 1) else (Z.abs m, 2 ^ (- e)).
Fixpoint log10_floor (fuel : nat) (k : Z) (num den : Z) : Z :=
  match fuel with
  | O => k
  | S f =>
    let le := if 0 <=? k then den * 10 ^ k <=? num else den <=? num * 10 ^ (- k) in
    let lt_next := if 0 <=? k + 1 then num <? den * 10 ^ (k + 1) else num * 10 ^ (- (k + 1)) <? den in
    if negb le then log10_floor f (k - 1) num den else if negb lt_next then log10_floor f (k + 1) num den else k
  end.
(* a shortest representation has no trailing zero digit: 10 * 10^t is 1 * 10^(t+1) (met when the value lies just below a power of ten) *)
Fixpoint strip10 (fuel : nat) (D t : Z) : Z * Z :=
  match fuel with
  | O => (D, t)
  | S f => if (negb (D =? 0) && (D mod 10 =? 0))%bool then strip10 f (D / 10) (t + 1) else (D, t)
  end.
(* the rational D * 10^t *)
Definition dec_q (D t : Z) : Q := if 0 <=? t then inject_Z (D * 10 ^ t) else Qmake D (Z.to_pos (10 ^ (- t))).
(* fewest significant digits that read back as the same double: D * 10^t *)
Definition shortest_digits (x : dy) : option (Z * Z) :=
  let '(num, den) := qabs_num_den x in
  let k := log10_floor 400 ((Z.log2 num - Z.log2 den) * 3 / 10) num den in
  let try n :=
    let t0 := k - n + 1 in
    let D0 := if 0 <=? t0 then rhe num (den * 10 ^ t0) else rhe (num * 10 ^ (- t0)) den in
    (* the candidate without trailing zero digits (what is printed), checked to read back as x *)
    let '(D, t) := strip10 20 D0 t0 in
    match rnd64 (dec_q D t) with
    | Some y => if (Z.eqb (fst y) (Z.abs (fst x)) && Z.eqb (snd y) (snd x))%bool then Some (D, t) else None
    | None => None
    end in
  (fix go (fuel : nat) (n : Z) := match fuel with O => None | S f => match try n with Some r => Some r | None => go f (n + 1) end end) 18%nat 1.
(* Rust {} for f64: shortest round-trip digits, positional notation *)
Definition fmt_shortest (neg_zero : bool) (x : dy) : list ascii :=
  let '(m, e) := x in
  if m =? 0 then (if neg_zero then ["-"%char; "0"%char] else ["0"%char]) else
  match shortest_digits x with
  | None => ["?"%char]
  | Some (D, t) =>
    let sgn := if m <? 0 then ["-"%char] else [] in
    if 0 <=? t then (sgn ++ show_Zpos (D * 10 ^ t))%list
    else let P := 10 ^ (- t) in let ip := D / P in let fp := D mod P in
         let fs := show_Zpos fp in
         (sgn ++ show_Zpos ip ++ "."%char :: pad0 (Z.to_nat (- t) - List.length fs) fs)%list
  end.
