(* First-appearance grouping: the fold of "find the child with this key or append a fresh one" equals the
   declarative first-appearance partition.  Parametric in the inner accumulator so that it nests
   (chain -> residue -> conformer -> atoms). *)
From Coq Require Import List Bool Arith Lia.
Import ListNotations.

Section G.
Variables (K V I : Type) (eqb : K -> K -> bool).
Hypothesis eqb_spec : forall a b, reflect (a = b) (eqb a b).
Variable init : I.
Variable g : I -> V -> I.

(* find the first entry with key k and update it with v, else append a fresh one *)
Fixpoint upsert (k : K) (v : V) (l : list (K * I)) : list (K * I) :=
  match l with
  | [] => [(k, g init v)]
  | (k', i) :: r => if eqb k k' then (k', g i v) :: r else (k', i) :: upsert k v r
  end.
Definition step (acc : list (K * I)) (kv : K * V) := upsert (fst kv) (snd kv) acc.
Definition build (l : list (K * V)) := fold_left step l [].

(* the same, but searching from the back (Chain::add_atom iterates .rev()) *)
Fixpoint upsert_last_go (k : K) (v : V) (rl : list (K * I)) : option (list (K * I)) :=
  (* rl is the reversed list; returns the reversed updated list when found *)
  match rl with
  | [] => None
  | (k', i) :: r => if eqb k k' then Some ((k', g i v) :: r)
                    else option_map (cons (k', i)) (upsert_last_go k v r)
  end.
Definition upsert_last (k : K) (v : V) (l : list (K * I)) : list (K * I) :=
  match upsert_last_go k v (rev l) with
  | Some rl => rev rl
  | None => l ++ [(k, g init v)]
  end.

(* specification: first-appearance partition *)
Definition vals (k : K) (l : list (K * V)) : list V := map snd (filter (fun kv => eqb k (fst kv)) l).
Fixpoint keys (l : list (K * V)) (seen : list K) : list K :=
  match l with
  | [] => []
  | (k, _) :: r => if existsb (eqb k) seen then keys r seen else k :: keys r (k :: seen)
  end.
Definition group (l : list (K * V)) : list (K * I) :=
  map (fun k => (k, fold_left g (vals k l) init)) (keys l []).

Lemma eqb_refl k : eqb k k = true. Proof. destruct (eqb_spec k k); congruence. Qed.
Lemma eqb_sym a b : eqb a b = eqb b a.
Proof. destruct (eqb_spec a b), (eqb_spec b a); congruence. Qed.
Lemma existsb_In k l : existsb (eqb k) l = true <-> In k l.
Proof. rewrite existsb_exists. split; [intros [x [H E]]; destruct (eqb_spec k x); [subst; auto|discriminate]
                                       | intros H; exists k; split; [auto|apply eqb_refl]]. Qed.
Lemma existsb_nIn k l : existsb (eqb k) l = false <-> ~ In k l.
Proof. rewrite <- existsb_In. destruct (existsb (eqb k) l); split; congruence. Qed.

Definition keyset (acc : list (K * I)) := map fst acc.

Lemma upsert_keys_in k v acc : existsb (eqb k) (keyset acc) = true -> keyset (upsert k v acc) = keyset acc.
Proof.
  induction acc as [|[k' i] r IH]; simpl; [discriminate|].
  destruct (eqb k k') eqn:E; simpl; auto. intros H. f_equal. apply IH, H.
Qed.
Lemma upsert_keys_new k v acc : existsb (eqb k) (keyset acc) = false -> keyset (upsert k v acc) = keyset acc ++ [k].
Proof.
  induction acc as [|[k' i] r IH]; simpl; auto.
  destruct (eqb k k') eqn:E; simpl; [discriminate|]. intros H. f_equal. apply IH, H.
Qed.
Fixpoint look (k : K) (acc : list (K * I)) : option I :=
  match acc with [] => None | (k', i) :: r => if eqb k k' then Some i else look k r end.
Lemma look_upsert_same k v acc : look k (upsert k v acc) = Some (g (match look k acc with Some i => i | None => init end) v).
Proof.
  induction acc as [|[k' i] r IH]; simpl; [rewrite eqb_refl; auto|].
  destruct (eqb k k') eqn:E; simpl; rewrite E; auto.
Qed.
Lemma look_upsert_other k k2 v acc : eqb k2 k = false -> look k2 (upsert k v acc) = look k2 acc.
Proof.
  intros N. induction acc as [|[k' i] r IH]; simpl; [rewrite N; auto|].
  destruct (eqb k k') eqn:E; simpl; destruct (eqb k2 k') eqn:E2; auto.
  destruct (eqb_spec k k'), (eqb_spec k2 k'); try discriminate. subst. rewrite eqb_refl in N. discriminate.
Qed.

Lemma existsb_app' (f : K -> bool) a b : existsb f (a ++ b) = existsb f a || existsb f b.
Proof. induction a; simpl; auto. rewrite IHa. now rewrite orb_assoc. Qed.
Lemma existsb_rev' (f : K -> bool) l : existsb f (rev l) = existsb f l.
Proof. induction l; simpl; auto. rewrite existsb_app', IHl. simpl. rewrite orb_false_r. apply orb_comm. Qed.
Lemma keys_app_seen l : forall seen,
  fold_left (fun ks kv => if existsb (eqb (fst kv)) ks then ks else ks ++ [fst kv]) l seen
  = seen ++ keys l (rev seen).
Proof.
  induction l as [|[k v] r IH]; intros seen; simpl; [now rewrite app_nil_r|].
  assert (Hex : existsb (eqb k) (rev seen) = existsb (eqb k) seen) by apply existsb_rev'.
  rewrite Hex. destruct (existsb (eqb k) seen) eqn:E.
  - apply IH.
  - rewrite IH. rewrite rev_app_distr. simpl. rewrite <- app_assoc. reflexivity.
Qed.
Lemma build_keys_gen l : forall acc, keyset (fold_left step l acc)
   = fold_left (fun ks kv => if existsb (eqb (fst kv)) ks then ks else ks ++ [fst kv]) l (keyset acc).
Proof.
  induction l as [|[k v] r IH]; intros acc; simpl; auto.
  rewrite IH. unfold step; simpl.
  destruct (existsb (eqb k) (keyset acc)) eqn:E.
  - now rewrite upsert_keys_in.
  - now rewrite upsert_keys_new.
Qed.
Theorem build_keys l : keyset (build l) = keys l [].
Proof. unfold build. rewrite build_keys_gen, keys_app_seen. reflexivity. Qed.

Lemma build_look_gen l : forall acc k,
  look k (fold_left step l acc) =
  match vals k l, look k acc with
  | [], o => o
  | vs, o => Some (fold_left g vs (match o with Some i => i | None => init end))
  end.
Proof.
  induction l as [|[k' v] r IH]; intros acc k; simpl.
  - unfold vals; simpl. reflexivity.
  - rewrite IH. unfold step; simpl. unfold vals; simpl.
    destruct (eqb k k') eqn:E.
    + destruct (eqb_spec k k'); [subst k'|discriminate]. rewrite look_upsert_same. simpl.
      destruct (map snd (filter (fun kv => eqb k (fst kv)) r)); reflexivity.
    + rewrite look_upsert_other by exact E. reflexivity.
Qed.
Theorem build_look l k : look k (build l) = match vals k l with [] => None | vs => Some (fold_left g vs init) end.
Proof. unfold build. rewrite build_look_gen. simpl. destruct (vals k l); reflexivity. Qed.

(* keys are duplicate free and avoid `seen` *)
Lemma keys_notin l : forall seen k, In k (keys l seen) -> ~ In k seen.
Proof.
  induction l as [|[k' v] r IH]; intros seen k; simpl; [tauto|].
  destruct (existsb (eqb k') seen) eqn:E.
  - apply IH.
  - intros [<-|H]; [now apply existsb_nIn|]. apply IH in H. intros N. apply H. now right.
Qed.
Lemma keys_nodup l : forall seen, NoDup (keys l seen).
Proof.
  induction l as [|[k v] r IH]; intros seen; simpl; [constructor|].
  destruct (existsb (eqb k) seen); [apply IH|]. constructor; [|apply IH].
  intros H. apply keys_notin in H. apply H. now left.
Qed.
Lemma keys_vals_nonempty l : forall seen k, In k (keys l seen) -> vals k l <> [].
Proof.
  induction l as [|[k' v] r IH]; intros seen k; simpl; [tauto|]. unfold vals; simpl.
  destruct (eqb k k') eqn:E; [simpl; discriminate|].
  destruct (existsb (eqb k') seen).
  - apply IH.
  - intros [<-|H]; [rewrite eqb_refl in E; discriminate|]. eapply IH, H.
Qed.

(* association lists with duplicate-free keys are determined by their key list and their look-ups *)
Lemma look_notin k a : ~ In k (keyset a) -> look k a = None.
Proof.
  induction a as [|[k' i] r IH]; simpl; auto. intros H.
  destruct (eqb_spec k k'); [subst; exfalso; apply H; now left|]. apply IH. tauto.
Qed.
Lemma assoc_ext a : forall b, keyset a = keyset b -> NoDup (keyset a) ->
  (forall k, look k a = look k b) -> a = b.
Proof.
  induction a as [|[k i] a IH]; intros [|[k' j] b]; simpl; try discriminate; auto.
  intros HK ND HL. injection HK as <- HK. inversion ND as [|? ? Hn ND']; subst.
  pose proof (HL k) as H0. simpl in H0. rewrite eqb_refl in H0. injection H0 as <-.
  f_equal. apply IH; auto. intros k2. specialize (HL k2). simpl in HL.
  destruct (eqb_spec k2 k); [subst|exact HL].
  rewrite !look_notin; auto. now rewrite <- HK.
Qed.
Lemma look_map_keys (F : K -> I) ks k : look k (map (fun k => (k, F k)) ks) = if existsb (eqb k) ks then Some (F k) else None.
Proof.
  induction ks as [|k' r IH]; simpl; auto.
  destruct (eqb_spec k k'); [subst; reflexivity|]. simpl. exact IH.
Qed.

Theorem build_eq_group l : build l = group l.
Proof.
  apply assoc_ext.
  - rewrite build_keys. unfold group, keyset. rewrite map_map. simpl. now rewrite map_id.
  - rewrite build_keys. apply keys_nodup.
  - intros k. rewrite build_look. unfold group. rewrite look_map_keys.
    destruct (existsb (eqb k) (keys l [])) eqn:E.
    + apply existsb_In in E. apply keys_vals_nonempty in E. destruct (vals k l); [congruence|reflexivity].
    + destruct (vals k l) eqn:Vk; [reflexivity|]. exfalso.
      apply existsb_nIn in E. apply E. rewrite <- build_keys.
      assert (L : look k (build l) <> None) by (rewrite build_look, Vk; discriminate).
      destruct (in_dec (fun a b => match eqb_spec a b with ReflectT _ p => left p | ReflectF _ p => right p end)
                       k (keyset (build l))) as [H|H]; [exact H|].
      apply look_notin in H. congruence.
Qed.

(* corollaries used by the property statement *)
Theorem build_nodup l : NoDup (keyset (build l)).
Proof. rewrite build_keys. apply keys_nodup. Qed.

(* searching from the back finds the same entry when keys are duplicate free *)
Lemma upsert_last_go_none k v rl : ~ In k (map fst rl) -> upsert_last_go k v rl = None.
Proof.
  induction rl as [|[k' i] r IH]; simpl; auto. intros H.
  destruct (eqb_spec k k'); [subst; exfalso; apply H; now left|]. rewrite IH; auto.
Qed.
Lemma upsert_app_notin k v a b : ~ In k (keyset a) -> upsert k v (a ++ b) = a ++ upsert k v b.
Proof.
  induction a as [|[k' i] r IH]; simpl; auto. intros H.
  destruct (eqb_spec k k'); [subst; exfalso; apply H; now left|]. f_equal. apply IH. tauto.
Qed.
Lemma upsert_last_eq k v l : NoDup (keyset l) -> upsert_last k v l = upsert k v l.
Proof.
  unfold upsert_last. induction l as [|[k' i] r IH] using rev_ind; intros ND; simpl; auto.
  rewrite rev_app_distr. simpl.
  unfold keyset in ND. rewrite map_app in ND. simpl in ND.
  destruct (eqb_spec k k') as [->|Hne].
  - simpl. rewrite rev_involutive.
    assert (Hn : ~ In k' (keyset r)).
    { apply NoDup_remove_2 in ND. rewrite app_nil_r in ND. exact ND. }
    rewrite upsert_app_notin by exact Hn. simpl. now rewrite eqb_refl.
  - assert (ND' : NoDup (keyset r)).
    { apply NoDup_remove_1 in ND. now rewrite app_nil_r in ND. }
    specialize (IH ND').
    destruct (upsert_last_go k v (rev r)) eqn:G; simpl.
    + assert (Hin : In k (keyset r)).
      { destruct (in_dec (fun a b => match eqb_spec a b with ReflectT _ p => left p | ReflectF _ p => right p end) k (keyset r)) as [H|H]; auto.
        exfalso. rewrite upsert_last_go_none in G; [discriminate|]. rewrite map_rev. intros X; apply H. now apply in_rev. }
      rewrite IH. clear - Hin eqb_spec.
      (* k occurs in r, so upsert never reaches the appended entry *)
      induction r as [|[k2 i2] r IH]; simpl in *; [tauto|].
      destruct (eqb_spec k k2); [reflexivity|]. simpl. f_equal. apply IH. destruct Hin; [congruence|auto].
    + rewrite <- app_assoc. simpl.
      assert (Hn : ~ In k (keyset r)).
      { intros X. clear IH. revert G. rewrite <- (rev_involutive r) in X. unfold keyset in X. rewrite map_rev in X. apply in_rev in X.
        induction (rev r) as [|[k2 i2] q IHq]; simpl in *; [tauto|].
        destruct (eqb_spec k k2); [discriminate|]. destruct X; [congruence|].
        destruct (upsert_last_go k v q); [discriminate|]. intros _. now apply IHq. }
      rewrite upsert_app_notin by exact Hn. simpl.
      destruct (eqb_spec k k'); [congruence|reflexivity].
Qed.
End G.

Section G2.
Variables (K V I : Type) (eqb : K -> K -> bool).
Hypothesis eqb_spec : forall a b, reflect (a = b) (eqb a b).
Variable init : I.
Variable g : I -> V -> I.
Notation upsert := (upsert K V I eqb init g).
Notation upsert_last := (upsert_last K V I eqb init g).
Notation keyset := (keyset K I).

Lemma upsert_nodup k v acc : NoDup (keyset acc) -> NoDup (keyset (upsert k v acc)).
Proof.
  intros ND. destruct (existsb (eqb k) (keyset acc)) eqn:E.
  - now rewrite upsert_keys_in by exact E.
  - rewrite upsert_keys_new by exact E.
    apply (NoDup_Add (a := k) (l := keyset acc)).
    + rewrite <- (app_nil_r (keyset acc)) at 1. apply Add_app.
    + split; [exact ND|]. now apply (existsb_nIn K eqb eqb_spec).
Qed.

Definition step_last (acc : list (K * I)) (kv : K * V) := upsert_last (fst kv) (snd kv) acc.
Lemma fold_step_last_eq l : forall acc, NoDup (keyset acc) ->
  fold_left step_last l acc = fold_left (step K V I eqb init g) l acc.
Proof.
  induction l as [|[k v] r IH]; intros acc ND; simpl; auto.
  unfold step_last at 2, step at 2. simpl.
  rewrite (upsert_last_eq K V I eqb eqb_spec init g) by exact ND.
  apply IH. now apply upsert_nodup.
Qed.
End G2.
