(* Byte-level text operations used by the identifier code of pdbtbx (ASCII fragment of str::trim,
   to_ascii_uppercase, check_char). *)
From Coq Require Import List Ascii ZArith Bool Lia.
From PV Require Import Base.Sx.
Import ListNotations.

Definition text_eqb (a b : text) : bool := if list_eq_dec ascii_dec a b then true else false.
Lemma text_eqb_spec a b : reflect (a = b) (text_eqb a b).
Proof. unfold text_eqb; destruct (list_eq_dec ascii_dec a b); constructor; assumption. Qed.
Lemma text_eqb_refl a : text_eqb a a = true.
Proof. destruct (text_eqb_spec a a); congruence. Qed.

(* ASCII white space as str::trim sees it: U+0009..U+000D and U+0020 *)
Definition is_ws (c : ascii) : bool :=
  let n := code c in (N.eqb n 32 || (N.leb 9 n && N.leb n 13))%bool.
Fixpoint trim_l (s : text) : text :=
  match s with c :: r => if is_ws c then trim_l r else s | [] => [] end.
Definition trim_r (s : text) : text := rev (trim_l (rev s)).
Definition trim (s : text) : text := trim_r (trim_l s).

Definition upper_char (c : ascii) : ascii :=
  let n := code c in if (N.leb 97 n && N.leb n 122)%bool then ascii_of_N (n - 32) else c.
Definition upper (s : text) : text := map upper_char s.

(* helper.rs check_char: 31 < c < 127 *)
Definition check_char (c : ascii) : bool := let n := code c in (N.ltb 31 n && N.ltb n 127)%bool.
Definition valid_text (s : text) : bool := forallb check_char s.
Definition is_nil {A} (l : list A) : bool := match l with [] => true | _ => false end.

(* helper.rs prepare_identifier / prepare_identifier_uppercase *)
Definition prepare_identifier (s : text) : option text :=
  if (valid_text s && negb (is_nil (trim s)))%bool then Some (trim s) else None.
Definition prepare_identifier_uppercase (s : text) : option text :=
  option_map upper (prepare_identifier s).

(* ---------- lemmas ---------- *)
Lemma trim_l_length s : length (trim_l s) <= length s.
Proof. induction s as [|c r IH]; simpl; [lia|]. destruct (is_ws c); simpl; lia. Qed.
Lemma trim_l_idem s : trim_l (trim_l s) = trim_l s.
Proof. induction s as [|c r IH]; simpl; auto. destruct (is_ws c) eqn:E; auto. simpl. now rewrite E. Qed.
Lemma trim_l_head s c r : trim_l s = c :: r -> is_ws c = false.
Proof. induction s as [|d t IH]; simpl; [discriminate|]. destruct (is_ws d) eqn:E; auto. intros H; injection H as <- <-. exact E. Qed.
Lemma trim_l_fix s : (match s with [] => true | c :: _ => negb (is_ws c) end) = true -> trim_l s = s.
Proof. destruct s as [|c r]; simpl; auto. destruct (is_ws c); simpl; [discriminate|reflexivity]. Qed.

Lemma trim_l_app_nonws s t : trim_l s <> [] -> trim_l (s ++ t) = trim_l s ++ t.
Proof. induction s as [|c r IH]; simpl; [congruence|]. destruct (is_ws c); auto. Qed.
Lemma trim_l_all_ws s : trim_l s = [] -> forallb is_ws s = true.
Proof. induction s as [|c r IH]; simpl; auto. destruct (is_ws c); [auto|discriminate]. Qed.
Lemma trim_l_ws_app s t : forallb is_ws s = true -> trim_l (s ++ t) = trim_l t.
Proof. induction s as [|c r IH]; simpl; auto. destruct (is_ws c); [auto|discriminate]. Qed.
Lemma forallb_rev {A} (f : A -> bool) l : forallb f (rev l) = forallb f l.
Proof. induction l as [|a l IH]; simpl; auto. rewrite forallb_app, IH. simpl. rewrite andb_true_r. apply andb_comm. Qed.

(* the left trim of a right-trimmed text is right-trimmed: trimming order does not matter *)
Lemma trim_r_trim_l_comm s : trim_r (trim_l s) = trim_l (trim_r s).
Proof.
  induction s as [|c r IH]; [reflexivity|].
  simpl trim_l at 1. destruct (is_ws c) eqn:E.
  - rewrite IH. unfold trim_r at 2. simpl rev.
    destruct (trim_l (rev r)) eqn:T.
    + assert (Hws : forallb is_ws (rev r) = true) by (apply trim_l_all_ws, T).
      rewrite trim_l_ws_app by exact Hws. simpl. rewrite E. simpl.
      unfold trim_r. rewrite T. reflexivity.
    + rewrite trim_l_app_nonws by (rewrite T; discriminate). rewrite T.
      rewrite rev_app_distr. simpl. rewrite E. unfold trim_r. rewrite T. reflexivity.
  - unfold trim_r. simpl rev.
    destruct (trim_l (rev r)) eqn:T.
    + assert (Hws : forallb is_ws (rev r) = true) by (apply trim_l_all_ws, T).
      rewrite trim_l_ws_app by exact Hws. simpl. rewrite E. simpl. rewrite E. reflexivity.
    + rewrite trim_l_app_nonws by (rewrite T; discriminate). rewrite T.
      rewrite rev_app_distr. simpl. rewrite E. reflexivity.
Qed.

Lemma trim_r_idem s : trim_r (trim_r s) = trim_r s.
Proof. unfold trim_r. rewrite rev_involutive, trim_l_idem. reflexivity. Qed.
Lemma trim_idem s : trim (trim s) = trim s.
Proof.
  unfold trim. rewrite <- (trim_r_trim_l_comm (trim_l s)).
  now rewrite trim_l_idem, trim_r_idem.
Qed.

Lemma upper_char_idem c : upper_char (upper_char c) = upper_char c.
Proof.
  unfold upper_char. destruct (N.leb 97 (code c) && N.leb (code c) 122)%bool eqn:E; [|now rewrite E].
  unfold code in *. apply andb_prop in E as [E1 E2]. apply N.leb_le in E1, E2.
  assert (Hlt : (N_of_ascii c - 32 < 256)%N) by lia.
  rewrite N_ascii_embedding by exact Hlt.
  replace (N.leb 97 (N_of_ascii c - 32)) with false by (symmetry; apply N.leb_gt; lia). reflexivity.
Qed.
Lemma upper_idem s : upper (upper s) = upper s.
Proof. unfold upper. rewrite map_map. apply map_ext, upper_char_idem. Qed.

Lemma is_ws_upper c : is_ws (upper_char c) = is_ws c.
Proof.
  unfold upper_char. destruct (N.leb 97 (code c) && N.leb (code c) 122)%bool eqn:E; [|reflexivity].
  unfold is_ws, code in *. apply andb_prop in E as [E1 E2]. apply N.leb_le in E1, E2.
  rewrite N_ascii_embedding by lia.
  replace (N.eqb (N_of_ascii c - 32) 32) with false by (symmetry; apply N.eqb_neq; lia).
  replace (N.leb (N_of_ascii c - 32) 13) with false by (symmetry; apply N.leb_gt; lia).
  replace (N.eqb (N_of_ascii c) 32) with false by (symmetry; apply N.eqb_neq; lia).
  replace (N.leb (N_of_ascii c) 13) with false by (symmetry; apply N.leb_gt; lia).
  now rewrite !andb_false_r.
Qed.
Lemma trim_l_upper s : trim_l (upper s) = upper (trim_l s).
Proof. induction s as [|c r IH]; simpl; auto. rewrite is_ws_upper. destruct (is_ws c); auto. Qed.
Lemma rev_upper s : rev (upper s) = upper (rev s).
Proof. unfold upper. symmetry. apply map_rev. Qed.
Lemma trim_r_upper s : trim_r (upper s) = upper (trim_r s).
Proof. unfold trim_r. now rewrite rev_upper, trim_l_upper, rev_upper. Qed.
Lemma trim_upper s : trim (upper s) = upper (trim s).
Proof. unfold trim. now rewrite trim_l_upper, trim_r_upper. Qed.

Lemma check_char_upper c : check_char (upper_char c) = check_char c.
Proof.
  unfold upper_char. destruct (N.leb 97 (code c) && N.leb (code c) 122)%bool eqn:E; [|reflexivity].
  unfold check_char, code in *. apply andb_prop in E as [E1 E2]. apply N.leb_le in E1, E2.
  rewrite N_ascii_embedding by lia.
  replace (N.ltb 31 (N_of_ascii c - 32)) with true by (symmetry; apply N.ltb_lt; lia).
  replace (N.ltb (N_of_ascii c - 32) 127) with true by (symmetry; apply N.ltb_lt; lia).
  replace (N.ltb 31 (N_of_ascii c)) with true by (symmetry; apply N.ltb_lt; lia).
  replace (N.ltb (N_of_ascii c) 127) with true by (symmetry; apply N.ltb_lt; lia).
  reflexivity.
Qed.
Lemma valid_text_upper s : valid_text (upper s) = valid_text s.
Proof. unfold valid_text, upper. induction s as [|c r IH]; simpl; auto. now rewrite check_char_upper, IH. Qed.

Lemma valid_trim_l s : valid_text s = true -> valid_text (trim_l s) = true.
Proof. induction s as [|c r IH]; simpl; auto. intros H. destruct (is_ws c); [apply IH|exact H].
  apply andb_prop in H as [_ H]; exact H. Qed.
Lemma valid_rev s : valid_text (rev s) = valid_text s.
Proof. apply forallb_rev. Qed.
Lemma valid_trim s : valid_text s = true -> valid_text (trim s) = true.
Proof. intros H. unfold trim, trim_r. rewrite valid_rev. apply valid_trim_l. rewrite valid_rev. now apply valid_trim_l. Qed.

(* normal forms are fixed points of the normalisation: a stored identifier compares equal to itself re-normalised *)
Lemma prepare_identifier_idem s t : prepare_identifier s = Some t -> prepare_identifier t = Some t.
Proof.
  unfold prepare_identifier. destruct (valid_text s && negb (is_nil (trim s)))%bool eqn:E; [|discriminate].
  intros H; injection H as <-. apply andb_prop in E as [V N].
  rewrite trim_idem, (valid_trim s V), N. reflexivity.
Qed.
Lemma is_nil_upper s : is_nil (upper s) = is_nil s. Proof. destruct s; reflexivity. Qed.
Lemma prepare_identifier_uppercase_idem s t :
  prepare_identifier_uppercase s = Some t -> prepare_identifier_uppercase t = Some t.
Proof.
  unfold prepare_identifier_uppercase, prepare_identifier.
  destruct (valid_text s && negb (is_nil (trim s)))%bool eqn:E; [|discriminate].
  simpl. intros H; injection H as <-. apply andb_prop in E as [V N].
  rewrite valid_text_upper, trim_upper, trim_idem, (valid_trim s V), is_nil_upper, N. simpl.
  now rewrite upper_idem.
Qed.
