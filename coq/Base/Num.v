(* Exact comparisons on binary64 values given as m * 2^e. *)
From Coq Require Import ZArith Bool.
From PV Require Import Spec.Hier.
Local Open Scope Z_scope.

Definition fin_parts (f : fval) : option (Z * Z) :=
  match f with FFin m e => Some (m, e) | FNegZero => Some (0, 0) | _ => None end.
(* both mantissas scaled to the smaller exponent *)
Definition align (a b : Z * Z) : Z * Z * Z :=
  let e := Z.min (snd a) (snd b) in (fst a * 2 ^ (snd a - e), fst b * 2 ^ (snd b - e), e).
Definition fcompare (a b : fval) : option comparison :=
  match fin_parts a, fin_parts b with
  | Some x, Some y => let '(p, q, _) := align x y in Some (Z.compare p q)
  | _, _ => None
  end.
Definition fle (a b : fval) : bool := match fcompare a b with Some Gt | None => false | _ => true end.
Definition fge (a b : fval) : bool := fle b a.
(* |a - b| < 2^-52 (f64::EPSILON), on the exact values *)
Definition fclose (a b : fval) : bool :=
  match fin_parts a, fin_parts b with
  | Some x, Some y =>
      let '(p, q, e) := align x y in
      let d := Z.abs (p - q) in
      if -52 <=? e then Z.eqb d 0 else Z.ltb d (2 ^ (-52 - e))
  | _, _ => false
  end.
