(* Search expressions, constant folding, staged partial evaluation, and strong Kleene evaluation.
   Generic in the type of terms. *)
From Coq Require Import List Bool.
Import ListNotations.

Section S.
Variable term : Type.
Inductive ops := And | Or | Xor.
Inductive search := Ops (o : ops) (a b : search) | Not (a : search) | Single (t : term) | Known (b : bool).

(* Search::simplify *)
Definition simp_node (o : ops) (a b : search) : search :=
  match o, a, b with
  | And, Known false, _ => Known false
  | And, _, Known false => Known false
  | And, Known x, Known y => Known (x && y)
  | Or, Known true, _ => Known true
  | Or, _, Known true => Known true
  | Or, Known x, Known y => Known (x || y)
  | Xor, Known x, Known y => Known (xorb x y)
  | o, a, b => Ops o a b
  end.
Fixpoint simplify (s : search) : search :=
  match s with
  | Ops o a b => simp_node o (simplify a) (simplify b)
  | Not a => match simplify a with Known x => Known (negb x) | a' => Not a' end
  | _ => s
  end.
(* Search::add_<level>_info with the level's partial valuation m *)
Definition valuation := term -> option bool.
Fixpoint add_info (m : valuation) (s : search) : search :=
  simplify (match s with
  | Ops o a b => Ops o (add_info m a) (add_info m b)
  | Not a => Not (add_info m a)
  | Single t => match m t with Some b => Known b | None => Single t end
  | Known b => Known b
  end).
Definition complete s := match s with Known b => Some b | _ => None end.

(* strong Kleene three-valued logic *)
Definition k_and a b := match a, b with Some false, _ | _, Some false => Some false | Some true, Some true => Some true | _, _ => None end.
Definition k_or a b := match a, b with Some true, _ | _, Some true => Some true | Some false, Some false => Some false | _, _ => None end.
Definition k_xor a b := match a, b with Some x, Some y => Some (xorb x y) | _, _ => None end.
Definition k_not (a : option bool) := option_map negb a.
Fixpoint eval3 (v : valuation) (s : search) : option bool :=
  match s with
  | Ops And a b => k_and (eval3 v a) (eval3 v b)
  | Ops Or a b => k_or (eval3 v a) (eval3 v b)
  | Ops Xor a b => k_xor (eval3 v a) (eval3 v b)
  | Not a => k_not (eval3 v a)
  | Single t => v t
  | Known b => Some b
  end.
Definition unk : valuation := fun _ => None.

Lemma simp_node_ok o a b :
  complete a = eval3 unk a -> complete b = eval3 unk b ->
  complete (simp_node o a b) = eval3 unk (simp_node o a b) /\
  eval3 unk (simp_node o a b) = eval3 unk (Ops o a b).
Proof.
  intros Ha Hb. destruct o, a as [? ? ?|?|?|[]], b as [? ? ?|?|?|[]]; simpl in *;
  repeat match goal with H : None = ?x |- _ => rewrite <- H in * end; simpl; auto.
Qed.
Lemma simplify_ok s : complete (simplify s) = eval3 unk (simplify s) /\ eval3 unk (simplify s) = eval3 unk s.
Proof.
  induction s as [o a [IHa1 IHa2] b [IHb1 IHb2]|a [IH1 IH2]|t|b]; simpl; auto.
  - destruct (simp_node_ok o _ _ IHa1 IHb1) as [H1 H2]. split; auto. rewrite H2.
    destruct o; simpl; rewrite IHa2, IHb2; reflexivity.
  - destruct (simplify a) as [? ? ?|?|?|x] eqn:E; simpl in *; rewrite <- ?IH2; simpl;
    try rewrite <- IH1; auto.
Qed.

Definition orelse (m1 m2 : valuation) : valuation := fun t => match m1 t with Some b => Some b | None => m2 t end.

Lemma k_and_f x : k_and x (Some false) = Some false. Proof. destruct x as [[]|]; reflexivity. Qed.
Lemma k_or_t x : k_or x (Some true) = Some true. Proof. destruct x as [[]|]; reflexivity. Qed.
Lemma eval_simp_node v o a b : eval3 v (simp_node o a b) = eval3 v (Ops o a b).
Proof.
  destruct o, a as [? ? ?|?|?|[]], b as [? ? ?|?|?|[]]; simpl; auto;
  rewrite ?k_and_f, ?k_or_t; auto;
  repeat match goal with |- context [match ?x with _ => _ end] => destruct x end; auto.
Qed.
Lemma eval_simplify v s : eval3 v (simplify s) = eval3 v s.
Proof.
  induction s as [o a IHa b IHb|a IH|t|b]; simpl simplify; auto.
  - rewrite eval_simp_node. destruct o; simpl; rewrite IHa, IHb; reflexivity.
  - simpl. rewrite <- IH. destruct (simplify a); simpl; auto.
Qed.
Definition add_body (m : valuation) (s : search) : search :=
  match s with
  | Ops o a b => Ops o (add_info m a) (add_info m b)
  | Not a => Not (add_info m a)
  | Single t => match m t with Some b => Known b | None => Single t end
  | Known b => Known b
  end.
Lemma add_info_unfold m s : add_info m s = simplify (add_body m s).
Proof. destruct s; reflexivity. Qed.
Lemma add_info_eval v m s : eval3 v (add_info m s) = eval3 (orelse m v) s.
Proof.
  induction s as [o a IHa b IHb|a IH|t|b]; rewrite add_info_unfold, eval_simplify; simpl.
  - destruct o; rewrite IHa, IHb; reflexivity.
  - rewrite IH; reflexivity.
  - unfold orelse; destruct (m t); auto.
  - reflexivity.
Qed.
Lemma add_info_normal m s : complete (add_info m s) = eval3 unk (add_info m s).
Proof. rewrite add_info_unfold. apply simplify_ok. Qed.

Fixpoint staged (ms : list valuation) (s : search) : search :=
  match ms with [] => s | m :: ms' => staged ms' (add_info m s) end.
Fixpoint first_some (ms : list valuation) : valuation :=
  match ms with [] => unk | m :: ms' => orelse m (first_some ms') end.

(* the outcome of stage-by-stage substitution and folding is the Kleene value of the original expression
   under "the first stage that decides each term" *)
Theorem staged_kleene m ms s : complete (staged (m :: ms) s) = eval3 (first_some (m :: ms)) s.
Proof.
  revert m s. induction ms as [|m' ms IH]; intros m s.
  - simpl staged. rewrite add_info_normal, add_info_eval. reflexivity.
  - change (staged (m :: m' :: ms) s) with (staged (m' :: ms) (add_info m s)).
    rewrite IH. change (first_some (m' :: ms)) with (orelse m' (first_some ms)).
    rewrite add_info_eval. reflexivity.
Qed.
Lemma prune_stable m : add_info m (Known false) = Known false. Proof. reflexivity. Qed.
Lemma staged_known_false ms : staged ms (Known false) = Known false.
Proof. induction ms as [|m ms IH]; simpl; auto. Qed.
Lemma staged_app ms1 ms2 s : staged (ms1 ++ ms2) s = staged ms2 (staged ms1 s).
Proof. revert s. induction ms1 as [|m ms IH]; intros s; simpl; auto. Qed.

(* selection rule at the leaves: an unknown overall result selects the atom *)
Definition sel (q : search) : bool := match complete q with Some b => b | None => true end.
Definition pruned (q : search) : bool := match q with Known false => true | _ => false end.
Definition holds (vs : list valuation) (q : search) : bool :=
  match eval3 (first_some vs) q with Some false => false | _ => true end.

Lemma sel_staged vs v q : sel (staged (vs ++ [v]) q) = holds (vs ++ [v]) q.
Proof.
  unfold sel, holds. destruct (vs ++ [v]) as [|m ms] eqn:E; [destruct vs; discriminate|].
  rewrite staged_kleene. destruct (eval3 _ q) as [[]|]; reflexivity.
Qed.
Lemma pruned_holds vs v rest q : rest <> [] -> pruned (staged (vs ++ [v]) q) = true -> holds (vs ++ v :: rest) q = false.
Proof.
  intros Hr Hp. unfold holds.
  assert (E : staged (vs ++ v :: rest) q = Known false).
  { change (v :: rest) with ([v] ++ rest). rewrite app_assoc, staged_app.
    destruct (staged (vs ++ [v]) q) as [| | |[]]; try discriminate. apply staged_known_false. }
  destruct (vs ++ v :: rest) as [|m ms] eqn:E2; [destruct vs; discriminate|].
  rewrite <- staged_kleene, E. reflexivity.
Qed.

(* ----- one level of the pruned descent, generically ----- *)
Section Level.
Variables (P C T : Type).
Variable children : P -> list C.
Variable v : C -> valuation.
Variable find_child : C -> search -> list T.
Variable awh_child : C -> list T.              (* all tuples below a child, in traversal order *)
Variable vals_child : T -> list valuation.     (* the stages a tuple contributes below this level *)
Hypothesis vals_nonempty : forall t, vals_child t <> [].
Hypothesis child_ok : forall ms q c,
  find_child c (staged ms q) = filter (fun t => holds (ms ++ vals_child t) q) (awh_child c).

Definition find_parent (p : P) (q : search) : list (T * C) :=
  flat_map (fun c => let q' := add_info (v c) q in
                     if pruned q' then [] else map (fun t => (t, c)) (find_child c q')) (children p).
Definition awh_parent (p : P) : list (T * C) :=
  flat_map (fun c => map (fun t => (t, c)) (awh_child c)) (children p).

Lemma filter_flat_map {X Y} (p : Y -> bool) (f : X -> list Y) l :
  filter p (flat_map f l) = flat_map (fun x => filter p (f x)) l.
Proof. induction l as [|x r IH]; simpl; auto. now rewrite filter_app, IH. Qed.
Lemma filter_map_comm {X Y} (p : Y -> bool) (f : X -> Y) l : filter p (map f l) = map f (filter (fun x => p (f x)) l).
Proof. induction l as [|x r IH]; simpl; auto. destruct (p (f x)); simpl; now rewrite IH. Qed.

Theorem parent_ok : forall ms q p,
  find_parent p (staged ms q) =
  filter (fun tc => holds (ms ++ v (snd tc) :: vals_child (fst tc)) q) (awh_parent p).
Proof.
  intros ms q p. unfold find_parent, awh_parent. rewrite filter_flat_map.
  apply flat_map_ext. intros c.
  change (add_info (v c) (staged ms q)) with (staged [v c] (staged ms q)). rewrite <- staged_app.
  rewrite filter_map_comm. simpl.
  destruct (pruned (staged (ms ++ [v c]) q)) eqn:Pr.
  - (* whole subtree dropped: every tuple below would have been rejected *)
    symmetry. replace (filter _ (awh_child c)) with (@nil T); [reflexivity|].
    symmetry. induction (awh_child c) as [|t r IH]; simpl; auto.
    rewrite (pruned_holds ms (v c) (vals_child t) q (vals_nonempty t) Pr). exact IH.
  - rewrite child_ok. f_equal. apply filter_ext. intros t. now rewrite <- app_assoc.
Qed.
End Level.
End S.
