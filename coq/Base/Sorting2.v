(* A stable sort and what characterises it: sorted, a permutation, equal keys keep their order. *)
From Coq Require Import List Bool Arith Lia Permutation Sorted ZArith NArith Ascii.
Import ListNotations.

(* ---------- well-behaved three-way comparisons ---------- *)
Record good_cmp {A} (cmp : A -> A -> comparison) : Prop := {
  gc_opp : forall a b, cmp b a = CompOpp (cmp a b);
  gc_eq : forall a b c, cmp a b = Eq -> cmp a c = cmp b c;
  gc_lt : forall a b c, cmp a b = Lt -> cmp b c = Lt -> cmp a c = Lt }.

Definition lex (c1 c2 : comparison) : comparison := match c1 with Eq => c2 | c => c end.

Lemma good_Z : good_cmp Z.compare.
Proof. split; intros.
  - apply Z.compare_antisym.
  - apply Z.compare_eq in H. now subst.
  - rewrite Z.compare_lt_iff in *. lia. Qed.
Lemma good_N : good_cmp N.compare.
Proof. split; intros.
  - apply N.compare_antisym.
  - apply N.compare_eq in H. now subst.
  - rewrite N.compare_lt_iff in *. lia. Qed.

Lemma good_refl {A} (cmp : A -> A -> comparison) : good_cmp cmp -> forall a, cmp a a = Eq.
Proof. intros G a. pose proof (gc_opp cmp G a a) as H. destruct (cmp a a); simpl in H; congruence. Qed.

(* comparison through a projection *)
Lemma good_proj {A B} (f : A -> B) cmp : good_cmp cmp -> good_cmp (fun a b => cmp (f a) (f b)).
Proof. intros G; split; intros; [apply (gc_opp _ G)|now apply (gc_eq _ G)|eapply (gc_lt _ G); eauto]. Qed.

(* lexicographic combination *)
Lemma good_lex {A} (c1 c2 : A -> A -> comparison) :
  good_cmp c1 -> good_cmp c2 -> good_cmp (fun a b => lex (c1 a b) (c2 a b)).
Proof.
  intros G1 G2; split.
  - intros a b. rewrite (gc_opp _ G1 a b), (gc_opp _ G2 a b). destruct (c1 a b); reflexivity.
  - intros a b c H. unfold lex in *. destruct (c1 a b) eqn:E; try discriminate.
    rewrite (gc_eq _ G1 a b c E), (gc_eq _ G2 a b c H). reflexivity.
  - intros a b c H1 H2. unfold lex in *.
    destruct (c1 a b) eqn:E1; try discriminate; destruct (c1 b c) eqn:E2; try discriminate.
    + rewrite (gc_eq _ G1 a b c E1), E2. eapply (gc_lt _ G2); eauto.
    + now rewrite (gc_eq _ G1 a b c E1), E2.
    + assert (c1 a c = Lt).
      { pose proof (gc_opp _ G1 b c) as O. rewrite E2 in O. simpl in O.
        pose proof (gc_eq _ G1 c b a O) as Q. rewrite (gc_opp _ G1 a c), (gc_opp _ G1 a b), E1 in Q.
        destruct (c1 a c); simpl in Q; congruence. }
      now rewrite H.
    + now rewrite (gc_lt _ G1 a b c E1 E2).
Qed.

(* Option with None first *)
Definition opt_cmp {A} (cmp : A -> A -> comparison) (a b : option A) : comparison :=
  match a, b with
  | None, None => Eq | None, Some _ => Lt | Some _, None => Gt | Some x, Some y => cmp x y
  end.
Lemma good_opt {A} (cmp : A -> A -> comparison) : good_cmp cmp -> good_cmp (opt_cmp cmp).
Proof.
  intros G; split.
  - intros [a|] [b|]; simpl; auto. apply (gc_opp _ G).
  - intros [a|] [b|] [c|]; simpl; try discriminate; auto. apply (gc_eq _ G).
  - intros [a|] [b|] [c|]; simpl; try discriminate; auto. apply (gc_lt _ G).
Qed.

(* lexicographic comparison of lists *)
Fixpoint list_cmp {A} (cmp : A -> A -> comparison) (a b : list A) : comparison :=
  match a, b with
  | [], [] => Eq | [], _ => Lt | _, [] => Gt
  | x :: r, y :: s => match cmp x y with Eq => list_cmp cmp r s | c => c end
  end.
Lemma good_list {A} (cmp : A -> A -> comparison) : good_cmp cmp -> good_cmp (list_cmp cmp).
Proof.
  intros G; split.
  - induction a as [|x r IH]; intros [|y s]; simpl; auto.
    rewrite (gc_opp _ G x y). destruct (cmp x y); simpl; auto.
  - induction a as [|x r IH]; intros [|y s] c; simpl; try discriminate; auto.
    destruct (cmp x y) eqn:E; try discriminate. intros H.
    destruct c as [|z t]; auto. rewrite (gc_eq _ G x y z E). destruct (cmp y z); auto.
  - induction a as [|x r IH]; intros [|y s] [|z t]; simpl; try discriminate; auto.
    destruct (cmp x y) eqn:E1; try discriminate; destruct (cmp y z) eqn:E2; try discriminate; intros H1 H2.
    + rewrite (gc_eq _ G x y z E1), E2. eapply IH; eauto.
    + now rewrite (gc_eq _ G x y z E1), E2.
    + assert (cmp x z = Lt).
      { pose proof (gc_opp _ G y z) as O. rewrite E2 in O. simpl in O.
        pose proof (gc_eq _ G z y x O) as Q. rewrite (gc_opp _ G x z), (gc_opp _ G x y), E1 in Q.
        destruct (cmp x z); simpl in Q; congruence. }
      now rewrite H.
    + now rewrite (gc_lt _ G x y z E1 E2).
Qed.

(* ---------- stable insertion sort ---------- *)
Section Sort.
Variable A : Type.
Variable cmp : A -> A -> comparison.
Hypothesis G : good_cmp cmp.

Definition leb (a b : A) : bool := match cmp a b with Gt => false | _ => true end.
Definition eqv (a b : A) : bool := match cmp a b with Eq => true | _ => false end.

(* x stands before everything in l in the original order: it goes in front of the first element it does not exceed *)
Fixpoint insert (x : A) (l : list A) : list A :=
  match l with
  | [] => [x]
  | y :: r => if leb x y then x :: l else y :: insert x r
  end.
Definition ssort (l : list A) : list A := fold_right insert [] l.

Lemma leb_total a b : leb a b = false -> leb b a = true.
Proof. unfold leb. rewrite (gc_opp _ G a b). destruct (cmp a b); simpl; congruence. Qed.
Lemma leb_trans a b c : leb a b = true -> leb b c = true -> leb a c = true.
Proof.
  unfold leb. destruct (cmp a b) eqn:E1; try discriminate; destruct (cmp b c) eqn:E2; try discriminate; intros _ _.
  - now rewrite (gc_eq _ G a b c E1), E2.
  - now rewrite (gc_eq _ G a b c E1), E2.
  - assert (cmp a c = Lt).
    { pose proof (gc_opp _ G b c) as O. rewrite E2 in O. simpl in O.
      pose proof (gc_eq _ G c b a O) as Q. rewrite (gc_opp _ G a c), (gc_opp _ G a b), E1 in Q.
      destruct (cmp a c); simpl in Q; congruence. }
    now rewrite H.
  - now rewrite (gc_lt _ G a b c E1 E2).
Qed.

Lemma insert_perm x l : Permutation (x :: l) (insert x l).
Proof. induction l as [|y r IH]; simpl; auto. destruct (leb x y); auto.
  eapply perm_trans; [apply perm_swap|]. now constructor. Qed.
Theorem ssort_perm l : Permutation l (ssort l).
Proof. induction l as [|x r IH]; simpl; auto. eapply perm_trans; [|apply insert_perm]. now constructor. Qed.

Definition sorted (l : list A) := StronglySorted (fun a b => leb a b = true) l.
Lemma insert_sorted x l : sorted l -> sorted (insert x l).
Proof.
  induction l as [|y r IH]; intros S; simpl; [repeat constructor|].
  inversion S as [|? ? S' F]; subst. destruct (leb x y) eqn:E.
  - constructor; [exact S|]. constructor; [exact E|].
    rewrite Forall_forall in *. intros z Hz. eapply leb_trans; eauto.
  - constructor; [now apply IH|].
    rewrite Forall_forall in *. intros z Hz.
    apply (Permutation_in _ (Permutation_sym (insert_perm x r))) in Hz. destruct Hz as [<-|Hz]; auto.
    now apply leb_total.
Qed.
Theorem ssort_sorted l : sorted (ssort l).
Proof. induction l as [|x r IH]; simpl; [constructor|now apply insert_sorted]. Qed.

(* stability: within each class of equal keys the original order is kept *)
Lemma eqv_leb a b : eqv a b = true -> leb a b = true /\ leb b a = true.
Proof. unfold eqv, leb. rewrite (gc_opp _ G a b). destruct (cmp a b); simpl; try discriminate; auto. Qed.
Lemma insert_filter a x l :
  filter (eqv a) (insert x l) = if eqv a x then x :: filter (eqv a) l else filter (eqv a) l.
Proof.
  induction l as [|y r IH]; simpl; [destruct (eqv a x); reflexivity|].
  destruct (leb x y) eqn:E; simpl.
  - destruct (eqv a x); reflexivity.
  - rewrite IH. destruct (eqv a y) eqn:Ey; [|destruct (eqv a x); reflexivity].
    destruct (eqv a x) eqn:Ex; [|reflexivity]. exfalso.
    (* a ~ x and a ~ y give x <= y *)
    unfold eqv in Ex, Ey. destruct (cmp a x) eqn:C1; try discriminate. destruct (cmp a y) eqn:C2; try discriminate.
    unfold leb in E. pose proof (gc_eq _ G a x y C1) as Q. rewrite C2 in Q. rewrite <- Q in E. discriminate.
Qed.
Theorem ssort_stable l a : filter (eqv a) (ssort l) = filter (eqv a) l.
Proof. induction l as [|x r IH]; simpl; auto. rewrite insert_filter, IH. reflexivity. Qed.

(* sorting a sorted list changes nothing (so sorting twice = sorting once) *)
Lemma insert_sorted_head x l : sorted (x :: l) -> insert x l = x :: l.
Proof. intros S. inversion S as [|? ? S' F]; subst. destruct l as [|y r]; simpl; auto.
  inversion F; subst. now rewrite H1. Qed.
Theorem ssort_fix l : sorted l -> ssort l = l.
Proof. induction l as [|x r IH]; intros S; simpl; auto. inversion S; subst. rewrite IH by assumption.
  now apply insert_sorted_head. Qed.
Theorem ssort_idem l : ssort (ssort l) = ssort l.
Proof. apply ssort_fix, ssort_sorted. Qed.

(* the three facts pin the result down: any sorted, stable rearrangement is the one ssort computes *)
Lemma sorted_stable_unique : forall l1 l2,
  sorted l1 -> sorted l2 -> (forall a, filter (eqv a) l1 = filter (eqv a) l2) -> l1 = l2.
Proof.
  induction l1 as [|x r IH]; intros l2 S1 S2 H.
  - destruct l2 as [|y s]; auto. specialize (H y). simpl in H.
    unfold eqv in H. rewrite (good_refl _ G y) in H. discriminate.
  - destruct l2 as [|y s].
    + specialize (H x). simpl in H. unfold eqv in H. rewrite (good_refl _ G x) in H. discriminate.
    + inversion S1 as [|? ? S1' F1]; inversion S2 as [|? ? S2' F2]; subst.
      rewrite Forall_forall in F1, F2.
      (* x and y are both minimal, each occurs in the other list, hence equivalent, hence heads of the same class *)
      assert (Hxy : eqv x y = true).
      { pose proof (H x) as Hx. pose proof (H y) as Hy. simpl in Hx, Hy.
        assert (Rx : eqv x x = true) by (unfold eqv; now rewrite (good_refl _ G x)).
        assert (Ry : eqv y y = true) by (unfold eqv; now rewrite (good_refl _ G y)).
        rewrite Rx in Hx. rewrite Ry in Hy.
        destruct (cmp x y) eqn:C; [unfold eqv; now rewrite C| |]; exfalso.
        - (* x < y: x must occur in s, but then y <= x *)
          assert (Exy : eqv x y = false) by (unfold eqv; now rewrite C). rewrite Exy in Hx.
          assert (Hin : In x (filter (eqv x) s)) by (rewrite <- Hx; now left).
          apply filter_In in Hin as [Hin _]. apply F2 in Hin. unfold leb in Hin.
          rewrite (gc_opp _ G x y), C in Hin. discriminate.
        - assert (Eyx : eqv y x = false) by (unfold eqv; now rewrite (gc_opp _ G x y), C). rewrite Eyx in Hy.
          assert (Hin : In y (filter (eqv y) r)) by (rewrite Hy; now left).
          apply filter_In in Hin as [Hin _]. apply F1 in Hin. unfold leb in Hin. rewrite C in Hin. discriminate. }
      assert (x = y).
      { specialize (H x). simpl in H. rewrite Hxy in H.
        assert (Rx : eqv x x = true) by (unfold eqv; now rewrite (good_refl _ G x)). rewrite Rx in H. congruence. }
      subst y. f_equal. apply IH; auto. intros a. specialize (H a). simpl in H.
      destruct (eqv a x); congruence.
Qed.
Theorem stable_sort_unique l l' :
  sorted l' -> (forall a, filter (eqv a) l' = filter (eqv a) l) -> l' = ssort l.
Proof.
  intros S H. apply sorted_stable_unique; auto using ssort_sorted.
  intros a. now rewrite H, ssort_stable.
Qed.
End Sort.
