(* C01: the simulation of Proofs/C01sim.v carried across MODEL records.  The finished models of the reader model, seen as
   (model number, chains as keyed lists of atoms), are the finished models of the specification walk partitioned by first
   appearance; together with the model under construction this gives, for every sequence of well-formed coordinate, TER, MODEL
   and ENDMDL records from the start of a file, that the models the reader has built are the models the records state. *)
From Coq Require Import List Ascii String ZArith Bool Lia.
From PV Require Import Base.Sx Base.Text Base.Group Spec.Hier Spec.PdbSpec Model.AddAtom Model.PdbLex Model.PdbParse
                       Proofs.C01group Proofs.C01sim.
Import ListNotations.
Local Open Scope list_scope.
Local Open Scope Z_scope.

(* a model as (number, chains as keyed lists), the residues keyed by their own identifier *)
Definition abs_model (m : model) : Z * chains atom :=
  (m_serial m, map (fun c => (ch_id c, map (fun r => ((r_num r, r_icode r), abs_confs (r_confs r))) (ch_residues c))) (m_chains m)).

(* in the model under construction every residue sits under its own identifier *)
Definition keyed (kr : PdbParse.rkey * residue) : Prop := fst kr = (r_num (snd kr), r_icode (snd kr)).
Definition keys_ok (c : cur_model) : Prop := Forall (fun kc => Forall keyed (snd kc)) c.

Lemma abs_ress_of_keyed (rs : list (PdbParse.rkey * residue)) : Forall keyed rs ->
  map (fun r => ((r_num r, r_icode r), abs_confs (r_confs r))) (map snd rs) = abs_ress rs.
Proof.
  induction 1 as [|[k x] t Hk Ht IH]; [reflexivity|]. cbn [map fst snd abs_ress]. unfold abs_ress in IH. rewrite IH.
  unfold keyed in Hk. cbn [fst snd] in Hk. now rewrite Hk.
Qed.
Lemma abs_model_of_cur n c : keys_ok c -> abs_model (model_of_cur n c) = (n, abs_cur c).
Proof.
  intros K. unfold abs_model, model_of_cur. cbn [m_serial m_chains]. f_equal.
  induction K as [|[id rs] r Hrs Hr IH]; [reflexivity|]. cbn [map fst snd ch_id ch_residues abs_cur]. unfold abs_cur in IH. rewrite IH.
  cbn [snd] in Hrs. now rewrite (abs_ress_of_keyed rs Hrs).
Qed.

Lemma residue_add_atom_id r a n alt : r_num (Residue_add_atom r a n alt) = r_num r /\ r_icode (Residue_add_atom r a n alt) = r_icode r.
Proof. unfold Residue_add_atom. destruct (prepare_identifier_uppercase n); split; reflexivity. Qed.

Lemma rs_upsert_keyed rs k mk upd :
  Forall keyed rs -> keyed (k, mk tt) -> (forall r, r_num (upd r) = r_num r /\ r_icode (upd r) = r_icode r) -> Forall keyed (rs_upsert rs k mk upd).
Proof.
  intros H Hm Hu. induction H as [|[k' r] t Hk Ht IH]; cbn [rs_upsert]; [constructor; [exact Hm|constructor]|].
  destruct (PdbParse.rkey_eqb k k').
  - constructor; [|exact Ht]. unfold keyed in *. cbn [fst snd] in *. destruct (Hu r) as [-> ->]. exact Hk.
  - constructor; [exact Hk|exact IH].
Qed.
Lemma cm_upsert_keys c id k mk upd :
  keys_ok c -> keyed (k, mk tt) -> (forall r, r_num (upd r) = r_num r /\ r_icode (upd r) = r_icode r) -> keys_ok (cm_upsert c id k mk upd).
Proof.
  intros H Hm Hu. induction H as [|[cid rs] t Hrs Ht IH]; cbn [cm_upsert].
  - constructor; [|constructor]. cbn [snd]. constructor; [exact Hm|constructor].
  - destruct (text_eqb cid id).
    + constructor; [|exact Ht]. cbn [snd] in *. apply rs_upsert_keyed; assumption.
    + constructor; [exact Hrs|exact IH].
Qed.
(* an event whose insertion code is in its stored form *)
Lemma insert_keys c e : keys_ok c -> PdbParse.norm_alt (snd (e_key e)) = snd (e_key e) -> keys_ok (insert c e).
Proof.
  intros K N. unfold insert. apply cm_upsert_keys; [exact K| |].
  - unfold keyed. cbn [fst snd r_num r_icode]. rewrite N. now destruct (e_key e).
  - intros r. apply residue_add_atom_id.
Qed.

Section Models.
Variable first_only : bool.
Hypothesis all_models : first_only = false.

(* the simulation of C01sim together with the finished models *)
Record simm (w : walk) (s : st) : Prop := {
  sm_sim : sim w s;
  sm_num : w_num w = s_cur_num s;
  sm_keys : keys_ok (s_cur s);
  sm_models : map abs_model (s_models s) = map (fun m => (fst m, spec_chains atom (snd m))) (w_models w);
  sm_running : s_stop s = false }.

Lemma chain_step1_not_nil chs k : chain_step1 chs k <> [].
Proof.
  unfold chain_step1. destruct chs as [|[c v] t]; cbn [upsert]; [discriminate|].
  match goal with |- context [if ?b then _ else _] => destruct b end; discriminate.
Qed.
Lemma spec_chains_nil l : spec_chains atom l = [] -> l = [].
Proof.
  induction l as [|k l' _] using rev_ind; [reflexivity|]. rewrite spec_chains_snoc. intros H. exfalso. exact (chain_step1_not_nil _ _ H).
Qed.

(* the fields an atom record leaves alone *)
Lemma step_atom_rest s ln hetero b x y z occ bf :
  let t := step_item false first_only s ln (LAtom hetero b x y z occ bf) in
  s_models t = s_models s /\ s_cur_num t = s_cur_num s /\ s_stop t = s_stop s.
Proof.
  unfold step_item. cbn [andb].
  destruct (Atom_new _ _ _ _ _ _ _ _ _ _ _) as [a|]; [|repeat split].
  match goal with |- context [(valid_text ?c && ?p && ?q)%bool] => destruct (valid_text c && p && q)%bool end; repeat split.
Qed.

Theorem simm_atom w s ln a : simm w s -> wf_rec a -> simm (walk_step w (RAtom a)) (step_item false first_only s ln (item_of a)).
Proof.
  intros [S N K M R] W. pose proof (sim_atom first_only w s ln a S W) as S'.
  unfold item_of in *.
  destruct (step_atom_rest s ln (r_hetero a)
              {| ab_serial := r_serial a; ab_name := trim (r_name a); ab_alt := r_alt a; ab_resname := trim (r_resname a); ab_chain := r_chain a;
                 ab_resnum := r_resnum a; ab_icode := r_ins a; ab_element := trim (r_element a); ab_charge := r_charge a |}
              (dec (r_x a)) (dec (r_y a)) (dec (r_z a)) (dec (r_occ a)) (dec (r_b a))) as (E1 & E2 & E3).
  constructor.
  - exact S'.
  - rewrite E2. cbn [walk_step w_num]. exact N.
  - pose proof (step_atom_cur false first_only s ln (r_hetero a)
                {| ab_serial := r_serial a; ab_name := trim (r_name a); ab_alt := r_alt a; ab_resname := trim (r_resname a); ab_chain := r_chain a;
                   ab_resnum := r_resnum a; ab_icode := r_ins a; ab_element := trim (r_element a); ab_charge := r_charge a |}
                (dec (r_x a)) (dec (r_y a)) (dec (r_z a)) (dec (r_occ a)) (dec (r_b a))) as C.
    rewrite (atom_event_of_record s a W (sim_id_nonneg _ _ S)) in C. rewrite C.
    apply insert_keys; [exact K|]. cbn [event_of_record e_key snd].
    pose proof (wf_ins a W) as I. pose proof (wf_ins_tight a W) as T. destruct (r_ins a) as [ic|]; [|reflexivity].
    cbn [option_map PdbParse.norm_alt]. destruct I as [V Ne].
    unfold prepare_identifier_uppercase, prepare_identifier. rewrite valid_text_upper, V, trim_upper, is_nil_upper, T.
    destruct ic as [|c r]; [rewrite T in Ne; now contradiction Ne|]. cbn [is_nil negb andb option_map]. now rewrite upper_idem.
  - rewrite E1. cbn [walk_step w_models]. exact M.
  - rewrite E3. exact R.
Qed.

Theorem simm_ter w s ln : simm w s -> simm (walk_step w RTer) (step_item false first_only s ln LTer).
Proof. intros [S N K M R]. constructor; [apply sim_ter; exact S|exact N|exact K|exact M|exact R]. Qed.

Theorem simm_endmdl w s ln : simm w s -> simm (walk_step w REndmdl) (step_item false first_only s ln LEndModel).
Proof. intros H. exact H. Qed.

(* a MODEL record closes the model under construction (if it holds anything) and starts the next one *)
Theorem simm_model w s ln n : simm w s -> simm (walk_step w (RModel n)) (step_item false first_only s ln (LModel n)).
Proof.
  intros [S N K M R]. destruct S as [S1 S2 S3 S4 S5 S6 S7 S8]. rewrite all_models.
  assert (Hnil : is_nil (s_cur s) = match w_cur w with [] => true | _ => false end).
  { destruct (s_cur s) as [|x t] eqn:E.
    - cbn [abs_cur map] in S8. symmetry in S8. apply spec_chains_nil in S8. now rewrite S8.
    - destruct (w_cur w) as [|k r] eqn:Ew; [discriminate S8|reflexivity]. }
  cbn [step_item]. rewrite Hnil.
  destruct (w_cur w) as [|k r] eqn:Ew.
  - cbn [negb andb]. constructor; [constructor|..]; cbn [walk_step w_last_atom w_atom_add w_last_res w_res_add w_next_id w_ters w_cur w_num w_models
      s_last_atom s_atom_add s_last_res s_res_add s_next_id s_chain_letter s_cur s_cur_num s_models s_stop]; try assumption; try reflexivity.
    + constructor.
    + unfold close_model. rewrite Ew. exact M.
  - cbn [negb andb]. constructor; [constructor|..]; cbn [push_current walk_step w_last_atom w_atom_add w_last_res w_res_add w_next_id w_ters w_cur w_num w_models
      s_last_atom s_atom_add s_last_res s_res_add s_next_id s_chain_letter s_cur s_cur_num s_models s_stop]; try assumption; try reflexivity.
    + constructor.
    + unfold close_model. rewrite Ew, !map_app, M. cbn [map fst snd]. rewrite (abs_model_of_cur _ _ K), S8, N. reflexivity.
Qed.

(* the records of the coordinate section *)
Definition coord_rec (r : rec) : Prop := match r with RAtom a => wf_rec a | RTer | REndmdl | RModel _ => True | _ => False end.
Definition coord_item (r : rec) : lexitem :=
  match r with RAtom a => item_of a | RTer => LTer | REndmdl => LEndModel | RModel n => LModel n | _ => LEmpty end.
Theorem simm_run (rs : list (Z * rec)) : Forall (fun x => coord_rec (snd x)) rs -> forall w s, simm w s ->
  simm (fold_left walk_step (map snd rs) w) (fold_left (fun s x => step_item false first_only s (fst x) (coord_item (snd x))) rs s).
Proof.
  induction 1 as [|[ln r] rest Hr Hrest IH]; intros w s S; [exact S|].
  cbn [map fold_left fst snd]. apply IH. destruct r; try contradiction; cbn [coord_item].
  - apply simm_model. exact S.
  - apply simm_endmdl. exact S.
  - apply simm_ter. exact S.
  - apply simm_atom; assumption.
Qed.
Lemma simm_start : simm walk0 st0.
Proof. constructor; try reflexivity; [apply sim_start|constructor]. Qed.

(* from the start of a file: the finished models and the model under construction are what the walk of the specification holds *)
Corollary reader_builds_the_models_of_the_records (rs : list (Z * rec)) : Forall (fun x => coord_rec (snd x)) rs ->
  let s := fold_left (fun s x => step_item false first_only s (fst x) (coord_item (snd x))) rs st0 in
  let w := fold_left walk_step (map snd rs) walk0 in
  map abs_model (s_models s ++ match s_cur s with [] => [] | c => [model_of_cur (s_cur_num s) c] end) =
  map (fun m => (fst m, spec_chains atom (snd m))) (close_model w).
Proof.
  intros H s w. destruct (simm_run rs H walk0 st0 simm_start) as [S N K M R]. fold s w in S, N, K, M, R.
  pose proof (sim_cur _ _ S) as C. unfold close_model. rewrite map_app, M.
  destruct (s_cur s) as [|x t] eqn:E.
  - cbn [abs_cur map] in C. symmetry in C. apply spec_chains_nil in C. rewrite C. cbn [map]. now rewrite app_nil_r.
  - destruct (w_cur w) as [|k r] eqn:Ew; [discriminate C|]. rewrite map_app. cbn [map fst snd].
    rewrite <- E in *. rewrite (abs_model_of_cur _ _ K), C, N. reflexivity.
Qed.
End Models.
