(* C01: the reader model files every atom under its chain id, residue key and conformer key, creating each container at the
   first appearance of its key - the nested first-appearance partition of the specification. *)
From Coq Require Import List Ascii String ZArith Bool Lia.
From PV Require Import Base.Sx Base.Text Base.Group Spec.Hier Model.AddAtom Model.PdbLex Model.Edit Model.PdbParse.
Import ListNotations.

(* what the record loop does with one valid atom *)
Record event : Type := { e_chain : text; e_key : PdbParse.rkey; e_name : text; e_alt : option text; e_atom : atom }.
Definition event_valid (e : event) : Prop := exists n, prepare_identifier_uppercase (e_name e) = Some n.
Definition e_conf (e : event) : text := match prepare_identifier_uppercase (e_name e) with Some n => n | None => [] end.
Definition insert (cur : cur_model) (e : event) : cur_model :=
  cm_upsert cur (e_chain e) (e_key e)
    (fun _ => {| r_num := fst (e_key e); r_icode := PdbParse.norm_alt (snd (e_key e));
                 r_confs := match Conformer_new (e_name e) (e_alt e) [e_atom e] with Some c => [c] | None => [] end |})
    (fun r => Residue_add_atom r (e_atom e) (e_name e) (e_alt e)).

(* the containers as keyed lists of atoms *)
Definition abs_confs (cs : list conformer) : confs atom := map (fun c => ((c_name c, c_alt c), c_atoms c)) cs.
Definition abs_ress (rs : list (PdbParse.rkey * residue)) : ress atom := map (fun kr => (fst kr, abs_confs (r_confs (snd kr)))) rs.
Definition abs_cur (c : cur_model) : chains atom := map (fun kc => (fst kc, abs_ress (snd kc))) c.
Definition key_of (e : event) : text * (AddAtom.rkey * (ckey * atom)) :=
  (e_chain e, (e_key e, ((e_conf e, PdbParse.norm_alt (e_alt e)), e_atom e))).

(* the three levels as first-match upserts *)
Definition res_step1 (rs : ress atom) (kv : AddAtom.rkey * (ckey * atom)) : ress atom :=
  upsert AddAtom.rkey (ckey * atom) (confs atom) AddAtom.rkey_eqb [] (conf_step atom) (fst kv) (snd kv) rs.
Definition chain_step1 (chs : chains atom) (kv : text * (AddAtom.rkey * (ckey * atom))) : chains atom :=
  upsert text (AddAtom.rkey * (ckey * atom)) (ress atom) text_eqb [] res_step1 (fst kv) (snd kv) chs.

Lemma text_eqb_sym a b : text_eqb a b = text_eqb b a.
Proof. destruct (text_eqb_spec a b), (text_eqb_spec b a); congruence. Qed.
Lemma otext_eqb_sym a b : PdbParse.otext_eqb a b = PdbParse.otext_eqb b a.
Proof. destruct a, b; simpl; auto using text_eqb_sym. Qed.
Lemma otext_same a b : PdbParse.otext_eqb a b = AddAtom.otext_eqb a b.
Proof. destruct a, b; reflexivity. Qed.

Lemma add_to_confs_abs cs n alt a :
  abs_confs (add_to_confs cs n alt a) = conf_step atom (abs_confs cs) ((n, alt), a).
Proof.
  unfold conf_step. cbn [fst snd]. induction cs as [|c r IH]; [reflexivity|].
  cbn [add_to_confs abs_confs map upsert]. unfold ckey_eqb. cbn [fst snd].
  match goal with |- map _ (if ?c1 then _ else _) = (if ?c2 then _ else _) => assert (E : c2 = c1) end.
  { rewrite (text_eqb_sym n (c_name c)). f_equal. destruct alt, (c_alt c); simpl; auto using text_eqb_sym. }
  rewrite E. clear E.
  match goal with |- map _ (if ?c1 then _ else _) = _ => destruct c1 end.
  - cbn [map]. unfold with_atoms, push_atom. reflexivity.
  - cbn [map]. f_equal. exact IH.
Qed.

Lemma rs_upsert_abs rs e n : prepare_identifier_uppercase (e_name e) = Some n ->
  abs_ress (rs_upsert rs (e_key e)
     (fun _ => {| r_num := fst (e_key e); r_icode := PdbParse.norm_alt (snd (e_key e));
                  r_confs := match Conformer_new (e_name e) (e_alt e) [e_atom e] with Some c => [c] | None => [] end |})
     (fun r => Residue_add_atom r (e_atom e) (e_name e) (e_alt e))) =
  res_step1 (abs_ress rs) (e_key e, ((n, PdbParse.norm_alt (e_alt e)), e_atom e)).
Proof.
  intros Hn. unfold res_step1. cbn [fst snd]. induction rs as [|[k r] rest IH].
  - cbn [rs_upsert abs_ress map upsert]. unfold Conformer_new. rewrite Hn. reflexivity.
  - cbn [rs_upsert abs_ress map upsert fst snd].
    replace (AddAtom.rkey_eqb (e_key e) k) with (PdbParse.rkey_eqb (e_key e) k) by (unfold AddAtom.rkey_eqb, PdbParse.rkey_eqb; rewrite otext_same; reflexivity).
    destruct (PdbParse.rkey_eqb (e_key e) k).
    + cbn [map fst snd]. f_equal. f_equal. unfold Residue_add_atom. rewrite Hn. unfold with_confs. cbn [r_confs]. apply add_to_confs_abs.
    + cbn [map fst snd]. f_equal. exact IH.
Qed.

Lemma insert_abs cur e : event_valid e -> abs_cur (insert cur e) = chain_step1 (abs_cur cur) (key_of e).
Proof.
  intros [n Hn]. unfold insert, chain_step1, key_of, e_conf. rewrite Hn. cbn [fst snd].
  induction cur as [|[cid rs] rest IH].
  - cbn [cm_upsert abs_cur map upsert]. f_equal. f_equal.
    change [(e_key e, _)] with (rs_upsert [] (e_key e)
      (fun _ => {| r_num := fst (e_key e); r_icode := PdbParse.norm_alt (snd (e_key e));
                   r_confs := match Conformer_new (e_name e) (e_alt e) [e_atom e] with Some c => [c] | None => [] end |})
      (fun r => Residue_add_atom r (e_atom e) (e_name e) (e_alt e))).
    apply (rs_upsert_abs [] e n Hn).
  - cbn [cm_upsert abs_cur map upsert fst snd]. rewrite (text_eqb_sym (e_chain e) cid).
    destruct (text_eqb cid (e_chain e)).
    + cbn [map fst snd]. f_equal. f_equal. apply (rs_upsert_abs rs e n Hn).
    + cbn [map fst snd]. f_equal. exact IH.
Qed.

(* the fold of first-match upserts is the nested first-appearance partition *)
Lemma res_fold1 (l : list (AddAtom.rkey * (ckey * atom))) : fold_left res_step1 l [] = spec_ress atom l.
Proof.
  change (fold_left res_step1 l []) with (Group.build AddAtom.rkey (ckey * atom) (confs atom) AddAtom.rkey_eqb [] (conf_step atom) l).
  rewrite (build_eq_group _ _ _ _ rkey_eqb_spec). unfold Group.group, spec_ress.
  apply map_ext. intros rk.
  change (fold_left (conf_step atom) (Group.vals AddAtom.rkey (ckey * atom) AddAtom.rkey_eqb rk l) [])
    with (Group.build ckey atom (list atom) ckey_eqb [] (push_atom atom) (Group.vals AddAtom.rkey (ckey * atom) AddAtom.rkey_eqb rk l)).
  rewrite (build_eq_group _ _ _ _ ckey_eqb_spec). unfold Group.group, spec_confs. f_equal.
  apply map_ext. intros ck.
  assert (G : forall (vs : list atom) acc, fold_left (push_atom atom) vs acc = (acc ++ vs)%list).
  { induction vs as [|v r IH]; intros acc; simpl; [now rewrite app_nil_r|]. rewrite IH. unfold push_atom. now rewrite <- app_assoc. }
  now rewrite G.
Qed.
Lemma chain_fold1 (l : list (text * (AddAtom.rkey * (ckey * atom)))) : fold_left chain_step1 l [] = spec_chains atom l.
Proof.
  change (fold_left chain_step1 l []) with (Group.build text (AddAtom.rkey * (ckey * atom)) (ress atom) text_eqb [] res_step1 l).
  rewrite (build_eq_group _ _ _ _ text_eqb_spec). unfold Group.group, spec_chains.
  apply map_ext. intros c. now rewrite res_fold1.
Qed.

Theorem reader_groups_by_first_appearance (es : list event) : Forall event_valid es ->
  abs_cur (fold_left insert es []) = spec_chains atom (map key_of es).
Proof.
  intros H. rewrite <- chain_fold1.
  assert (G : forall cur, abs_cur (fold_left insert es cur) = fold_left chain_step1 (map key_of es) (abs_cur cur)).
  { induction H as [|e r He Hr IH]; intros cur; [reflexivity|]. cbn [fold_left map]. rewrite IH, (insert_abs cur e He). reflexivity. }
  apply (G []).
Qed.

(* ---------- the record loop on a coordinate record ---------- *)
Section Loop.
Variables (discard_h first_only : bool).
(* the event of one coordinate record in a reader state: the chain after the blank-chain rule, the residue number after the
   wrap offset, the atom with its wrapped serial number and fresh identity *)
Definition atom_event (s : st) (hetero : bool) (b : atom_basics) (x y z occ bf : fval) : option event :=
  if (discard_h && is_hydrogen (ab_element b) (ab_name b))%bool then None else
  let atom_add := if (Z.eqb (ab_serial b) 0 && Z.eqb (s_last_atom s) 99999)%bool then (s_atom_add s + 100000)%Z else s_atom_add s in
  let res_add := if (Z.eqb (ab_resnum b) 0 && Z.eqb (s_last_res s) 9999)%bool then (s_res_add s + 10000)%Z else s_res_add s in
  let chain := if blank (ab_chain b) then letter_of (s_chain_letter s) else ab_chain b in
  match Atom_new hetero (ab_serial b + atom_add) (show_Z (s_next_id s)) (ab_name b) x y z occ bf (ab_element b) (ab_charge b) with
  | Some atom =>
      if (valid_text chain &&
          match Conformer_new (ab_resname b) (ab_alt b) [] with Some _ => true | None => false end &&
          match Residue_new 0 (ab_icode b) [] with Some _ => true | None => false end)%bool
      then Some {| e_chain := chain; e_key := ((ab_resnum b + res_add)%Z, option_map upper (ab_icode b)); e_name := ab_resname b; e_alt := ab_alt b; e_atom := atom |}
      else None
  | None => None
  end.
Lemma atom_event_valid s hetero b x y z occ bf e : atom_event s hetero b x y z occ bf = Some e -> event_valid e.
Proof.
  unfold atom_event. destruct (discard_h && _)%bool; [discriminate|].
  destruct (Atom_new _ _ _ _ _ _ _ _ _ _ _) as [a|]; [|discriminate].
  destruct (valid_text _); [|discriminate]. cbn [andb].
  unfold Conformer_new at 1. destruct (prepare_identifier_uppercase (ab_resname b)) as [n|] eqn:Hn; cbn [option_map andb]; [|discriminate].
  destruct (Residue_new 0 (ab_icode b) []); [|discriminate].
  intros E. injection E as <-. exists n. exact Hn.
Qed.
Theorem step_atom_cur s ln hetero b x y z occ bf :
  s_cur (step_item discard_h first_only s ln (LAtom hetero b x y z occ bf)) =
  match atom_event s hetero b x y z occ bf with Some e => insert (s_cur s) e | None => s_cur s end.
Proof.
  unfold step_item, atom_event. destruct (discard_h && _)%bool; [reflexivity|].
  destruct (Atom_new _ _ _ _ _ _ _ _ _ _ _) as [a|]; [|reflexivity].
  match goal with |- context [(valid_text ?c && ?p && ?q)%bool] => destruct (valid_text c && p && q)%bool end; reflexivity.
Qed.

(* a run of coordinate records: the events in file order, each computed in the state the loop is in at that record *)
Definition is_atom_item (it : lexitem) : Prop := match it with LAtom _ _ _ _ _ _ _ => True | _ => False end.
Definition run_items (s : st) (its : list (Z * lexitem)) : st :=
  fold_left (fun s x => step_item discard_h first_only s (fst x) (snd x)) its s.
Fixpoint atom_events (s : st) (its : list (Z * lexitem)) : list event :=
  match its with
  | [] => []
  | (ln, it) :: r =>
      let s' := step_item discard_h first_only s ln it in
      match it with
      | LAtom hetero b x y z occ bf =>
          match atom_event s hetero b x y z occ bf with Some e => e :: atom_events s' r | None => atom_events s' r end
      | _ => atom_events s' r
      end
  end.
Theorem atom_run_groups (its : list (Z * lexitem)) : Forall (fun x => is_atom_item (snd x)) its -> forall s,
  abs_cur (s_cur (run_items s its)) = fold_left chain_step1 (map key_of (atom_events s its)) (abs_cur (s_cur s)).
Proof.
  unfold run_items. induction 1 as [|[ln it] r Hit Hr IH]; intros s; [reflexivity|].
  cbn [fold_left atom_events fst snd]. rewrite IH.
  destruct it; try (exact (False_ind _ Hit)).
  rewrite step_atom_cur. destruct (atom_event s hetero b x y z occ bf) as [e|] eqn:E; [|reflexivity].
  cbn [map fold_left]. rewrite (insert_abs (s_cur s) e (atom_event_valid _ _ _ _ _ _ _ _ _ E)). reflexivity.
Qed.
Corollary atom_run_from_empty (its : list (Z * lexitem)) s : Forall (fun x => is_atom_item (snd x)) its -> s_cur s = [] ->
  abs_cur (s_cur (run_items s its)) = spec_chains atom (map key_of (atom_events s its)).
Proof. intros H E. rewrite (atom_run_groups its H s), E. apply chain_fold1. Qed.
End Loop.
