(* C17: the exhaustive checks over the regenerated tables.  Everything here is a finite computation over the
   indices 1..230 (the bound is part of every statement); this file is recompiled only when Gen/SgTables.v changes. *)
From Coq Require Import List String ZArith Bool Arith.
From PV Require Import Base.Sx Base.Text Gen.SgTables Model.Symmetry.
Import ListNotations.

Lemma tables_have_230 : (List.length HM = 230 /\ List.length HALL = 230 /\ List.length OPS = 230)%nat.
Proof. repeat split; vm_compute; reflexivity. Qed.
Lemma symbols_distinct : distinct_str HM = true /\ distinct_str HALL = true.
Proof. split; vm_compute; reflexivity. Qed.
Lemma all_symbols_roundtrip : forallb symbols_roundtrip (upto 230) = true.
Proof. vm_compute. reflexivity. Qed.
Lemma all_z_ok : forallb z_ok (upto 230) = true.
Proof. vm_compute. reflexivity. Qed.
Lemma all_ops_wellformed : forallb ops_wellformed (upto 230) = true.
Proof. vm_compute. reflexivity. Qed.
Lemma all_ops_closed : forallb ops_closed (upto 230) = true.
Proof. vm_compute. reflexivity. Qed.
Lemma out_of_range_none : Symmetry_from_index 0 = None /\ Symmetry_from_index 231 = None /\
  hm_for_index 0 = None /\ hall_for_index 0 = None /\ ops_for_index 0 = None /\ ops_for_index 231 = None.
Proof. repeat split; vm_compute; reflexivity. Qed.
Lemma all_cif_roundtrip : forallb (fun i => match cif_roundtrip i with Some j => Nat.eqb i j | None => false end) (upto 230) = true.
Proof. vm_compute. reflexivity. Qed.
Lemma short_cryst1_roundtrip :
  forallb (fun i => (long_symbol i || match cryst1_roundtrip i with Some j => Nat.eqb i j | None => false end)%bool) (upto 230) = true.
Proof. vm_compute. reflexivity. Qed.
Lemma long_symbols_are : filter long_symbol (upto 230) = [125; 126; 129; 130; 133; 134; 137; 138; 141; 142]%nat.
Proof. vm_compute. reflexivity. Qed.
Lemma long_cryst1_fails : forallb (fun i => match cryst1_roundtrip i with Some j => negb (Nat.eqb i j) | None => true end)
                                  (filter long_symbol (upto 230)) = true.
Proof. vm_compute. reflexivity. Qed.
