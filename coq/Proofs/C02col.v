(* C02: the atom_site rows are read through the column names only; foreign columns, items, loops and frames are inert. *)
From Coq Require Import List Ascii String ZArith Bool Lia Arith Permutation.
From PV Require Import Base.Sx Base.Text Base.Num Spec.Hier Model.PdbLex Model.PdbParse Model.CifLex Model.CifParse Proofs.C06lex Proofs.C02lay.
Import ListNotations.

Fixpoint assoc (x : text) (l : list (text * cval)) : option cval :=
  match l with [] => None | (k, v) :: r => if text_eqb k x then Some v else assoc x r end.
Lemma position_text_shift l x i : position_text l x (S i) = option_map S (position_text l x i).
Proof. revert i; induction l as [|y r IH]; intros i; simpl; [reflexivity|]. destruct (text_eqb y x); [reflexivity|apply IH]. Qed.
Lemma lookup_assoc hdr : forall row x, List.length hdr = List.length row ->
  option_map (fun i => nth i row VInap) (position_text hdr x 0) = assoc x (combine hdr row).
Proof.
  induction hdr as [|h hs IH]; intros row x L; destruct row as [|v vs]; simpl in *; try discriminate; [reflexivity|].
  destruct (text_eqb h x); [reflexivity|].
  rewrite position_text_shift. rewrite <- (IH vs x) by lia. destruct (position_text hs x 0); reflexivity.
Qed.
Lemma assoc_perm l l' x : NoDup (map fst l) -> Permutation l l' -> assoc x l = assoc x l'.
Proof.
  intros N P. induction P as [|[k v] l l' P IH|[k1 v1] [k2 v2] l|l l' l'' P1 IH1 P2 IH2].
  - reflexivity.
  - simpl. inversion N; subst. rewrite IH by assumption. reflexivity.
  - simpl. destruct (text_eqb_spec k2 x), (text_eqb_spec k1 x); try reflexivity.
    subst. inversion N; subst. exfalso. apply H1. left. reflexivity.
  - rewrite IH1 by assumption. apply IH2.
    apply (Permutation_NoDup (l := map fst l)); [apply Permutation_map; exact P1|exact N].
Qed.
Lemma combine_keys (hdr : list text) : forall (row : list cval), List.length hdr = List.length row -> map fst (combine hdr row) = hdr.
Proof. induction hdr as [|h hs IH]; intros [|v vs] L; simpl in *; try discriminate; [reflexivity|]. f_equal. apply IH. lia. Qed.
Lemma column_lookup T (get : cval -> option T + diag) hdr row name :
  column get hdr row name =
  match option_map (fun i => nth i row VInap) (position_text hdr (stext name) 0) with
  | None => (None, [])
  | Some v => match get v with inl t => (t, []) | inr e => (None, [e]) end
  end.
Proof. unfold column. destruct (position_text hdr (stext name) 0); reflexivity. Qed.
Theorem column_order T (get : cval -> option T + diag) hdr row hdr' row' name :
  List.length hdr = List.length row -> List.length hdr' = List.length row' -> NoDup hdr ->
  Permutation (combine hdr row) (combine hdr' row') -> column get hdr' row' name = column get hdr row name.
Proof.
  intros L L' N P. rewrite !column_lookup, !lookup_assoc by assumption.
  rewrite (assoc_perm (combine hdr row) (combine hdr' row') (stext name)); [reflexivity| |exact P].
  rewrite combine_keys by assumption. exact N.
Qed.
Theorem row_column_order dh fo hdr row hdr' row' s :
  List.length hdr = List.length row -> List.length hdr' = List.length row' -> NoDup hdr ->
  Permutation (combine hdr row) (combine hdr' row') -> atom_row dh fo hdr' s row' = atom_row dh fo hdr s row.
Proof.
  intros L L' N P.
  assert (H : forall T (get : cval -> option T + diag) name, column get hdr' row' name = column get hdr row name)
    by (intros; apply column_order; assumption).
  unfold atom_row. rewrite !H. reflexivity.
Qed.

(* a column whose name is not asked for changes nothing, wherever it stands (with column_order) *)
Lemma column_extra T (get : cval -> option T + diag) h v hdr row name :
  text_eqb h (stext name) = false -> column get (h :: hdr) (v :: row) name = column get hdr row name.
Proof.
  intros H. unfold column. cbn [position_text]. rewrite H. rewrite position_text_shift.
  destruct (position_text hdr (stext name) 0); reflexivity.
Qed.

(* the test for missing mandatory columns only depends on which names are present *)
Lemma position_none l x : forall i, position_text l x i = None <-> ~ In x l.
Proof.
  induction l as [|y r IH]; intros i; simpl; [tauto|].
  destruct (text_eqb_spec y x); [subst; split; [discriminate|intros H; exfalso; apply H; now left]|].
  rewrite IH. tauto.
Qed.
Lemma missing_columns_order hdr hdr' : Permutation hdr hdr' ->
  filter (fun n => match position_text hdr' (stext n) 0 with None => true | Some _ => false end) required_columns =
  filter (fun n => match position_text hdr (stext n) 0 with None => true | Some _ => false end) required_columns.
Proof.
  intros P. apply filter_ext. intros n.
  destruct (position_text hdr' (stext n) 0) eqn:E1, (position_text hdr (stext n) 0) eqn:E2; try reflexivity; exfalso.
  - apply position_none in E2. apply E2. apply (Permutation_in _ (Permutation_sym P)).
    destruct (in_dec (list_eq_dec ascii_dec) (stext n) hdr') as [I|I]; [exact I|]. apply (position_none hdr' (stext n) 0) in I. congruence.
  - apply position_none in E1. apply E1. apply (Permutation_in _ P).
    destruct (in_dec (list_eq_dec ascii_dec) (stext n) hdr) as [I|I]; [exact I|]. apply (position_none hdr (stext n) 0) in I. congruence.
Qed.

(* bare words *)
Lemma ordinary_facts c : is_ordinary c = true ->
  is_tws c = false /\ Ascii.eqb c "#" = false /\ Ascii.eqb c "'" = false /\ Ascii.eqb c """" = false /\ Ascii.eqb c ";" = false.
Proof.
  destruct c as [b0 b1 b2 b3 b4 b5 b6 b7].
  destruct b0, b1, b2, b3, b4, b5, b6, b7; vm_compute; intros H; try discriminate H; repeat split; reflexivity.
Qed.
Lemma bare_word c w rest : is_ordinary c = true -> Ascii.eqb c "." = false -> Ascii.eqb c "?" = false ->
  forallb (fun x => negb (is_aws x)) w = true ->
  match rest with [] => True | x :: _ => is_aws x = true end -> reserved (c :: w ++ rest) = false ->
  parse_value (c :: w ++ rest) = (inl (match parse_numeric (c :: w) with Some v => v | None => VText (c :: w) end), rest).
Proof.
  intros Ho Hd Hq Hw Hr Hres.
  destruct (ordinary_facts c Ho) as (T1 & T2 & T3 & T4 & T5).
  unfold parse_value. rewrite (tcw_stop c (w ++ rest) T1 T2). rewrite Hres, Hd, Hq, T3, T4, T5, Ho.
  assert (S : span_id (c :: w ++ rest) = (c :: w, rest)).
  { apply (span_id_word (c :: w) rest); [|exact Hr]. cbn [forallb]. rewrite (ordinary_not_ws c Ho). exact Hw. }
  rewrite S. destruct (parse_numeric (c :: w)); reflexivity.
Qed.

(* which single items the reader looks at *)
Definition recognised (name : text) : bool :=
  (name_is name "cell.length_a" || name_is name "cell.length_b" || name_is name "cell.length_c" ||
   name_is name "cell.angle_alpha" || name_is name "cell.angle_beta" || name_is name "cell.angle_gamma" ||
   name_is name "symmetry.Int_Tables_number" || name_is name "space_group.IT_number" ||
   name_is name "symmetry.space_group_name_H-M" || name_is name "symmetry.space_group_name_Hall" ||
   name_is name "space_group.name_H-M_alt" || name_is name "space_group.name_Hall" ||
   starts_with "atom_sites.Cartn_transf_" name || starts_with "database_PDB_matrix.origx" name ||
   starts_with "struct_ncs_oper." name)%bool.
Lemma foreign_single s name v : recognised name = false -> single_item s name v = s.
Proof.
  unfold recognised. intros H.
  repeat match type of H with (_ || _)%bool = false => apply orb_false_elim in H; destruct H as [H ?] end.
  unfold single_item.
  repeat match goal with E : ?t = false |- context [?t] => rewrite E end.
  cbn [orb]. reflexivity.
Qed.
