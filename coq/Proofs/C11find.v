(* C11: on containers whose atom serial numbers increase strictly in traversal order, the binary look-up is the linear scan. *)
From Coq Require Import List Ascii ZArith Bool Arith Lia Sorted.
From PV Require Import Base.Sx Base.Text Spec.Hier Model.BinFind.
Import ListNotations.

Definition serials (l : list atom) : list Z := map a_serial l.

Lemma increasing_cons a l : increasing (a :: l) = true -> increasing l = true /\ (forall b, In b l -> (a < b)%Z).
Proof.
  revert a; induction l as [|b r IH]; intros a H; [split; [reflexivity|intros ? []]|].
  cbn [increasing] in H. apply andb_prop in H as [H1 H2]. apply Z.ltb_lt in H1.
  split; [exact H2|]. intros x [<-|Hx]; [exact H1|].
  destruct (IH b H2) as [_ Hb]. specialize (Hb x Hx). lia.
Qed.

(* number of leading elements with serial <= n *)
Fixpoint below (n : Z) (l : list Z) : nat :=
  match l with [] => 0 | a :: r => if (a <=? n)%Z then S (below n r) else 0 end.
Lemma below_le n l : below n l <= length l.
Proof. induction l as [|a r IH]; simpl; [lia|]. destruct (a <=? n)%Z; simpl; lia. Qed.
Lemma below_lo n l : forall i, i < below n l -> exists a, nth_error l i = Some a /\ (a <= n)%Z.
Proof.
  induction l as [|a r IH]; intros i Hi; simpl in Hi; [lia|].
  destruct (a <=? n)%Z eqn:E; [|lia]. apply Z.leb_le in E.
  destruct i as [|i]; [exists a; split; [reflexivity|exact E]|]. simpl. apply IH. lia.
Qed.
Lemma below_hi n l : increasing l = true -> forall i a, below n l <= i -> nth_error l i = Some a -> (n < a)%Z.
Proof.
  induction l as [|x r IH]; intros Hinc i a Hi Hn; [destruct i; discriminate|].
  destruct (increasing_cons x r Hinc) as [Hr Hx].
  simpl in Hi. destruct (x <=? n)%Z eqn:E.
  - destruct i as [|i]; [lia|]. simpl in Hn. apply (IH Hr i a); [lia|exact Hn].
  - apply Z.leb_gt in E. destruct i as [|i]; simpl in Hn.
    + inversion Hn; subst. exact E.
    + apply nth_error_In in Hn. specialize (Hx a Hn). lia.
Qed.
Lemma increasing_nth l : increasing l = true -> forall i j a b, i < j -> nth_error l i = Some a -> nth_error l j = Some b -> (a < b)%Z.
Proof.
  induction l as [|x r IH]; intros Hinc i j a b Hij Ha Hb; [destruct i; discriminate|].
  destruct (increasing_cons x r Hinc) as [Hr Hx].
  destruct i as [|i]; destruct j as [|j]; try lia; simpl in *.
  - inversion Ha; subst. apply Hx. eapply nth_error_In; eassumption.
  - apply (IH Hr i j); auto; lia.
Qed.

Lemma find_nth (l : list atom) n : forall i a, increasing (serials l) = true -> nth_error l i = Some a -> a_serial a = n ->
  find (fun x => Z.eqb (a_serial x) n) l = Some a.
Proof.
  induction l as [|x r IH]; intros i a Hinc Hn Hs; [destruct i; discriminate|].
  simpl. destruct (a_serial x =? n)%Z eqn:E.
  - apply Z.eqb_eq in E. destruct i as [|i]; simpl in Hn; [congruence|].
    exfalso. unfold serials in Hinc. simpl in Hinc. destruct (increasing_cons _ _ Hinc) as [_ Hx].
    assert (In (a_serial a) (map a_serial r)) by (apply in_map; eapply nth_error_In; eassumption).
    specialize (Hx _ H). lia.
  - destruct i as [|i]; simpl in Hn.
    + inversion Hn; subst. apply Z.eqb_neq in E. congruence.
    + unfold serials in Hinc. simpl in Hinc. destruct (increasing_cons _ _ Hinc) as [Hr _]. apply (IH i a Hr Hn Hs).
Qed.
Lemma find_none (l : list atom) n : (forall i a, nth_error l i = Some a -> a_serial a <> n) -> find (fun x => Z.eqb (a_serial x) n) l = None.
Proof.
  induction l as [|x r IH]; intros H; [reflexivity|]. simpl.
  destruct (a_serial x =? n)%Z eqn:E.
  - apply Z.eqb_eq in E. exfalso. apply (H 0 x eq_refl E).
  - apply IH. intros i a Hn. apply (H (S i) a Hn).
Qed.

(* the conformer level: binary search over the atoms *)
Theorem Conformer_bfind_linear c n : increasing (serials (c_atoms c)) = true ->
  Conformer_bfind c n = find (fun a => Z.eqb (a_serial a) n) (c_atoms c).
Proof.
  intros Hinc. unfold Conformer_bfind, bsearch_by. set (l := c_atoms c) in *.
  set (f := fun i => match nth_error l i with Some a => Z.compare (a_serial a) n | None => Gt end).
  destruct (Nat.eq_dec (length l) 0) as [E0|Hne].
  { destruct l; [reflexivity|discriminate]. }
  set (k := below n (serials l)).
  assert (Hk : k <= length l) by (unfold k; pose proof (below_le n (serials l)); unfold serials in *; rewrite map_length in *; lia).
  assert (Hlo : forall i, i < k -> f i <> Gt).
  { intros i Hi. destruct (below_lo n (serials l) i Hi) as (a & Ha & Hle).
    unfold serials in Ha. rewrite nth_error_map in Ha. unfold f. destruct (nth_error l i) as [x|]; [|discriminate].
    simpl in Ha. inversion Ha; subst. intros Hc. apply Z.compare_gt_iff in Hc. lia. }
  assert (Hhi : forall i, k <= i -> i < length l -> f i = Gt).
  { intros i Hi Hl. unfold f. destruct (nth_error l i) as [x|] eqn:Ex; [|reflexivity].
    apply Z.compare_gt_iff. apply (below_hi n (serials l) Hinc i (a_serial x) Hi).
    unfold serials. rewrite nth_error_map, Ex. reflexivity. }
  assert (Heq : forall i j, i <= j -> j < k -> f i = Eq -> f j = Eq).
  { intros i j Hij Hj He. destruct (Nat.eq_dec i j) as [->|Hd]; [exact He|]. exfalso.
    unfold f in He. destruct (nth_error l i) as [x|] eqn:Ex; [|discriminate]. apply Z.compare_eq in He.
    destruct (below_lo n (serials l) j Hj) as (b & Hb & Hle).
    assert (Hlt : (a_serial x < b)%Z).
    { apply (increasing_nth (serials l) Hinc i j); [lia| |exact Hb]. unfold serials. rewrite nth_error_map, Ex. reflexivity. }
    lia. }
  pose proof (bsearch_correct f (length l) k Hk Hlo Hhi Heq ltac:(lia)) as BC.
  destruct (bsearch f (length l)) as [b|].
  - destruct BC as (Hb & -> & Hk1). unfold f in Hb. destruct (nth_error l (k - 1)) as [x|] eqn:Ex; [|discriminate].
    apply Z.compare_eq in Hb. symmetry. apply (find_nth l n (k - 1) x Hinc Ex Hb).
  - symmetry. apply find_none. intros i a Hn Hs. apply (BC i).
    + apply nth_error_Some. congruence.
    + unfold f. rewrite Hn, Hs. apply Z.compare_refl.
Qed.

(* ---------- spans of increasing lists ---------- *)
Lemma increasing_app l1 l2 : increasing (l1 ++ l2) = true ->
  increasing l1 = true /\ increasing l2 = true /\ (forall a b, In a l1 -> In b l2 -> (a < b)%Z).
Proof.
  induction l1 as [|x r IH]; intros H; [split; [reflexivity|split; [exact H|intros ? ? []]]|].
  simpl app in H. destruct (increasing_cons x (r ++ l2) H) as [Hr Hx].
  destruct (IH Hr) as (I1 & I2 & I3). split; [|split; [exact I2|]].
  - destruct r as [|y r']; [reflexivity|]. cbn [increasing]. apply andb_true_intro. split; [|exact I1].
    apply Z.ltb_lt. apply Hx. simpl. now left.
  - intros a b [<-|Ha] Hb; [apply Hx; apply in_or_app; now right|apply I3; assumption].
Qed.
Lemma serials_app l1 l2 : serials (l1 ++ l2) = (serials l1 ++ serials l2)%list.
Proof. apply map_app. Qed.

Lemma span_bounds l lo hi : increasing (serials l) = true -> span l = Some (lo, hi) ->
  forall a, In a l -> (lo <= a_serial a <= hi)%Z.
Proof.
  intros Hinc Hs a Ha. unfold span in Hs.
  destruct l as [|x r]; [discriminate|]. simpl hd_error in Hs.
  destruct (last_error (x :: r)) as [y|] eqn:El; [|discriminate]. inversion Hs; subst lo hi; clear Hs.
  unfold serials in Hinc. simpl in Hinc. destruct (increasing_cons _ _ Hinc) as [Hr Hx].
  split.
  - destruct Ha as [<-|Ha]; [lia|]. specialize (Hx (a_serial a) (in_map a_serial r a Ha)). lia.
  - unfold last_error in El.
    assert (Hy : In y (x :: r)) by (apply in_rev; destruct (rev (x :: r)); [discriminate|]; simpl in El; inversion El; subst; now left).
    (* y is the last element: every element is <= y *)
    assert (G : forall (l : list atom) y, increasing (serials l) = true -> hd_error (rev l) = Some y -> forall a, In a l -> (a_serial a <= a_serial y)%Z).
    { clear. intros l. induction l as [|x r IH] using rev_ind; intros y Hinc Hl a Ha; [destruct Ha|].
      rewrite rev_app_distr in Hl. simpl in Hl. inversion Hl; subst y.
      apply in_app_or in Ha as [Ha|[<-|[]]]; [|lia].
      rewrite serials_app in Hinc. destruct (increasing_app _ _ Hinc) as (_ & _ & H3).
      specialize (H3 (a_serial a) (a_serial x) (in_map a_serial r a Ha) (or_introl eq_refl)). lia. }
    apply (G (x :: r) y); [unfold serials; simpl; exact Hinc|exact El|exact Ha].
Qed.
Lemma find_outside l n lo hi : increasing (serials l) = true -> span l = Some (lo, hi) -> (Z.leb lo n && Z.leb n hi)%bool = false ->
  find (fun a => Z.eqb (a_serial a) n) l = None.
Proof.
  intros Hinc Hs Ho. apply find_none. intros i a Hn He.
  pose proof (span_bounds l lo hi Hinc Hs a (nth_error_In _ _ Hn)) as [B1 B2].
  apply andb_false_iff in Ho as [Ho|Ho]; apply Z.leb_gt in Ho; lia.
Qed.
Lemma span_none l : span l = None -> l = [].
Proof.
  unfold span. destruct l as [|x r]; [reflexivity|]. simpl. unfold last_error.
  destruct (rev (x :: r)) eqn:E; [|discriminate]. apply (f_equal (@rev atom)) in E. rewrite rev_involutive in E. discriminate.
Qed.

(* ---------- the residue level: a scan over the conformers with a range test in front of the binary search ---------- *)
Theorem Residue_bfind_linear cs n alt : (forall c, In c cs -> increasing (serials (c_atoms c)) = true) ->
  Residue_bfind_go cs n alt = first_some (fun c => lin_conf c n alt) cs.
Proof.
  induction cs as [|c r IH]; intros H; [reflexivity|].
  cbn [Residue_bfind_go first_some]. rewrite IH by (intros x Hx; apply H; now right).
  set (X := first_some (fun c0 => lin_conf c0 n alt) r).
  unfold lin_conf. destruct (otext_eqb (c_alt c) alt); [|reflexivity].
  pose proof (H c (or_introl eq_refl)) as Hc.
  destruct (span (c_atoms c)) as [[lo hi]|] eqn:Es.
  - destruct (Z.leb lo n && Z.leb n hi)%bool eqn:Er.
    + rewrite (Conformer_bfind_linear c n Hc). destruct (find _ (c_atoms c)); reflexivity.
    + rewrite (find_outside _ n lo hi Hc Es Er). reflexivity.
  - rewrite (span_none _ Es). reflexivity.
Qed.

(* ---------- a binary search over consecutive non-empty blocks of an increasing sequence ---------- *)
Section Blocks.
Variable B : Type.
Variable atoms_of : B -> list atom.
Variable n : Z.

Definition in_block (b : B) : bool :=
  match span (atoms_of b) with Some (lo, hi) => (Z.leb lo n && Z.leb n hi)%bool | None => false end.
Definition block_lo (b : B) : Z := match span (atoms_of b) with Some (lo, _) => lo | None => 0%Z end.

(* leading blocks whose first serial is <= n *)
Fixpoint blocks_below (bs : list B) : nat :=
  match bs with [] => 0 | b :: r => if (block_lo b <=? n)%Z then S (blocks_below r) else 0 end.

Lemma flat_increasing_tail b r : increasing (serials (flat_map atoms_of (b :: r))) = true ->
  increasing (serials (atoms_of b)) = true /\ increasing (serials (flat_map atoms_of r)) = true /\
  (forall x y, In x (atoms_of b) -> In y (flat_map atoms_of r) -> (a_serial x < a_serial y)%Z).
Proof.
  intros H. simpl flat_map in H. rewrite serials_app in H. destruct (increasing_app _ _ H) as (I1 & I2 & I3).
  split; [exact I1|split; [exact I2|]]. intros x y Hx Hy. apply I3; apply in_map; assumption.
Qed.

Lemma nonempty_span b : atoms_of b <> [] -> exists lo hi, span (atoms_of b) = Some (lo, hi).
Proof.
  intros H. destruct (span (atoms_of b)) as [[lo hi]|] eqn:E; [eauto|]. apply span_none in E. contradiction.
Qed.
Lemma span_members l lo hi : span l = Some (lo, hi) -> exists a b, In a l /\ In b l /\ a_serial a = lo /\ a_serial b = hi.
Proof.
  unfold span. destruct l as [|x r]; [discriminate|]. simpl hd_error.
  destruct (last_error (x :: r)) as [y|] eqn:E; [|discriminate]. intros H. inversion H; subst.
  exists x, y. split; [now left|]. split; [|auto].
  unfold last_error in E. apply in_rev. destruct (rev (x :: r)); [discriminate|]. simpl in E. inversion E; subst. now left.
Qed.

Theorem block_search (bs : list B) :
  (forall b, In b bs -> atoms_of b <> []) -> increasing (serials (flat_map atoms_of bs)) = true ->
  match bsearch_by (fun b => span_cmp range_cmp n (atoms_of b)) bs with
  | Some i => exists b, nth_error bs i = Some b /\ in_block b = true /\
              (forall j b', j <> i -> nth_error bs j = Some b' -> forall a, In a (atoms_of b') -> a_serial a <> n)
  | None => forall b, In b bs -> forall a, In a (atoms_of b) -> a_serial a <> n
  end.
Proof.
  intros Hne Hinc. unfold bsearch_by.
  set (f := fun i => match nth_error bs i with Some b => span_cmp range_cmp n (atoms_of b) | None => Gt end).
  destruct (Nat.eq_dec (length bs) 0) as [E0|Hlen].
  { destruct bs; [|discriminate]. simpl. intros b []. }
  (* facts about the blocks, by induction over the list *)
  assert (Facts : forall l, (forall b, In b l -> atoms_of b <> []) -> increasing (serials (flat_map atoms_of l)) = true ->
            blocks_below l <= length l /\
            (forall i b, i < blocks_below l -> nth_error l i = Some b -> (block_lo b <= n)%Z) /\
            (forall i b, blocks_below l <= i -> nth_error l i = Some b -> (n < block_lo b)%Z) /\
            (forall i j b b', i < j -> nth_error l i = Some b -> nth_error l j = Some b' ->
               forall x y, In x (atoms_of b) -> In y (atoms_of b') -> (a_serial x < a_serial y)%Z)).
  { clear. induction l as [|b r IH]; intros Hne Hinc.
    - split; [simpl; lia|]. split; [intros i b Hi; simpl in Hi; lia|]. split; intros; destruct i; discriminate.
    - destruct (flat_increasing_tail b r Hinc) as (Ib & Ir & Ibr).
      destruct (IH (fun x Hx => Hne x (or_intror Hx)) Ir) as (F1 & F2 & F3 & F4).
      assert (F4' : forall i j b0 b', i < j -> nth_error (b :: r) i = Some b0 -> nth_error (b :: r) j = Some b' ->
                     forall x y, In x (atoms_of b0) -> In y (atoms_of b') -> (a_serial x < a_serial y)%Z).
      { intros i j b0 b' Hij H0 H1 x y Hx Hy. destruct i as [|i]; destruct j as [|j]; try lia; simpl in H0, H1.
        - inversion H0; subst. apply Ibr; [exact Hx|]. apply in_flat_map. exists b'. split; [eapply nth_error_In; eassumption|exact Hy].
        - apply (F4 i j b0 b'); auto; lia. }
      cbn [blocks_below]. destruct (block_lo b <=? n)%Z eqn:E.
      + apply Z.leb_le in E. split; [simpl; lia|]. split; [|split; [|exact F4']].
        * intros i b0 Hi Hn. destruct i as [|i]; simpl in Hn; [inversion Hn; subst; exact E|]. apply (F2 i b0); [lia|exact Hn].
        * intros i b0 Hi Hn. destruct i as [|i]; [lia|]. simpl in Hn. apply (F3 i b0); [lia|exact Hn].
      + apply Z.leb_gt in E. split; [simpl; lia|]. split; [intros; lia|]. split; [|exact F4'].
        intros i b0 _ Hn. destruct i as [|i]; simpl in Hn; [inversion Hn; subst; exact E|].
        (* a later block starts above the first serial of b *)
        destruct (nonempty_span b (Hne b (or_introl eq_refl))) as (lo & hi & Sb).
        destruct (nonempty_span b0 (Hne b0 (or_intror (nth_error_In _ _ Hn)))) as (lo0 & hi0 & S0).
        destruct (span_members _ _ _ Sb) as (x & _ & Hx & _ & Ex & _).
        destruct (span_members _ _ _ S0) as (y & _ & Hy & _ & Ey & _).
        unfold block_lo in *. rewrite Sb in E. rewrite S0.
        pose proof (Ibr x y Hx ltac:(apply in_flat_map; exists b0; split; [eapply nth_error_In; eassumption|exact Hy])). lia. }
  destruct (Facts bs Hne Hinc) as (F1 & F2 & F3 & F4).
  set (k := blocks_below bs) in *.
  (* each block, taken alone, is increasing *)
  assert (Hblock : forall b, In b bs -> increasing (serials (atoms_of b)) = true).
  { clear -Hinc. induction bs as [|x r IH]; intros b []; subst.
    - apply (flat_increasing_tail b r Hinc).
    - apply IH; [apply (flat_increasing_tail x r Hinc)|assumption]. }
  assert (Hcmp : forall i b, nth_error bs i = Some b -> f i = span_cmp range_cmp n (atoms_of b)) by (intros i b H; unfold f; rewrite H; reflexivity).
  assert (Hrange : forall b, In b bs -> exists lo hi, span (atoms_of b) = Some (lo, hi) /\ block_lo b = lo /\
                     (forall a, In a (atoms_of b) -> (lo <= a_serial a <= hi)%Z)).
  { intros b Hb. destruct (nonempty_span b (Hne b Hb)) as (lo & hi & S0). exists lo, hi. split; [exact S0|]. split; [unfold block_lo; rewrite S0; reflexivity|].
    apply (span_bounds _ lo hi (Hblock b Hb) S0). }
  assert (Hlo : forall i, i < k -> f i <> Gt).
  { intros i Hi. destruct (nth_error bs i) as [b|] eqn:Eb; [|apply nth_error_None in Eb; lia].
    rewrite (Hcmp i b Eb). destruct (Hrange b (nth_error_In _ _ Eb)) as (lo & hi & S0 & L0 & _).
    pose proof (F2 i b Hi Eb) as Hle. rewrite L0 in Hle.
    unfold span_cmp, range_cmp. rewrite S0. destruct (Z.leb lo n && Z.leb n hi)%bool; [discriminate|].
    replace (n <? lo)%Z with false by (symmetry; apply Z.ltb_ge; lia). discriminate. }
  assert (Hhi : forall i, k <= i -> i < length bs -> f i = Gt).
  { intros i Hi Hl. destruct (nth_error bs i) as [b|] eqn:Eb; [|apply nth_error_None in Eb; lia].
    rewrite (Hcmp i b Eb). destruct (Hrange b (nth_error_In _ _ Eb)) as (lo & hi & S0 & L0 & _).
    pose proof (F3 i b Hi Eb) as Hlt. rewrite L0 in Hlt.
    unfold span_cmp, range_cmp. rewrite S0.
    replace (Z.leb lo n) with false by (symmetry; apply Z.leb_gt; lia). simpl.
    replace (n <? lo)%Z with true by (symmetry; apply Z.ltb_lt; lia). reflexivity. }
  assert (Hin : forall i b, nth_error bs i = Some b -> f i = Eq -> in_block b = true).
  { intros i b Eb He. rewrite (Hcmp i b Eb) in He. unfold span_cmp, range_cmp in He. unfold in_block.
    destruct (span (atoms_of b)) as [[lo hi]|]; [|discriminate]. destruct (Z.leb lo n && Z.leb n hi)%bool; [reflexivity|].
    destruct (n <? lo)%Z; discriminate. }
  assert (Heq : forall i j, i <= j -> j < k -> f i = Eq -> f j = Eq).
  { intros i j Hij Hj He. destruct (Nat.eq_dec i j) as [->|Hd]; [exact He|]. exfalso.
    destruct (nth_error bs i) as [b|] eqn:Eb; [|unfold f in He; rewrite Eb in He; discriminate].
    destruct (nth_error bs j) as [b'|] eqn:Eb'; [|apply nth_error_None in Eb'; lia].
    pose proof (Hin i b Eb He) as Hb. unfold in_block in Hb.
    destruct (Hrange b (nth_error_In _ _ Eb)) as (lo & hi & S0 & L0 & R0). rewrite S0 in Hb.
    destruct (Hrange b' (nth_error_In _ _ Eb')) as (lo' & hi' & S1 & L1 & R1).
    destruct (span_members _ _ _ S0) as (_ & y & _ & Hy & _ & Ey).
    destruct (span_members _ _ _ S1) as (x & _ & Hx & _ & Ex & _).
    pose proof (F4 i j b b' ltac:(lia) Eb Eb' y x Hy Hx) as Hlt.
    pose proof (F2 j b' Hj Eb') as Hle. rewrite L1 in Hle.
    apply andb_prop in Hb as [_ Hb2]. apply Z.leb_le in Hb2. lia. }
  pose proof (bsearch_correct f (length bs) k F1 Hlo Hhi Heq ltac:(lia)) as BC.
  destruct (bsearch f (length bs)) as [i|].
  - destruct BC as (Hb & -> & Hk1).
    destruct (nth_error bs (k - 1)) as [b|] eqn:Eb; [|unfold f in Hb; rewrite Eb in Hb; discriminate].
    exists b. split; [reflexivity|]. split; [apply (Hin (k - 1) b Eb Hb)|].
    intros j b' Hj Eb' a Ha Hs.
    pose proof (Hin (k - 1) b Eb Hb) as Hib. unfold in_block in Hib.
    destruct (Hrange b (nth_error_In _ _ Eb)) as (lo & hi & S0 & L0 & R0). rewrite S0 in Hib.
    apply andb_prop in Hib as [Hb1 Hb2]. apply Z.leb_le in Hb1, Hb2.
    destruct (span_members _ _ _ S0) as (x & y & Hx & Hy & Ex & Ey).
    destruct (lt_dec j (k - 1)).
    + pose proof (F4 j (k - 1) b' b l Eb' Eb a x Ha Hx). lia.
    + pose proof (F4 (k - 1) j b b' ltac:(lia) Eb Eb' y a Hy Ha). lia.
  - intros b Hb a Ha Hs. destruct (In_nth_error _ _ Hb) as [i Ei].
    apply (BC i); [apply nth_error_Some; congruence|].
    rewrite (Hcmp i b Ei). destruct (Hrange b Hb) as (lo & hi & S0 & _ & R0). specialize (R0 a Ha).
    unfold span_cmp, range_cmp. rewrite S0.
    replace (Z.leb lo n && Z.leb n hi)%bool with true by (symmetry; apply andb_true_intro; split; apply Z.leb_le; lia). reflexivity.
Qed.
End Blocks.

(* ---------- the chain and model levels ---------- *)
Lemma first_some_none {A B} (f : A -> option B) l : (forall x, In x l -> f x = None) -> first_some f l = None.
Proof. induction l as [|a r IH]; intros H; [reflexivity|]. simpl. rewrite (H a (or_introl eq_refl)). apply IH. intros x Hx. apply H. now right. Qed.
Lemma first_some_at {A B} (f : A -> option B) l : forall i x, nth_error l i = Some x ->
  (forall j y, j <> i -> nth_error l j = Some y -> f y = None) -> first_some f l = f x.
Proof.
  induction l as [|a r IH]; intros i x Hn H; [destruct i; discriminate|].
  destruct i as [|i]; simpl in Hn.
  - inversion Hn; subst. simpl. destruct (f x); [reflexivity|]. apply first_some_none.
    intros y Hy. destruct (In_nth_error _ _ Hy) as [j Hj]. apply (H (S j) y); [lia|exact Hj].
  - simpl. rewrite (H 0 a ltac:(lia) eq_refl). apply (IH i x Hn). intros j y Hj Hy. apply (H (S j) y); [lia|exact Hy].
Qed.

Lemma flat_increasing_each {B} (atoms_of : B -> list atom) bs : increasing (serials (flat_map atoms_of bs)) = true ->
  forall b, In b bs -> increasing (serials (atoms_of b)) = true.
Proof.
  induction bs as [|x r IH]; intros Hinc b []; subst.
  - apply (flat_increasing_tail B atoms_of b r Hinc).
  - apply IH; [apply (flat_increasing_tail B atoms_of x r Hinc)|assumption].
Qed.

Lemma lin_conf_absent c n alt : (forall a, In a (c_atoms c) -> a_serial a <> n) -> lin_conf c n alt = None.
Proof.
  intros H. unfold lin_conf. destruct (otext_eqb (c_alt c) alt); [|reflexivity].
  rewrite find_none; [reflexivity|]. intros i a Hn. apply H. eapply nth_error_In; eassumption.
Qed.
Lemma lin_res_absent r n alt : (forall a, In a (r_atoms r) -> a_serial a <> n) -> lin_res r n alt = None.
Proof.
  intros H. unfold lin_res. rewrite first_some_none; [reflexivity|].
  intros c Hc. apply lin_conf_absent. intros a Ha. apply H. unfold r_atoms. apply in_flat_map. exists c. auto.
Qed.
Lemma lin_res_bfind r n alt : increasing (serials (r_atoms r)) = true ->
  lin_res r n alt = option_map (fun ac => (ac, r)) (Residue_bfind r n alt).
Proof.
  intros H. unfold lin_res, Residue_bfind. rewrite Residue_bfind_linear; [reflexivity|].
  apply (flat_increasing_each c_atoms (r_confs r) H).
Qed.

Theorem Chain_bfind_linear c n alt : (forall r, In r (ch_residues c) -> r_atoms r <> []) -> increasing (serials (ch_atoms c)) = true ->
  option_map (fun x => (x, c)) (Chain_bfind range_cmp c n alt) = lin_chain c n alt.
Proof.
  intros Hne Hinc. unfold lin_chain. f_equal. unfold Chain_bfind.
  pose proof (block_search residue r_atoms n (ch_residues c) Hne Hinc) as BS.
  destruct (bsearch_by _ (ch_residues c)) as [i|].
  - destruct BS as (r & Er & _ & Hother). rewrite Er.
    rewrite (first_some_at (fun r0 => lin_res r0 n alt) (ch_residues c) i r Er).
    + symmetry. apply lin_res_bfind. apply (flat_increasing_each r_atoms (ch_residues c) Hinc r). eapply nth_error_In; eassumption.
    + intros j y Hj Hy. apply lin_res_absent. apply (Hother j y Hj Hy).
  - symmetry. apply first_some_none. intros r Hr. apply lin_res_absent. apply (BS r Hr).
Qed.

Lemma lin_chain_absent c n alt : (forall a, In a (ch_atoms c) -> a_serial a <> n) -> lin_chain c n alt = None.
Proof.
  intros H. unfold lin_chain. rewrite first_some_none; [reflexivity|].
  intros r Hr. apply lin_res_absent. intros a Ha. apply H. unfold ch_atoms. apply in_flat_map. exists r. auto.
Qed.
Theorem Model_bfind_linear m n alt :
  (forall c, In c (m_chains m) -> ch_atoms c <> [] /\ forall r, In r (ch_residues c) -> r_atoms r <> []) ->
  increasing (serials (m_atoms m)) = true ->
  option_map (fun x => (x, m)) (Model_bfind range_cmp m n alt) = lin_model m n alt.
Proof.
  intros Hne Hinc. unfold lin_model. f_equal. unfold Model_bfind.
  pose proof (block_search chain ch_atoms n (m_chains m) (fun c Hc => proj1 (Hne c Hc)) Hinc) as BS.
  destruct (bsearch_by _ (m_chains m)) as [i|].
  - destruct BS as (c & Ec & _ & Hother). rewrite Ec.
    rewrite (first_some_at (fun c0 => lin_chain c0 n alt) (m_chains m) i c Ec).
    + apply Chain_bfind_linear; [apply (Hne c (nth_error_In _ _ Ec))|].
      apply (flat_increasing_each ch_atoms (m_chains m) Hinc c). eapply nth_error_In; eassumption.
    + intros j y Hj Hy. apply lin_chain_absent. apply (Hother j y Hj Hy).
  - symmetry. apply first_some_none. intros c Hc. apply lin_chain_absent. apply (BS c Hc).
Qed.
Theorem PDB_bfind_linear p n alt :
  match p with
  | [] => True
  | m :: _ => (forall c, In c (m_chains m) -> ch_atoms c <> [] /\ forall r, In r (ch_residues c) -> r_atoms r <> []) /\
              increasing (serials (m_atoms m)) = true
  end -> PDB_bfind range_cmp p n alt = lin_pdb p n alt.
Proof.
  destruct p as [|m r]; [reflexivity|]. intros [Hne Hinc]. unfold PDB_bfind, lin_pdb. apply Model_bfind_linear; assumption.
Qed.
