(* C01: HEADER and REMARK records in the run.  They leave the coordinate part of the reader state alone, so the simulation of
   Proofs/C01models.v goes through a file in which they stand between the coordinate records, and the identifier and the
   remarks the reader model ends with are the ones the specification reads off the records (last HEADER, every REMARK in
   file order). *)
From Coq Require Import List Ascii String ZArith Bool Lia.
From PV Require Import Base.Sx Base.Text Base.Group Spec.Hier Spec.PdbSpec Model.AddAtom Model.Symmetry Model.PdbLex Model.PdbParse
                       Proofs.C01group Proofs.C01sim Proofs.C01models.
Import ListNotations.
Local Open Scope list_scope.
Local Open Scope Z_scope.

(* a REMARK the structure accepts: a remark-type-number of the format, a text of valid characters *)
Definition remark_ok (n : Z) (t : text) : Prop :=
  existsb (Z.eqb n) Gen.NameTables.REMARK_TYPES = true /\ valid_text (trim_r t) = true.
Definition file_rec (r : rec) : Prop :=
  match r with RHeader _ | RCryst _ _ => True | RRemark n t => remark_ok n t | _ => coord_rec r end.
Definition file_item (r : rec) : lexitem :=
  match r with
  | RHeader id => LHeader id | RRemark n t => LRemark n (trim_r t) | RCryst cell sg => LCrystal (map dec cell) sg
  | _ => coord_item r
  end.

Section Meta.
Variable first_only : bool.
Hypothesis all_models : first_only = false.
Definition stepf (s : st) (x : Z * rec) : st := step_item false first_only s (fst x) (file_item (snd x)).

(* the metadata records do not touch what the simulation speaks about *)
Lemma simm_header w s ln id : simm w s -> simm (walk_step w (RHeader id)) (step_item false first_only s ln (LHeader id)).
Proof. intros [[S1 S2 S3 S4 S5 S6 S7 S8] N K M R]. constructor; [constructor|..]; cbn [walk_step step_item]; assumption. Qed.
Lemma simm_remark w s ln n t : simm w s -> simm (walk_step w (RRemark n t)) (step_item false first_only s ln (LRemark n (trim_r t))).
Proof.
  intros [[S1 S2 S3 S4 S5 S6 S7 S8] N K M R]. cbn [walk_step step_item].
  destruct (existsb (Z.eqb n) Gen.NameTables.REMARK_TYPES && valid_text (trim_r t))%bool; constructor; try constructor; cbn; assumption.
Qed.
Lemma simm_cryst w s ln cell sg : simm w s -> simm (walk_step w (RCryst cell sg)) (step_item false first_only s ln (LCrystal (map dec cell) sg)).
Proof. intros [[S1 S2 S3 S4 S5 S6 S7 S8] N K M R]. constructor; [constructor|..]; cbn [walk_step step_item]; assumption. Qed.
Theorem simm_file_run (rs : list (Z * rec)) : Forall (fun x => file_rec (snd x)) rs -> forall w s, simm w s ->
  simm (fold_left walk_step (map snd rs) w) (fold_left stepf rs s).
Proof.
  induction 1 as [|[ln r] rest Hr Hrest IH]; intros w s S; [exact S|].
  cbn [map fold_left fst snd]. apply IH. unfold stepf. cbn [fst snd]. destruct r; cbn [file_rec] in Hr; cbn [file_item coord_item].
  - apply (simm_model first_only all_models). exact S.
  - apply simm_endmdl. exact S.
  - apply simm_ter. exact S.
  - apply simm_atom; assumption.
  - apply simm_header. exact S.
  - apply simm_remark. exact S.
  - apply simm_cryst. exact S.
  - contradiction. - contradiction. - contradiction. - contradiction. - contradiction. - contradiction.
Qed.

(* identifier, remarks, cell and space group: what each kind of item does to them *)
Definition id_step (acc : option text) (r : rec) : option text := match r with RHeader id => Some (trim id) | _ => acc end.
Definition remark_of (r : rec) : list (Z * text) := match r with RRemark n t => [(n, trim_r t)] | _ => [] end.
Definition cell_step (acc : option (list fval)) (r : rec) : option (list fval) := match r with RCryst cell _ => Some (map dec cell) | _ => acc end.
Definition sym_step (acc : option nat) (r : rec) : option nat := match r with RCryst _ sg => Symmetry_of sg | _ => acc end.
Lemma step_meta s ln r : file_rec r ->
  let t := step_item false first_only s ln (file_item r) in
  s_id t = id_step (s_id s) r /\ s_remarks t = s_remarks s ++ remark_of r /\ s_cell t = cell_step (s_cell s) r /\ s_sym t = sym_step (s_sym s) r.
Proof.
  intros H. destruct r; cbn [file_rec coord_rec] in H; cbn [file_item coord_item id_step remark_of cell_step sym_step]; try contradiction.
  - (* MODEL *) cbn [step_item]. rewrite app_nil_r. destruct (is_nil (s_cur s)); repeat split; reflexivity.
  - (* ENDMDL *) cbn [step_item]. rewrite app_nil_r. repeat split; reflexivity.
  - (* TER *) cbn [step_item]. rewrite app_nil_r. repeat split; reflexivity.
  - (* ATOM *) rewrite app_nil_r. unfold item_of, step_item. cbn [andb].
    destruct (Atom_new _ _ _ _ _ _ _ _ _ _ _) as [x|]; [|repeat split; reflexivity].
    match goal with |- context [(valid_text ?c && ?p && ?q)%bool] => destruct (valid_text c && p && q)%bool end; repeat split; reflexivity.
  - (* HEADER *) cbn [step_item s_id s_remarks]. rewrite app_nil_r. repeat split; reflexivity.
  - (* REMARK *) destruct H as [H1 H2]. cbn [step_item]. rewrite H1, H2. cbn [andb s_id s_remarks]. repeat split; reflexivity.
  - (* CRYST1 *) cbn [step_item s_id s_remarks s_cell s_sym]. rewrite app_nil_r. repeat split; reflexivity.
Qed.

Theorem meta_run (rs : list (Z * rec)) : Forall (fun x => file_rec (snd x)) rs -> forall s,
  s_id (fold_left stepf rs s) = fold_left id_step (map snd rs) (s_id s) /\
  s_remarks (fold_left stepf rs s) = s_remarks s ++ flat_map remark_of (map snd rs) /\
  s_cell (fold_left stepf rs s) = fold_left cell_step (map snd rs) (s_cell s) /\
  s_sym (fold_left stepf rs s) = fold_left sym_step (map snd rs) (s_sym s).
Proof.
  induction 1 as [|[ln r] rest Hr Hrest IH]; intros s; cbn [fold_left map flat_map fst snd]; [now rewrite app_nil_r|].
  destruct (IH (stepf s (ln, r))) as (I1 & I2 & I3 & I4). rewrite I1, I2, I3, I4. destruct (step_meta s ln r Hr) as (E1 & E2 & E3 & E4).
  change (stepf s (ln, r)) with (step_item false first_only s ln (file_item r)). rewrite E1, E2, E3, E4, <- app_assoc. repeat split; reflexivity.
Qed.

Lemma last_header_fold rs : forall acc,
  fold_left (fun acc r => match (match r with RHeader id => Some (trim id) | _ => None end) with Some x => Some x | None => acc end) rs acc
  = fold_left id_step rs acc.
Proof.
  induction rs as [|r t IH]; intros acc; [reflexivity|]. cbn [fold_left]. rewrite IH. f_equal. destruct r; reflexivity.
Qed.
Lemma denote_id_fold rs : denote_id rs = fold_left id_step rs None.
Proof. unfold denote_id, last_some. apply last_header_fold. Qed.
Lemma denote_remarks_flat rs : denote_remarks rs = flat_map remark_of rs.
Proof. unfold denote_remarks. induction rs as [|r t IH]; [reflexivity|]. cbn [flat_map]. rewrite IH. destruct r; reflexivity. Qed.

Lemma last_cell_fold rs : forall acc,
  fold_left (fun acc r => match (match r with RCryst cell _ => Some (map dec cell) | _ => None end) with Some x => Some x | None => acc end) rs acc
  = fold_left cell_step rs acc.
Proof.
  induction rs as [|r t IH]; intros acc; [reflexivity|]. cbn [fold_left]. rewrite IH. f_equal. destruct r; reflexivity.
Qed.
Lemma denote_cell_fold rs : denote_cell rs = fold_left cell_step rs None.
Proof. unfold denote_cell, last_some. apply last_cell_fold. Qed.
Lemma denote_sym_fold rs : forall (sg : option text) (acc : option nat),
  acc = match sg with Some g => Symmetry_of g | None => None end ->
  match fold_left (fun a r => match (match r with RCryst _ g => Some g | _ => None end) with Some x => Some x | None => a end) rs sg with
  | Some g => Symmetry_of g | None => None end = fold_left sym_step rs acc.
Proof.
  induction rs as [|r t IH]; intros sg acc E; cbn [fold_left]; [now rewrite E|]. apply IH. destruct r; cbn [sym_step]; try exact E. reflexivity.
Qed.

(* from the start of a file: identifier, remarks, cell, space group and models are what the records state *)
Corollary reader_reads_metadata_and_models (rs : list (Z * rec)) : Forall (fun x => file_rec (snd x)) rs ->
  let s := fold_left stepf rs st0 in
  let recs := map snd rs in
  s_id s = denote_id recs /\ s_remarks s = denote_remarks recs /\ s_cell s = denote_cell recs /\
  s_sym s = match denote_sg recs with Some sg => Symmetry_of sg | None => None end /\
  map abs_model (s_models s ++ match s_cur s with [] => [] | c => [model_of_cur (s_cur_num s) c] end) =
  map (fun m => (fst m, spec_chains atom (snd m))) (close_model (fold_left walk_step recs walk0)).
Proof.
  intros H s recs. destruct (meta_run rs H st0) as (I & R & Ce & Sy). fold s in I, R, Ce, Sy. cbn [st0 s_id s_remarks s_cell s_sym app] in I, R, Ce, Sy.
  split; [rewrite I; symmetry; apply denote_id_fold|]. split; [rewrite R; symmetry; apply denote_remarks_flat|].
  split; [rewrite Ce; symmetry; apply denote_cell_fold|].
  split; [rewrite Sy; unfold denote_sg, last_some; symmetry; apply denote_sym_fold; reflexivity|].
  destruct (simm_file_run rs H walk0 st0 simm_start) as [S N K M Rn]. fold s recs in S, N, K, M, Rn.
  pose proof (sim_cur _ _ S) as C. unfold close_model. rewrite map_app, M.
  destruct (s_cur s) as [|x t] eqn:E.
  - cbn [abs_cur map] in C. symmetry in C. apply spec_chains_nil in C. fold recs. rewrite C. cbn [map]. now rewrite app_nil_r.
  - fold recs. destruct (w_cur (fold_left walk_step recs walk0)) as [|k r] eqn:Ew; [discriminate C|]. rewrite map_app. cbn [map fst snd].
    rewrite <- E in *. rewrite (abs_model_of_cur _ _ K), C, N. reflexivity.
Qed.
End Meta.
