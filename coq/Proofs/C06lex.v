(* C06: the fuel of the mmCIF lexer model never runs out - every loop iteration consumes at least one character. *)
From Coq Require Import List Ascii String ZArith Bool Lia.
From PV Require Import Base.Sx Base.Text Spec.Hier Model.PdbLex Model.CifLex.
Import ListNotations.

Local Notation len := (@List.length ascii).

Lemma tcw_len b t : len (tcw b t) <= len t.
Proof.
  revert b; induction t as [|c r IH]; intros b; simpl; [lia|].
  destruct b.
  - destruct (is_eol c); [specialize (IH false)|specialize (IH true)]; lia.
  - destruct (is_tws c); [specialize (IH false); lia|].
    destruct (Ascii.eqb c "#"); [specialize (IH true); lia|simpl; lia].
Qed.

Lemma strip_ci_len p t t' : strip_ci p t = Some t' -> len t' + len p = len t.
Proof.
  revert t; induction p as [|x ps IH]; intros t H; simpl in *.
  - inversion H; subst; lia.
  - destruct t as [|c cs]; [discriminate|].
    destruct (Ascii.eqb x (lower_char c)); [|discriminate].
    apply IH in H. simpl. lia.
Qed.
Lemma starts_ci_len p t t' : starts_ci p t = Some t' -> len t' + len (stext p) = len t.
Proof. apply strip_ci_len. Qed.

Lemma span_id_len t : len (snd (span_id t)) <= len t.
Proof.
  induction t as [|c r IH]; simpl; [lia|].
  destruct (is_aws c); simpl; [lia|].
  destruct (span_id r) as [a b]; simpl in *; lia.
Qed.
Lemma span_id_cons c r : is_aws c = false -> len (snd (span_id (c :: r))) <= len r.
Proof.
  intros H. simpl. rewrite H. pose proof (span_id_len r) as L.
  destruct (span_id r) as [a b]; simpl in *; lia.
Qed.

Lemma enclosed_len pat r acc s rest : enclosed pat r acc = Some (s, rest) -> len rest < len r.
Proof.
  revert acc; induction r as [|c r' IH]; intros acc H; simpl in *; [discriminate|].
  destruct (Ascii.eqb c pat); [inversion H; subst; lia|].
  destruct (is_eol c); [discriminate|].
  apply IH in H; lia.
Qed.
Lemma text_field_len e r acc s rest : text_field e r acc = Some (s, rest) -> len rest < len r.
Proof.
  revert e acc; induction r as [|c r' IH]; intros e acc H; simpl in *; [discriminate|].
  destruct (e && Ascii.eqb c ";")%bool; [inversion H; subst; lia|].
  apply IH in H; lia.
Qed.

Lemma ordinary_not_ws c : is_ordinary c = true -> is_aws c = false.
Proof.
  destruct c as [b0 b1 b2 b3 b4 b5 b6 b7].
  destruct b0, b1, b2, b3, b4, b5, b6, b7; vm_compute; congruence.
Qed.

(* parse_value never lengthens the text, and a value costs at least one character *)
Lemma parse_value_len t : len (snd (parse_value t)) <= len t /\
  (forall v, fst (parse_value t) = inl v -> len (snd (parse_value t)) < len t).
Proof.
  unfold parse_value.
  pose proof (tcw_len false t) as L0.
  destruct (tcw false t) as [|c r] eqn:E; [simpl; split; [lia|discriminate]|].
  assert (Lc : S (len r) <= len t) by (simpl in L0; lia).
  destruct (reserved (c :: r)); [simpl; split; [lia|discriminate]|].
  destruct (Ascii.eqb c ".") eqn:Edot.
  { apply Ascii.eqb_eq in Edot; subst c.
    pose proof (span_id_cons "."%char r eq_refl) as Ls.
    destruct (span_id ("."%char :: r)) as [id rest]; simpl in Ls.
    destruct (parse_numeric id); simpl; split; intros; lia. }
  destruct (Ascii.eqb c "?"); [simpl; split; intros; lia|].
  destruct (Ascii.eqb c "'").
  { destruct (enclosed "'" r []) as [[s rest]|] eqn:En; simpl; [apply enclosed_len in En; split; intros; lia|split; [lia|discriminate]]. }
  destruct (Ascii.eqb c """").
  { destruct (enclosed """" r []) as [[s rest]|] eqn:En; simpl; [apply enclosed_len in En; split; intros; lia|split; [lia|discriminate]]. }
  destruct (Ascii.eqb c ";").
  { destruct (text_field false r []) as [[s rest]|] eqn:En; simpl; [apply text_field_len in En; split; intros; lia|split; [lia|discriminate]]. }
  destruct (is_ordinary c) eqn:Eo; [|simpl; split; [lia|discriminate]].
  pose proof (span_id_cons c r (ordinary_not_ws c Eo)) as Ls.
  destruct (span_id (c :: r)) as [id rest]; simpl in Ls.
  destruct (parse_numeric id); simpl; split; intros; lia.
Qed.

Lemma values_total fuel : forall t, len t < fuel -> exists vs t', values fuel t = Some (vs, t') /\ len t' <= len t.
Proof.
  induction fuel as [|f IH]; intros t H; [lia|]. simpl.
  pose proof (parse_value_len t) as [L1 L2].
  destruct (parse_value t) as [[v|e] t1]; simpl in *.
  - specialize (L2 v eq_refl).
    destruct (IH t1) as (vs & t2 & E & L); [lia|]. rewrite E. exists (v :: vs), t2. split; [reflexivity|lia].
  - exists [], t1. split; [reflexivity|lia].
Qed.

Lemma headers_total fuel : forall t, len t < fuel -> exists hs t', headers fuel t = Some (hs, t') /\ len t' <= len t.
Proof.
  induction fuel as [|f IH]; intros t H; [lia|]. simpl.
  destruct (starts_ci "_" t) as [t1|] eqn:E.
  - apply starts_ci_len in E. simpl in E.
    pose proof (span_id_len t1) as Ls. destruct (span_id t1) as [n t2]; simpl in Ls.
    pose proof (tcw_len false t2) as Lt.
    destruct (IH (tcw false t2)) as (hs & t3 & E3 & L3); [lia|]. rewrite E3.
    exists (n :: hs), t3. split; [reflexivity|lia].
  - exists [], t. split; [reflexivity|lia].
Qed.

Definition is_ok {A B} (x : A + B) : bool := match x with inl _ => true | inr _ => false end.

Lemma parse_data_item_total fuel t : len t < fuel ->
  exists r t', parse_data_item fuel t = Some (r, t') /\ len t' <= len t /\ (is_ok r = true -> len t' < len t).
Proof.
  intros H. unfold parse_data_item.
  pose proof (tcw_len false t) as L0.
  destruct (starts_ci "loop_" (tcw false t)) as [t1|] eqn:El.
  - apply starts_ci_len in El. simpl in El.
    pose proof (tcw_len false t1) as L1.
    destruct (headers_total fuel (tcw false t1)) as (hs & t2 & E2 & L2); [lia|]. rewrite E2.
    destruct (values_total fuel t2) as (vs & t3 & E3 & L3); [lia|]. rewrite E3.
    destruct (Nat.eqb (List.length hs) 0); [eexists; eexists; split; [reflexivity|split; [lia|intros; lia]]|].
    destruct (Nat.eqb _ 0); eexists; eexists; (split; [reflexivity|split; [lia|intros; lia]]).
  - destruct (starts_ci "_" (tcw false t)) as [t1|] eqn:Eu.
    + apply starts_ci_len in Eu. simpl in Eu.
      pose proof (span_id_len t1) as Ls. destruct (span_id t1) as [n t2]; simpl in Ls.
      pose proof (parse_value_len t2) as [L1 _].
      destruct (parse_value t2) as [[v|e] t3]; simpl in L1; eexists; eexists; (split; [reflexivity|split; [lia|intros; lia]]).
    + eexists; eexists; split; [reflexivity|split; [lia|simpl; discriminate]].
Qed.

Lemma frame_items_total fuel : forall t, len t < fuel -> exists ds t', frame_items fuel t = Some (ds, t') /\ len t' <= len t.
Proof.
  induction fuel as [|f IH]; intros t H; [lia|].
  cbn [frame_items].
  destruct (parse_data_item_total (S f) t H) as (r & t1 & E & L & Lok). rewrite E.
  destruct r as [d|e].
  - specialize (Lok eq_refl).
    destruct (IH t1) as (ds & t2 & E2 & L2); [lia|]. rewrite E2. exists (d :: ds), t2. split; [reflexivity|lia].
  - exists [], t1. split; [reflexivity|lia].
Qed.

Lemma parse_item_total fuel t : len t < fuel -> t <> [] -> tcw false t = t ->
  exists r t', parse_item fuel t = Some (r, t') /\ len t' <= len t /\ (is_ok r = true -> len t' < len t).
Proof.
  intros H Hne Htr. unfold parse_item.
  destruct (starts_ci "save_" t) as [t1|] eqn:Es.
  - apply starts_ci_len in Es. simpl in Es.
    pose proof (span_id_len t1) as Ls. destruct (span_id t1) as [n t2]; simpl in Ls.
    destruct (frame_items_total fuel t2) as (ds & t3 & E3 & L3); [lia|]. rewrite E3.
    destruct (starts_ci "save_" t3) as [t4|] eqn:E4.
    + apply starts_ci_len in E4. simpl in E4. eexists; eexists; split; [reflexivity|split; [lia|intros; lia]].
    + eexists; eexists; split; [reflexivity|split; [lia|simpl; discriminate]].
  - destruct (parse_data_item_total fuel t H) as (r & t1 & E & L & Lok). rewrite E.
    destruct r as [d|e]; eexists; eexists; (split; [reflexivity|split; [lia|]]); simpl; [intros _; apply Lok; reflexivity|discriminate].
Qed.

Lemma tcw_idem t : tcw false (tcw false t) = tcw false t.
Proof.
  assert (G : forall b, tcw false (tcw b t) = tcw b t).
  { induction t as [|c r IH]; intros b; simpl; [reflexivity|].
    destruct b.
    - destruct (is_eol c); apply IH.
    - destruct (is_tws c) eqn:E1; [apply IH|].
      destruct (Ascii.eqb c "#") eqn:E2; [apply IH|].
      simpl. rewrite E1, E2. reflexivity. }
  apply G.
Qed.

Lemma block_items_total fuel : forall t, len t < fuel -> block_items fuel t <> None.
Proof.
  induction fuel as [|f IH]; intros t H; [lia|].
  cbn [block_items].
  pose proof (tcw_len false t) as L0. pose proof (tcw_idem t) as Hi.
  destruct (tcw false t) as [|c r] eqn:E; [discriminate|].
  destruct (parse_item_total (S f) (c :: r)) as (res & t1 & E1 & L1 & Lok); [lia|discriminate|exact Hi|].
  rewrite E1. destruct res as [it|e]; [|discriminate].
  specialize (Lok eq_refl).
  specialize (IH t1). destruct (block_items f t1) as [[its|e]|]; [discriminate|discriminate|]. apply IH. lia.
Qed.

Theorem lex_cif_total input : lex_cif input <> None.
Proof.
  unfold lex_cif, lex_cif_fuel.
  pose proof (tcw_len false input) as L0.
  destruct (starts_ci "data_" (tcw false input)) as [t1|] eqn:E; [|discriminate].
  apply starts_ci_len in E. simpl in E.
  pose proof (span_id_len t1) as Ls. destruct (span_id t1) as [n t2]; simpl in Ls.
  pose proof (block_items_total (S (S (len input))) t2) as B.
  destruct (block_items _ t2) as [[its|e]|]; [discriminate|discriminate|]. exfalso. apply B; [lia|reflexivity].
Qed.
