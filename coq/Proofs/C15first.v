(* C15: only_first_model in the two reader models - nothing changes until the record that starts a second model, that
   record closes the first model and stops the reader, and a stopped reader ignores the rest of the input. *)
From Coq Require Import List Ascii String ZArith Bool Lia.
From PV Require Import Base.Sx Base.Text Spec.Hier Model.PdbLex Model.PdbParse Model.CifLex Model.CifParse.
Import ListNotations.

(* ---------- PDB ---------- *)
(* the record that starts a further model: a MODEL record met while the model being built has atoms *)
Definition starts_second_model (ao loose : bool) (s : st) (nl : Z * text) : bool :=
  match lex_line (fst nl) (snd nl) ao loose with
  | inl (LModel _, _) => negb (is_nil (s_cur s))
  | _ => false
  end.
Theorem pdb_first_model_same_before dh ao loose s nl : starts_second_model ao loose s nl = false ->
  step_line dh true ao loose s nl = step_line dh false ao loose s nl.
Proof.
  unfold starts_second_model, step_line. intros H. destruct (s_stop s); [reflexivity|].
  destruct (lex_line (fst nl) (snd nl) ao loose) as [[it errs]|e]; [|reflexivity].
  destruct it; try reflexivity.
  (* a MODEL record while the current model is empty *)
  apply negb_false_iff in H. cbn [step_item]. unfold up_errors. cbn [s_cur]. rewrite H. reflexivity.
Qed.
Theorem pdb_stopped_reader_ignores_rest dh fo ao loose lines : forall s, s_stop s = true ->
  fold_left (step_line dh fo ao loose) lines s = s.
Proof.
  induction lines as [|nl r IH]; intros s H; [reflexivity|]. cbn [fold_left]. unfold step_line at 2. rewrite H. apply IH. exact H.
Qed.
(* what that record does under the option: the model built so far is closed exactly as without the option, no new model is
   opened (the model number in the record is not taken), and the reader stops *)
Theorem pdb_second_model_record_stops dh ao loose s nl : s_stop s = false -> starts_second_model ao loose s nl = true ->
  let t := step_line dh true ao loose s nl in
  let u := step_line dh false ao loose s nl in
  s_stop t = true /\ s_models t = s_models u /\ s_cur t = [] /\ s_cur u = [] /\ s_errors t = s_errors u /\
  s_cur_num t = s_cur_num s.
Proof.
  unfold starts_second_model, step_line. intros Hs H. rewrite Hs.
  destruct (lex_line (fst nl) (snd nl) ao loose) as [[it errs]|e]; [|discriminate].
  destruct it; try discriminate. apply negb_true_iff in H.
  cbn [step_item]. unfold up_errors. cbn [s_cur]. rewrite H. cbn [negb andb].
  repeat split.
Qed.
(* and so, for any input, the reader under the option is the unrestricted reader on the lines before that record, followed by
   that one step *)
Fixpoint before_second_model (dh ao loose : bool) (lines : list (Z * text)) (s : st) : list (Z * text) * option (Z * text) :=
  match lines with
  | [] => ([], None)
  | nl :: r =>
      if s_stop s then ([], None) else
      if starts_second_model ao loose s nl then ([], Some nl)
      else let '(pre, hit) := before_second_model dh ao loose r (step_line dh false ao loose s nl) in (nl :: pre, hit)
  end.
Theorem pdb_only_first_model_is_a_prefix dh ao loose : forall lines s, s_stop s = false ->
  fold_left (step_line dh true ao loose) lines s =
  let '(pre, hit) := before_second_model dh ao loose lines s in
  let s' := fold_left (step_line dh false ao loose) pre s in
  match hit with Some nl => step_line dh true ao loose s' nl | None => s' end.
Proof.
  induction lines as [|nl r IH]; intros s Hs; [reflexivity|].
  cbn [fold_left before_second_model]. rewrite Hs.
  destruct (starts_second_model ao loose s nl) eqn:E.
  - cbn [fold_left]. destruct (pdb_second_model_record_stops dh ao loose s nl Hs E) as (Ht & _).
    apply pdb_stopped_reader_ignores_rest. exact Ht.
  - rewrite (pdb_first_model_same_before dh ao loose s nl E).
    set (s1 := step_line dh false ao loose s nl).
    destruct (s_stop s1) eqn:Hs1.
    + (* the unrestricted reader never stops by itself; kept general *)
      rewrite (pdb_stopped_reader_ignores_rest dh true ao loose r s1 Hs1).
      destruct r as [|nl2 r2]; cbn [before_second_model fold_left]; [reflexivity|]. rewrite Hs1. reflexivity.
    + rewrite (IH s1 Hs1). destruct (before_second_model dh ao loose r s1) as [pre hit]. reflexivity.
Qed.
