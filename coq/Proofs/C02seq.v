(* C02: the lexer inverts the printer on whole value sequences - any tokens, any legal spelling of each, any white space and
   comments between them. *)
From Coq Require Import List Ascii String ZArith Bool Lia Arith.
From PV Require Import Base.Sx Base.Text Spec.Hier Model.PdbLex Model.CifLex Proofs.C06lex Proofs.C02lay Proofs.C02col.
Import ListNotations.

(* white space and whole comments *)
Inductive gap : text -> Prop :=
| gap_nil : gap []
| gap_ws c g : is_tws c = true -> gap g -> gap (c :: g)
| gap_comment body e g : forallb (fun x => negb (is_eol x)) body = true -> is_eol e = true -> gap g ->
    gap ("#"%char :: body ++ e :: g).
Lemma gap_skipped g t : gap g -> tcw false (g ++ t) = tcw false t.
Proof.
  induction 1 as [|c g Hc Hg IH|body e g Hb He Hg IH]; [reflexivity| |].
  - simpl. rewrite Hc. exact IH.
  - replace (("#"%char :: body ++ e :: g) ++ t)%list with ("#"%char :: body ++ e :: (g ++ t))%list
      by (simpl; rewrite <- app_assoc; reflexivity).
    rewrite (tcw_comment body e (g ++ t) Hb He). exact IH.
Qed.
(* a separator: a gap that starts with a white space character (so that it ends a bare word) *)
Definition separator (g : text) : Prop := exists c g', g = c :: g' /\ is_tws c = true /\ gap g'.
Lemma separator_gap g : separator g -> gap g.
Proof. intros (c & g' & -> & Hc & Hg). now constructor. Qed.
Definition ends_word (rest : text) : Prop := match rest with [] => True | x :: _ => is_aws x = true end.
Lemma tws_aws c : is_tws c = true -> is_aws c = true.
Proof.
  unfold is_tws, is_aws. intros H. repeat (apply orb_prop in H as [H|H]); rewrite H; repeat rewrite orb_true_r; reflexivity.
Qed.
Lemma separator_ends_word g rest : separator g -> ends_word (g ++ rest).
Proof. intros (c & g' & -> & Hc & _). simpl. apply tws_aws. exact Hc. Qed.

(* the legal spellings of a value *)
Inductive spelled : text -> cval -> Prop :=
| sp_bare c w : is_ordinary c = true -> Ascii.eqb c "." = false -> Ascii.eqb c "?" = false ->
    forallb (fun x => negb (is_aws x)) w = true ->
    (forall rest, ends_word rest -> reserved (c :: w ++ rest) = false) ->
    spelled (c :: w) (match parse_numeric (c :: w) with Some v => v | None => VText (c :: w) end)
| sp_single s : forallb (fun c => negb (Ascii.eqb c "'") && negb (is_eol c))%bool s = true ->
    spelled ("'"%char :: s ++ ["'"%char]) (VText s)
| sp_double s : forallb (fun c => negb (Ascii.eqb c """") && negb (is_eol c))%bool s = true ->
    spelled (""""%char :: s ++ [""""%char]) (VText s)
| sp_field s nl : field_clean false s = true -> is_eol nl = true ->
    spelled (";"%char :: s ++ [nl; ";"%char]) (VText (s ++ [nl]))
| sp_inapplicable : spelled ["."%char] VInap
| sp_unknown : spelled ["?"%char] VUnk.

Lemma parse_value_gap g t : gap g -> parse_value (g ++ t) = parse_value t.
Proof. intros H. unfold parse_value. rewrite (gap_skipped g t H). reflexivity. Qed.

Lemma spelled_parses s v rest : spelled s v -> ends_word rest -> parse_value (s ++ rest) = (inl v, rest).
Proof.
  intros H Hr. destruct H as [c w Ho Hd Hq Hw Hres|s Hs|s Hs|s nl Hs Hn| |].
  - cbn [app]. apply bare_word; auto.
  - replace (("'"%char :: s ++ ["'"%char]) ++ rest)%list with ("'"%char :: s ++ "'"%char :: rest)%list
      by (simpl; rewrite <- app_assoc; reflexivity).
    unfold parse_value. rewrite tcw_stop by reflexivity.
    assert (R : reserved ("'"%char :: s ++ "'"%char :: rest) = false) by reflexivity. rewrite R.
    cbn [Ascii.eqb Bool.eqb]. cbv iota. rewrite (enclosed_content "'" s rest [] Hs). reflexivity.
  - replace ((""""%char :: s ++ [""""%char]) ++ rest)%list with (""""%char :: s ++ """"%char :: rest)%list
      by (simpl; rewrite <- app_assoc; reflexivity).
    unfold parse_value. rewrite tcw_stop by reflexivity.
    assert (R : reserved (""""%char :: s ++ """"%char :: rest) = false) by reflexivity. rewrite R.
    cbn [Ascii.eqb Bool.eqb]. cbv iota. rewrite (enclosed_content """" s rest [] Hs). reflexivity.
  - replace ((";"%char :: s ++ [nl; ";"%char]) ++ rest)%list with (";"%char :: s ++ nl :: ";"%char :: rest)%list
      by (simpl; rewrite <- app_assoc; reflexivity).
    unfold parse_value. rewrite tcw_stop by reflexivity.
    assert (R : reserved (";"%char :: s ++ nl :: ";"%char :: rest) = false) by reflexivity. rewrite R.
    cbn [Ascii.eqb Bool.eqb]. cbv iota. rewrite (text_field_content s false [] nl rest Hs Hn eq_refl). reflexivity.
  - cbn [app]. unfold parse_value. rewrite tcw_stop by reflexivity.
    assert (R : reserved ("."%char :: rest) = false) by reflexivity. rewrite R.
    cbn [Ascii.eqb Bool.eqb]. cbv iota.
    assert (S : span_id ("."%char :: rest) = (["."%char], rest)).
    { apply (span_id_word ["."%char] rest); [reflexivity|exact Hr]. }
    rewrite S. reflexivity.
  - cbn [app]. unfold parse_value. rewrite tcw_stop by reflexivity.
    assert (R : reserved ("?"%char :: rest) = false) by reflexivity. rewrite R. reflexivity.
Qed.

(* a printed sequence of values: every token after a separator *)
Fixpoint render (toks : list (text * text)) : text :=
  match toks with [] => [] | (g, s) :: r => (g ++ s ++ render r)%list end.
Inductive tokens : list (text * text) -> list cval -> Prop :=
| tokens_nil : tokens [] []
| tokens_cons g s v r vs : separator g -> spelled s v -> tokens r vs -> tokens ((g, s) :: r) (v :: vs).

Lemma render_ends_word toks vs tail : tokens toks vs -> ends_word tail -> ends_word (render toks ++ tail).
Proof.
  intros H Ht. destruct H as [|g s v r vs Hg Hs Hr]; [exact Ht|].
  cbn [render]. rewrite <- app_assoc. apply separator_ends_word. exact Hg.
Qed.

(* the loop of the lexer reads back exactly the values, and goes on with what follows them *)
Theorem values_render toks vs : tokens toks vs -> forall fuel tail, ends_word tail ->
  values (List.length toks + fuel) (render toks ++ tail) =
  option_map (fun r : list cval * text => (vs ++ fst r, snd r)%list) (values fuel tail).
Proof.
  induction 1 as [|g s v r vs Hg Hs Hr IH]; intros fuel tail Ht.
  - simpl. destruct (values fuel tail) as [[a b]|]; reflexivity.
  - cbn [List.length Nat.add render values].
    replace ((g ++ s ++ render r) ++ tail)%list with (g ++ (s ++ (render r ++ tail)))%list by (rewrite <- !app_assoc; reflexivity).
    rewrite (parse_value_gap g _ (separator_gap g Hg)).
    rewrite (spelled_parses s v (render r ++ tail) Hs (render_ends_word r vs tail Hr Ht)).
    rewrite (IH fuel tail Ht). destruct (values fuel tail) as [[a b]|]; reflexivity.
Qed.

(* ---------- a whole loop ---------- *)
Lemma values_stop f tail e tail' : parse_value tail = (inr e, tail') -> values (S f) tail = Some ([], tail').
Proof. intros H. cbn [values]. rewrite H. reflexivity. Qed.

(* the first value may follow the last header directly after the gap the header loop has skipped *)
Lemma values_render_from s v r vs fuel tail e tail' : spelled s v -> tokens r vs -> ends_word tail ->
  parse_value tail = (inr e, tail') -> (List.length r < fuel)%nat ->
  values (S fuel) (s ++ render r ++ tail) = Some (v :: vs, tail').
Proof.
  intros Hs Hr Ht Hstop Hf. cbn [values].
  rewrite (spelled_parses s v (render r ++ tail) Hs (render_ends_word r vs tail Hr Ht)).
  replace fuel with (List.length r + S (fuel - List.length r - 1))%nat by lia.
  rewrite (values_render r vs Hr _ tail Ht), (values_stop _ tail e tail' Hstop). simpl. rewrite app_nil_r. reflexivity.
Qed.

(* header names: words without white space, each after a separator, written with their underscore *)
Fixpoint render_headers (hs : list (text * text)) : text :=
  match hs with [] => [] | (g, n) :: r => (g ++ "_"%char :: n ++ render_headers r)%list end.
Definition header_ok (gn : text * text) : Prop := separator (fst gn) /\ forallb (fun x => negb (is_aws x)) (snd gn) = true.

Lemma spelled_not_tag s v rest : spelled s v -> starts_ci "_" (s ++ rest) = None /\ tcw false (s ++ rest) = (s ++ rest)%list.
Proof.
  intros H. destruct H as [c w Ho Hd Hq Hw Hres|s Hs|s Hs|s nl Hs Hn| |]; cbn [app].
  - destruct (ordinary_facts c Ho) as (T1 & T2 & _). split; [|apply tcw_stop; assumption].
    unfold starts_ci. cbn [stext list_ascii_of_string strip_ci].
    destruct c as [[] [] [] [] [] [] [] []]; try reflexivity; vm_compute in Ho; discriminate.
  - split; reflexivity.
  - split; reflexivity.
  - split; reflexivity.
  - split; reflexivity.
  - split; reflexivity.
Qed.

Lemma headers_render hs : Forall header_ok hs -> forall fuel g s v rest, gap g -> spelled s v ->
  (List.length hs < fuel)%nat -> separator g \/ hs = [] ->
  headers fuel (tcw false (render_headers hs ++ g ++ s ++ rest)) = Some (map snd hs, (s ++ rest)%list).
Proof.
  induction 1 as [|[g0 n] r [Hg0 Hn] Hr IH]; intros fuel g s v rest Hg Hs Hf Hsep.
  - cbn [render_headers app map]. rewrite (gap_skipped g (s ++ rest) Hg).
    destruct (spelled_not_tag s v rest Hs) as [Hnt Htc]. rewrite Htc.
    destruct fuel as [|f]; [simpl in Hf; lia|]. cbn [headers]. rewrite Hnt. reflexivity.
  - destruct fuel as [|f]; [simpl in Hf; lia|].
    cbn [render_headers map]. cbn [fst snd] in *.
    replace ((g0 ++ "_"%char :: n ++ render_headers r) ++ g ++ s ++ rest)%list
      with (g0 ++ ("_"%char :: n ++ (render_headers r ++ g ++ s ++ rest)))%list by (rewrite <- !app_assoc; simpl; rewrite <- !app_assoc; reflexivity).
    rewrite (gap_skipped g0 _ (separator_gap g0 Hg0)).
    rewrite tcw_stop by reflexivity. cbn [headers].
    unfold starts_ci. cbn [stext list_ascii_of_string strip_ci lower_char]. cbv beta iota zeta.
    replace (Ascii.eqb "_" (lower_char "_")) with true by reflexivity.
    (* the name ends at the white space that follows it *)
    assert (Hw : ends_word (render_headers r ++ g ++ s ++ rest)).
    { destruct r as [|[g1 n1] r'].
      - cbn [render_headers app]. destruct Hsep as [Hsep|Hsep]; [|discriminate]. apply separator_ends_word. exact Hsep.
      - cbn [render_headers]. inversion Hr as [|x y [Hx _] Hy]; subst. cbn [fst] in Hx. rewrite <- app_assoc. apply separator_ends_word. exact Hx. }
    rewrite (span_id_word n _ Hn Hw).
    rewrite (IH f g s v rest Hg Hs ltac:(simpl in Hf; lia)).
    + reflexivity.
    + destruct Hsep as [Hsep|Hsep]; [left; exact Hsep|discriminate].
Qed.

(* a printed loop is read back as its header names and its values, cut into rows of the width of the header *)
Theorem loop_render g0 hs g s v r vs tail e tail' fuel :
  gap g0 -> hs <> [] -> Forall header_ok hs -> separator g -> spelled s v -> tokens r vs -> ends_word tail ->
  parse_value tail = (inr e, tail') ->
  (List.length hs < fuel)%nat -> (S (List.length r) < fuel)%nat ->
  Nat.modulo (List.length (v :: vs)) (List.length hs) = O ->
  parse_data_item fuel (g0 ++ stext "loop_" ++ render_headers hs ++ g ++ s ++ render r ++ tail) =
  Some (inl (DLoop (map snd hs) (chunk (S (List.length (v :: vs))) (List.length hs) (v :: vs))), tail').
Proof.
  intros Hg0 Hne Hh Hg Hs Hr Ht Hstop Hf1 Hf2 Hmod.
  unfold parse_data_item. rewrite (gap_skipped g0 _ Hg0).
  set (body := (render_headers hs ++ g ++ s ++ render r ++ tail)%list).
  assert (E1 : tcw false (stext "loop_" ++ body) = (stext "loop_" ++ body)%list) by reflexivity.
  rewrite E1.
  assert (E2 : starts_ci "loop_" (stext "loop_" ++ body) = Some body) by reflexivity.
  rewrite E2. unfold body.
  rewrite (headers_render hs Hh fuel g s v (render r ++ tail) (separator_gap g Hg) Hs Hf1 (or_introl Hg)).
  destruct fuel as [|f]; [lia|].
  rewrite (values_render_from s v r vs f tail e tail' Hs Hr Ht Hstop ltac:(lia)).
  rewrite map_length.
  destruct (List.length hs) as [|k] eqn:Ek; [destruct hs; [congruence|discriminate]|].
  cbn [Nat.eqb]. rewrite Hmod. reflexivity.
Qed.

(* a printed single item is read back as its name and its value *)
Theorem item_render g0 name g s v rest fuel :
  gap g0 -> forallb (fun x => negb (is_aws x)) name = true -> separator g -> spelled s v -> ends_word rest ->
  parse_data_item fuel (g0 ++ "_"%char :: name ++ g ++ s ++ rest) = Some (inl (DSingle name v), rest).
Proof.
  intros Hg0 Hn Hg Hs Hr. unfold parse_data_item. rewrite (gap_skipped g0 _ Hg0).
  rewrite tcw_stop by reflexivity.
  (* a tag is not the reserved word loop_ : it starts with an underscore *)
  assert (E1 : starts_ci "loop_" ("_"%char :: name ++ g ++ s ++ rest) = None) by reflexivity. rewrite E1.
  assert (E2 : starts_ci "_" ("_"%char :: name ++ g ++ s ++ rest) = Some (name ++ g ++ s ++ rest)%list) by reflexivity. rewrite E2.
  rewrite (span_id_word name (g ++ s ++ rest) Hn (separator_ends_word g (s ++ rest) Hg)).
  rewrite (parse_value_gap g (s ++ rest) (separator_gap g Hg)), (spelled_parses s v rest Hs Hr). reflexivity.
Qed.
