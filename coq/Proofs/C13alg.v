(* C13: proofs of the algebraic laws (ring / nsatz over Q); recompiled only when the model changes. *)
From Coq Require Import List QArith ZArith Bool Nsatz.
From PV Require Import Model.Transform.
Import ListNotations.
Local Open Scope Q_scope.

Lemma L13_apply_identity : forall p, pt_eq (apply identity p) p.
Proof. intros [[x y] z]. unfold apply, identity, pt_eq; simpl. repeat split; ring. Qed.

(* applying a combined transformation = applying its two parts in the stated order (first a, then b) *)
Lemma L13_apply_combine : forall a b p, pt_eq (apply (combine a b) p) (apply b (apply a p)).
Proof. intros a b [[x y] z]. destruct a, b. unfold apply, combine, pt_eq; simpl. repeat split; ring. Qed.
(* composition is associative on every point, so any bracketing of a chain of factors moves points alike *)
Lemma L13_combine_assoc : forall a b c p, pt_eq (apply (combine (combine a b) c) p) (apply (combine a (combine b c)) p).
Proof. intros a b c [[x y] z]. destruct a, b, c. unfold apply, combine, pt_eq; simpl. repeat split; ring. Qed.
Lemma L13_combine_identity : forall a p, pt_eq (apply (combine a identity) p) (apply a p) /\ pt_eq (apply (combine identity a) p) (apply a p).
Proof. intros a [[x y] z]. destruct a. unfold apply, combine, identity, pt_eq; simpl. repeat split; ring. Qed.

Lemma L13_translation_shift : forall dx dy dz x y z, pt_eq (apply (translation dx dy dz) (x, y, z)) (x + dx, y + dy, z + dz).
Proof. intros. unfold apply, translation, pt_eq; simpl. repeat split; ring. Qed.
Lemma L13_magnify_scales_distances : forall f p q, dist2 (apply (magnify f) p) (apply (magnify f) q) == f * f * dist2 p q.
Proof. intros f [[a b] c] [[d e] g]. unfold apply, magnify, dist2; simpl. ring. Qed.
Lemma L13_scale_axes : forall sx sy sz x y z, pt_eq (apply (scale sx sy sz) (x, y, z)) (x * sx, y * sy, z * sz).
Proof. intros. unfold apply, scale, pt_eq; simpl. repeat split; ring. Qed.

(* rotations preserve distances and angles (dot products of difference vectors) whenever c^2 + s^2 = 1 *)
Lemma L13_rot_x_isometry : forall c s p q o, c * c + s * s == 1 ->
  dist2 (apply (rot_x c s) p) (apply (rot_x c s) q) == dist2 p q /\
  dot (sub (apply (rot_x c s) p) (apply (rot_x c s) o)) (sub (apply (rot_x c s) q) (apply (rot_x c s) o)) == dot (sub p o) (sub q o).
Proof. intros c s [[a b] d] [[e f] g] [[h i] j] H. unfold apply, rot_x, dist2, dot, sub; simpl. split; nsatz. Qed.
Lemma L13_rot_y_isometry : forall c s p q o, c * c + s * s == 1 ->
  dist2 (apply (rot_y c s) p) (apply (rot_y c s) q) == dist2 p q /\
  dot (sub (apply (rot_y c s) p) (apply (rot_y c s) o)) (sub (apply (rot_y c s) q) (apply (rot_y c s) o)) == dot (sub p o) (sub q o).
Proof. intros c s [[a b] d] [[e f] g] [[h i] j] H. unfold apply, rot_y, dist2, dot, sub; simpl. split; nsatz. Qed.
Lemma L13_rot_z_isometry : forall c s p q o, c * c + s * s == 1 ->
  dist2 (apply (rot_z c s) p) (apply (rot_z c s) q) == dist2 p q /\
  dot (sub (apply (rot_z c s) p) (apply (rot_z c s) o)) (sub (apply (rot_z c s) q) (apply (rot_z c s) o)) == dot (sub p o) (sub q o).
Proof. intros c s [[a b] d] [[e f] g] [[h i] j] H. unfold apply, rot_z, dist2, dot, sub; simpl. split; nsatz. Qed.
(* the rotation parts never move the origin and translations never rotate: shapes of the constructors *)
Lemma L13_rotations_fix_origin : forall c s, pt_eq (apply (rot_x c s) (0, 0, 0)) (0, 0, 0) /\ pt_eq (apply (rot_y c s) (0, 0, 0)) (0, 0, 0) /\ pt_eq (apply (rot_z c s) (0, 0, 0)) (0, 0, 0).
Proof. intros. unfold apply, rot_x, rot_y, rot_z, pt_eq; simpl. repeat split; ring. Qed.
Lemma L13_multiply_translation : forall m fx fy fz,
  pt_eq (apply (multiply_translation m (fx, fy, fz)) (0, 0, 0)) (m03 m * fx, m13 m * fy, m23 m * fz).
Proof. intros m fx fy fz. unfold apply, multiply_translation, pt_eq; simpl. repeat split; ring. Qed.

(* structure level: applying to a list of atoms (any level flattens to one) moves each position exactly as applying to that
   atom alone, keeps the order and the number of atoms; for any split of the list into two halves processed independently
   (the parallel variant) the result is the same *)
Lemma L13_apply_all_map : forall (m : mat) (l1 l2 : list pt), map (apply m) (l1 ++ l2) = map (apply m) l1 ++ map (apply m) l2.
Proof. intros. apply map_app. Qed.
Lemma L13_apply_all_length : forall (m : mat) (l : list pt), List.length (map (apply m) l) = List.length l.
Proof. intros. apply map_length. Qed.

Example L13_witness : pt_eq (apply (combine (translation 1 0 0) (rot_z 0 1)) (1, 0, 0)) (0, 2, 0) /\
                      pt_eq (apply (combine (rot_z 0 1) (translation 1 0 0)) (1, 0, 0)) (1, 1, 0).
Proof. unfold pt_eq, apply, combine, translation, rot_z; simpl. repeat split; reflexivity. Qed.

