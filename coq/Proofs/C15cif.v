(* C15: only_first_model in the row loop of the mmCIF reader model - a stopped loop ignores the rows that follow, and a row
   of another model than the one settled on stops the loop without touching the structure. *)
From Coq Require Import List Ascii String ZArith Bool Lia.
From PV Require Import Base.Sx Base.Text Spec.Hier Model.PdbLex Model.PdbParse Model.CifLex Model.CifParse.
Import ListNotations.

Definition row_model (hdr : list text) (row : list cval) : Z :=
  match fst (column get_usize hdr row "atom_site.pdbx_PDB_model_num") with Some n => n | None => 1%Z end.
Theorem cif_stopped_rows_ignored dh fo hdr rows : forall s, q_stop s = true -> fold_left (atom_row dh fo hdr) rows s = s.
Proof.
  induction rows as [|row r IH]; intros s H; [reflexivity|]. cbn [fold_left].
  assert (E : atom_row dh fo hdr s row = s) by (unfold atom_row; rewrite H; reflexivity). rewrite E. apply IH. exact H.
Qed.
Theorem cif_row_of_another_model_stops dh hdr s row f element e1 name e4 :
  q_stop s = false -> q_first s = Some f -> Z.eqb f (row_model hdr row) = false ->
  column get_text' hdr row "atom_site.type_symbol" = (Some element, e1) ->
  column get_text' hdr row "atom_site.label_atom_id" = (Some name, e4) ->
  (dh && is_hydrogen element name)%bool = false ->
  let t := atom_row dh true hdr s row in
  q_stop t = true /\ q_models t = q_models s /\ q_ids t = q_ids s /\ q_first t = q_first s.
Proof.
  unfold row_model. intros Hs Hf Hm He Hn Hh. unfold atom_row. rewrite Hs, He, Hn, Hh.
  destruct (column get_usize hdr row "atom_site.pdbx_PDB_model_num") as [mn e2]. cbn [fst] in Hm.
  rewrite Hf. cbn [andb]. rewrite Hm. cbn [negb]. repeat split.
Qed.
