(* C01: the MODRES pass of the reader model (add_modifications, Model/PdbParse.v apply_modres) does what the record
   specification says (Spec/PdbSpec.v modres_step): on every structure, for a record whose texts are the trimmed, valid texts
   the lexer hands over, the structure after the pass is the specification's, whether or not the chain, the residue or the
   conformer is found. *)
From Coq Require Import List Ascii String ZArith Bool Arith Lia.
From PV Require Import Base.Sx Base.Text Spec.Hier Spec.PdbSpec Model.Edit Model.PdbLex Model.PdbParse.
Import ListNotations.
Local Open Scope list_scope.

(* the list helpers of the two sides agree *)
Lemma find_pos_position {A} (p : A -> bool) l : forall k, find_pos p l k = option_map (fun n => (k + n)%nat) (position p l).
Proof.
  induction l as [|x r IH]; intros k; [reflexivity|]. cbn [find_pos position]. destruct (p x).
  - cbn [option_map]. f_equal. lia.
  - rewrite IH. destruct (position p r) as [n|]; cbn [option_map]; [f_equal; lia|reflexivity].
Qed.
Lemma find_pos0 {A} (p : A -> bool) l : find_pos p l 0 = position p l.
Proof. rewrite find_pos_position. destruct (position p l); reflexivity. Qed.
Lemma upd_nth_update_nth {A} (f : A -> A) : forall n l, upd_nth n f l = update_nth n f l.
Proof. induction n as [|n IH]; intros [|x r]; cbn [upd_nth update_nth]; try reflexivity. now rewrite IH. Qed.
(* only the value of the function at the element that is updated matters *)
Lemma update_nth_at {A} (f g : A -> A) : forall n l x, nth_error l n = Some x -> f x = g x -> update_nth n f l = update_nth n g l.
Proof.
  induction n as [|n IH]; intros [|y r] x H E; cbn in H; try discriminate; cbn [update_nth].
  - injection H as ->. now rewrite E.
  - f_equal. eapply IH; eauto.
Qed.
Lemma update_nth_same {A} (f : A -> A) : forall n l x, nth_error l n = Some x -> f x = x -> update_nth n f l = l.
Proof.
  induction n as [|n IH]; intros [|y r] x H E; cbn in H; try discriminate; cbn [update_nth].
  - injection H as ->. now rewrite E.
  - f_equal. eapply IH; eauto.
Qed.
Lemma update_nth_none {A} (f : A -> A) : forall n l, nth_error l n = None -> update_nth n f l = l.
Proof. induction n as [|n IH]; intros [|y r] H; cbn in H; try discriminate; cbn [update_nth]; try reflexivity. f_equal. now apply IH. Qed.
Lemma position_nth {A} (p : A -> bool) : forall l n, position p l = Some n -> exists x, nth_error l n = Some x /\ p x = true.
Proof.
  induction l as [|y r IH]; intros n H; cbn in H; [discriminate|]. destruct (p y) eqn:E.
  - injection H as <-. exists y. split; [reflexivity|exact E].
  - destruct (position p r) as [k|] eqn:Ek; cbn in H; [|discriminate]. injection H as <-. destruct (IH k eq_refl) as (x & Hx & Px). exists x. split; assumption.
Qed.

(* the chain search of the model: the first model that has the chain, and the chain's place in it *)
Lemma find_chain_in_pos cs id : forall j, find_chain_in cs id j = find_pos (fun ch => text_eqb (ch_id ch) id) cs j.
Proof. induction cs as [|c r IH]; intros j; [reflexivity|]. cbn [find_chain_in find_pos]. destruct (text_eqb (ch_id c) id); [reflexivity|apply IH]. Qed.
Lemma has_chain_find id m : has_chain id m = match find_chain_in (m_chains m) id 0 with Some _ => true | None => false end.
Proof.
  unfold has_chain. generalize 0%nat. induction (m_chains m) as [|c r IH]; intros j; [reflexivity|].
  cbn [existsb find_chain_in]. destruct (text_eqb (ch_id c) id); [reflexivity|]. cbn [orb]. apply IH.
Qed.
Lemma find_chain_spec id : forall p i,
  match find_chain p id i with
  | Some (mi, ci) => find_pos (has_chain id) p i = Some mi /\ (i <= mi)%nat /\
                     exists m, nth_error p (mi - i) = Some m /\ find_chain_in (m_chains m) id 0 = Some ci
  | None => find_pos (has_chain id) p i = None
  end.
Proof.
  induction p as [|m r IH]; intros i; [reflexivity|]. cbn [find_chain find_pos]. rewrite has_chain_find.
  destruct (find_chain_in (m_chains m) id 0) as [j|] eqn:E.
  - split; [reflexivity|]. split; [lia|]. exists m. rewrite Nat.sub_diag. split; [reflexivity|exact E].
  - specialize (IH (S i)). destruct (find_chain r id (S i)) as [[mi ci]|]; [|exact IH].
    destruct IH as (H1 & H2 & m' & H3 & H4). split; [exact H1|]. split; [lia|]. exists m'. split; [|exact H4].
    replace (mi - i)%nat with (S (mi - S i)) by lia. exact H3.
Qed.

Lemma otext_eqb_same_okey a b : otext_eqb a b = same_okey a b.
Proof. destruct a, b; reflexivity. Qed.

(* a record as the lexer hands it over: texts without surrounding blanks, the annotation texts valid *)
Definition lexed (resname chain : text) (ins : option text) (std comment : text) : Prop :=
  trim resname = resname /\ trim chain = chain /\ (forall t, ins = Some t -> trim t = t) /\ trim std = std /\ trim comment = comment /\
  valid_text std = true /\ valid_text comment = true.

Lemma position_ext {A} (p q : A -> bool) l : (forall x, p x = q x) -> position p l = position q l.
Proof. intros E. induction l as [|x r IH]; [reflexivity|]. cbn [position]. now rewrite E, IH. Qed.

Theorem modres_pass_is_the_specification p ln resname chain num ins std comment :
  lexed resname chain ins std comment ->
  fst (apply_modres p ln resname chain num ins std comment) = modres_step p (RModres resname chain num ins std comment).
Proof.
  intros (Hr & Hc & Hi & Hs & Hm & Vs & Vm). unfold apply_modres, modres_step. rewrite Hc, Hs, Hm.
  assert (Ei : option_map upper ins = upper_opt ins).
  { unfold upper_opt. destruct ins as [t|]; [|reflexivity]. cbn [option_map]. now rewrite (Hi t eq_refl). }
  rewrite Ei. clear Ei.
  pose proof (find_chain_spec chain p 0) as F. destruct (find_chain p chain 0) as [[mi ci]|].
  2:{ rewrite F. reflexivity. }
  destruct F as (F1 & _ & m & Hm' & Hci). rewrite Nat.sub_0_r in Hm'. rewrite F1. cbn [fst snd].
  rewrite Hm', upd_nth_update_nth. rewrite find_chain_in_pos in Hci.
  set (rp := fun r : residue => (Z.eqb (r_num r) num && otext_eqb (r_icode r) (upper_opt ins))%bool).
  assert (Erp : forall c, find_pos (fun rs => (Z.eqb (r_num rs) num && same_okey (r_icode rs) (upper_opt ins))%bool) (ch_residues c) 0
                          = position rp (ch_residues c)).
  { intros c. rewrite find_pos0. apply position_ext. intros r. unfold rp. destruct (r_icode r), (upper_opt ins); reflexivity. }
  (* what the specification does at the model that was found *)
  set (G := fun m0 : model => match find_pos (fun ch => text_eqb (ch_id ch) chain) (m_chains m0) 0 with Some _ => _ | None => m0 end).
  destruct (nth_error (m_chains m) ci) as [c|] eqn:Hc'.
  2:{ cbn [fst]. symmetry. eapply update_nth_same; [exact Hm'|]. unfold G. rewrite Hci, upd_nth_update_nth.
      rewrite (update_nth_none _ _ _ Hc'). now destruct m. }
  destruct (position rp (ch_residues c)) as [ri|] eqn:Hri.
  2:{ cbn [fst]. symmetry. eapply update_nth_same; [exact Hm'|]. unfold G. rewrite Hci, upd_nth_update_nth.
      rewrite (update_nth_same _ _ _ _ Hc'); [now destruct m|]. rewrite Erp, Hri. reflexivity. }
  destruct (nth_error (ch_residues c) ri) as [r|] eqn:Hr'.
  2:{ destruct (position_nth _ _ _ Hri) as (x & Hx & _). congruence. }
  destruct (position (fun cf => text_eqb (c_name cf) (upper resname)) (r_confs r)) as [k|] eqn:Hk.
  2:{ cbn [fst]. symmetry. eapply update_nth_same; [exact Hm'|]. unfold G. rewrite Hci, upd_nth_update_nth.
      rewrite (update_nth_same _ _ _ _ Hc'); [now destruct m|]. rewrite Erp, Hri, upd_nth_update_nth.
      rewrite (update_nth_same _ _ _ _ Hr'); [now destruct c|].
      unfold set_mod. rewrite Hr, find_pos0, Hk. reflexivity. }
  rewrite Vs, Vm. cbn [andb fst]. unfold update_chain. cbn [fst snd].
  eapply update_nth_at; [exact Hm'|]. unfold G. rewrite Hci, upd_nth_update_nth. unfold with_chains. f_equal.
  eapply update_nth_at; [exact Hc'|]. rewrite Erp, Hri, upd_nth_update_nth. unfold with_residues. f_equal.
  eapply update_nth_at; [exact Hr'|]. unfold set_mod. rewrite Hr, find_pos0, Hk, upd_nth_update_nth. reflexivity.
Qed.

(* the premises are met: a selenomethionine in chain A *)
Example lexed_example : lexed (stext "MSE") (stext "A") None (stext "MET") (stext "SELENOMETHIONINE").
Proof. repeat split; try reflexivity. intros t H. discriminate H. Qed.
