(* C04: which cells of the written table are legal unquoted spellings - a decidable criterion, and the cells the writer
   computes itself (numbers, record names, element symbols, label ids). *)
From Coq Require Import List Ascii String ZArith NArith Nnat Bool Lia Arith ZifyBool ZifyNat ZifyN.
From PV Require Import Base.Sx Base.Text Base.Float Spec.Hier Proofs.Decimal Proofs.Shortest Model.PdbLex Model.CifLex Proofs.C02seq Model.PdbParse Model.CifParse
                       Gen.CifTags Gen.Elements Model.CifWrite Proofs.C04table.
Import ListNotations.
Local Open Scope list_scope.

Lemma aws_cases x : is_aws x = true ->
  x = ascii_of_nat 32 \/ x = ascii_of_nat 9 \/ x = ascii_of_nat 10 \/ x = ascii_of_nat 12 \/ x = ascii_of_nat 13.
Proof. destruct x as [[] [] [] [] [] [] [] []]; intros H; try discriminate H; auto 10. Qed.

Definition no_ws_char (p : ascii) : Prop := forall x, is_aws x = true -> Ascii.eqb p (lower_char x) = false.
Lemma strip_ci_app pat : Forall no_ws_char pat -> forall t rest, ends_word rest ->
  (match strip_ci pat (t ++ rest) with None => true | Some _ => false end) = (match strip_ci pat t with None => true | Some _ => false end).
Proof.
  induction 1 as [|p ps Hp Hps IH]; intros t rest Hr; [reflexivity|].
  destruct t as [|c cs]; cbn [app strip_ci].
  - destruct rest as [|x r]; [reflexivity|]. cbn [ends_word] in Hr. rewrite (Hp x Hr). reflexivity.
  - destruct (Ascii.eqb p (lower_char c)); [apply IH; exact Hr|reflexivity].
Qed.
Lemma pattern_ok (s : string) :
  forallb (fun p => forallb (fun x => negb (Ascii.eqb p (lower_char x))) (map ascii_of_nat [32; 9; 10; 12; 13]%nat)) (stext s) = true ->
  Forall no_ws_char (stext s).
Proof.
  intros H. apply Forall_forall. intros p Hp x Hx. rewrite forallb_forall in H. specialize (H p Hp). rewrite forallb_forall in H.
  destruct (aws_cases x Hx) as [->|[->|[->|[->| ->]]]];
  match goal with |- Ascii.eqb p (lower_char ?a) = false => specialize (H a); cbn [map In] in H; apply negb_true_iff; apply H; auto 10 end.
Qed.
Theorem reserved_app t rest : ends_word rest -> reserved (t ++ rest) = reserved t.
Proof.
  intros Hr. unfold reserved, starts_ci.
  pose proof (strip_ci_app _ (pattern_ok "data_" eq_refl) t rest Hr) as H1.
  pose proof (strip_ci_app _ (pattern_ok "global_" eq_refl) t rest Hr) as H2.
  pose proof (strip_ci_app _ (pattern_ok "loop_" eq_refl) t rest Hr) as H3.
  pose proof (strip_ci_app _ (pattern_ok "save_" eq_refl) t rest Hr) as H4.
  pose proof (strip_ci_app _ (pattern_ok "stop_" eq_refl) t rest Hr) as H5.
  destruct (strip_ci (stext "data_") (t ++ rest)), (strip_ci (stext "data_") t); try discriminate H1;
  destruct (strip_ci (stext "global_") (t ++ rest)), (strip_ci (stext "global_") t); try discriminate H2;
  destruct (strip_ci (stext "loop_") (t ++ rest)), (strip_ci (stext "loop_") t); try discriminate H3;
  destruct (strip_ci (stext "save_") (t ++ rest)), (strip_ci (stext "save_") t); try discriminate H4;
  destruct (strip_ci (stext "stop_") (t ++ rest)), (strip_ci (stext "stop_") t); try discriminate H5; reflexivity.
Qed.

(* the decidable criterion *)
Definition bareb (t : text) : bool :=
  match t with
  | c :: w => (is_ordinary c && negb (Ascii.eqb c ".") && negb (Ascii.eqb c "?") && forallb (fun x => negb (is_aws x)) w && negb (reserved t))%bool
  | [] => false
  end.
Theorem bareb_bare t : bareb t = true -> bare t.
Proof.
  destruct t as [|c w]; [discriminate|]. cbn [bareb]. intros H.
  apply andb_prop in H as [H H5]. apply andb_prop in H as [H H4]. apply andb_prop in H as [H H3]. apply andb_prop in H as [H1 H2].
  apply negb_true_iff in H2, H3, H5.
  exists c, w. split; [reflexivity|]. split; [exact H1|]. split; [exact H2|]. split; [exact H3|]. split; [exact H4|].
  intros rest Hr. change (c :: w ++ rest) with ((c :: w) ++ rest). rewrite (reserved_app (c :: w) rest Hr). exact H5.
Qed.
Definition legalb (t : text) : bool := (text_eqb t ["."%char] || text_eqb t ["?"%char] || bareb t)%bool.
Theorem legalb_legal t : legalb t = true -> legal_cell t.
Proof.
  unfold legalb. intros H. apply orb_prop in H as [H|H]; [apply orb_prop in H as [H|H]|].
  - left. destruct (text_eqb_spec t ["."%char]); [assumption|discriminate].
  - right. left. destruct (text_eqb_spec t ["?"%char]); [assumption|discriminate].
  - right. right. apply bareb_bare. exact H.
Qed.

(* ---------- numbers ---------- *)
Definition nows (w : text) : bool := forallb (fun x => negb (is_aws x)) w.
Lemma nows_app a b : nows (a ++ b) = (nows a && nows b)%bool.
Proof. unfold nows. apply forallb_app. Qed.
Lemma nows_digits ds : all_digit ds -> nows ds = true.
Proof. apply digits_no_space. Qed.
Lemma nows_zeros k : nows (repeat "0"%char k) = true.
Proof. induction k; [reflexivity|]. simpl. exact IHk. Qed.
(* a text that starts with a digit or a minus sign and has no white space *)
Definition numlike (t : text) : Prop :=
  exists c w, t = c :: w /\ (digit_of c = Some (Z.of_N (N_of_ascii c) - 48)%Z \/ c = "-"%char) /\ nows w = true.
Lemma numlike_bare t : numlike t -> bare t.
Proof.
  intros (c & w & -> & [Hd| ->] & Hw).
  - destruct (digit_is_bare_head c Hd) as (H1 & H2 & H3 & _ & H5). exists c, w. repeat split; try assumption. intros rest _. apply H5.
  - exists "-"%char, w. repeat split; try reflexivity; try assumption. all: intros rest _; reflexivity.
Qed.
Lemma numlike_signed (neg : bool) ds tail : all_digit ds -> ds <> [] -> nows tail = true ->
  numlike ((if neg then ["-"%char] else []) ++ ds ++ tail).
Proof.
  intros A N Ht. destruct neg; cbn [app].
  - exists "-"%char, (ds ++ tail). repeat split; [right; reflexivity|]. rewrite nows_app, (nows_digits ds A), Ht. reflexivity.
  - destruct ds as [|c w]; [congruence|]. exists c, (w ++ tail). repeat split.
    + left. apply A. left. reflexivity.
    + rewrite nows_app, Ht, andb_true_r. apply nows_digits. intros x Hx. apply A. right. exact Hx.
Qed.
Lemma show_int_numlike z tail : nows tail = true -> numlike (show_int z ++ tail).
Proof.
  intros Ht. unfold show_int, CifParse.show_Z. destruct (z <? 0)%Z eqn:E.
  - apply Z.ltb_lt in E. destruct (Z.eqb_spec (- z) 0) as [E0|_]; [lia|].
    destruct (show_Zpos_spec (- z) ltac:(lia)) as (A & _ & N & _).
    exact (numlike_signed true (show_Zpos (- z)) tail A N Ht).
  - apply Z.ltb_ge in E. destruct (Z.eqb_spec z 0) as [->|_].
    + exists "0"%char, tail. repeat split; [left; reflexivity|exact Ht].
    + destruct (show_Zpos_spec z E) as (A & _ & N & _). exact (numlike_signed false (show_Zpos z) tail A N Ht).
Qed.
Lemma fmt_shortest_legal m e : legal_cell (fmt_shortest false (m, e)).
Proof.
  unfold fmt_shortest. destruct (m =? 0)%Z; [right; right; apply (digits_bare (stext "0")); [intros c [<-|[]]; reflexivity|discriminate]|].
  destruct (shortest_digits (m, e)) as [[D t]|] eqn:E; [|right; left; reflexivity].
  destruct (shortest_sound m e D t E) as [_ HD].
  right. right. apply numlike_bare.
  destruct (0 <=? t)%Z eqn:Et.
  - apply Z.leb_le in Et. assert (H : (0 <= D * 10 ^ t)%Z) by (apply Z.mul_nonneg_nonneg; [exact HD|apply Z.pow_nonneg; lia]).
    destruct (show_Zpos_spec _ H) as (A & _ & N & _).
    pose proof (numlike_signed (m <? 0)%Z (show_Zpos (D * 10 ^ t)) [] A N eq_refl) as R. rewrite app_nil_r in R. exact R.
  - apply Z.leb_gt in Et. set (P := (10 ^ (- t))%Z). assert (Pp : (0 < P)%Z) by (apply Z.pow_pos_nonneg; lia).
    destruct (show_Zpos_spec (D / P)%Z ltac:(apply Z.div_pos; lia)) as (A1 & _ & N1 & _).
    destruct (show_Zpos_spec (D mod P)%Z ltac:(apply Z.mod_pos_bound; lia)) as (A2 & _ & _ & _).
    apply (numlike_signed (m <? 0)%Z (show_Zpos (D / P)) _ A1 N1).
    cbn [nows forallb]. unfold pad0. fold (nows (repeat "0"%char (Z.to_nat (- t) - List.length (show_Zpos (D mod P))) ++ show_Zpos (D mod P))).
    rewrite nows_app, nows_zeros, (nows_digits _ A2). reflexivity.
Qed.
Lemma show_f64_legal f : legal_cell (show_f64 f).
Proof.
  destruct f; cbn [show_f64]; try (apply legalb_legal; reflexivity). apply fmt_shortest_legal.
Qed.
Theorem print_float_legal num : legal_cell (print_float num).
Proof.
  unfold print_float. match goal with |- legal_cell (if ?b then _ else _) => destruct b end; [|apply show_f64_legal].
  right. right. apply numlike_bare. apply show_int_numlike. reflexivity.
Qed.
Lemma legal_cell_cell t : legal_cell t -> legal_cell (cell t).
Proof.
  intros H. unfold cell. destruct (is_nil (trim t)); [right; left; reflexivity|exact H].
Qed.

(* ---------- element symbols ---------- *)
Lemma element_cell_legal e : legal_cell (cell (element_symbol e)).
Proof.
  assert (B : forallb (fun s => legalb (cell (stext s))) (""%string :: ELEMENT_SYMBOLS) = true) by (vm_compute; reflexivity).
  rewrite forallb_forall in B. apply legalb_legal. unfold element_symbol. apply B.
  destruct (nth_in_or_default (Z.to_nat (e - 1)) ELEMENT_SYMBOLS ""%string) as [H|H]; [right; exact H|left; symmetry; exact H].
Qed.

(* ---------- label ids: words of capital letters ---------- *)
From PV Require Import Model.SortRenumber.
Definition is_upper (c : ascii) : bool := (N.leb 65 (N_of_ascii c) && N.leb (N_of_ascii c) 90)%bool.
Lemma upper_facts c : is_upper c = true ->
  is_ordinary c = true /\ Ascii.eqb c "." = false /\ Ascii.eqb c "?" = false /\ is_aws c = false /\ lower_char c <> "_"%char.
Proof. destruct c as [[] [] [] [] [] [] [] []]; intros H; try discriminate H; repeat split; discriminate. Qed.
Lemma strip_ci_some pat : forall t r, strip_ci pat t = Some r -> forall p, In p pat -> exists c, In c t /\ lower_char c = p.
Proof.
  induction pat as [|q qs IH]; intros t r H p Hp; [contradiction|].
  destruct t as [|c cs]; [discriminate|]. cbn [strip_ci] in H.
  destruct (Ascii.eqb_spec q (lower_char c)) as [E|_]; [|discriminate].
  destruct Hp as [<-|Hp]; [exists c; split; [left; reflexivity|symmetry; exact E]|].
  destruct (IH cs r H p Hp) as (c' & Hc' & E'). exists c'. split; [right; exact Hc'|exact E'].
Qed.
Lemma upper_word_not_reserved t : Forall (fun c => is_upper c = true) t -> reserved t = false.
Proof.
  intros U. unfold reserved, starts_ci.
  assert (N : forall s : string, In "_"%char (stext s) -> strip_ci (stext s) t = None).
  { intros s Hs. destruct (strip_ci (stext s) t) as [r|] eqn:E; [|reflexivity].
    destruct (strip_ci_some _ _ _ E _ Hs) as (c & Hc & Hl). rewrite Forall_forall in U.
    destruct (upper_facts c (U c Hc)) as (_ & _ & _ & _ & Hn). contradiction. }
  rewrite (N "data_"%string), (N "global_"%string), (N "loop_"%string), (N "save_"%string), (N "stop_"%string); try reflexivity; cbn; auto 10.
Qed.
Lemma upper_word_bare t : t <> [] -> Forall (fun c => is_upper c = true) t -> bare t.
Proof.
  intros N U. apply bareb_bare. destruct t as [|c w]; [congruence|]. cbn [bareb].
  inversion U as [|x y Hc Hw]; subst. destruct (upper_facts c Hc) as (H1 & H2 & H3 & _ & _).
  rewrite H1, H2, H3, (upper_word_not_reserved (c :: w) U). cbn [negb andb].
  rewrite andb_true_r. apply forallb_forall. intros x Hx. rewrite Forall_forall in Hw.
  destruct (upper_facts x (Hw x Hx)) as (_ & _ & _ & H4 & _). rewrite H4. reflexivity.
Qed.
Lemma letter_upper n : is_upper (letter n) = true.
Proof.
  unfold letter.
  assert (B : forallb (fun k => is_upper (ascii_of_N (65 + N.of_nat k))) (seq 0 26) = true) by (vm_compute; reflexivity).
  rewrite forallb_forall in B. pose proof (N.mod_upper_bound n 26 ltac:(discriminate)) as Hm.
  specialize (B (N.to_nat (n mod 26)%N)). rewrite N2Nat.id in B. apply B. apply in_seq. lia.
Qed.
Lemma base26_go_upper fuel : forall n acc, Forall (fun c => is_upper c = true) acc ->
  Forall (fun c => is_upper c = true) (base26_go fuel n acc) /\ (fuel <> O -> base26_go fuel n acc <> []).
Proof.
  induction fuel as [|f IH]; intros n acc H; [split; [exact H|congruence]|].
  cbn [base26_go]. assert (H' : Forall (fun c => is_upper c = true) (letter n :: acc)) by (constructor; [apply letter_upper|exact H]).
  destruct (N.eqb (n / 26) 0).
  - split; [exact H'|discriminate].
  - destruct (IH (n / 26)%N (letter n :: acc) H') as [A B]. split; [exact A|]. intros _.
    destruct f as [|f']; [cbn [base26_go]; discriminate|]. apply B. discriminate.
Qed.
Theorem base26_bare n : bare (base26 n).
Proof.
  unfold base26. destruct (base26_go_upper (S (N.to_nat (N.log2 n))) n [] ltac:(constructor)) as [A B].
  apply upper_word_bare; [apply B; discriminate|exact A].
Qed.

(* ---------- every row of the table of a structure with legal identifiers ---------- *)
Lemma show_Zpos_digits n : all_digit (show_Zpos n) /\ show_Zpos n <> [].
Proof.
  destruct (Z.lt_ge_cases n 0) as [H|H].
  - unfold show_Zpos. replace (Z.log2 n) with 0%Z by (symmetry; apply Z.log2_nonpos; lia).
    cbn [Z.to_nat Nat.add show_nat_digits]. replace (n <? 10)%Z with true by (symmetry; apply Z.ltb_lt; lia).
    split; [|discriminate]. intros c [<-|[]].
    destruct (digit_of_ascii (n mod 10) ltac:(apply Z.mod_pos_bound; lia)) as [D V]. rewrite V. exact D.
  - destruct (show_Zpos_spec n H) as (A & _ & N & _). split; assumption.
Qed.
Lemma show_Z_bare z : bare (CifParse.show_Z z).
Proof.
  unfold CifParse.show_Z. destruct (z =? 0)%Z.
  - apply (digits_bare (stext "0")); [intros c [<-|[]]; reflexivity|discriminate].
  - destruct (show_Zpos_digits z) as [A N]. apply digits_bare; assumption.
Qed.
Lemma Forall_flat_map {A B} (P : B -> Prop) (f : A -> list B) l : (forall x, In x l -> Forall P (f x)) -> Forall P (flat_map f l).
Proof.
  induction l as [|x r IH]; intros H; [constructor|]. cbn [flat_map]. apply Forall_app. split; [apply H; left; reflexivity|].
  apply IH. intros y Hy. apply H. right. exact Hy.
Qed.
Lemma in_number_from_Z {A} (l : list A) : forall n i x, In (i, x) (number_from_Z n l) -> In x l.
Proof.
  induction l as [|y r IH]; intros n i x H; [contradiction|]. cbn [number_from_Z] in H. destruct H as [H|H].
  - injection H as _ <-. left. reflexivity.
  - right. exact (IH _ _ _ H).
Qed.

Definition ids_legal (p : pdb) : Prop :=
  forall m ch r c a, In m p -> In ch (m_chains m) -> In r (ch_residues ch) -> In c (r_confs r) -> In a (c_atoms c) ->
    legal_cell (cell (a_id a)) /\ legal_cell (cell (a_name a)) /\ legal_cell (cell (otext (c_alt c))) /\
    legal_cell (cell (c_name c)) /\ legal_cell (cell (ch_id ch)) /\ legal_cell (cell (otext (r_icode r))).
Definition row_cells_legal (l : list text) : Prop :=
  match l with t0 :: ts => legal_cell t0 /\ Forall (fun t => legal_cell (cell t)) ts | [] => False end.

Ltac legal_number := apply legal_cell_cell;
  first [apply print_float_legal | right; right; apply show_int_bare | right; right; apply show_Z_bare | right; right; apply base26_bare
        | apply legalb_legal; reflexivity].
Theorem table_cells_legal (p : pdb) : ids_legal p -> Forall row_cells_legal (table p).
Proof.
  intros L. unfold table.
  apply Forall_flat_map. intros m Hm. apply Forall_flat_map. intros [ci ch] Hch. apply in_number_from_Z in Hch.
  apply Forall_flat_map. intros [ri r] Hr. apply in_number_from_Z in Hr. cbn [fst snd].
  apply Forall_flat_map. intros c Hc. apply Forall_forall. intros l Hl. apply in_map_iff in Hl as (a & <- & Ha).
  destruct (L m ch r c a Hm Hch Hr Hc Ha) as (I1 & I2 & I3 & I4 & I5 & I6).
  unfold atom_line, row_cells_legal. cbn [app]. split.
  - right. right. destruct (a_hetero a); [exact (record_name_bare true)|exact (record_name_bare false)].
  - repeat (apply Forall_cons; [first [assumption | legal_number | idtac]|]).
    + destruct (a_elem a); [apply element_cell_legal|apply legalb_legal; reflexivity].
    + destruct (has_aniso p); [|constructor]. destruct (a_atf a) as [t|].
      * apply Forall_forall. intros x Hx. apply in_map_iff in Hx as (f & <- & _). apply legal_cell_cell. apply print_float_legal.
      * apply Forall_forall. intros x Hx. apply repeat_spec in Hx. subst x. apply legalb_legal. reflexivity.
Qed.

(* the loop read-back for any structure whose identifiers are legal unquoted spellings *)
Theorem written_atom_table_is_read_ids (p : pdb) fuel :
  let anisou := has_aniso p in
  let lines := table p in
  let sizes := match lines with l0 :: _ => fold_left widths lines (repeat 1%nat (List.length l0)) | [] => [] end in
  ids_legal p -> lines <> [] ->
  Forall (fun l : list text => List.length l = List.length (written_headers anisou)) lines ->
  (List.length (written_headers anisou) * S (List.length lines) + 2 < fuel)%nat ->
  exists tail',
  parse_data_item fuel (line 6 [if anisou then stext cif_writer_aniso_header else []] ++ flat_map (render_line sizes) lines ++ line 7 [])%list =
  Some (inl (DLoop (map snd (written_headers anisou)) (map (row_vals bare_val sizes) lines)), tail').
Proof.
  intros anisou lines sizes L Hne Hlen Hfuel.
  exact (written_atom_table_is_read p fuel Hne (table_cells_legal p L) Hlen Hfuel).
Qed.
(* without anisotropic tensors every row has the 19 cells of the header *)
Lemma plain_rows_have_19_cells (p : pdb) : has_aniso p = false ->
  Forall (fun l : list text => List.length l = List.length (written_headers false)) (table p).
Proof.
  intros H. unfold table. rewrite H.
  apply Forall_flat_map. intros m _. apply Forall_flat_map. intros [ci ch] _. apply Forall_flat_map. intros [ri r] _.
  apply Forall_flat_map. intros c _. apply Forall_forall. intros l Hl. apply in_map_iff in Hl as (a & <- & _).
  rewrite (proj2 (proj2 (written_headers_ok false))). reflexivity.
Qed.
