(* C14: proofs about the geometric model (linear arithmetic over Q). *)
From Coq Require Import List QArith Qabs ZArith Bool Lqa Lia.
From PV Require Import Model.Transform Model.Geom.
Import ListNotations.
Local Open Scope Q_scope.

Lemma L14_dist2_sym : forall p q, dist2 p q == dist2 q p.
Proof. intros [[a b] c] [[d e] f]. unfold dist2. ring. Qed.
Lemma sq_nonneg (x : Q) : 0 <= x * x.
Proof.
  destruct (Qlt_le_dec x 0) as [H|H].
  - setoid_replace (x * x) with ((- x) * (- x)) by ring. apply Qmult_le_0_compat; lra.
  - apply Qmult_le_0_compat; lra.
Qed.
Lemma L14_dist2_nonneg : forall p q, 0 <= dist2 p q.
Proof.
  intros [[a b] c] [[d e] f]. unfold dist2.
  pose proof (sq_nonneg (a - d)). pose proof (sq_nonneg (b - e)). pose proof (sq_nonneg (c - f)). lra.
Qed.
Lemma L14_dist2_zero : forall p, dist2 p p == 0.
Proof. intros [[a b] c]. unfold dist2. ring. Qed.

(* one axis: inside the cell the moved coordinate is the nearest of the three images *)
Lemma wrap1_spec : forall s o e, 0 < e -> 0 <= s -> s < e -> 0 <= o -> o < e ->
  let w := wrap1 s o e in
  (w == o \/ w == o + e \/ w == o - e) /\
  (w - s) * (w - s) <= (o - s) * (o - s) /\
  (w - s) * (w - s) <= (o + e - s) * (o + e - s) /\
  (w - s) * (w - s) <= (o - e - s) * (o - e - s).
Proof.
  intros s o e He Hs0 Hs1 Ho0 Ho1. unfold wrap1.
  destruct (Qlt_le_dec (e / 2) (Qabs (s - o))) as [H|H].
  - destruct (Qlt_le_dec o s) as [Hos|Hos].
    + assert (Ha : Qabs (s - o) == s - o) by (apply Qabs_pos; lra). rewrite Ha in H.
      assert (Hh : e / 2 == e * (1 # 2)) by field.
      split; [right; left; reflexivity|]. repeat split; nra.
    + assert (Ha : Qabs (s - o) == - (s - o)) by (apply Qabs_neg; lra). rewrite Ha in H.
      assert (Hh : e / 2 == e * (1 # 2)) by field.
      split; [right; right; reflexivity|]. repeat split; nra.
  - assert (Hh : e / 2 == e * (1 # 2)) by field.
    assert (Hb : - (e * (1 # 2)) <= s - o /\ s - o <= e * (1 # 2)).
    { rewrite Hh in H. apply Qabs_Qle_condition in H. exact H. }
    split; [left; reflexivity|]. repeat split; nra.
Qed.

(* three axes: the wrapped squared distance is the minimum over the 27 neighbouring images *)
Lemma L14_wrap_le_images : forall a b cell k, 
  let '(ax, ay, az) := a in let '(bx, by_, bz) := b in let '(ca, cb, cc) := cell in
  0 < ca -> 0 < cb -> 0 < cc ->
  0 <= ax < ca -> 0 <= bx < ca -> 0 <= ay < cb -> 0 <= by_ < cb -> 0 <= az < cc -> 0 <= bz < cc ->
  In k shifts -> wrap_dist2 a b cell <= dist2 a (image b cell k).
Proof.
  intros [[ax ay] az] [[bx by_] bz] [[ca cb] cc] k Ha Hb Hc [Hx0 Hx1] [Hbx0 Hbx1] [Hy0 Hy1] [Hby0 Hby1] [Hz0 Hz1] [Hbz0 Hbz1] Hk.
  unfold wrap_dist2, dist2, image.
  destruct (wrap1_spec ax bx ca Ha Hx0 Hx1 Hbx0 Hbx1) as [_ [X0 [X1 X2]]].
  destruct (wrap1_spec ay by_ cb Hb Hy0 Hy1 Hby0 Hby1) as [_ [Y0 [Y1 Y2]]].
  destruct (wrap1_spec az bz cc Hc Hz0 Hz1 Hbz0 Hbz1) as [_ [Z0 [Z1 Z2]]].
  destruct k as [[i j] l]. unfold shifts in Hk. simpl in Hk.
  repeat (destruct Hk as [Hk|Hk]; [injection Hk as <- <- <-; simpl; unfold inject_Z; lra|]); contradiction.
Qed.
Lemma L14_wrap_is_an_image : forall a b cell,
  let '(ax, ay, az) := a in let '(bx, by_, bz) := b in let '(ca, cb, cc) := cell in
  0 < ca -> 0 < cb -> 0 < cc ->
  0 <= ax < ca -> 0 <= bx < ca -> 0 <= ay < cb -> 0 <= by_ < cb -> 0 <= az < cc -> 0 <= bz < cc ->
  exists k, In k shifts /\ wrap_dist2 a b cell == dist2 a (image b cell k).
Proof.
  intros [[ax ay] az] [[bx by_] bz] [[ca cb] cc] Ha Hb Hc [Hx0 Hx1] [Hbx0 Hbx1] [Hy0 Hy1] [Hby0 Hby1] [Hz0 Hz1] [Hbz0 Hbz1].
  destruct (wrap1_spec ax bx ca Ha Hx0 Hx1 Hbx0 Hbx1) as [X _].
  destruct (wrap1_spec ay by_ cb Hb Hy0 Hy1 Hby0 Hby1) as [Y _].
  destruct (wrap1_spec az bz cc Hc Hz0 Hz1 Hbz0 Hbz1) as [Z _].
  assert (Hx : exists i, In i [-1; 0; 1]%Z /\ wrap1 ax bx ca == bx + inject_Z i * ca).
  { destruct X as [E|[E|E]]; [exists 0%Z|exists 1%Z|exists (-1)%Z]; (split; [simpl; tauto|rewrite E; unfold inject_Z; ring]). }
  assert (Hy : exists i, In i [-1; 0; 1]%Z /\ wrap1 ay by_ cb == by_ + inject_Z i * cb).
  { destruct Y as [E|[E|E]]; [exists 0%Z|exists 1%Z|exists (-1)%Z]; (split; [simpl; tauto|rewrite E; unfold inject_Z; ring]). }
  assert (Hz : exists i, In i [-1; 0; 1]%Z /\ wrap1 az bz cc == bz + inject_Z i * cc).
  { destruct Z as [E|[E|E]]; [exists 0%Z|exists 1%Z|exists (-1)%Z]; (split; [simpl; tauto|rewrite E; unfold inject_Z; ring]). }
  destruct Hx as [i [Hi Ei]], Hy as [j [Hj Ej]], Hz as [l [Hl El]].
  exists (i, j, l). split.
  - unfold shifts. apply in_flat_map. exists i. split; [exact Hi|]. apply in_flat_map. exists j. split; [exact Hj|].
    apply in_map_iff. exists l. split; [reflexivity|exact Hl].
  - unfold wrap_dist2, dist2, image. rewrite Ei, Ej, El. ring.
Qed.

(* bounding box: the fold returns a lower bound of the list that is attained (or the initial value) *)
Lemma qmin_le_init l : forall d, qmin_list l d <= d.
Proof. induction l as [|x r IH]; intros d; simpl; [lra|]. destruct (Qlt_le_dec x d); [eapply Qle_trans; [apply IH|lra]|apply IH]. Qed.
Lemma L14_qmin_lower : forall l d x, In x l -> qmin_list l d <= x.
Proof.
  induction l as [|y r IH]; intros d x H; simpl in *; [contradiction|].
  destruct H as [<-|H]; [|now apply IH].
  destruct (Qlt_le_dec y d); [apply qmin_le_init|eapply Qle_trans; [apply qmin_le_init|exact q]].
Qed.
Lemma L14_qmin_attained : forall l d, qmin_list l d = d \/ In (qmin_list l d) l.
Proof.
  induction l as [|y r IH]; intros d; simpl; [now left|].
  destruct (Qlt_le_dec y d).
  - destruct (IH y) as [E|E]; [right; left; now rewrite E|right; right; exact E].
  - destruct (IH d) as [E|E]; [left; exact E|right; right; exact E].
Qed.
Lemma qmax_ge_init l : forall d, d <= qmax_list l d.
Proof. induction l as [|x r IH]; intros d; simpl; [lra|]. destruct (Qlt_le_dec d x); [eapply Qle_trans; [|apply IH]; lra|apply IH]. Qed.
Lemma L14_qmax_upper : forall l d x, In x l -> x <= qmax_list l d.
Proof.
  induction l as [|y r IH]; intros d x H; simpl in *; [contradiction|].
  destruct H as [<-|H]; [|now apply IH].
  destruct (Qlt_le_dec d y); [apply qmax_ge_init|eapply Qle_trans; [exact q|apply qmax_ge_init]].
Qed.
Lemma L14_qmax_attained : forall l d, qmax_list l d = d \/ In (qmax_list l d) l.
Proof.
  induction l as [|y r IH]; intros d; simpl; [now left|].
  destruct (Qlt_le_dec d y).
  - destruct (IH y) as [E|E]; [right; left; now rewrite E|right; right; exact E].
  - destruct (IH d) as [E|E]; [left; exact E|right; right; exact E].
Qed.

(* contacts are symmetric *)
Lemma existsb_swap {A B} (f : A -> B -> bool) la lb :
  existsb (fun a => existsb (fun b => f a b) lb) la = existsb (fun b => existsb (fun a => f a b) la) lb.
Proof.
  apply Bool.eq_iff_eq_true. rewrite !existsb_exists. split.
  - intros [a [Ha H]]. apply existsb_exists in H as [b [Hb H]]. exists b. split; [exact Hb|]. apply existsb_exists. now exists a.
  - intros [b [Hb H]]. apply existsb_exists in H as [a [Ha H]]. exists a. split; [exact Ha|]. apply existsb_exists. now exists b.
Qed.
Lemma lt_dec_sym (x y d : Q) : x == y -> (if Qlt_le_dec x d then true else false) = (if Qlt_le_dec y d then true else false).
Proof. intros E. destruct (Qlt_le_dec x d), (Qlt_le_dec y d); auto; exfalso; rewrite E in *; lra. Qed.
Lemma existsb_ext2 {A} (f g : A -> bool) l : (forall x, f x = g x) -> existsb f l = existsb g l.
Proof. intros E. induction l; simpl; auto. now rewrite E, IHl. Qed.
Lemma L14_close_sym d2 c1 c2 : close d2 c1 c2 = close d2 c2 c1.
Proof.
  unfold close. rewrite existsb_swap. apply existsb_ext2. intros b. apply existsb_ext2. intros a.
  apply lt_dec_sym. unfold adist2. apply L14_dist2_sym.
Qed.
(* chains in contact: exactly the pairs of differently named chains with an atom pair closer than the cut-off *)
Lemma L14_contact_spec p d2 a b :
  in_contact p d2 a b = true <->
  a <> b /\ exists c1 c2, In c1 (Spec.Hier.p_chains p) /\ In c2 (Spec.Hier.p_chains p) /\
                        Spec.Hier.ch_id c1 = a /\ Spec.Hier.ch_id c2 = b /\ close d2 c1 c2 = true.
Proof.
  unfold in_contact. rewrite andb_true_iff, negb_true_iff. split.
  - intros [N H]. split; [destruct (Base.Text.text_eqb_spec a b); congruence|].
    apply existsb_exists in H as [c1 [H1 H]]. apply andb_prop in H as [E1 H].
    apply existsb_exists in H as [c2 [H2 H]]. apply andb_prop in H as [E2 H].
    exists c1, c2. destruct (Base.Text.text_eqb_spec (Spec.Hier.ch_id c1) a), (Base.Text.text_eqb_spec (Spec.Hier.ch_id c2) b); try discriminate. auto.
  - intros [N [c1 [c2 [H1 [H2 [E1 [E2 H]]]]]]]. split; [destruct (Base.Text.text_eqb_spec a b); congruence|].
    apply existsb_exists. exists c1. split; [exact H1|]. rewrite E1, Base.Text.text_eqb_refl. simpl.
    apply existsb_exists. exists c2. split; [exact H2|]. now rewrite E2, Base.Text.text_eqb_refl, H.
Qed.
Lemma L14_contact_sym p d2 a b : in_contact p d2 a b = in_contact p d2 b a.
Proof.
  apply Bool.eq_iff_eq_true. rewrite !L14_contact_spec. split; intros [N [c1 [c2 [H1 [H2 [E1 [E2 H]]]]]]];
  (split; [congruence|exists c2, c1; rewrite L14_close_sym; auto]).
Qed.
