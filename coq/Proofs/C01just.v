(* C01: a field value is independent of where it stands inside its columns, and the numbers written are the numbers read. *)
From Coq Require Import List Ascii String ZArith Bool Lia.
From PV Require Import Base.Sx Base.Text Base.Float Spec.Hier Proofs.Decimal Model.PdbLex.
Import ListNotations.

Definition blanks (k : nat) : text := repeat " "%char k.
Lemma blanks_ws k : forallb is_ws (blanks k) = true.
Proof. induction k; [reflexivity|]. simpl. exact IHk. Qed.

Definition tight (v : text) : Prop :=
  match v with [] => False | c :: _ => is_ws c = false end /\ match rev v with [] => False | c :: _ => is_ws c = false end.

Lemma trim_l_tight v : tight v -> trim_l v = v.
Proof. intros [H _]. destruct v as [|c r]; [contradiction|]. simpl. rewrite H. reflexivity. Qed.

(* a value placed anywhere inside a wider field is the value *)
Theorem trim_justified v k j : tight v -> trim (blanks k ++ v ++ blanks j) = v.
Proof.
  intros T. unfold trim.
  rewrite (trim_l_ws_app (blanks k) (v ++ blanks j) (blanks_ws k)).
  assert (Ne : trim_l v <> []) by (rewrite (trim_l_tight v T); destruct T as [H _]; destruct v; [contradiction|discriminate]).
  rewrite (trim_l_app_nonws v (blanks j) Ne), (trim_l_tight v T).
  unfold trim_r. rewrite rev_app_distr.
  assert (R : rev (blanks j) = blanks j) by (unfold blanks; induction j; [reflexivity|]; simpl; rewrite IHj; clear; induction j; [reflexivity|simpl; f_equal; exact IHj]).
  rewrite R, (trim_l_ws_app (blanks j) (rev v) (blanks_ws j)).
  destruct T as [_ H2]. destruct (rev v) as [|c r] eqn:E; [contradiction|].
  simpl. rewrite H2. rewrite <- E. apply rev_involutive.
Qed.

(* the digits written for a number are the number read *)
Lemma nat_of_digits_dval s : nat_of_digits s = dval s.
Proof. reflexivity. Qed.
Lemma all_digits_of s : all_digit s -> all_digits s = true.
Proof.
  intros A. unfold all_digits. apply forallb_forall. intros c Hc. specialize (A c Hc).
  unfold digit_of in A. unfold is_digit, code.
  destruct ((48 <=? Z.of_N (N_of_ascii c))%Z && (Z.of_N (N_of_ascii c) <=? 57)%Z)%bool eqn:E; [|discriminate].
  apply andb_prop in E as [E1 E2]. apply Z.leb_le in E1, E2.
  apply andb_true_intro. split; apply N.leb_le; lia.
Qed.
Lemma digit_not_sign c : digit_of c = Some (Z.of_N (N_of_ascii c) - 48)%Z -> c <> "-"%char /\ c <> "+"%char.
Proof. intros H. split; intros ->; vm_compute in H; discriminate. Qed.
Lemma parse_usize_nosign c l : c <> "+"%char ->
  parse_usize (c :: l) = match digits_only (c :: l) with Some v => if (v <=? max_usize)%Z then Some v else None | None => None end.
Proof. intros H. unfold parse_usize. destruct c as [[] [] [] [] [] [] [] []]; try reflexivity; congruence. Qed.
Lemma parse_isize_nosign c l : c <> "+"%char -> c <> "-"%char ->
  parse_isize (c :: l) = match digits_only (c :: l) with Some v => if (v <=? max_isize)%Z then Some v else None | None => None end.
Proof. intros H1 H2. unfold parse_isize. destruct c as [[] [] [] [] [] [] [] []]; try reflexivity; congruence. Qed.

Theorem usize_reads_back n : (0 <= n <= max_usize)%Z -> parse_usize (show_Zpos n) = Some n.
Proof.
  intros [H0 H1]. destruct (show_Zpos_spec n H0) as (A & V & N & _).
  destruct (show_Zpos n) as [|c l] eqn:E; [congruence|].
  destruct (digit_not_sign c (A c (or_introl eq_refl))) as [Hm Hp].
  rewrite (parse_usize_nosign c l Hp). unfold digits_only.
  rewrite (all_digits_of (c :: l) A), nat_of_digits_dval, V.
  replace (n <=? max_usize)%Z with true by (symmetry; apply Z.leb_le; lia). reflexivity.
Qed.
Theorem isize_reads_back n : (min_isize <= n <= max_isize)%Z -> parse_isize (if (n <? 0)%Z then "-"%char :: show_Zpos (- n) else show_Zpos n) = Some n.
Proof.
  intros [H0 H1]. destruct (n <? 0)%Z eqn:E.
  - apply Z.ltb_lt in E. destruct (show_Zpos_spec (- n) ltac:(lia)) as (A & V & N & _).
    unfold parse_isize, digits_only. destruct (show_Zpos (- n)) as [|c l] eqn:Es; [congruence|].
    rewrite (all_digits_of (c :: l) A), nat_of_digits_dval, V.
    replace (min_isize <=? - - n)%Z with true by (symmetry; apply Z.leb_le; lia). f_equal. lia.
  - apply Z.ltb_ge in E. destruct (show_Zpos_spec n E) as (A & V & N & _).
    destruct (show_Zpos n) as [|c l] eqn:Es; [congruence|].
    destruct (digit_not_sign c (A c (or_introl eq_refl))) as [Hm Hp].
    rewrite (parse_isize_nosign c l Hp Hm). unfold digits_only.
    rewrite (all_digits_of (c :: l) A), nat_of_digits_dval, V.
    replace (n <=? max_isize)%Z with true by (symmetry; apply Z.leb_le; lia). reflexivity.
Qed.
