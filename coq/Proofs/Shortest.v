(* The shortest-digits printer ({} of f64) round trips: what it prints is read back by the decimal parser as a rational
   that rounds to the value printed. *)
From Coq Require Import List Ascii String ZArith QArith Bool Lia.
From PV Require Import Base.Sx Base.Text Spec.Hier Base.Float Proofs.Decimal.
Import ListNotations.
Local Open Scope Z_scope.

(* the search only returns a candidate that passed the read-back test *)
Theorem shortest_sound m e D t : shortest_digits (m, e) = Some (D, t) ->
  rnd64 (dec_q D t) = Some (Z.abs m, e) /\ 0 <= D.
Proof.
  unfold shortest_digits. destruct (qabs_num_den (m, e)) as [num den] eqn:Eq.
  set (k := log10_floor 400 ((Z.log2 num - Z.log2 den) * 3 / 10) num den).
  set (try := fun n : Z =>
    let t0 := k - n + 1 in
    let D0 := if 0 <=? t0 then rhe num (den * 10 ^ t0) else rhe (num * 10 ^ (- t0)) den in
    let '(D, t) := strip10 20 D0 t0 in
    match rnd64 (dec_q D t) with
    | Some y => if (Z.eqb (fst y) (Z.abs (fst (m, e))) && Z.eqb (snd y) (snd (m, e)))%bool then Some (D, t) else None
    | None => None
    end).
  assert (Hnum : 0 <= num /\ 0 < den).
  { unfold qabs_num_den in Eq. destruct (0 <=? e) eqn:Ee; inversion Eq; subst.
    - apply Z.leb_le in Ee. assert (0 < 2 ^ e) by (apply Z.pow_pos_nonneg; lia). split; [nia|lia].
    - apply Z.leb_gt in Ee. split; [lia|apply Z.pow_pos_nonneg; lia]. }
  assert (Strip : forall fuel D0 t0, 0 <= D0 -> 0 <= fst (strip10 fuel D0 t0)).
  { induction fuel as [|f IH]; intros D0 t0 H0; [exact H0|]. cbn [strip10].
    destruct (negb (D0 =? 0) && (D0 mod 10 =? 0))%bool; [apply IH; apply Z.div_pos; lia|exact H0]. }
  assert (Try : forall n r, try n = Some r -> rnd64 (dec_q (fst r) (snd r)) = Some (Z.abs m, e) /\ 0 <= fst r).
  { intros n r. unfold try. cbv zeta.
    set (t0 := k - n + 1). set (D0 := if 0 <=? t0 then rhe num (den * 10 ^ t0) else rhe (num * 10 ^ (- t0)) den).
    assert (HD0 : 0 <= D0).
    { unfold D0. destruct (0 <=? t0) eqn:Et.
      - apply Z.leb_le in Et. apply rhe_nonneg; [lia|]. assert (0 < 10 ^ t0) by (apply Z.pow_pos_nonneg; lia). nia.
      - apply Z.leb_gt in Et. apply rhe_nonneg; [|lia]. assert (0 < 10 ^ (- t0)) by (apply Z.pow_pos_nonneg; lia). nia. }
    pose proof (Strip 20%nat D0 t0 HD0) as HS.
    destruct (strip10 20 D0 t0) as [D1 t1]. simpl in HS.
    destruct (rnd64 (dec_q D1 t1)) as [[ym ye]|] eqn:Er; [|discriminate].
    cbn [fst snd]. destruct ((ym =? Z.abs m) && (ye =? e))%bool eqn:Eb; [|discriminate].
    intros H. inversion H; subst r. cbn [fst snd]. apply andb_prop in Eb as [E1 E2].
    apply Z.eqb_eq in E1, E2. subst. split; [exact Er|exact HS]. }
  assert (Go : forall fuel n r,
    (fix go (fuel : nat) (n : Z) := match fuel with O => None | S f => match try n with Some r => Some r | None => go f (n + 1) end end) fuel n = Some r ->
    exists n', try n' = Some r).
  { induction fuel as [|f IH]; intros n r H; [discriminate|].
    destruct (try n) as [r'|] eqn:Et; [inversion H; subst; exists n; exact Et|]. apply (IH (n + 1) r H). }
  intros H. destruct (Go 18%nat 1 (D, t) H) as [n' Hn]. apply (Try n' (D, t) Hn).
Qed.

(* rounding is odd: the value of the opposite rational is the opposite value *)
Lemma strip2_opp fuel : forall m e, strip2 fuel (- m) e = (- fst (strip2 fuel m e), snd (strip2 fuel m e)).
Proof.
  induction fuel as [|f IH]; intros m e; [reflexivity|]. cbn [strip2].
  replace (- m =? 0) with (m =? 0) by (destruct (Z.eqb_spec m 0), (Z.eqb_spec (- m) 0); lia).
  destruct (m =? 0); [reflexivity|]. rewrite Z.even_opp. destruct (Z.even m) eqn:Ev; [|reflexivity].
  replace (- m / 2) with (- (m / 2)).
  - apply IH.
  - apply Z.even_spec in Ev. destruct Ev as [k ->]. rewrite <- Z.mul_opp_r, !(Z.mul_comm 2), !Z.div_mul by lia. reflexivity.
Qed.
Lemma canon_opp m e : canon (- m) e = (- fst (canon m e), snd (canon m e)).
Proof. unfold canon. rewrite Z.abs_opp. apply strip2_opp. Qed.
Lemma rnd64_opp q m e : rnd64 q = Some (m, e) -> rnd64 (Qopp q) = Some (- m, e).
Proof.
  unfold rnd64. destruct q as [n d]. cbn [Qnum Qden Qopp].
  replace (- n =? 0) with (n =? 0) by (destruct (Z.eqb_spec n 0), (Z.eqb_spec (- n) 0); lia).
  destruct (n =? 0) eqn:En; [intros H; inversion H; reflexivity|].
  rewrite Z.abs_opp, Z.sgn_opp. cbv zeta.
  match goal with |- context [canon (Z.sgn n * ?mant) ?ue] => set (M := mant); set (U := ue) end.
  match goal with |- (if ?c then _ else _) = _ -> _ => set (C := c) end.
  destruct C; [discriminate|]. intros H.
  assert (Hc : canon (Z.sgn n * M) U = (m, e)) by congruence.
  rewrite Z.mul_opp_l, canon_opp, Hc. reflexivity.
Qed.

(* what is printed for a non-zero value reads back as a rational that rounds to the value *)
Theorem fmt_shortest_reads_back nz m e D t : m <> 0 -> shortest_digits (m, e) = Some (D, t) ->
  exists q, parse_dec (fmt_shortest nz (m, e)) = Some q /\ rnd64 q = Some (m, e).
Proof.
  intros Hm Hs. destruct (shortest_sound m e D t Hs) as [Hr HD].
  unfold fmt_shortest. replace (m =? 0) with false by (symmetry; apply Z.eqb_neq; exact Hm). rewrite Hs.
  set (neg := m <? 0).
  assert (Shape : forall body : list ascii, ((if neg then ["-"%char] else []) ++ body)%list = with_sign neg body) by (intros; destruct neg; reflexivity).
  assert (Sign : forall q, rnd64 q = Some (Z.abs m, e) -> rnd64 (neg_of neg q) = Some (m, e)).
  { intros q Hq. unfold neg, neg_of. destruct (m <? 0) eqn:E.
    - apply Z.ltb_lt in E. rewrite (rnd64_opp q _ _ Hq). f_equal. f_equal. lia.
    - apply Z.ltb_ge in E. rewrite Hq. f_equal. f_equal. lia. }
  unfold dec_q in Hr. destruct (0 <=? t) eqn:Et.
  - apply Z.leb_le in Et. assert (0 <= D * 10 ^ t) by (assert (0 < 10 ^ t) by (apply Z.pow_pos_nonneg; lia); nia).
    destruct (show_Zpos_spec (D * 10 ^ t) H) as (A & V & N & _).
    rewrite Shape, (parse_dec_integer neg _ A N), V. eexists. split; [reflexivity|].
    apply Sign. replace (D * 10 ^ t * 10 ^ 0) with (D * 10 ^ t) by (simpl; lia). exact Hr.
  - apply Z.leb_gt in Et. set (P := 10 ^ (- t)) in *.
    assert (Pp : 0 < P) by (apply Z.pow_pos_nonneg; lia).
    assert (Hip : 0 <= D / P) by (apply Z.div_pos; lia).
    assert (Hfp : 0 <= D mod P < P) by (apply Z.mod_pos_bound; lia).
    destruct (show_Zpos_spec (D / P) Hip) as (A1 & V1 & N1 & _).
    destruct (show_Zpos_spec (D mod P) (proj1 Hfp)) as (A2 & V2 & N2 & L2).
    set (fs := show_Zpos (D mod P)) in *. set (k := Z.to_nat (- t)).
    assert (Hk : (0 < k)%nat /\ Z.of_nat k = - t) by (unfold k; split; lia).
    assert (Lfs : (List.length fs <= k)%nat) by (apply L2; [lia|]; destruct Hk as [_ ->]; exact (proj2 Hfp)).
    set (frac := pad0 (k - List.length fs) fs).
    assert (Af : all_digit frac) by (apply all_digit_app; [apply all_digit_zeros|exact A2]).
    assert (Vf : dval frac = D mod P) by (unfold frac, pad0; rewrite dval_zeros; exact V2).
    assert (Lf : List.length frac = k) by (unfold frac, pad0; rewrite app_length, repeat_length; lia).
    assert (Nf : frac <> []) by (intros E0; rewrite E0 in Lf; simpl in Lf; lia).
    rewrite Shape, (parse_dec_fraction neg (show_Zpos (D / P)) frac A1 N1 Af Nf), V1, Vf, Lf.
    destruct Hk as [_ Hk]. rewrite Hk. fold P.
    eexists. split; [reflexivity|]. apply Sign.
    replace (D / P * P + D mod P) with D by (pose proof (Z.div_mod D P ltac:(lia)); lia). exact Hr.
Qed.
