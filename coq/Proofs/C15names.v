(* C15: the name functions decompose a path at the last dot of its last component. *)
From Coq Require Import List Ascii String ZArith Bool Lia.
From PV Require Import Base.Sx Base.Text Model.PdbLex Model.Names.
Import ListNotations.

Definition no_char (c : ascii) (t : text) : bool := forallb (fun x => negb (Ascii.eqb x c)) t.

Lemma split_no_dot t : no_char "." t = true -> split_last_dot t = None.
Proof.
  induction t as [|c r IH]; simpl; [reflexivity|]. intros H. apply andb_prop in H as [H1 H2].
  rewrite (IH H2). apply negb_true_iff in H1. rewrite H1. reflexivity.
Qed.
Lemma split_at_last_dot pre ext : no_char "." ext = true -> split_last_dot (pre ++ "."%char :: ext) = Some (pre, ext).
Proof.
  intros H. induction pre as [|c r IH]; simpl.
  - rewrite (split_no_dot ext H). reflexivity.
  - rewrite IH. reflexivity.
Qed.

Lemma after_last_app sep a b cur : no_char sep b = true -> after_last sep (a ++ sep :: b) cur = b.
Proof.
  intros H. revert cur. induction a as [|c r IH]; intros cur; simpl.
  - rewrite Ascii.eqb_refl.
    assert (G : forall acc, after_last sep b acc = (rev acc ++ b)%list).
    { induction b as [|x y IHb]; intros acc; simpl; [now rewrite app_nil_r|].
      simpl in H. apply andb_prop in H as [H1 H2]. apply negb_true_iff in H1. rewrite H1.
      rewrite IHb by exact H2. simpl. rewrite <- app_assoc. reflexivity. }
    apply G.
  - destruct (Ascii.eqb c sep); apply IH.
Qed.
Lemma after_last_none sep b : no_char sep b = true -> after_last sep b [] = b.
Proof.
  intros H.
  assert (G : forall acc, after_last sep b acc = (rev acc ++ b)%list).
  { induction b as [|x y IHb]; intros acc; simpl; [now rewrite app_nil_r|].
    simpl in H. apply andb_prop in H as [H1 H2]. apply negb_true_iff in H1. rewrite H1.
    rewrite IHb by exact H2. simpl. rewrite <- app_assoc. reflexivity. }
  apply G.
Qed.

(* a path: an optional directory part ending in '/', then the file name *)
Definition path_of (dir : option text) (name : text) : text :=
  match dir with Some d => (d ++ "/"%char :: name)%list | None => name end.
Lemma file_name_of dir name : no_char "/" name = true -> file_name (path_of dir name) = name.
Proof.
  intros H. unfold file_name, path_of. destruct dir as [d|]; [apply after_last_app|apply after_last_none]; exact H.
Qed.

Lemma extension_of stem ext : stem <> [] -> no_char "." ext = true -> extension (stem ++ "."%char :: ext) = Some ext.
Proof.
  intros Hs He. unfold extension. rewrite (split_at_last_dot stem ext He). destruct stem; [congruence|reflexivity].
Qed.
Lemma file_stem_of stem ext : stem <> [] -> no_char "." ext = true -> file_stem (stem ++ "."%char :: ext) = stem.
Proof.
  intros Hs He. unfold file_stem. rewrite (split_at_last_dot stem ext He). destruct stem; [congruence|reflexivity].
Qed.

Lemma no_char_app c a b : no_char c (a ++ b) = (no_char c a && no_char c b)%bool.
Proof. unfold no_char. apply forallb_app. Qed.

(* ---------- opening ---------- *)
Theorem guess_plain dir stem ext : stem <> [] -> no_char "/" stem = true -> no_char "/" ext = true -> no_char "." ext = true ->
  is_gz ext = false ->
  guess_format (path_of dir (stem ++ "."%char :: ext)) = option_map (fun f => (f, false)) (format_of_ext ext).
Proof.
  intros Hs H1 H2 H3 Hg. unfold guess_format.
  rewrite file_name_of by (rewrite no_char_app; simpl; now rewrite H1, H2).
  rewrite (extension_of stem ext Hs H3), Hg. reflexivity.
Qed.
Theorem guess_gz dir stem ext g : stem <> [] -> no_char "/" stem = true -> no_char "/" ext = true -> no_char "." ext = true ->
  no_char "/" g = true -> no_char "." g = true -> is_gz g = true ->
  guess_format (path_of dir (stem ++ "."%char :: ext ++ "."%char :: g)) = option_map (fun f => (f, true)) (format_of_ext ext).
Proof.
  intros Hs H1 H2 H3 H4 H5 Hg. unfold guess_format.
  rewrite file_name_of by (rewrite !no_char_app; simpl; rewrite no_char_app; simpl; now rewrite H1, H2, H4).
  assert (E : (stem ++ "."%char :: ext ++ "."%char :: g = (stem ++ "."%char :: ext) ++ "."%char :: g)%list)
    by (rewrite <- app_assoc; reflexivity).
  rewrite E.
  assert (Hne : (stem ++ "."%char :: ext)%list <> []) by (destruct stem; [congruence|discriminate]).
  rewrite (extension_of _ g Hne H5), Hg, (file_stem_of _ g Hne H5), (extension_of stem ext Hs H3). reflexivity.
Qed.
Theorem guess_no_extension dir name : no_char "/" name = true -> no_char "." name = true -> guess_format (path_of dir name) = None.
Proof.
  intros H1 H2. unfold guess_format. rewrite (file_name_of dir name H1). unfold extension. rewrite (split_no_dot name H2). reflexivity.
Qed.
Theorem guess_hidden dir name : no_char "/" name = true -> no_char "." name = true -> guess_format (path_of dir ("."%char :: name)) = None.
Proof.
  intros H1 H2. unfold guess_format.
  rewrite file_name_of by (simpl; exact H1).
  unfold extension. change ("."%char :: name) with ([] ++ "."%char :: name)%list. rewrite (split_at_last_dot [] name H2). reflexivity.
Qed.

(* ---------- saving ---------- *)
Definition save_class (ext : text) : option fmt :=
  if text_eqb (lower ext) (stext "pdb") then Some FPdb else if text_eqb (lower ext) (stext "cif") then Some FCif else None.
Theorem save_by_extension pre ext : no_char "." ext = true -> save_format (pre ++ "."%char :: ext) = save_class ext.
Proof.
  intros H. unfold save_format, check_extension, after_dot. rewrite (split_at_last_dot pre ext H). reflexivity.
Qed.
Theorem save_no_extension p : no_char "." p = true -> save_format p = None.
Proof. intros H. unfold save_format, check_extension, after_dot. rewrite (split_no_dot p H). reflexivity. Qed.
Lemma is_gz_length g : is_gz g = true -> List.length g = 2%nat.
Proof.
  unfold is_gz. intros H. destruct (text_eqb_spec (lower g) (stext "gz")); [|discriminate].
  assert (L : List.length (lower g) = 2%nat) by (rewrite e; reflexivity). unfold lower in L. rewrite map_length in L. exact L.
Qed.
Theorem save_gz_by_extension pre ext g : no_char "." ext = true -> no_char "." g = true -> is_gz g = true ->
  save_gz_format (pre ++ "."%char :: ext ++ "."%char :: g) = save_class ext.
Proof.
  intros He Hg G. unfold save_gz_format.
  assert (E : (pre ++ "."%char :: ext ++ "."%char :: g = (pre ++ "."%char :: ext) ++ "."%char :: g)%list)
    by (rewrite <- app_assoc; reflexivity).
  pose proof (is_gz_length g G) as Lg.
  assert (C : check_extension (pre ++ "."%char :: ext ++ "."%char :: g) "gz" = true).
  { unfold check_extension, after_dot. rewrite E, (split_at_last_dot _ g Hg). exact G. }
  rewrite C.
  assert (Len : List.length (pre ++ "."%char :: ext ++ "."%char :: g) = (List.length (pre ++ "."%char :: ext) + 3)%nat).
  { rewrite E, app_length. simpl. lia. }
  rewrite Len. replace (Nat.ltb (List.length (pre ++ "."%char :: ext) + 3) 3) with false
    by (symmetry; apply Nat.ltb_ge; lia).
  replace (List.length (pre ++ "."%char :: ext) + 3 - 3)%nat with (List.length (pre ++ "."%char :: ext)) by lia.
  rewrite E, firstn_app, firstn_all, Nat.sub_diag. simpl firstn. rewrite app_nil_r.
  unfold check_extension, after_dot. rewrite (split_at_last_dot pre ext He). reflexivity.
Qed.
Theorem save_gz_needs_gz p : check_extension p "gz" = false -> save_gz_format p = None.
Proof. intros H. unfold save_gz_format. rewrite H. reflexivity. Qed.
