(* C01: a coordinate line assembled from fields of the column widths is lexed to the values of its fields. *)
From Coq Require Import List Ascii String ZArith Bool Lia Arith.
From PV Require Import Base.Sx Base.Text Base.Float Spec.Hier Model.PdbLex.
Import ListNotations.

Definition total (l : list nat) : nat := fold_right Nat.add 0%nat l.
Lemma concat_length (segs : list text) : List.length (List.concat segs) = total (map (@List.length ascii) segs).
Proof. induction segs as [|s r IH]; [reflexivity|]. simpl. rewrite app_length, IH. reflexivity. Qed.

(* the k-th segment of a concatenation stands at the columns given by the lengths in front of it *)
Lemma total_cons a l : total (a :: l) = (a + total l)%nat.
Proof. reflexivity. Qed.
Lemma sub_concat (segs : list text) : forall k,
  sub (List.concat segs) (total (firstn k (map (@List.length ascii) segs))) (total (firstn (S k) (map (@List.length ascii) segs))) = nth k segs [].
Proof.
  induction segs as [|s r IH]; intros k.
  - destruct k; reflexivity.
  - cbn [map List.concat]. destruct k as [|k].
    + rewrite firstn_cons, !firstn_O, total_cons. cbn [nth]. unfold sub. change (total []) with 0%nat.
      rewrite Nat.add_0_r, Nat.sub_0_r. change (skipn 0 (s ++ List.concat r)) with (s ++ List.concat r)%list.
      rewrite firstn_app. replace (List.length s - List.length s)%nat with 0%nat by lia. rewrite firstn_all, firstn_O. apply app_nil_r.
    + rewrite !firstn_cons, !total_cons. cbn [nth]. unfold sub in *.
      set (A := total (firstn (S k) (map (@List.length ascii) r))) in *. set (B := total (firstn k (map (@List.length ascii) r))) in *.
      replace (List.length s + A - (List.length s + B))%nat with (A - B)%nat by lia.
      rewrite skipn_app, skipn_all2 by lia.
      replace (List.length s + B - List.length s)%nat with B by lia.
      cbn [app]. apply IH.
Qed.
Lemma nth_error_concat (segs : list text) : forall k c,
  nth k segs [] = [c] -> nth_error (List.concat segs) (total (firstn k (map (@List.length ascii) segs))) = Some c.
Proof.
  induction segs as [|s r IH]; intros k c H.
  - destruct k; discriminate.
  - cbn [map List.concat]. destruct k as [|k].
    + cbn [nth] in H. subst s. reflexivity.
    + rewrite firstn_cons, total_cons. cbn [nth] in H. rewrite nth_error_app2 by lia.
      replace (List.length s + total (firstn k (map (@List.length ascii) r)) - List.length s)%nat with (total (firstn k (map (@List.length ascii) r))) by lia.
      apply IH. exact H.
Qed.

(* reading a field of a line that is long enough *)
Lemma field_value {T} (p : text -> option T) (d : T) ln line a b v :
  (b <= List.length line)%nat -> (a <= b)%nat -> p (trim (sub line a b)) = Some v -> field p d ln line a b = (v, []).
Proof.
  intros Hl Hab Hp. unfold field.
  replace (len line <? Z.of_nat b)%Z with false by (symmetry; apply Z.ltb_ge; unfold len; lia).
  replace (Nat.ltb b a) with false by (symmetry; apply Nat.ltb_ge; lia).
  rewrite Hp. reflexivity.
Qed.

(* the fields of a coordinate line, in column order, with their widths *)
Definition atom_widths : list nat := [6; 5; 1; 4; 1; 3; 1; 1; 4; 1; 3; 8; 8; 8; 6; 6; 6; 4; 2; 1; 1]%nat.

(* the line read back: every field anywhere inside its columns *)
Theorem atom_line_read_back ln het (segs : list text)
        serial name resname resnum x y z occ b segment element (alt chain ins c78 c79 : ascii) :
  map (@List.length ascii) segs = atom_widths ->
  parse_usize (trim (nth 1 segs [])) = Some serial ->
  trim (nth 3 segs []) = name -> nth 4 segs [] = [alt] ->
  trim (nth 5 segs []) = resname -> nth 7 segs [] = [chain] ->
  parse_isize (trim (nth 8 segs [])) = Some resnum -> nth 9 segs [] = [ins] ->
  parse_f64_field (trim (nth 11 segs [])) = Some x -> parse_f64_field (trim (nth 12 segs [])) = Some y ->
  parse_f64_field (trim (nth 13 segs [])) = Some z -> parse_f64_field (trim (nth 14 segs [])) = Some occ ->
  parse_f64_field (trim (nth 15 segs [])) = Some b ->
  trim (nth 17 segs []) = segment -> trim (nth 18 segs []) = element ->
  nth 19 segs [] = [c78] -> nth 20 segs [] = [c79] -> c78 = " "%char -> c79 = " "%char ->
  lex_atom ln (List.concat segs) het =
  (LAtom het {| ab_serial := serial; ab_name := name; ab_alt := opt_char alt; ab_resname := resname; ab_chain := [chain];
                ab_resnum := resnum; ab_icode := opt_char ins; ab_element := element; ab_charge := 0 |} x y z occ b, []).
Proof.
  intros Hw Hser Hname Halt Hres Hchain Hnum Hins Hx Hy Hz Hocc Hb Hseg Hel H78 H79 E78 E79.
  set (line := List.concat segs).
  assert (Hlen : List.length line = 80%nat) by (unfold line; rewrite concat_length, Hw; reflexivity).
  (* every field: its columns are the k-th segment *)
  assert (S : forall k a b', total (firstn k atom_widths) = a -> total (firstn (S k) atom_widths) = b' -> sub line a b' = nth k segs []).
  { intros k a b' Ha Hb'. subst a b'. rewrite <- Hw. apply sub_concat. }
  assert (C : forall k a c, total (firstn k atom_widths) = a -> nth k segs [] = [c] -> nth_error line a = Some c).
  { intros k a c Ha Hc. subst a. rewrite <- Hw. apply nth_error_concat. exact Hc. }
  unfold lex_atom, lex_atom_basics, f_f64, f_f64_default, f_usize, f_isize, f_text, f_char.
  rewrite (field_value parse_f64_field _ ln line 30 38 x) by (try lia; rewrite (S 11%nat 30%nat 38%nat eq_refl eq_refl); exact Hx).
  rewrite (field_value parse_f64_field _ ln line 38 46 y) by (try lia; rewrite (S 12%nat 38%nat 46%nat eq_refl eq_refl); exact Hy).
  rewrite (field_value parse_f64_field _ ln line 46 54 z) by (try lia; rewrite (S 13%nat 46%nat 54%nat eq_refl eq_refl); exact Hz).
  rewrite (field_value parse_f64_field _ ln line 54 60 occ) by (try lia; rewrite (S 14%nat 54%nat 60%nat eq_refl eq_refl); exact Hocc).
  rewrite (field_value parse_f64_field _ ln line 60 66 b) by (try lia; rewrite (S 15%nat 60%nat 66%nat eq_refl eq_refl); exact Hb).
  rewrite (field_value parse_usize _ ln line 6 11 serial) by (try lia; rewrite (S 1%nat 6%nat 11%nat eq_refl eq_refl); exact Hser).
  rewrite (field_value (fun s => Some s) _ ln line 12 16 name) by (try lia; rewrite (S 3%nat 12%nat 16%nat eq_refl eq_refl), Hname; reflexivity).
  rewrite (C 4%nat 16%nat alt eq_refl Halt).
  rewrite (field_value (fun s => Some s) _ ln line 17 20 resname) by (try lia; rewrite (S 5%nat 17%nat 20%nat eq_refl eq_refl), Hres; reflexivity).
  rewrite (C 7%nat 21%nat chain eq_refl Hchain).
  rewrite (field_value parse_isize _ ln line 22 26 resnum) by (try lia; rewrite (S 8%nat 22%nat 26%nat eq_refl eq_refl); exact Hnum).
  rewrite (C 9%nat 26%nat ins eq_refl Hins).
  rewrite (field_value (fun s => Some s) _ ln line 72 76 segment) by (try lia; rewrite (S 17%nat 72%nat 76%nat eq_refl eq_refl), Hseg; reflexivity).
  rewrite (field_value (fun s => Some s) _ ln line 76 78 element) by (try lia; rewrite (S 18%nat 76%nat 78%nat eq_refl eq_refl), Hel; reflexivity).
  rewrite (C 19%nat 78%nat c78 eq_refl H78), (C 20%nat 79%nat c79 eq_refl H79). subst c78 c79.
  reflexivity.
Qed.
