(* C15: in the reader models the options are filters - a hydrogen line / row leaves the state as it is, every other line /
   row is treated as without the option, and only_atomic_coords is the removal of the single items. *)
From Coq Require Import List Ascii String ZArith Bool Lia.
From PV Require Import Base.Sx Base.Text Spec.Hier Model.PdbLex Model.PdbParse Model.CifLex Model.CifParse.
Import ListNotations.

(* ---------- PDB ---------- *)
Lemma up_errors_nil s : up_errors s [] = s.
Proof. destruct s; unfold up_errors; simpl; rewrite app_nil_r; reflexivity. Qed.

(* a hydrogen line: lexes without diagnostics to an atom record whose atom gets hydrogen as its element *)
Definition hydrogen_line (ao loose : bool) (nl : Z * text) : bool :=
  match lex_line (fst nl) (snd nl) ao loose with
  | inl (LAtom _ b _ _ _ _ _, []) => is_hydrogen (ab_element b) (ab_name b)
  | _ => false
  end.
Lemma pdb_hydrogen_line_skipped fm ao loose s nl : hydrogen_line ao loose nl = true -> step_line true fm ao loose s nl = s.
Proof.
  unfold hydrogen_line, step_line. intros H. destruct (s_stop s); [reflexivity|].
  destruct (lex_line (fst nl) (snd nl) ao loose) as [[it errs]|e]; [|discriminate].
  destruct it; try discriminate. destruct errs; [|discriminate].
  rewrite up_errors_nil. cbn [step_item]. rewrite H. reflexivity.
Qed.
Lemma pdb_other_line_same fm ao loose s nl : hydrogen_line ao loose nl = false ->
  (forall b, match lex_line (fst nl) (snd nl) ao loose with
             | inl (LAtom _ b' _ _ _ _ _, _ :: _) => b' = b -> is_hydrogen (ab_element b) (ab_name b) = false
             | _ => True end) ->
  step_line true fm ao loose s nl = step_line false fm ao loose s nl.
Proof.
  unfold hydrogen_line, step_line. intros H Hx. destruct (s_stop s); [reflexivity|].
  destruct (lex_line (fst nl) (snd nl) ao loose) as [[it errs]|e]; [|reflexivity].
  destruct it; try reflexivity. cbn [step_item].
  destruct errs as [|e0 es].
  - rewrite H. reflexivity.
  - rewrite (Hx b eq_refl). reflexivity.
Qed.
(* the option as a filter on the numbered lines (a hydrogen line that also carries a lexing diagnostic is not removed: its
   diagnostic stays; such a line is excluded by the hypothesis) *)
Theorem pdb_discard_hydrogens_is_a_filter fm ao loose : forall lines s,
  (forall nl, In nl lines -> forall b, match lex_line (fst nl) (snd nl) ao loose with
             | inl (LAtom _ b' _ _ _ _ _, _ :: _) => b' = b -> is_hydrogen (ab_element b) (ab_name b) = false
             | _ => True end) ->
  fold_left (step_line true fm ao loose) lines s =
  fold_left (step_line false fm ao loose) (filter (fun nl => negb (hydrogen_line ao loose nl)) lines) s.
Proof.
  induction lines as [|nl r IH]; intros s Hc; [reflexivity|].
  cbn [fold_left filter].
  destruct (hydrogen_line ao loose nl) eqn:E; cbn [negb].
  - rewrite (pdb_hydrogen_line_skipped fm ao loose s nl E). apply IH. intros x Hx. apply Hc. now right.
  - cbn [fold_left]. rewrite (pdb_other_line_same fm ao loose s nl E (Hc nl (or_introl eq_refl))).
    apply IH. intros x Hx. apply Hc. now right.
Qed.

(* ---------- mmCIF ---------- *)
Lemma column_text_no_error hdr row name : snd (column get_text' hdr row name) = [].
Proof. unfold column, get_text'. destruct (position_text hdr (stext name) 0); reflexivity. Qed.
Lemma q_err_nil s : q_err s [] = s.
Proof. destruct s; unfold q_err; simpl; rewrite app_nil_r; reflexivity. Qed.

Definition hydrogen_row (hdr : list text) (row : list cval) : bool :=
  match fst (column get_text' hdr row "atom_site.type_symbol"), fst (column get_text' hdr row "atom_site.label_atom_id") with
  | Some e, Some n => is_hydrogen e n
  | _, _ => false
  end.
Lemma cif_hydrogen_row_skipped fo hdr s row : hydrogen_row hdr row = true -> atom_row true fo hdr s row = s.
Proof.
  unfold hydrogen_row, atom_row. intros H. destruct (q_stop s); [reflexivity|].
  pose proof (column_text_no_error hdr row "atom_site.type_symbol") as E.
  pose proof (column_text_no_error hdr row "atom_site.label_atom_id") as E4.
  destruct (column get_text' hdr row "atom_site.type_symbol") as [[e|] e1]; simpl in *; [|discriminate].
  destruct (column get_text' hdr row "atom_site.label_atom_id") as [[n|] e4]; simpl in *; [|discriminate].
  subst e1 e4. rewrite H. cbn [andb app]. apply q_err_nil.
Qed.
Lemma cif_other_row_same fo hdr s row : hydrogen_row hdr row = false -> atom_row true fo hdr s row = atom_row false fo hdr s row.
Proof.
  unfold hydrogen_row, atom_row. intros H. destruct (q_stop s); [reflexivity|].
  destruct (column get_text' hdr row "atom_site.type_symbol") as [[e|] e1]; simpl in *; [|reflexivity].
  destruct (column get_text' hdr row "atom_site.label_atom_id") as [[n|] e4]; simpl in *; [|reflexivity].
  rewrite H. reflexivity.
Qed.
Theorem cif_discard_hydrogens_is_a_filter fo hdr : forall rows s,
  fold_left (atom_row true fo hdr) rows s =
  fold_left (atom_row false fo hdr) (filter (fun row => negb (hydrogen_row hdr row)) rows) s.
Proof.
  induction rows as [|row r IH]; intros s; [reflexivity|].
  cbn [fold_left filter]. destruct (hydrogen_row hdr row) eqn:E; cbn [negb].
  - rewrite (cif_hydrogen_row_skipped fo hdr s row E). apply IH.
  - cbn [fold_left]. rewrite (cif_other_row_same fo hdr s row E). apply IH.
Qed.

(* only_atomic_coords: the single items are not looked at, everything else is read as without the option *)
Definition is_single (it : item) : bool := match it with IData (DSingle _ _) => true | _ => false end.
Theorem cif_atomic_only_is_a_filter dh fo : forall items s,
  fold_left (item_step dh fo true) items s = fold_left (item_step dh fo false) (filter (fun it => negb (is_single it)) items) s.
Proof.
  induction items as [|it r IH]; intros s; [reflexivity|].
  cbn [fold_left filter]. destruct it as [[name v|hdr rows]|name ds]; cbn [is_single negb fold_left]; apply IH.
Qed.
