(* Decimal printing and parsing are inverse on the model's functions: show_Zpos / digits, fmt_fixed / parse_dec. *)
From Coq Require Import List Ascii String ZArith QArith Qabs Bool Lia.
From PV Require Import Base.Sx Base.Text Spec.Hier Base.Float.
Import ListNotations.
Local Open Scope Z_scope.

Definition dval (s : list ascii) : Z := fold_left (fun a c => a * 10 + (Z.of_N (N_of_ascii c) - 48)) s 0.
Definition all_digit (s : list ascii) : Prop := forall c, In c s -> digit_of c = Some (Z.of_N (N_of_ascii c) - 48).

Lemma digit_of_ascii d : 0 <= d < 10 -> digit_of (ascii_of_digit d) = Some d /\ Z.of_N (N_of_ascii (ascii_of_digit d)) - 48 = d.
Proof.
  intros H. unfold digit_of, ascii_of_digit.
  rewrite N_ascii_embedding by (apply N2Z.inj_lt; rewrite Z2N.id by lia; simpl; lia).
  rewrite Z2N.id by lia.
  replace ((48 <=? d + 48) && (d + 48 <=? 57))%bool with true
    by (symmetry; apply andb_true_intro; split; apply Z.leb_le; lia).
  split; [f_equal; lia|lia].
Qed.

Lemma dval_app a b : dval (a ++ b) = fold_left (fun x c => x * 10 + (Z.of_N (N_of_ascii c) - 48)) b (dval a).
Proof. unfold dval. apply fold_left_app. Qed.
Lemma dval_snoc a c : dval (a ++ [c]) = dval a * 10 + (Z.of_N (N_of_ascii c) - 48).
Proof. rewrite dval_app. reflexivity. Qed.

(* the digits written for n, most significant first, in front of the accumulator *)
Lemma show_nat_digits_spec fuel : forall n acc, 0 <= n < 10 ^ Z.of_nat fuel -> (0 < fuel)%nat ->
  exists ds, show_nat_digits fuel n acc = (ds ++ acc)%list /\ all_digit ds /\ dval ds = n /\ ds <> [] /\
             (forall k, (0 < k)%nat -> n < 10 ^ Z.of_nat k -> (List.length ds <= k)%nat).
Proof.
  induction fuel as [|f IH]; intros n acc Hn Hf; [lia|].
  cbn [show_nat_digits].
  assert (Hd : 0 <= n mod 10 < 10) by (apply Z.mod_pos_bound; lia).
  destruct (digit_of_ascii (n mod 10) Hd) as [D1 D2].
  destruct (n <? 10) eqn:E.
  - apply Z.ltb_lt in E. exists [ascii_of_digit (n mod 10)]. split; [reflexivity|]. split; [|split; [|split; [discriminate|]]].
    + intros c [<-|[]]. rewrite D1, D2. reflexivity.
    + unfold dval. simpl. rewrite D2. rewrite Z.mod_small by lia. lia.
    + intros k Hk _. simpl. lia.
  - apply Z.ltb_ge in E.
    assert (Hf' : (0 < f)%nat).
    { destruct f; [|lia]. simpl in Hn. lia. }
    destruct (IH (n / 10) (ascii_of_digit (n mod 10) :: acc)) as (ds & E1 & A & V & NE & LB).
    { split; [apply Z.div_pos; lia|]. apply Z.div_lt_upper_bound; [lia|].
      replace (Z.of_nat (S f)) with (Z.of_nat f + 1) in Hn by lia. rewrite Z.pow_add_r in Hn by lia. lia. }
    { exact Hf'. }
    exists (ds ++ [ascii_of_digit (n mod 10)])%list. split; [rewrite E1, <- app_assoc; reflexivity|].
    split; [|split; [|split]].
    + intros c Hc. apply in_app_or in Hc as [Hc|[<-|[]]]; [apply A, Hc|]. rewrite D1, D2. reflexivity.
    + rewrite dval_snoc, V, D2. pose proof (Z.div_mod n 10). lia.
    + destruct ds; discriminate.
    + intros k Hk Hlt. rewrite app_length. simpl.
      destruct k as [|k']; [lia|]. destruct k' as [|k''].
      * simpl in Hlt. lia.
      * assert ((List.length ds <= S k'')%nat); [|lia].
        apply LB; [lia|]. apply Z.div_lt_upper_bound; [lia|].
        replace (Z.of_nat (S (S k''))) with (Z.of_nat (S k'') + 1) in Hlt by lia. rewrite Z.pow_add_r in Hlt by lia. lia.
Qed.

Lemma show_Zpos_spec n : 0 <= n -> all_digit (show_Zpos n) /\ dval (show_Zpos n) = n /\ show_Zpos n <> [] /\
  (forall k, (0 < k)%nat -> n < 10 ^ Z.of_nat k -> (List.length (show_Zpos n) <= k)%nat).
Proof.
  intros H. unfold show_Zpos.
  destruct (show_nat_digits_spec (Z.to_nat (Z.log2 n) + 2) n []) as (ds & E & A & V & NE & LB).
  - split; [exact H|].
    destruct (Z.eq_dec n 0) as [->|Hn0]; [simpl; lia|].
    assert (Hp : 0 < n) by lia.
    pose proof (Z.log2_spec n Hp) as [_ L].
    rewrite Nat2Z.inj_add, Z2Nat.id by apply Z.log2_nonneg.
    change (Z.of_nat 2) with 2.
    eapply Z.lt_le_trans; [exact L|].
    replace (Z.log2 n + 2) with (Z.succ (Z.log2 n) + 1) by lia.
    rewrite Z.pow_add_r by (pose proof (Z.log2_nonneg n); lia).
    assert (2 ^ Z.succ (Z.log2 n) <= 10 ^ Z.succ (Z.log2 n)) by (apply Z.pow_le_mono_l; pose proof (Z.log2_nonneg n); lia).
    assert (0 < 10 ^ Z.succ (Z.log2 n)) by (apply Z.pow_pos_nonneg; pose proof (Z.log2_nonneg n); lia).
    lia.
  - lia.
  - rewrite app_nil_r in E. rewrite E. auto.
Qed.

(* reading digits back *)
Lemma digits_spec ds : forall rest acc cnt, all_digit ds ->
  match rest with [] => True | c :: _ => digit_of c = None end ->
  digits (ds ++ rest) acc cnt = (acc * 10 ^ Z.of_nat (List.length ds) + dval ds, cnt + Z.of_nat (List.length ds), rest).
Proof.
  induction ds as [|c r IH]; intros rest acc cnt A Hr.
  - simpl. replace (acc * 1 + dval []) with acc by (unfold dval; simpl; lia). rewrite Z.add_0_r.
    destruct rest as [|x y]; [reflexivity|]. simpl. rewrite Hr. reflexivity.
  - cbn [app digits]. rewrite (A c (or_introl eq_refl)).
    rewrite IH; [|intros x Hx; apply A; now right|exact Hr].
    assert (E1 : (acc * 10 + (Z.of_N (N_of_ascii c) - 48)) * 10 ^ Z.of_nat (List.length r) + dval r =
                 acc * 10 ^ Z.of_nat (List.length (c :: r)) + dval (c :: r)); [|rewrite E1; replace (cnt + 1 + Z.of_nat (List.length r)) with (cnt + Z.of_nat (List.length (c :: r))) by (cbn [List.length]; lia); reflexivity].
    { cbn [List.length]. rewrite Nat2Z.inj_succ, Z.pow_succ_r by lia.
      unfold dval. cbn [fold_left].
      assert (G : forall l a b, fold_left (fun x c0 => x * 10 + (Z.of_N (N_of_ascii c0) - 48)) l (a + b * 10 ^ 0) =
                                 fold_left (fun x c0 => x * 10 + (Z.of_N (N_of_ascii c0) - 48)) l a + b * 10 ^ Z.of_nat (List.length l)).
      { induction l as [|z l' IHl]; intros a b; cbn [fold_left List.length]; [simpl; lia|].
        rewrite Nat2Z.inj_succ, Z.pow_succ_r by lia.
        replace ((a + b * 10 ^ 0) * 10 + (Z.of_N (N_of_ascii z) - 48)) with ((a * 10 + (Z.of_N (N_of_ascii z) - 48)) + (b * 10) * 10 ^ 0) by (simpl; lia).
        rewrite IHl. lia. }
      specialize (G r 0 (0 * 10 + (Z.of_N (N_of_ascii c) - 48))).
      replace (0 + (0 * 10 + (Z.of_N (N_of_ascii c) - 48)) * 10 ^ 0) with (0 * 10 + (Z.of_N (N_of_ascii c) - 48)) in G by (simpl; lia).
      rewrite G. lia. }
Qed.

(* leading zeros *)
Lemma all_digit_zeros k : all_digit (repeat "0"%char k).
Proof. intros c Hc. apply repeat_spec in Hc. subst c. reflexivity. Qed.
Lemma dval_zeros k s : dval (repeat "0"%char k ++ s) = dval s.
Proof.
  induction k as [|k IH]; [reflexivity|]. simpl repeat. unfold dval in *. cbn [app fold_left].
  change (0 * 10 + (Z.of_N (N_of_ascii "0") - 48)) with 0. exact IH.
Qed.
Lemma all_digit_app a b : all_digit a -> all_digit b -> all_digit (a ++ b).
Proof. intros A B c Hc. apply in_app_or in Hc as [H|H]; auto. Qed.

(* rounding half to even stays within half a unit *)
Lemma rhe_close a b : 0 <= a -> 0 < b -> 2 * Z.abs (rhe a b * b - a) <= b.
Proof.
  intros Ha Hb. unfold rhe.
  pose proof (Z.div_mod a b ltac:(lia)) as DM. pose proof (Z.mod_pos_bound a b Hb) as MB.
  destruct (Z.compare_spec (2 * (a mod b)) b) as [E|L|G].
  - destruct (Z.even (a / b)); nia.
  - nia.
  - nia.
Qed.
Lemma rhe_nonneg a b : 0 <= a -> 0 < b -> 0 <= rhe a b.
Proof.
  intros Ha Hb. unfold rhe. pose proof (Z.div_pos a b Ha Hb).
  destruct (2 * (a mod b) ?= b); [destruct (Z.even (a / b))| |]; lia.
Qed.

(* the rounded magnitude printed by fmt_fixed *)
Definition fixed_r (p : nat) (m e : Z) : Z :=
  let a := Z.abs m in let P := 10 ^ Z.of_nat p in
  if 0 <=? e then a * 2 ^ e * P else rhe (a * P) (2 ^ (- e)).
Lemma fixed_r_nonneg p m e : 0 <= fixed_r p m e.
Proof.
  unfold fixed_r. assert (0 < 10 ^ Z.of_nat p) by (apply Z.pow_pos_nonneg; lia).
  destruct (0 <=? e) eqn:E.
  - apply Z.leb_le in E. assert (0 < 2 ^ e) by (apply Z.pow_pos_nonneg; lia). nia.
  - apply Z.leb_gt in E. apply rhe_nonneg; [nia|apply Z.pow_pos_nonneg; lia].
Qed.

Lemma sign_skip (s rest : list ascii) : all_digit s -> s <> [] ->
  match (s ++ rest)%list with "-"%char :: r => (true, r) | "+"%char :: r => (false, r) | _ => (false, (s ++ rest)%list) end = (false, (s ++ rest)%list).
Proof.
  intros A N. destruct s as [|c l]; [congruence|]. cbn [app].
  pose proof (A c (or_introl eq_refl)) as Hc.
  destruct c as [[] [] [] [] [] [] [] []]; try reflexivity; vm_compute in Hc; discriminate.
Qed.

(* parse_dec on the two shapes fmt_fixed produces *)
Definition neg_of (neg : bool) (q : Q) : Q := if neg then Qopp q else q.
Definition with_sign (neg : bool) (s : list ascii) : list ascii := if neg then "-"%char :: s else s.
Lemma sign_step neg (s : list ascii) : all_digit s -> s <> [] -> forall rest,
  match with_sign neg (s ++ rest)%list with "-"%char :: r => (true, r) | "+"%char :: r => (false, r) | _ => (false, with_sign neg (s ++ rest)%list) end
  = (neg, (s ++ rest)%list).
Proof. intros A N rest. destruct neg; [reflexivity|]. apply sign_skip; assumption. Qed.

Lemma parse_dec_integer neg ds : all_digit ds -> ds <> [] ->
  parse_dec (with_sign neg ds) = Some (neg_of neg (inject_Z (dval ds * 10 ^ 0))).
Proof.
  intros A N. unfold parse_dec.
  pose proof (sign_step neg ds A N []) as S1. rewrite app_nil_r in S1. rewrite S1.
  pose proof (digits_spec ds [] 0 0 A I) as D. rewrite app_nil_r in D. rewrite D.
  cbv beta iota zeta.
  replace (0 + Z.of_nat (List.length ds) + 0 =? 0) with false
    by (symmetry; apply Z.eqb_neq; destruct ds; [congruence|simpl List.length; lia]).
  cbv beta iota zeta. replace (0 - 0) with 0 by lia.
  replace (0 <=? 0) with true by reflexivity. cbv iota.
  replace (0 * 10 ^ Z.of_nat (List.length ds) + dval ds) with (dval ds) by lia.
  destruct neg; reflexivity.
Qed.
Lemma parse_dec_fraction neg ds1 ds2 : all_digit ds1 -> ds1 <> [] -> all_digit ds2 -> ds2 <> [] ->
  parse_dec (with_sign neg (ds1 ++ "."%char :: ds2)) =
  Some (neg_of neg (Qmake (dval ds1 * 10 ^ Z.of_nat (List.length ds2) + dval ds2) (Z.to_pos (10 ^ Z.of_nat (List.length ds2))))).
Proof.
  intros A1 N1 A2 N2. unfold parse_dec.
  rewrite (sign_step neg ds1 A1 N1 ("."%char :: ds2)).
  assert (Dot : digit_of "."%char = None) by reflexivity.
  rewrite (digits_spec ds1 ("."%char :: ds2) 0 0 A1 Dot).
  cbv beta iota zeta.
  pose proof (digits_spec ds2 [] (0 * 10 ^ Z.of_nat (List.length ds1) + dval ds1) 0 A2 I) as D2. rewrite app_nil_r in D2. rewrite D2.
  cbv beta iota zeta.
  assert (L2 : 0 < Z.of_nat (List.length ds2)) by (destruct ds2; [congruence|simpl List.length; lia]).
  replace (0 + Z.of_nat (List.length ds1) + (0 + Z.of_nat (List.length ds2)) =? 0) with false by (symmetry; apply Z.eqb_neq; lia).
  cbv beta iota zeta.
  replace (0 <=? 0 - (0 + Z.of_nat (List.length ds2))) with false by (symmetry; apply Z.leb_gt; lia).
  cbv iota.
  replace (- (0 - (0 + Z.of_nat (List.length ds2)))) with (Z.of_nat (List.length ds2)) by lia.
  replace ((0 * 10 ^ Z.of_nat (List.length ds1) + dval ds1) * 10 ^ Z.of_nat (List.length ds2) + dval ds2)
    with (dval ds1 * 10 ^ Z.of_nat (List.length ds2) + dval ds2) by lia.
  destruct neg; reflexivity.
Qed.

(* what fmt_fixed prints is read back by parse_dec as exactly the rounded value over 10^p *)
Theorem parse_fmt_fixed p nz m e :
  exists q, parse_dec (fmt_fixed p nz (m, e)) = Some q /\
            Qeq q (neg_of ((m <? 0) || nz)%bool (Qmake (fixed_r p m e) (Z.to_pos (10 ^ Z.of_nat p)))).
Proof.
  pose proof (fixed_r_nonneg p m e) as Rn.
  assert (Pp : 0 < 10 ^ Z.of_nat p) by (apply Z.pow_pos_nonneg; lia).
  unfold fmt_fixed. fold (fixed_r p m e). set (r := fixed_r p m e) in *. set (P := 10 ^ Z.of_nat p) in *.
  assert (Hip : 0 <= r / P) by (apply Z.div_pos; lia).
  assert (Hfp : 0 <= r mod P < P) by (apply Z.mod_pos_bound; lia).
  destruct (show_Zpos_spec (r / P) Hip) as (A1 & V1 & N1 & _).
  destruct (show_Zpos_spec (r mod P) (proj1 Hfp)) as (A2 & V2 & N2 & L2).
  set (neg := ((m <? 0) || nz)%bool).
  change (if neg then ["-"%char] else []) with (if neg then ["-"%char] else (@nil ascii)).
  assert (Shape : forall body : list ascii, ((if neg then ["-"%char] else []) ++ body)%list = with_sign neg body) by (intros; destruct neg; reflexivity).
  rewrite Shape.
  destruct (p =? 0)%nat eqn:Ep.
  - apply Nat.eqb_eq in Ep. subst p. unfold P in *. change (10 ^ Z.of_nat 0) with 1 in *. rewrite Z.div_1_r in *.
    rewrite app_nil_r. rewrite (parse_dec_integer neg (show_Zpos r) A1 N1), V1.
    eexists. split; [reflexivity|]. destruct neg; simpl; unfold Qeq; simpl; lia.
  - apply Nat.eqb_neq in Ep.
    set (fs := show_Zpos (r mod P)) in *.
    assert (Lfs : (List.length fs <= p)%nat) by (apply L2; [lia|exact (proj2 Hfp)]).
    set (frac := pad0 (p - List.length fs) fs).
    assert (Af : all_digit frac) by (apply all_digit_app; [apply all_digit_zeros|exact A2]).
    assert (Vf : dval frac = r mod P) by (unfold frac, pad0; rewrite dval_zeros; exact V2).
    assert (Lf : List.length frac = p) by (unfold frac, pad0; rewrite app_length, repeat_length; lia).
    assert (Nf : frac <> []) by (intros E0; rewrite E0 in Lf; simpl in Lf; lia).
    rewrite (parse_dec_fraction neg (show_Zpos (r / P)) frac A1 N1 Af Nf), V1, Vf, Lf.
    eexists. split; [reflexivity|].
    replace (r / P * 10 ^ Z.of_nat p + r mod P) with r by (pose proof (Z.div_mod r P ltac:(lia)); unfold P in *; lia).
    reflexivity.
Qed.

(* the value read back is within half a unit of the last decimal of the value printed: for x = m * 2^e,
   exact when e >= 0, and |r * 2^-e - |m| * 10^p| <= 2^-e / 2 otherwise (r / 10^p is what is read back) *)
Theorem fixed_r_exact p m e : 0 <= e -> fixed_r p m e = Z.abs m * 2 ^ e * 10 ^ Z.of_nat p.
Proof. intros H. unfold fixed_r. cbv zeta. apply Z.leb_le in H. rewrite H. reflexivity. Qed.
Theorem fixed_r_close p m e : e < 0 ->
  2 * Z.abs (fixed_r p m e * 2 ^ (- e) - Z.abs m * 10 ^ Z.of_nat p) <= 2 ^ (- e).
Proof.
  intros H. unfold fixed_r. cbv zeta. apply Z.leb_gt in H. rewrite H. apply Z.leb_gt in H.
  assert (Pp : 0 < 10 ^ Z.of_nat p) by (apply Z.pow_pos_nonneg; lia).
  apply rhe_close; [nia|apply Z.pow_pos_nonneg; lia].
Qed.
