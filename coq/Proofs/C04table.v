(* C04: the aligned atom_site table the writer prints is read back by the lexer as exactly its cells. *)
From Coq Require Import List Ascii String ZArith Bool Lia Arith.
From PV Require Import Base.Sx Base.Text Spec.Hier Model.PdbLex Model.CifLex Proofs.C06lex Proofs.C02lay Proofs.C02col Proofs.C02seq
                       Gen.CifTags Model.PdbParse Model.CifWrite.
Import ListNotations.
Local Open Scope list_scope.

Definition nl : ascii := ascii_of_nat 10.
(* what stands in the table for a cell: a blank cell is written as the unknown value *)
Definition cell (t : text) : text := if is_nil (trim t) then ["?"%char] else t.
Definition padded (s : nat) (t : text) : text := (cell t ++ spaces (s - tlen (cell t)))%list.

Lemma render_line_cells s0 ss t0 ts :
  render_line (s0 :: ss) (t0 :: ts) =
  (t0 ++ spaces (s0 - tlen t0) ++ flat_map (fun st : nat * text => " "%char :: padded (fst st) (snd st)) (combine ss ts) ++ [nl])%list.
Proof.
  unfold render_line. do 2 f_equal. f_equal. apply flat_map_ext. intros [s t]. unfold padded, cell. cbn [fst snd].
  destruct (is_nil (trim t)); reflexivity.
Qed.

Lemma gap_spaces k g : gap g -> gap (spaces k ++ g).
Proof. intros H. induction k; [exact H|]. cbn [spaces repeat app]. apply gap_ws; [reflexivity|exact IHk]. Qed.
Lemma separator_spaces_then k c : is_tws c = true -> separator (spaces k ++ [c]).
Proof.
  intros Hc. destruct k as [|k].
  - exists c, []. repeat split; [exact Hc|constructor].
  - exists " "%char, (spaces k ++ [c])%list. repeat split. apply gap_spaces. apply gap_ws; [exact Hc|constructor].
Qed.

(* the tokens of the rest of a row: every further cell after the padding of the one before and one blank *)
Fixpoint rest_toks (pad : text) (cells : list (nat * text)) : list (text * text) * text :=
  match cells with
  | [] => ([], pad)
  | (s, t) :: r =>
      let '(toks, last) := rest_toks (spaces (s - tlen (cell t))) r in
      (((pad ++ [" "%char])%list, cell t) :: toks, last)
  end.
Lemma rest_toks_render cells : forall pad tail,
  (pad ++ flat_map (fun st : nat * text => " "%char :: padded (fst st) (snd st)) cells ++ tail)%list =
  (render (fst (rest_toks pad cells)) ++ snd (rest_toks pad cells) ++ tail)%list.
Proof.
  induction cells as [|[s t] r IH]; intros pad tail; [reflexivity|].
  cbn [flat_map rest_toks fst snd]. unfold padded at 1.
  destruct (rest_toks (spaces (s - tlen (cell t))) r) as [toks last] eqn:E.
  cbn [fst snd render]. specialize (IH (spaces (s - tlen (cell t))) tail). rewrite E in IH. cbn [fst snd] in IH.
  repeat rewrite <- app_assoc. cbn [app]. rewrite <- IH. repeat rewrite <- app_assoc. reflexivity.
Qed.

(* a row: its first cell after the separator carried over from what stands before it *)
Definition row_toks (carry : text) (sizes : list nat) (line : list text) : list (text * text) * text :=
  match sizes, line with
  | s0 :: ss, t0 :: ts =>
      let '(toks, last) := rest_toks (spaces (s0 - tlen t0)) (combine ss ts) in
      ((carry, t0) :: toks, (last ++ [nl])%list)
  | _, _ => ([], (carry ++ [nl])%list)
  end.
Lemma row_toks_render carry sizes line tail :
  (carry ++ render_line sizes line ++ tail)%list = (render (fst (row_toks carry sizes line)) ++ snd (row_toks carry sizes line) ++ tail)%list.
Proof.
  destruct sizes as [|s0 ss], line as [|t0 ts]; try (cbn [row_toks render_line fst snd render app]; rewrite <- app_assoc; reflexivity).
  rewrite render_line_cells. cbn [row_toks].
  pose proof (rest_toks_render (combine ss ts) (spaces (s0 - tlen t0)) ([nl] ++ tail)) as R.
  destruct (rest_toks (spaces (s0 - tlen t0)) (combine ss ts)) as [toks last]. cbn [fst snd] in *.
  cbn [render]. repeat rewrite <- app_assoc. f_equal. f_equal. cbn [app] in *. exact R.
Qed.

(* the whole table *)
Fixpoint table_toks (carry : text) (sizes : list nat) (lines : list (list text)) : list (text * text) * text :=
  match lines with
  | [] => ([], carry)
  | l :: r =>
      let '(t1, c1) := row_toks carry sizes l in
      let '(t2, c2) := table_toks c1 sizes r in
      ((t1 ++ t2)%list, c2)
  end.
Lemma render_app a b : render (a ++ b) = (render a ++ render b)%list.
Proof. induction a as [|[g s] r IH]; [reflexivity|]. cbn [app render]. rewrite IH. repeat rewrite <- app_assoc. reflexivity. Qed.
Theorem table_render sizes lines : forall carry tail,
  (carry ++ flat_map (render_line sizes) lines ++ tail)%list =
  (render (fst (table_toks carry sizes lines)) ++ snd (table_toks carry sizes lines) ++ tail)%list.
Proof.
  induction lines as [|l r IH]; intros carry tail; [reflexivity|].
  cbn [flat_map table_toks]. rewrite <- app_assoc. rewrite (row_toks_render carry sizes l).
  destruct (row_toks carry sizes l) as [t1 c1]. cbn [fst snd].
  rewrite (IH c1 tail). destruct (table_toks c1 sizes r) as [t2 c2]. cbn [fst snd].
  rewrite render_app. repeat rewrite <- app_assoc. reflexivity.
Qed.

(* ---------- the tokens are read as the cells ---------- *)
Section Cells.
Variable val : text -> cval.
Definition ok (t : text) : Prop := spelled t (val t).

Lemma rest_toks_tokens cells : forall k, Forall (fun st : nat * text => ok (cell (snd st))) cells ->
  tokens (fst (rest_toks (spaces k) cells)) (map (fun st : nat * text => val (cell (snd st))) cells) /\
  exists k', snd (rest_toks (spaces k) cells) = spaces k'.
Proof.
  induction cells as [|[s t] r IH]; intros k H.
  - split; [constructor|]. exists k. reflexivity.
  - inversion H as [|x y Hx Hy]; subst. cbn [snd] in Hx.
    destruct (IH (s - tlen (cell t))%nat Hy) as [T [k' E]].
    cbn [rest_toks map]. destruct (rest_toks (spaces (s - tlen (cell t))) r) as [toks last]. cbn [fst snd] in *.
    split; [|exists k'; exact E].
    constructor; [apply separator_spaces_then; reflexivity|exact Hx|exact T].
Qed.

Definition row_vals (sizes : list nat) (line : list text) : list cval :=
  match sizes, line with
  | _ :: ss, t0 :: ts => val t0 :: map (fun st : nat * text => val (cell (snd st))) (combine ss ts)
  | _, _ => []
  end.
Definition row_ok (sizes : list nat) (line : list text) : Prop :=
  match sizes, line with
  | _ :: ss, t0 :: ts => ok t0 /\ Forall (fun st : nat * text => ok (cell (snd st))) (combine ss ts)
  | _, _ => False
  end.
Lemma row_toks_tokens carry sizes line : separator carry -> row_ok sizes line ->
  tokens (fst (row_toks carry sizes line)) (row_vals sizes line) /\ separator (snd (row_toks carry sizes line)).
Proof.
  intros Hc H. destruct sizes as [|s0 ss], line as [|t0 ts]; try contradiction.
  destruct H as [H0 Hr]. cbn [row_toks row_vals].
  destruct (rest_toks_tokens (combine ss ts) (s0 - tlen t0)%nat Hr) as [T [k' E]].
  destruct (rest_toks (spaces (s0 - tlen t0)) (combine ss ts)) as [toks last]. cbn [fst snd] in *.
  split; [constructor; assumption|]. rewrite E. apply separator_spaces_then. reflexivity.
Qed.
Lemma tokens_app a va b vb : tokens a va -> tokens b vb -> tokens (a ++ b) (va ++ vb).
Proof. induction 1 as [|g s v r vs Hg Hs Hr IH]; intros Hb; [exact Hb|]. cbn [app]. constructor; auto. Qed.
Theorem table_tokens sizes lines : forall carry, separator carry -> Forall (row_ok sizes) lines ->
  tokens (fst (table_toks carry sizes lines)) (flat_map (row_vals sizes) lines) /\ separator (snd (table_toks carry sizes lines)).
Proof.
  induction lines as [|l r IH]; intros carry Hc H.
  - split; [constructor|exact Hc].
  - inversion H as [|x y Hx Hy]; subst. cbn [table_toks flat_map].
    destruct (row_toks_tokens carry sizes l Hc Hx) as [T1 S1].
    destruct (row_toks carry sizes l) as [t1 c1]. cbn [fst snd] in *.
    destruct (IH c1 S1 Hy) as [T2 S2]. destruct (table_toks c1 sizes r) as [t2 c2]. cbn [fst snd] in *.
    split; [apply tokens_app; assumption|exact S2].
Qed.
End Cells.

(* ---------- cutting the values into rows ---------- *)
Lemma chunk_rows n (rows : list (list cval)) : (0 < n)%nat -> Forall (fun r => List.length r = n) rows ->
  forall fuel, (List.length rows <= fuel)%nat -> chunk fuel n (List.concat rows) = rows.
Proof.
  intros Hn H. induction H as [|r rest Hr Hrest IH]; intros fuel Hf.
  - destruct fuel; reflexivity.
  - cbn [List.length] in Hf. destruct fuel as [|f]; [lia|]. cbn [List.concat chunk].
    destruct (r ++ List.concat rest)%list as [|x xs] eqn:E.
    + destruct r; [simpl in Hr; lia|discriminate].
    + rewrite <- E. rewrite firstn_app, skipn_app. rewrite Hr, Nat.sub_diag.
      rewrite <- Hr at 1 3. rewrite firstn_all, skipn_all. cbn [firstn skipn app]. rewrite app_nil_r.
      f_equal. apply IH. lia.
Qed.
Lemma tokens_length toks vs : tokens toks vs -> List.length toks = List.length vs.
Proof. induction 1; simpl; congruence. Qed.

Section Loop.
Variable val : text -> cval.
Lemma row_vals_length sizes line : line <> [] -> List.length line = List.length sizes ->
  List.length (row_vals val sizes line) = List.length sizes.
Proof.
  intros Hne Hl. destruct sizes as [|s0 ss], line as [|t0 ts]; try (simpl in *; congruence).
  cbn [row_vals List.length]. rewrite map_length, combine_length. simpl in Hl. lia.
Qed.

(* the loop the writer prints: header names, then the aligned rows; the lexer returns the names and, row by row, the cells *)
Theorem written_loop_is_read g0 hs carry sizes lines tail e tail' fuel :
  gap g0 -> hs <> [] -> Forall header_ok hs -> separator carry ->
  lines <> [] -> Forall (row_ok val sizes) lines -> Forall (fun l : list text => List.length l = List.length hs) lines ->
  List.length sizes = List.length hs ->
  parse_value tail = (inr e, tail') ->
  (List.length hs * S (List.length lines) + 2 < fuel)%nat ->
  parse_data_item fuel (g0 ++ stext "loop_" ++ render_headers hs ++ carry ++ flat_map (render_line sizes) lines ++ tail) =
  Some (inl (DLoop (map snd hs) (map (row_vals val sizes) lines)), tail').
Proof.
  intros Hg0 Hhs Hh Hc Hne Hok Hlen Hsz Hstop Hfuel.
  assert (Hn : (0 < List.length hs)%nat) by (destruct hs; [congruence|simpl; lia]).
  rewrite (table_render sizes lines carry tail).
  destruct (table_tokens val sizes lines carry Hc Hok) as [T Sep].
  assert (Hrows : Forall (fun r => List.length r = List.length hs) (map (row_vals val sizes) lines)).
  { apply Forall_map. rewrite Forall_forall in *. intros l Hl. rewrite <- Hsz. apply row_vals_length.
    - intros E. specialize (Hlen l Hl). rewrite E in Hlen. simpl in Hlen. lia.
    - rewrite Hsz. apply Hlen. exact Hl. }
  assert (Hcount : List.length (flat_map (row_vals val sizes) lines) = (List.length hs * List.length lines)%nat).
  { rewrite flat_map_concat_map. clear - Hrows. induction lines as [|l r IH]; [simpl; lia|].
    cbn [map List.concat List.length]. inversion Hrows; subst. rewrite app_length, IH by assumption. lia. }
  destruct (table_toks carry sizes lines) as [toks last] eqn:E. cbn [fst snd] in *.
  destruct toks as [|[g s] r].
  - (* no token: impossible, there is a row *)
    apply tokens_length in T. rewrite Hcount in T. destruct lines; [congruence|]. simpl in T. nia.
  - inversion T as [|g' s' v r' vs Hg Hs Hr]; subst.
    cbn [render]. 
    replace (g0 ++ stext "loop_" ++ render_headers hs ++ (g ++ s ++ render r) ++ last ++ tail)%list
      with (g0 ++ stext "loop_" ++ render_headers hs ++ g ++ s ++ render r ++ (last ++ tail))%list
      by (repeat rewrite <- app_assoc; reflexivity).
    assert (Hvs : flat_map (row_vals val sizes) lines = v :: vs)
      by (match goal with H : _ :: _ = flat_map _ _ |- _ => symmetry; exact H | H : flat_map _ _ = _ :: _ |- _ => exact H end).
    pose proof (tokens_length _ _ Hr) as Lr.
    assert (Ltot : S (List.length vs) = (List.length hs * List.length lines)%nat) by (rewrite <- Hcount, Hvs; reflexivity).
    rewrite (loop_render g0 hs g s v r vs (last ++ tail) e tail' fuel Hg0 Hhs Hh Hg Hs Hr).
    + rewrite <- Hvs. rewrite flat_map_concat_map. do 4 f_equal.
      apply chunk_rows; [exact Hn|exact Hrows|]. rewrite map_length. rewrite <- flat_map_concat_map, Hcount. nia.
    + apply separator_ends_word. exact Sep.
    + rewrite (parse_value_gap last tail (separator_gap last Sep)). exact Hstop.
    + nia.
    + rewrite Lr. nia.
    + cbn [List.length]. rewrite Ltot. rewrite Nat.mul_comm. apply Nat.mod_mul. lia.
Qed.
End Loop.

(* ---------- the writer's atom_site loop ---------- *)
(* the value of a cell that is a legal spelling without quotes *)
Definition bare_val (t : text) : cval :=
  if text_eqb t ["."%char] then VInap else if text_eqb t ["?"%char] then VUnk
  else match parse_numeric t with Some v => v | None => VText t end.
Definition bare (t : text) : Prop :=
  exists c w, t = c :: w /\ is_ordinary c = true /\ Ascii.eqb c "." = false /\ Ascii.eqb c "?" = false /\
              forallb (fun x => negb (is_aws x)) w = true /\ (forall rest, ends_word rest -> reserved (c :: w ++ rest) = false).
Definition legal_cell (t : text) : Prop := t = ["."%char] \/ t = ["?"%char] \/ bare t.
Lemma legal_cell_ok t : legal_cell t -> ok bare_val t.
Proof.
  unfold ok. intros [->|[->|(c & w & -> & Ho & Hd & Hq & Hw & Hr)]]; [constructor|constructor|].
  replace (bare_val (c :: w)) with (match parse_numeric (c :: w) with Some v => v | None => VText (c :: w) end).
  - constructor; assumption.
  - unfold bare_val.
    destruct (text_eqb_spec (c :: w) ["."%char]) as [E|_]; [injection E as -> _; discriminate|].
    destruct (text_eqb_spec (c :: w) ["?"%char]) as [E|_]; [injection E as -> _; discriminate|]. reflexivity.
Qed.

(* the header of the loop as the writer's literal spells it: every name on its own line *)
Definition header_names (aniso : bool) : list text :=
  let body := fill (fmt_n 6) [if aniso then stext cif_writer_aniso_header else []] in
  map (fun l => match l with "_"%char :: n => n | _ => l end) (tl (PdbParse.split_lines body [])).
Definition written_headers (aniso : bool) : list (text * text) := map (fun n : text => ((nl :: nil) : text, n)) (header_names aniso).
Lemma header_literal (aniso : bool) :
  line 6 [if aniso then stext cif_writer_aniso_header else []] = (stext "loop_" ++ render_headers (written_headers aniso) ++ [nl])%list.
Proof. destruct aniso; vm_compute; reflexivity. Qed.
Lemma headers_on_lines_ok (names : list text) :
  forallb (fun n : text => forallb (fun x => negb (is_aws x)) n) names = true ->
  Forall header_ok (map (fun n : text => ((nl :: nil) : text, n)) names).
Proof.
  intros B. apply Forall_forall. intros gn Hin. apply in_map_iff in Hin as (n & <- & Hn).
  split; [exists nl, []; repeat split; constructor|]. cbn [snd].
  exact (proj1 (forallb_forall _ _) B n Hn).
Qed.
Lemma header_names_clean (aniso : bool) : forallb (fun n : text => forallb (fun x => negb (is_aws x)) n) (header_names aniso) = true.
Proof. destruct aniso; vm_compute; reflexivity. Qed.
Lemma written_headers_length (aniso : bool) : List.length (written_headers aniso) = (if aniso then 28 else 19)%nat.
Proof. destruct aniso; vm_compute; reflexivity. Qed.
Lemma written_headers_ok (aniso : bool) : Forall header_ok (written_headers aniso) /\ written_headers aniso <> [] /\
  List.length (written_headers aniso) = (if aniso then 28 else 19)%nat.
Proof.
  split; [exact (headers_on_lines_ok (header_names aniso) (header_names_clean aniso))|split; [|apply written_headers_length]].
  intros E. pose proof (written_headers_length aniso) as L. rewrite E in L. destruct aniso; discriminate.
Qed.
Lemma end_of_table : exists e tail', parse_value (line 7 []) = (inr e, tail').
Proof. vm_compute. eexists. eexists. reflexivity. Qed.

(* the atom table of any structure: if every cell is a legal spelling the lexer gives back the column names of the writer's
   literal and, row by row, the values of the cells *)
Theorem written_atom_table_is_read (p : pdb) fuel :
  let anisou := has_aniso p in
  let lines := table p in
  let sizes := match lines with l0 :: _ => fold_left widths lines (repeat 1%nat (List.length l0)) | [] => [] end in
  lines <> [] ->
  Forall (fun l : list text => match l with t0 :: ts => legal_cell t0 /\ Forall (fun t => legal_cell (cell t)) ts | [] => False end) lines ->
  Forall (fun l : list text => List.length l = List.length (written_headers anisou)) lines ->
  (List.length (written_headers anisou) * S (List.length lines) + 2 < fuel)%nat ->
  exists tail',
  parse_data_item fuel (line 6 [if anisou then stext cif_writer_aniso_header else []] ++ flat_map (render_line sizes) lines ++ line 7 [])%list =
  Some (inl (DLoop (map snd (written_headers anisou)) (map (row_vals bare_val sizes) lines)), tail').
Proof.
  intros anisou lines sizes Hne Hcells Hlen Hfuel.
  destruct end_of_table as (e & tail' & Hstop). exists tail'.
  destruct (written_headers_ok anisou) as (Hh & Hhs & Hn).
  rewrite header_literal.
  assert (Hsz : List.length sizes = List.length (written_headers anisou)).
  { unfold sizes. destruct lines as [|l0 rest] eqn:El; [congruence|].
    assert (G : forall ls acc, List.length (fold_left widths ls acc) = List.length acc).
    { induction ls as [|l r IH]; intros acc; [reflexivity|]. cbn [fold_left]. rewrite IH.
      clear. revert l. induction acc as [|a acc IH]; intros l; [reflexivity|]. destruct l; [reflexivity|]. cbn [widths List.length]. f_equal. apply IH. }
    rewrite G, repeat_length. inversion Hlen; subst. assumption. }
  pose proof (written_loop_is_read bare_val [] (written_headers anisou) [nl] sizes lines (line 7 []) e tail' fuel
                ltac:(constructor) Hhs Hh ltac:(exists nl, []; repeat split; constructor) Hne) as W.
  cbn [app] in W. repeat rewrite <- app_assoc in *. cbn [app] in *. apply W; try assumption.
  rewrite Forall_forall in *. intros l Hl. specialize (Hcells l Hl). specialize (Hlen l Hl).
  unfold row_ok. destruct sizes as [|s0 ss]; [rewrite <- Hsz in Hlen; destruct l; [contradiction|discriminate]|].
  destruct l as [|t0 ts]; [contradiction|]. destruct Hcells as [H0 Hr]. split; [apply legal_cell_ok; exact H0|].
  rewrite Forall_forall in *. intros [s t] Hin. cbn [snd]. apply legal_cell_ok. apply Hr. apply in_combine_r in Hin. exact Hin.
Qed.

(* ---------- cells the writer prints that are legal spellings whatever the structure ---------- *)
From PV Require Import Base.Float Proofs.Decimal.
Lemma digit_is_bare_head c : digit_of c = Some (Z.of_N (N_of_ascii c) - 48)%Z ->
  is_ordinary c = true /\ Ascii.eqb c "." = false /\ Ascii.eqb c "?" = false /\ is_aws c = false /\
  (forall t, reserved (c :: t) = false).
Proof.
  intros H. destruct c as [[] [] [] [] [] [] [] []]; try (exfalso; vm_compute in H; discriminate);
  (repeat split; try reflexivity).
Qed.
Lemma digits_no_space ds : all_digit ds -> forallb (fun x => negb (is_aws x)) ds = true.
Proof.
  intros A. apply forallb_forall. intros c Hc. destruct (digit_is_bare_head c (A c Hc)) as (_ & _ & _ & Hw & _). rewrite Hw. reflexivity.
Qed.
Lemma digits_bare ds : all_digit ds -> ds <> [] -> bare ds.
Proof.
  intros A N. destruct ds as [|c w]; [congruence|].
  destruct (digit_is_bare_head c (A c (or_introl eq_refl))) as (H1 & H2 & H3 & _ & H5).
  exists c, w. repeat split; try assumption.
  - apply digits_no_space. intros x Hx. apply A. right. exact Hx.
  - intros rest _. apply H5.
Qed.
Lemma minus_digits_bare ds : all_digit ds -> bare ("-"%char :: ds).
Proof.
  intros A. exists "-"%char, ds. repeat split; try reflexivity; try (apply digits_no_space; exact A).
  all: intros rest _; reflexivity.
Qed.
Theorem show_int_bare z : bare (show_int z).
Proof.
  unfold show_int, CifParse.show_Z. destruct (z <? 0)%Z eqn:E.
  - apply Z.ltb_lt in E. destruct (Z.eqb_spec (- z) 0) as [E0|_]; [lia|].
    destruct (show_Zpos_spec (- z) ltac:(lia)) as (A & _ & _ & _). apply minus_digits_bare. exact A.
  - apply Z.ltb_ge in E. destruct (Z.eqb_spec z 0) as [->|_].
    + apply (digits_bare (stext "0")); [|discriminate]. intros c [<-|[]]. reflexivity.
    + destruct (show_Zpos_spec z E) as (A & _ & N & _). apply digits_bare; assumption.
Qed.
Lemma record_name_bare (h : bool) : bare (if h then stext "HETATM" else stext "ATOM").
Proof. destruct h; eexists _, _; (repeat split; try reflexivity); intros rest _; reflexivity. Qed.
