(* C03: the coordinate record the writer prints for an atom is lexed back to the atom's fields, numbers rounded to the
   precision of their columns. *)
From Coq Require Import List Ascii String ZArith QArith Bool Lia Arith.
From PV Require Import Base.Sx Base.Text Base.Float Spec.Hier Proofs.Decimal Proofs.C01just Proofs.C01line Model.PdbLex
                       Model.PdbParse Model.CifParse Model.CifWrite Model.PdbWrite.
Import ListNotations.
Local Close Scope Q_scope.
Local Open Scope Z_scope.

(* ---------- numbers ---------- *)
(* what f64::from_str makes of a decimal rational, with the sign of a zero kept *)
Definition of_q (neg : bool) (q : Q) : fval :=
  match rnd64 q with
  | Some (0, _) => if neg then FNegZero else FFin 0 0
  | Some d => fval_of_dy d
  | None => if neg then FNegInf else FInf
  end.
(* the binary64 value nearest to m * 2^e rounded (half to even) to p decimals *)
Definition rounded_to (p : nat) (nz : bool) (m e : Z) : fval :=
  let neg := ((m <? 0) || nz)%bool in
  of_q neg (neg_of neg (Qmake (fixed_r p m e) (Z.to_pos (10 ^ Z.of_nat p)))).

Lemma parse_fmt_fixed_exact p nz m e : p <> O ->
  parse_dec (fmt_fixed p nz (m, e)) =
  Some (neg_of ((m <? 0) || nz)%bool (Qmake (fixed_r p m e) (Z.to_pos (10 ^ Z.of_nat p)))).
Proof.
  intros Ep.
  pose proof (fixed_r_nonneg p m e) as Rn.
  assert (Pp : 0 < 10 ^ Z.of_nat p) by (apply Z.pow_pos_nonneg; lia).
  unfold fmt_fixed. fold (fixed_r p m e). set (r := fixed_r p m e) in *. set (P := 10 ^ Z.of_nat p) in *.
  assert (Hip : 0 <= r / P) by (apply Z.div_pos; lia).
  assert (Hfp : 0 <= r mod P < P) by (apply Z.mod_pos_bound; lia).
  destruct (show_Zpos_spec (r / P) Hip) as (A1 & V1 & N1 & _).
  destruct (show_Zpos_spec (r mod P) (proj1 Hfp)) as (A2 & V2 & N2 & L2).
  set (neg := ((m <? 0) || nz)%bool).
  assert (Shape : forall body : list ascii, ((if neg then ["-"%char] else []) ++ body)%list = with_sign neg body) by (intros; destruct neg; reflexivity).
  rewrite Shape.
  replace (p =? 0)%nat with false by (symmetry; apply Nat.eqb_neq; exact Ep).
  set (fs := show_Zpos (r mod P)) in *.
  assert (Lfs : (List.length fs <= p)%nat) by (apply L2; [lia|exact (proj2 Hfp)]).
  set (frac := pad0 (p - List.length fs) fs).
  assert (Af : all_digit frac) by (apply all_digit_app; [apply all_digit_zeros|exact A2]).
  assert (Vf : dval frac = r mod P) by (unfold frac, pad0; rewrite dval_zeros; exact V2).
  assert (Lf : List.length frac = p) by (unfold frac, pad0; rewrite app_length, repeat_length; lia).
  assert (Nf : frac <> []) by (intros E0; rewrite E0 in Lf; simpl in Lf; lia).
  rewrite (parse_dec_fraction neg (show_Zpos (r / P)) frac A1 N1 Af Nf), V1, Vf, Lf.
  replace (r / P * 10 ^ Z.of_nat p + r mod P) with r by (pose proof (Z.div_mod r P ltac:(lia)); unfold P in *; lia).
  reflexivity.
Qed.

(* a text that starts with a digit (after its sign) is not one of the words of f64::from_str *)
Lemma lower_digit c : digit_of c = Some (Z.of_N (N_of_ascii c) - 48) -> lower_char c = c.
Proof. intros H. destruct c as [[] [] [] [] [] [] [] []]; try reflexivity; vm_compute in H; discriminate. Qed.
Lemma not_word c l x w : digit_of c = Some (Z.of_N (N_of_ascii c) - 48) -> digit_of x = None -> text_eqb (lower (c :: l)) (x :: w) = false.
Proof.
  intros Hc Hx. destruct (text_eqb_spec (lower (c :: l)) (x :: w)) as [E|_]; [|reflexivity].
  cbn [lower map] in E. injection E as E _. rewrite (lower_digit c Hc) in E. subst x. congruence.
Qed.
Lemma f64_field_of_digits neg c l : digit_of c = Some (Z.of_N (N_of_ascii c) - 48) ->
  parse_f64_field (with_sign neg (c :: l)) =
  match parse_dec (with_sign neg (c :: l)) with Some q => Some (of_q neg q) | None => None end.
Proof.
  intros Hc. pose proof Hc as Hc0. unfold parse_f64_field.
  destruct neg; cbn [with_sign]; [cbv beta iota|
    destruct c as [[] [] [] [] [] [] [] []]; try (exfalso; vm_compute in Hc; discriminate); cbv beta iota].
  all: change (stext "inf") with ("i"%char :: stext "nf"); change (stext "infinity") with ("i"%char :: stext "nfinity");
       change (stext "nan") with ("n"%char :: stext "an").
  all: match goal with |- context [lower (?d :: ?l')] => rewrite !(not_word d l' _ _ Hc0) by reflexivity end; cbn [orb].
  all: match goal with |- context [parse_dec ?t] => destruct (parse_dec t) as [q|]; [|reflexivity] end.
  all: unfold of_q; destruct (rnd64 q) as [[[|mp|mn] ee]|]; reflexivity.
Qed.

Theorem fixed_text_is_read p nz m e : p <> O ->
  parse_f64_field (fmt_fixed p nz (m, e)) = Some (rounded_to p nz m e).
Proof.
  intros Ep. pose proof (parse_fmt_fixed_exact p nz m e Ep) as P.
  assert (Hd : exists c l, fmt_fixed p nz (m, e) = with_sign ((m <? 0) || nz)%bool (c :: l) /\ digit_of c = Some (Z.of_N (N_of_ascii c) - 48)).
  { unfold fmt_fixed. fold (fixed_r p m e).
    pose proof (fixed_r_nonneg p m e) as Rn.
    assert (Pp : 0 < 10 ^ Z.of_nat p) by (apply Z.pow_pos_nonneg; lia).
    destruct (show_Zpos_spec (fixed_r p m e / 10 ^ Z.of_nat p) ltac:(apply Z.div_pos; lia)) as (A1 & _ & N1 & _).
    destruct (show_Zpos (fixed_r p m e / 10 ^ Z.of_nat p)) as [|c l] eqn:E; [congruence|].
    exists c. eexists. split; [|apply A1; left; reflexivity].
    destruct ((m <? 0) || nz)%bool; cbn [with_sign app]; reflexivity. }
  destruct Hd as (c & l & E & Hc). rewrite E in *. rewrite (f64_field_of_digits _ c l Hc), P. reflexivity.
Qed.

(* ---------- the line with what follows column 78 ---------- *)
Definition charge_of (ln : Z) (tail : text) : Z * list diag :=
  match nth_error tail 0, nth_error tail 1 with
  | Some c78, Some c79 =>
      if (Ascii.eqb c78 " " && Ascii.eqb c79 " ")%bool then (0, [])
      else if negb (is_digit c78) then (0, [mkd DInvalidating "Atom charge is not correct" ln])
      else if negb (Ascii.eqb c79 "-" || Ascii.eqb c79 "+")%bool then (0, [mkd DInvalidating "Atom charge is not correct" ln])
      else (if Ascii.eqb c79 "-" then - digit_val c78 else digit_val c78, [])
  | _, _ => (0, [])
  end.
Definition atom_widths78 : list nat := [6; 5; 1; 4; 1; 3; 1; 1; 4; 1; 3; 8; 8; 8; 6; 6; 6; 4; 2]%nat.

Lemma sub_app_l (l t : text) a b : (b <= List.length l)%nat -> sub (l ++ t) a b = sub l a b.
Proof.
  intros H. unfold sub. destruct (Nat.le_gt_cases a (List.length l)) as [Ha|Ha].
  - rewrite skipn_app. replace (a - List.length l)%nat with 0%nat by lia. cbn [skipn].
    rewrite firstn_app. rewrite skipn_length. replace (b - a - (List.length l - a))%nat with 0%nat by lia.
    rewrite firstn_O, app_nil_r. reflexivity.
  - replace (b - a)%nat with 0%nat by lia. reflexivity.
Qed.

Theorem atom_line_read_back_tail ln het (segs : list text) (tail : text)
        serial name resname resnum x y z occ b segment element (alt chain ins : ascii) :
  map (@List.length ascii) segs = atom_widths78 ->
  parse_usize (trim (nth 1 segs [])) = Some serial ->
  trim (nth 3 segs []) = name -> nth 4 segs [] = [alt] ->
  trim (nth 5 segs []) = resname -> nth 7 segs [] = [chain] ->
  parse_isize (trim (nth 8 segs [])) = Some resnum -> nth 9 segs [] = [ins] ->
  parse_f64_field (trim (nth 11 segs [])) = Some x -> parse_f64_field (trim (nth 12 segs [])) = Some y ->
  parse_f64_field (trim (nth 13 segs [])) = Some z -> parse_f64_field (trim (nth 14 segs [])) = Some occ ->
  parse_f64_field (trim (nth 15 segs [])) = Some b ->
  trim (nth 17 segs []) = segment -> trim (nth 18 segs []) = element ->
  lex_atom ln (List.concat segs ++ tail) het =
  (LAtom het {| ab_serial := serial; ab_name := name; ab_alt := opt_char alt; ab_resname := resname; ab_chain := [chain];
                ab_resnum := resnum; ab_icode := opt_char ins; ab_element := element; ab_charge := fst (charge_of ln tail) |} x y z occ b,
   snd (charge_of ln tail)).
Proof.
  intros Hw Hser Hname Halt Hres Hchain Hnum Hins Hx Hy Hz Hocc Hb Hseg Hel.
  set (body := List.concat segs). set (line := (body ++ tail)%list).
  assert (Hbody : List.length body = 78%nat) by (unfold body; rewrite concat_length, Hw; reflexivity).
  assert (Hlen : (78 <= List.length line)%nat) by (unfold line; rewrite app_length; lia).
  assert (S : forall k a b', total (firstn k atom_widths78) = a -> total (firstn (S k) atom_widths78) = b' -> (b' <= 78)%nat ->
                             sub line a b' = nth k segs []).
  { intros k a b' Ha Hb' Hle. subst a b'. unfold line. rewrite sub_app_l by lia. rewrite <- Hw. apply sub_concat. }
  assert (C : forall k a c, total (firstn k atom_widths78) = a -> (a < 78)%nat -> nth k segs [] = [c] -> nth_error line a = Some c).
  { intros k a c Ha Hlt Hc. subst a. unfold line. rewrite nth_error_app1 by lia. rewrite <- Hw. apply nth_error_concat. exact Hc. }
  assert (T : forall i, nth_error line (78 + i) = nth_error tail i).
  { intros i. unfold line. rewrite nth_error_app2 by lia. f_equal. lia. }
  unfold lex_atom, lex_atom_basics, f_f64, f_f64_default, f_usize, f_isize, f_text, f_char.
  rewrite (field_value parse_f64_field _ ln line 30 38 x) by (try lia; rewrite (S 11%nat 30%nat 38%nat eq_refl eq_refl ltac:(lia)); exact Hx).
  rewrite (field_value parse_f64_field _ ln line 38 46 y) by (try lia; rewrite (S 12%nat 38%nat 46%nat eq_refl eq_refl ltac:(lia)); exact Hy).
  rewrite (field_value parse_f64_field _ ln line 46 54 z) by (try lia; rewrite (S 13%nat 46%nat 54%nat eq_refl eq_refl ltac:(lia)); exact Hz).
  rewrite (field_value parse_f64_field _ ln line 54 60 occ) by (try lia; rewrite (S 14%nat 54%nat 60%nat eq_refl eq_refl ltac:(lia)); exact Hocc).
  rewrite (field_value parse_f64_field _ ln line 60 66 b) by (try lia; rewrite (S 15%nat 60%nat 66%nat eq_refl eq_refl ltac:(lia)); exact Hb).
  rewrite (field_value parse_usize _ ln line 6 11 serial) by (try lia; rewrite (S 1%nat 6%nat 11%nat eq_refl eq_refl ltac:(lia)); exact Hser).
  rewrite (field_value (fun s => Some s) _ ln line 12 16 name) by (try lia; rewrite (S 3%nat 12%nat 16%nat eq_refl eq_refl ltac:(lia)), Hname; reflexivity).
  rewrite (C 4%nat 16%nat alt eq_refl ltac:(lia) Halt).
  rewrite (field_value (fun s => Some s) _ ln line 17 20 resname) by (try lia; rewrite (S 5%nat 17%nat 20%nat eq_refl eq_refl ltac:(lia)), Hres; reflexivity).
  rewrite (C 7%nat 21%nat chain eq_refl ltac:(lia) Hchain).
  rewrite (field_value parse_isize _ ln line 22 26 resnum) by (try lia; rewrite (S 8%nat 22%nat 26%nat eq_refl eq_refl ltac:(lia)); exact Hnum).
  rewrite (C 9%nat 26%nat ins eq_refl ltac:(lia) Hins).
  rewrite (field_value (fun s => Some s) _ ln line 72 76 segment) by (try lia; rewrite (S 17%nat 72%nat 76%nat eq_refl eq_refl ltac:(lia)), Hseg; reflexivity).
  rewrite (field_value (fun s => Some s) _ ln line 76 78 element) by (try lia; rewrite (S 18%nat 76%nat 78%nat eq_refl eq_refl ltac:(lia)), Hel; reflexivity).
  change 79%nat with (78 + 1)%nat. change 78%nat with (78 + 0)%nat at 1. rewrite !T.
  unfold charge_of. destruct (nth_error tail 0) as [c78|]; [|reflexivity]. destruct (nth_error tail 1) as [c79|]; [|reflexivity].
  destruct (Ascii.eqb c78 " " && Ascii.eqb c79 " ")%bool; [reflexivity|].
  destruct (negb (is_digit c78)); [reflexivity|].
  destruct (negb (Ascii.eqb c79 "-" || Ascii.eqb c79 "+")%bool); reflexivity.
Qed.

(* ---------- the fields the writer prints ---------- *)
Lemma sp_blanks k : sp k = blanks k. Proof. reflexivity. Qed.
Lemma field_fits w t : w <> O -> t <> [] -> (List.length t <= w)%nat -> field_text w t = (t ++ blanks (w - List.length t))%list.
Proof.
  intros Hw Ht Hl. unfold field_text. destruct w as [|w']; [congruence|].
  rewrite Nat.min_r by lia. rewrite Nat.sub_diag. cbn [skipn].
  replace (Nat.ltb (S w') (List.length t)) with false by (symmetry; apply Nat.ltb_ge; lia).
  destruct t as [|c r]; [congruence|]. reflexivity.
Qed.
Lemma field_fits_length w t : w <> O -> t <> [] -> (List.length t <= w)%nat -> List.length (field_text w t) = w.
Proof. intros Hw Ht Hl. rewrite (field_fits w t Hw Ht Hl), app_length. unfold blanks. rewrite repeat_length. lia. Qed.
Lemma field_empty w : field_text w [] = blanks w.
Proof. destruct w; reflexivity. Qed.
Lemma tight_nonempty v : tight v -> v <> [].
Proof. intros [H _] E. subst v. exact H. Qed.
Lemma trim_left_aligned w t : w <> O -> tight t -> (List.length t <= w)%nat -> trim (field_text w t) = t.
Proof.
  intros Hw Ht Hl. rewrite (field_fits w t Hw (tight_nonempty t Ht) Hl).
  exact (trim_justified t 0 (w - List.length t) Ht).
Qed.
Lemma trim_blanks k : trim (blanks k) = [].
Proof.
  unfold trim. replace (trim_l (blanks k)) with (@nil ascii); [reflexivity|].
  induction k; [reflexivity|]. simpl. exact IHk.
Qed.
(* a right-aligned number of at most w characters fills its w columns *)
Lemma pad_left_field w t : w <> O -> t <> [] -> (List.length t <= w)%nat ->
  field_text w (pad_left w t) = (blanks (w - List.length t) ++ t)%list.
Proof.
  intros Hw Ht Hl. unfold pad_left. rewrite sp_blanks.
  assert (L : List.length (blanks (w - List.length t) ++ t)%list = w) by (rewrite app_length; unfold blanks; rewrite repeat_length; lia).
  assert (Ne : (blanks (w - List.length t) ++ t)%list <> []) by (destruct t; [congruence|]; destruct (blanks _); discriminate).
  rewrite (field_fits w _ Hw Ne ltac:(lia)).
  rewrite L, Nat.sub_diag. apply app_nil_r.
Qed.
Lemma trim_right_aligned w t : w <> O -> tight t -> (List.length t <= w)%nat -> trim (field_text w (pad_left w t)) = t.
Proof.
  intros Hw Ht Hl. rewrite (pad_left_field w t Hw (tight_nonempty t Ht) Hl).
  pose proof (trim_justified t (w - List.length t) 0 Ht) as H. cbn [blanks repeat] in H. rewrite app_nil_r in H. exact H.
Qed.

(* the printed numbers are tight: a sign or a digit in front, a digit at the end *)
Lemma digit_not_ws c : digit_of c = Some (Z.of_N (N_of_ascii c) - 48) -> is_ws c = false.
Proof. intros H. destruct c as [[] [] [] [] [] [] [] []]; try reflexivity; vm_compute in H; discriminate. Qed.
Lemma tight_digits ds : all_digit ds -> ds <> [] -> tight ds.
Proof.
  intros A N. split.
  - destruct ds as [|c r]; [congruence|]. apply digit_not_ws. apply A. left. reflexivity.
  - destruct (rev ds) as [|c r] eqn:E; [apply (f_equal (@rev ascii)) in E; rewrite rev_involutive in E; simpl in E; congruence|].
    apply digit_not_ws. apply A. apply in_rev. rewrite E. left. reflexivity.
Qed.
Lemma tight_signed neg ds : tight ds -> tight (with_sign neg ds).
Proof.
  intros [H1 H2]. destruct neg; [|split; assumption]. split; [reflexivity|]. cbn [with_sign rev].
  destruct (rev ds) as [|c r]; [contradiction|]. exact H2.
Qed.
Lemma tight_app_digits a b : a <> [] -> match a with c :: _ => is_ws c = false | [] => False end -> all_digit b -> b <> [] -> tight (a ++ b).
Proof.
  intros Na Ha Ab Nb. split.
  - destruct a; [congruence|]. exact Ha.
  - rewrite rev_app_distr. destruct (tight_digits b Ab Nb) as [_ H]. destruct (rev b); [contradiction|]. exact H.
Qed.
Lemma tight_fmt_fixed p nz m e : p <> O -> tight (fmt_fixed p nz (m, e)).
Proof.
  intros Ep. unfold fmt_fixed. fold (fixed_r p m e). set (r := fixed_r p m e). set (P := 10 ^ Z.of_nat p).
  pose proof (fixed_r_nonneg p m e) as Rn. fold r in Rn.
  assert (Pp : 0 < P) by (apply Z.pow_pos_nonneg; lia).
  destruct (show_Zpos_spec (r / P) ltac:(apply Z.div_pos; lia)) as (A1 & _ & N1 & _).
  destruct (show_Zpos_spec (r mod P) ltac:(apply Z.mod_pos_bound; lia)) as (A2 & _ & N2 & _).
  replace (p =? 0)%nat with false by (symmetry; apply Nat.eqb_neq; exact Ep).
  set (neg := ((m <? 0) || nz)%bool).
  replace ((if neg then ["-"%char] else []) ++ show_Zpos (r / P) ++ "."%char :: pad0 (p - List.length (show_Zpos (r mod P))) (show_Zpos (r mod P)))%list
    with (with_sign neg ((show_Zpos (r / P) ++ ["."%char]) ++ pad0 (p - List.length (show_Zpos (r mod P))) (show_Zpos (r mod P))))
    by (destruct neg; cbn [with_sign app]; rewrite <- app_assoc; reflexivity).
  apply tight_signed. apply tight_app_digits.
  - destruct (show_Zpos (r / P)); discriminate.
  - destruct (show_Zpos (r / P)) as [|c l] eqn:E; [congruence|]. cbn [app]. apply digit_not_ws. apply A1. left. reflexivity.
  - apply all_digit_app; [apply all_digit_zeros|exact A2].
  - unfold pad0. destruct (show_Zpos (r mod P)); [congruence|]. destruct (repeat _ _); discriminate.
Qed.

(* the number as the field reads it *)
Definition num_parts (f : fval) : option (bool * Z * Z) :=
  match f with FFin m e => Some (false, m, e) | FNegZero => Some (true, 0, 0) | _ => None end.
Definition number_text (p : nat) (f : fval) : text :=
  match num_parts f with Some (nz, m, e) => fmt_fixed p nz (m, e) | None => [] end.
Definition number_value (p : nat) (f : fval) : fval :=
  match num_parts f with Some (nz, m, e) => rounded_to p nz m e | None => f end.
Lemma fixed_number w p f : num_parts f <> None -> fixed w p f = pad_left w (number_text p f).
Proof. unfold fixed, number_text. destruct f; cbn [num_parts]; intros H; try congruence; reflexivity. Qed.
Theorem fixed_field_is_read w p f : w <> O -> p <> O -> num_parts f <> None -> (List.length (number_text p f) <= w)%nat ->
  parse_f64_field (trim (field_text w (fixed w p f))) = Some (number_value p f).
Proof.
  intros Hw Hp Hf Hl. rewrite (fixed_number w p f Hf). unfold number_text, number_value in *.
  destruct (num_parts f) as [[[nz m] e]|]; [|congruence].
  rewrite (trim_right_aligned w _ Hw (tight_fmt_fixed p nz m e Hp) Hl).
  apply fixed_text_is_read. exact Hp.
Qed.

(* ---------- the coordinate record of an atom ---------- *)
Definition element_text (a : atom) : text := match a_elem a with Some e => element_symbol e | None => [] end.
Definition coord_fields (a : atom) (c : conformer) (r : residue) (ch : chain) : list (nat * text) :=
  [(6%nat, if a_hetero a then S_ "HETATM" else S_ "ATOM  "); (0%nat, atom_line a c r ch); (0%nat, sp 3);
   (8%nat, fixed 8 3 (a_x a)); (8%nat, fixed 8 3 (a_y a)); (8%nat, fixed 8 3 (a_z a));
   (6%nat, fixed 6 2 (a_occ a)); (6%nat, fixed 6 2 (a_b a)); (0%nat, sp 10); (2%nat, element_text a); (0%nat, pdb_charge (a_charge a))].

Definition one_char (o : option text) : Prop :=
  match o with None => True | Some t => exists x, t = [x] /\ x <> " "%char end.
Definition fits_number (w p : nat) (f : fval) : Prop := num_parts f <> None /\ (List.length (number_text p f) <= w)%nat.
Record fits_columns (a : atom) (c : conformer) (r : residue) (ch : chain) : Prop := {
  fc_serial : 0 <= a_serial a <= 99999;
  fc_name : tight (a_name a) /\ (List.length (a_name a) <= 4)%nat;
  fc_alt : one_char (c_alt c);
  fc_resname : tight (c_name c) /\ (List.length (c_name c) <= 3)%nat;
  fc_chain : exists x, ch_id ch = [x];
  fc_resnum : -999 <= r_num r <= 9999;
  fc_icode : one_char (r_icode r);
  fc_x : fits_number 8 3 (a_x a); fc_y : fits_number 8 3 (a_y a); fc_z : fits_number 8 3 (a_z a);
  fc_occ : fits_number 6 2 (a_occ a); fc_b : fits_number 6 2 (a_b a);
  fc_elem : element_text a = [] \/ (tight (element_text a) /\ (List.length (element_text a) <= 2)%nat);
  fc_charge : -9 <= a_charge a <= 9 }.

Lemma show_int_nonneg n : 0 <= n -> show_int n = show_Zpos n.
Proof.
  intros H. unfold show_int, CifParse.show_Z. replace (n <? 0) with false by (symmetry; apply Z.ltb_ge; lia).
  destruct (Z.eqb_spec n 0) as [->|_]; reflexivity.
Qed.
Lemma show_int_neg n : n < 0 -> show_int n = "-"%char :: show_Zpos (- n).
Proof.
  intros H. unfold show_int, CifParse.show_Z. replace (n <? 0) with true by (symmetry; apply Z.ltb_lt; lia).
  destruct (Z.eqb_spec (- n) 0) as [E|_]; [lia|reflexivity].
Qed.
Lemma show_int_tight n : tight (show_int n).
Proof.
  destruct (Z.lt_ge_cases n 0) as [H|H].
  - rewrite (show_int_neg n H). destruct (show_Zpos_spec (- n) ltac:(lia)) as (A & _ & N & _).
    apply (tight_signed true). apply tight_digits; assumption.
  - rewrite (show_int_nonneg n H). destruct (show_Zpos_spec n H) as (A & _ & N & _). apply tight_digits; assumption.
Qed.
Lemma show_int_length n k : (0 < k)%nat -> - 10 ^ Z.of_nat k < n < 10 ^ Z.of_nat k ->
  (List.length (show_int n) <= (if (n <? 0)%Z then S k else k))%nat.
Proof.
  intros Hk [H1 H2]. destruct (Z.ltb_spec n 0) as [H|H].
  - rewrite (show_int_neg n H). destruct (show_Zpos_spec (- n) ltac:(lia)) as (_ & _ & _ & L). cbn [List.length]. apply le_n_S. apply L; lia.
  - rewrite (show_int_nonneg n H). destruct (show_Zpos_spec n H) as (_ & _ & _ & L). apply L; lia.
Qed.
Lemma parse_usize_show_int n : 0 <= n <= 99999 -> parse_usize (show_int n) = Some n.
Proof. intros H. rewrite (show_int_nonneg n) by lia. apply usize_reads_back. unfold max_usize. lia. Qed.
Lemma parse_isize_show_int n : -999 <= n <= 9999 -> parse_isize (show_int n) = Some n.
Proof.
  intros H. pose proof (isize_reads_back n ltac:(unfold min_isize, max_isize; lia)) as R.
  destruct (Z.ltb_spec n 0) as [Hn|Hn]; [rewrite (show_int_neg n Hn)|rewrite (show_int_nonneg n Hn)]; exact R.
Qed.
Lemma charge_read_back ln c : -9 <= c <= 9 -> charge_of ln (pdb_charge c) = (c, []).
Proof.
  intros H.
  assert (E : In c [-9; -8; -7; -6; -5; -4; -3; -2; -1; 0; 1; 2; 3; 4; 5; 6; 7; 8; 9]).
  { assert (c = -9 \/ c = -8 \/ c = -7 \/ c = -6 \/ c = -5 \/ c = -4 \/ c = -3 \/ c = -2 \/ c = -1 \/ c = 0 \/ c = 1 \/ c = 2 \/
            c = 3 \/ c = 4 \/ c = 5 \/ c = 6 \/ c = 7 \/ c = 8 \/ c = 9) as D by lia.
    cbn [In]. intuition auto. }
  cbn [In] in E. repeat (destruct E as [<-|E]; [reflexivity|]). contradiction.
Qed.
Lemma opt_char_one (o : option text) : one_char o -> exists x, otext_or (sp 1) o = [x] /\ opt_char x = o.
Proof.
  destruct o as [t|]; cbn [one_char otext_or].
  - intros (x & -> & Hx). exists x. split; [reflexivity|]. unfold opt_char.
    destruct (Ascii.eqb_spec x " "); [congruence|reflexivity].
  - intros _. exists " "%char. split; reflexivity.
Qed.
Lemma field_one_char x : field_text 1 [x] = [x].
Proof. reflexivity. Qed.

(* the residue name field is four columns wide in the writer; the reader takes three and skips one *)
Lemma resname_field n : tight n -> (List.length n <= 3)%nat ->
  field_text 4 n = ((n ++ blanks (3 - List.length n)) ++ [" "%char])%list.
Proof.
  intros T L. rewrite (field_fits 4 n ltac:(lia) (tight_nonempty n T) ltac:(lia)). rewrite <- app_assoc. f_equal.
  replace (4 - List.length n)%nat with ((3 - List.length n) + 1)%nat by lia.
  unfold blanks. rewrite repeat_app. reflexivity.
Qed.

Theorem coord_record_read_back ln het a c r ch : fits_columns a c r ch ->
  lex_atom ln (get_line (coord_fields a c r ch)) het =
  (LAtom het {| ab_serial := a_serial a; ab_name := a_name a; ab_alt := c_alt c; ab_resname := c_name c; ab_chain := ch_id ch;
                ab_resnum := r_num r; ab_icode := r_icode r; ab_element := element_text a; ab_charge := a_charge a |}
          (number_value 3 (a_x a)) (number_value 3 (a_y a)) (number_value 3 (a_z a)) (number_value 2 (a_occ a)) (number_value 2 (a_b a)),
   []).
Proof.
  intros F. destruct F as [Fser [Tname Lname] Falt [Tres Lres] [chc Hch] Fnum Fic [Px Lx] [Py Ly] [Pz Lz] [Po Lo] [Pb Lb] Fel Fch].
  destruct (opt_char_one (c_alt c) Falt) as (altc & Ealt & Oalt).
  destruct (opt_char_one (r_icode r) Fic) as (icc & Eic & Oic).
  set (rec := if a_hetero a then S_ "HETATM" else S_ "ATOM  ").
  set (segs := [field_text 6 rec; field_text 5 (show_int (a_serial a)); sp 1; field_text 4 (a_name a); [altc];
                (c_name c ++ blanks (3 - List.length (c_name c)))%list; [" "%char]; [chc]; field_text 4 (show_int (r_num r)); [icc];
                sp 3; field_text 8 (fixed 8 3 (a_x a)); field_text 8 (fixed 8 3 (a_y a)); field_text 8 (fixed 8 3 (a_z a));
                field_text 6 (fixed 6 2 (a_occ a)); field_text 6 (fixed 6 2 (a_b a)); sp 6; sp 4; field_text 2 (element_text a)]).
  assert (Eline : get_line (coord_fields a c r ch) = (List.concat segs ++ pdb_charge (a_charge a))%list).
  { unfold get_line, coord_fields, atom_line, get_line. cbn [flat_map fst snd]. fold rec.
    rewrite Ealt, Eic, Hch, !field_one_char, (resname_field (c_name c) Tres Lres).
    change (field_text 0 ?t) with t. unfold segs. cbn [List.concat].
    change (sp 10) with (sp 6 ++ sp 4)%list.
    repeat rewrite <- app_assoc. cbn [app]. rewrite !app_nil_r. reflexivity. }
  rewrite Eline.
  assert (Lser : (List.length (show_int (a_serial a)) <= 5)%nat).
  { pose proof (show_int_length (a_serial a) 5 ltac:(lia) ltac:(change (10 ^ Z.of_nat 5) with 100000; lia)) as H.
    replace (a_serial a <? 0) with false in H by (symmetry; apply Z.ltb_ge; lia). exact H. }
  assert (Lnum : (List.length (show_int (r_num r)) <= 4)%nat).
  { destruct (Z.ltb_spec (r_num r) 0) as [Hn|Hn].
    - pose proof (show_int_length (r_num r) 3 ltac:(lia) ltac:(change (10 ^ Z.of_nat 3) with 1000; lia)) as H.
      replace (r_num r <? 0) with true in H by (symmetry; apply Z.ltb_lt; lia). exact H.
    - pose proof (show_int_length (r_num r) 4 ltac:(lia) ltac:(change (10 ^ Z.of_nat 4) with 10000; lia)) as H.
      replace (r_num r <? 0) with false in H by (symmetry; apply Z.ltb_ge; lia). exact H. }
  assert (Hw : map (@List.length ascii) segs = atom_widths78).
  { unfold segs. cbn [map].
    assert (RL : List.length (field_text 6 rec) = 6%nat) by (unfold rec; destruct (a_hetero a); reflexivity).
    rewrite RL.
    rewrite (field_fits_length 5 (show_int (a_serial a)) ltac:(lia) (tight_nonempty _ (show_int_tight _)) Lser).
    rewrite (field_fits_length 4 (a_name a) ltac:(lia) (tight_nonempty _ Tname) Lname).
    rewrite (field_fits_length 4 (show_int (r_num r)) ltac:(lia) (tight_nonempty _ (show_int_tight _)) Lnum).
    assert (FL : forall w p f, w <> O -> fits_number w p f -> p <> O -> List.length (field_text w (fixed w p f)) = w).
    { intros w p f Hw0 [Pf Lf] Hp. rewrite (fixed_number w p f Pf). unfold number_text in *.
      destruct (num_parts f) as [[[nz m] e]|]; [|congruence].
      rewrite (pad_left_field w _ Hw0 (tight_nonempty _ (tight_fmt_fixed p nz m e Hp)) Lf), app_length. unfold blanks. rewrite repeat_length. lia. }
    rewrite !FL by (try lia; split; assumption).
    assert (EL : List.length (field_text 2 (element_text a)) = 2%nat).
    { destruct Fel as [E|[Te Le]]; [rewrite E, field_empty; reflexivity|]. apply field_fits_length; [lia|apply tight_nonempty; exact Te|exact Le]. }
    rewrite EL, app_length. unfold blanks, sp. rewrite !repeat_length. cbn [List.length].
    replace (List.length (c_name c) + (3 - List.length (c_name c)))%nat with 3%nat by lia. reflexivity. }
  pose proof (atom_line_read_back_tail ln het segs (pdb_charge (a_charge a))
                (a_serial a) (a_name a) (c_name c) (r_num r)
                (number_value 3 (a_x a)) (number_value 3 (a_y a)) (number_value 3 (a_z a)) (number_value 2 (a_occ a)) (number_value 2 (a_b a))
                [] (element_text a) altc chc icc Hw) as R.
  rewrite (charge_read_back ln (a_charge a) Fch) in R. cbn [fst snd] in R.
  rewrite Oalt, Oic, <- Hch in R. apply R; unfold segs; cbn [nth].
  - rewrite (trim_left_aligned 5 _ ltac:(lia) (show_int_tight _) Lser). apply parse_usize_show_int. exact Fser.
  - apply (trim_left_aligned 4 _ ltac:(lia) Tname Lname).
  - reflexivity.
  - exact (trim_justified (c_name c) 0 (3 - List.length (c_name c)) Tres).
  - symmetry. exact Hch.
  - rewrite (trim_left_aligned 4 _ ltac:(lia) (show_int_tight _) Lnum). apply parse_isize_show_int. exact Fnum.
  - reflexivity.
  - apply fixed_field_is_read; try lia; assumption.
  - apply fixed_field_is_read; try lia; assumption.
  - apply fixed_field_is_read; try lia; assumption.
  - apply fixed_field_is_read; try lia; assumption.
  - apply fixed_field_is_read; try lia; assumption.
  - apply (trim_blanks 4).
  - destruct Fel as [E|[Te Le]]; [rewrite E, field_empty; apply trim_blanks|]. apply (trim_left_aligned 2 _ ltac:(lia) Te Le).
Qed.

(* the record name selects the coordinate lexer with the hetero flag of the atom *)
Lemma coord_line_head a c r ch : exists more,
  get_line (coord_fields a c r ch) = ((if a_hetero a then S_ "HETATM" else S_ "ATOM  ") ++ atom_line a c r ch ++ sp 3 ++ more)%list.
Proof.
  unfold get_line at 1, coord_fields. cbn [flat_map fst snd]. change (field_text 0 ?t) with t.
  eexists. f_equal. destruct (a_hetero a); reflexivity.
Qed.
Theorem coord_line_dispatch ln a c r ch atomic_only loose :
  lex_line ln (get_line (coord_fields a c r ch)) atomic_only loose = inl (lex_atom ln (get_line (coord_fields a c r ch)) (a_hetero a)).
Proof.
  destruct (coord_line_head a c r ch) as (more & E). set (line := get_line (coord_fields a c r ch)) in *.
  unfold lex_line.
  assert (L : Nat.ltb 6 (List.length line) = true).
  { apply Nat.ltb_lt. rewrite E, !app_length. destruct (a_hetero a); cbn [S_ stext list_ascii_of_string List.length sp repeat]; lia. }
  rewrite L. rewrite E at 1. destruct (a_hetero a); reflexivity.
Qed.

(* the writer prints exactly these fields for every atom of a chain *)
Lemma chain_lines_uses_coord_fields level ch :
  chain_lines level ch =
  (flat_map (fun r => flat_map (fun c => flat_map (fun a =>
     (print_line level (coord_fields a c r ch) ++
      match a_atf a with
      | Some t =>
          let g k := aniso_int (nth k t (FFin 0 0)) in
          print_line level [(6%nat, S_ "ANISOU"); (0%nat, atom_line a c r ch); (0%nat, sp 1);
                            (7%nat, g 0%nat); (7%nat, g 4%nat); (7%nat, g 8%nat); (7%nat, g 1%nat); (7%nat, g 2%nat); (7%nat, g 5%nat);
                            (0%nat, sp 6); (2%nat, element_text a); (0%nat, pdb_charge (a_charge a))]
      | None => []
      end)%list) (c_atoms c)) (r_confs r)) (ch_residues ch) ++
   match last_opt (ch_atoms ch), last_opt (ch_residues ch), last_opt (ch_confs ch) with
   | Some la, Some lr, Some lc =>
       print_line level [(0%nat, S_ "TER"); (5%nat, show_int (a_serial la)); (0%nat, sp 6); (3%nat, c_name lc); (0%nat, sp 1); (1%nat, ch_id ch);
                         (4%nat, show_int (r_num lr))]
   | _, _, _ => []
   end)%list.
Proof. reflexivity. Qed.

(* how wide a number is: the value rounded to p decimals below 10^k takes k digits, the point, p decimals and its sign *)
Lemma fmt_fixed_length p nz m e k : p <> O -> (0 < k)%nat -> fixed_r p m e < 10 ^ Z.of_nat (k + p) ->
  (List.length (fmt_fixed p nz (m, e)) <= (if ((m <? 0)%Z || nz)%bool then 1 else 0) + k + 1 + p)%nat.
Proof.
  intros Ep Hk Hr. unfold fmt_fixed. fold (fixed_r p m e). set (r := fixed_r p m e) in *. set (P := 10 ^ Z.of_nat p).
  pose proof (fixed_r_nonneg p m e) as Rn. fold r in Rn.
  assert (Pp : 0 < P) by (apply Z.pow_pos_nonneg; lia).
  destruct (show_Zpos_spec (r / P) ltac:(apply Z.div_pos; lia)) as (_ & _ & _ & L1).
  destruct (show_Zpos_spec (r mod P) ltac:(apply Z.mod_pos_bound; lia)) as (_ & _ & _ & L2).
  replace (p =? 0)%nat with false by (symmetry; apply Nat.eqb_neq; exact Ep).
  assert (Hip : r / P < 10 ^ Z.of_nat k).
  { apply Z.div_lt_upper_bound; [lia|]. rewrite Nat2Z.inj_add, Z.pow_add_r in Hr by lia. unfold P. lia. }
  specialize (L1 k Hk Hip).
  assert (Lf : (List.length (show_Zpos (r mod P)) <= p)%nat) by (apply L2; [lia|apply Z.mod_pos_bound; lia]).
  rewrite !app_length. cbn [List.length]. unfold pad0. rewrite app_length, repeat_length.
  destruct ((m <? 0) || nz)%bool; cbn [List.length]; lia.
Qed.

(* the hypotheses are met by ordinary atoms *)
Definition ex_atom : atom :=
  {| a_hetero := false; a_serial := 4711; a_id := stext "1"; a_name := stext "CA";
     a_x := FFin 12345 (-3); a_y := FFin (-7) (-1); a_z := FFin 0 0; a_occ := FFin 1 0; a_b := FFin 41 (-1);
     a_elem := Some 6; a_charge := -1; a_atf := None |}.
Definition ex_conf : conformer := {| c_name := stext "ALA"; c_alt := Some (stext "A"); c_mod := None; c_atoms := [ex_atom] |}.
Definition ex_res : residue := {| r_num := -17; r_icode := None; r_confs := [ex_conf] |}.
Definition ex_chain : chain := {| ch_id := stext "B"; ch_residues := [ex_res] |}.
Example ex_fits : fits_columns ex_atom ex_conf ex_res ex_chain.
Proof.
  constructor; try (vm_compute; split; congruence); try (split; [discriminate|vm_compute; lia]).
  - split; [split; reflexivity|vm_compute; lia].
  - eexists. split; [reflexivity|discriminate].
  - split; [split; reflexivity|vm_compute; lia].
  - eexists. reflexivity.
  - right. split; [split; reflexivity|vm_compute; lia].
Qed.
Example ex_line : get_line (coord_fields ex_atom ex_conf ex_res ex_chain) =
  stext "ATOM  4711  CA  AALA B-17     1543.125  -3.500   0.000  1.00 20.50          C 1-".
Proof. vm_compute. reflexivity. Qed.
