(* C01: on coordinate records the record loop of the reader model simulates the walk of the specification: the same wrap
   offsets, generated chain names and atom identities, the same atom, filed under the same keys. *)
From Coq Require Import List Ascii String ZArith NArith Nnat Bool Lia ZifyBool ZifyNat ZifyN.
From PV Require Import Base.Sx Base.Text Base.Float Base.Group Spec.Hier Spec.PdbSpec Model.AddAtom Model.PdbLex Model.PdbParse Proofs.C01group.
Import ListNotations.
Local Open Scope Z_scope.

(* ---------- small facts ---------- *)
Lemma position_sym_pos_sym s l : forall i, position_sym s l i = pos_sym s l i.
Proof. induction l as [|x r IH]; intros i; [reflexivity|]. simpl. destruct (String.eqb x s); [reflexivity|apply IH]. Qed.
Lemma element_of_symbol_elem_of s : element_of_symbol s = elem_of s.
Proof. apply position_sym_pos_sym. Qed.

(* the digits of an atom identity: printable, no blanks *)
Definition plain_char (c : ascii) : bool := (check_char c && negb (is_ws c))%bool.
Lemma digit_char_plain n : plain_char (ascii_of_N (48 + Z.to_N (n mod 10))) = true.
Proof.
  pose proof (Z.mod_pos_bound n 10 ltac:(lia)) as H.
  assert (E : In (n mod 10) [0; 1; 2; 3; 4; 5; 6; 7; 8; 9]) by (cbn [In]; lia).
  cbn [In] in E. repeat (destruct E as [<-|E]; [reflexivity|]). contradiction.
Qed.
Lemma pos_digits_plain fuel : forall n acc, forallb plain_char acc = true -> forallb plain_char (pos_digits fuel n acc) = true.
Proof.
  induction fuel as [|f IH]; intros n acc H; [exact H|]. cbn [pos_digits].
  assert (H' : forallb plain_char (ascii_of_N (48 + Z.to_N (n mod 10)) :: acc) = true) by (cbn [forallb]; rewrite digit_char_plain; exact H).
  destruct (n <? 10); [exact H'|apply IH; exact H'].
Qed.
Lemma pos_digits_nonempty fuel : forall n acc, (fuel <> O \/ acc <> []) -> pos_digits fuel n acc <> [].
Proof.
  induction fuel as [|f IH]; intros n acc H; [destruct H as [H|H]; [congruence|exact H]|].
  cbn [pos_digits]. destruct (n <? 10); [discriminate|]. apply IH. right. discriminate.
Qed.
Lemma show_Z_plain n : 0 <= n -> forallb plain_char (show_Z n) = true /\ show_Z n <> [].
Proof.
  intros H. unfold show_Z. replace (n <? 0) with false by (symmetry; apply Z.ltb_ge; lia). split.
  - apply pos_digits_plain. reflexivity.
  - apply pos_digits_nonempty. left. discriminate.
Qed.
(* a text of plain characters is valid and is its own trimmed form *)
Lemma plain_valid t : forallb plain_char t = true -> valid_text t = true.
Proof.
  intros H. unfold valid_text. apply forallb_forall. intros c Hc. rewrite forallb_forall in H. specialize (H c Hc).
  unfold plain_char in H. apply andb_prop in H as [H _]. exact H.
Qed.
Lemma plain_trim_l t : forallb plain_char t = true -> trim_l t = t.
Proof.
  destruct t as [|c r]; [reflexivity|]. cbn [forallb]. intros H. apply andb_prop in H as [H _]. unfold plain_char in H.
  apply andb_prop in H as [_ H]. apply negb_true_iff in H. cbn [trim_l]. rewrite H. reflexivity.
Qed.
Lemma plain_rev t : forallb plain_char t = true -> forallb plain_char (rev t) = true.
Proof.
  intros H. apply forallb_forall. intros c Hc. apply in_rev in Hc. rewrite forallb_forall in H. exact (H c Hc).
Qed.
Lemma plain_trim t : forallb plain_char t = true -> trim t = t.
Proof.
  intros H. unfold trim, trim_r. rewrite (plain_trim_l t H), (plain_trim_l (rev t) (plain_rev t H)). apply rev_involutive.
Qed.

(* ---------- the item a well-formed coordinate record is lexed to (Props/C01 theorem 8 for the text side) ---------- *)
Definition item_of (a : arec) : lexitem :=
  LAtom (r_hetero a)
        {| ab_serial := r_serial a; ab_name := trim (r_name a); ab_alt := r_alt a; ab_resname := trim (r_resname a); ab_chain := r_chain a;
           ab_resnum := r_resnum a; ab_icode := r_ins a; ab_element := trim (r_element a); ab_charge := r_charge a |}
        (dec (r_x a)) (dec (r_y a)) (dec (r_z a)) (dec (r_occ a)) (dec (r_b a)).
Definition ident_ok (t : text) : Prop := valid_text t = true /\ trim t <> [].
Definition opt_ident_ok (o : option text) : Prop := match o with None => True | Some t => ident_ok t end.
Record wf_rec (a : arec) : Prop := {
  wf_name : valid_text (trim (r_name a)) = true;
  wf_element : valid_text (trim (r_element a)) = true;
  wf_resname : ident_ok (trim (r_resname a));
  wf_chain : valid_text (r_chain a) = true;
  wf_alt : opt_ident_ok (r_alt a);
  wf_ins : opt_ident_ok (r_ins a);
  wf_numbers : (finite_f (dec (r_x a)) && finite_f (dec (r_y a)) && finite_f (dec (r_z a)) && finite_f (dec (r_occ a)) && finite_f (dec (r_b a)))%bool = true;
  wf_ins_tight : match r_ins a with Some t => trim t = t | None => True end;   (* one character of the record *)
  wf_no_tensor : r_atf a = None;
  wf_id : True }.

Lemma ident_upper t : ident_ok t -> prepare_identifier_uppercase t = Some (upper (trim t)).
Proof.
  intros [V N]. unfold prepare_identifier_uppercase, prepare_identifier. rewrite V.
  destruct (trim t) eqn:E; [congruence|]. reflexivity.
Qed.
Lemma norm_alt_upper_opt o : opt_ident_ok o -> norm_alt o = upper_opt o.
Proof. destruct o as [t|]; [|reflexivity]. intros H. cbn [norm_alt upper_opt option_map]. apply ident_upper. exact H. Qed.
Lemma infer_same element name :
  match element_of_symbol (trim (trim element)) with
  | Some e => Some e
  | None => match element_of_symbol (trim (trim name)) with
            | Some e => Some e
            | None => match trim (trim name) with
                      | c :: _ => if existsb (Ascii.eqb c) (stext "CHNOS") then element_of_symbol [c] else None
                      | [] => None
                      end
            end
  end = infer_element element name.
Proof. unfold infer_element. rewrite !trim_idem, !element_of_symbol_elem_of. destruct (trim name); reflexivity. Qed.

(* the atom both sides make of the record in corresponding states *)
Definition spec_atom (a : arec) (aadd id : Z) : atom :=
  {| a_hetero := r_hetero a; a_serial := r_serial a + aadd; a_id := show_Z id; a_name := upper (trim (r_name a));
     a_x := dec (r_x a); a_y := dec (r_y a); a_z := dec (r_z a); a_occ := dec (r_occ a); a_b := dec (r_b a);
     a_elem := infer_element (r_element a) (r_name a); a_charge := r_charge a; a_atf := None |}.
Lemma Atom_new_of_record a aadd id : wf_rec a -> 0 <= id ->
  Atom_new (r_hetero a) (r_serial a + aadd) (show_Z id) (trim (r_name a)) (dec (r_x a)) (dec (r_y a)) (dec (r_z a)) (dec (r_occ a)) (dec (r_b a))
           (trim (r_element a)) (r_charge a) = Some (spec_atom a aadd id).
Proof.
  intros W Hid. destruct (show_Z_plain id Hid) as [P _].
  unfold Atom_new. rewrite (plain_trim (show_Z id) P), (plain_valid (show_Z id) P), !trim_idem, (wf_name a W), (wf_element a W).
  pose proof (wf_numbers a W) as N. cbn [andb]. 
  repeat (apply andb_prop in N as [N ?]).
  repeat match goal with H : finite_f _ = true |- _ => rewrite H; clear H end. cbn [andb].
  unfold spec_atom. pose proof (infer_same (r_element a) (r_name a)) as I. rewrite !trim_idem in I. rewrite I. reflexivity.
Qed.

(* ---------- the simulation ---------- *)
Record sim (w : walk) (s : st) : Prop := {
  sim_last_atom : w_last_atom w = s_last_atom s; sim_atom_add : w_atom_add w = s_atom_add s;
  sim_last_res : w_last_res w = s_last_res s; sim_res_add : w_res_add w = s_res_add s;
  sim_next_id : w_next_id w = s_next_id s; sim_id_nonneg : 0 <= s_next_id s;
  sim_ters : w_ters w = s_chain_letter s;
  sim_cur : abs_cur (s_cur s) = spec_chains atom (w_cur w) }.

Lemma letter_valid n : valid_text (letter_of n) = true.
Proof.
  unfold letter_of.
  assert (B : forallb (fun k => valid_text [ascii_of_N (65 + N.of_nat k)]) (seq 0 26) = true) by (vm_compute; reflexivity).
  rewrite forallb_forall in B. pose proof (N.mod_upper_bound n 26 ltac:(discriminate)) as Hm.
  specialize (B (N.to_nat (n mod 26)%N)). rewrite N2Nat.id in B. apply B. apply in_seq. lia.
Qed.
Lemma spec_chains_snoc l k : spec_chains atom (l ++ [k]) = chain_step1 (spec_chains atom l) k.
Proof. rewrite <- !chain_fold1, fold_left_app. reflexivity. Qed.

Section Sim.
Variable first_only : bool.
Definition wrap_atom (s : st) (a : arec) : Z :=
  if (Z.eqb (r_serial a) 0 && Z.eqb (s_last_atom s) 99999)%bool then s_atom_add s + 100000 else s_atom_add s.
Definition wrap_res (s : st) (a : arec) : Z :=
  if (Z.eqb (r_resnum a) 0 && Z.eqb (s_last_res s) 9999)%bool then s_res_add s + 10000 else s_res_add s.
Definition chain_of (s : st) (a : arec) : text := if blank (r_chain a) then letter_of (s_chain_letter s) else r_chain a.
Definition event_of_record (s : st) (a : arec) : event :=
  {| e_chain := chain_of s a; e_key := (r_resnum a + wrap_res s a, option_map upper (r_ins a)); e_name := trim (r_resname a); e_alt := r_alt a;
     e_atom := spec_atom a (wrap_atom s a) (s_next_id s) |}.

Lemma atom_event_of_record s a : wf_rec a -> 0 <= s_next_id s ->
  atom_event false s (r_hetero a)
    {| ab_serial := r_serial a; ab_name := trim (r_name a); ab_alt := r_alt a; ab_resname := trim (r_resname a); ab_chain := r_chain a;
       ab_resnum := r_resnum a; ab_icode := r_ins a; ab_element := trim (r_element a); ab_charge := r_charge a |}
    (dec (r_x a)) (dec (r_y a)) (dec (r_z a)) (dec (r_occ a)) (dec (r_b a)) = Some (event_of_record s a).
Proof.
  intros W Hid. unfold atom_event. cbn [andb ab_serial ab_name ab_alt ab_resname ab_chain ab_resnum ab_icode ab_element ab_charge].
  fold (wrap_atom s a). fold (wrap_res s a). fold (chain_of s a).
  rewrite (Atom_new_of_record a (wrap_atom s a) (s_next_id s) W Hid).
  assert (Vc : valid_text (chain_of s a) = true) by (unfold chain_of; destruct (blank (r_chain a)); [apply letter_valid|exact (wf_chain a W)]).
  rewrite Vc. unfold Conformer_new. rewrite (ident_upper _ (wf_resname a W)). cbn [option_map andb].
  assert (R : match Residue_new 0 (r_ins a) [] with Some _ => true | None => false end = true).
  { unfold Residue_new. pose proof (wf_ins a W) as I. destruct (r_ins a) as [ic|]; [|reflexivity]. rewrite (ident_upper ic I). reflexivity. }
  rewrite R. reflexivity.
Qed.

Theorem sim_atom w s ln a : sim w s -> wf_rec a -> sim (walk_step w (RAtom a)) (step_item false first_only s ln (item_of a)).
Proof.
  intros S W. destruct S as [S1 S2 S3 S4 S5 S6 S7 S8].
  unfold item_of.
  pose proof (step_atom_cur false first_only s ln (r_hetero a)
                {| ab_serial := r_serial a; ab_name := trim (r_name a); ab_alt := r_alt a; ab_resname := trim (r_resname a); ab_chain := r_chain a;
                   ab_resnum := r_resnum a; ab_icode := r_ins a; ab_element := trim (r_element a); ab_charge := r_charge a |}
                (dec (r_x a)) (dec (r_y a)) (dec (r_z a)) (dec (r_occ a)) (dec (r_b a))) as C.
  rewrite (atom_event_of_record s a W S6) in C.
  (* the other fields of the reader state *)
  set (t := step_item false first_only s ln _) in *.
  assert (F : s_last_atom t = r_serial a /\ s_atom_add t = wrap_atom s a /\ s_last_res t = r_resnum a /\ s_res_add t = wrap_res s a /\
              s_next_id t = s_next_id s + 1 /\ s_chain_letter t = s_chain_letter s).
  { unfold t, step_item. cbn [andb ab_serial ab_name ab_alt ab_resname ab_chain ab_resnum ab_icode ab_element ab_charge].
    fold (wrap_atom s a). fold (wrap_res s a). fold (chain_of s a).
    rewrite (Atom_new_of_record a (wrap_atom s a) (s_next_id s) W S6).
    assert (Vc : valid_text (chain_of s a) = true) by (unfold chain_of; destruct (blank (r_chain a)); [apply letter_valid|exact (wf_chain a W)]).
    rewrite Vc. unfold Conformer_new. rewrite (ident_upper _ (wf_resname a W)). cbn [option_map andb].
    assert (R : match Residue_new 0 (r_ins a) [] with Some _ => true | None => false end = true).
    { unfold Residue_new. pose proof (wf_ins a W) as I. destruct (r_ins a) as [ic|]; [|reflexivity]. rewrite (ident_upper ic I). reflexivity. }
    rewrite R. repeat split. }
  destruct F as (F1 & F2 & F3 & F4 & F5 & F6).
  unfold walk_step. rewrite (wf_no_tensor a W).
  constructor; cbn [w_last_atom w_atom_add w_last_res w_res_add w_next_id w_ters w_cur].
  - symmetry. exact F1.
  - rewrite F2. unfold wrap_atom. rewrite S1, S2. reflexivity.
  - symmetry. exact F3.
  - rewrite F4. unfold wrap_res. rewrite S3, S4. reflexivity.
  - rewrite F5, S5. reflexivity.
  - rewrite F5. lia.
  - rewrite F6. exact S7.
  - rewrite C, spec_chains_snoc.
    rewrite (insert_abs (s_cur s) (event_of_record s a)).
    + rewrite S8. f_equal. unfold key_of, event_of_record, e_conf. cbn [e_chain e_key e_name e_alt e_atom].
      rewrite (ident_upper _ (wf_resname a W)), trim_idem, (norm_alt_upper_opt _ (wf_alt a W)).
      assert (Hi : option_map upper (r_ins a) = upper_opt (r_ins a)).
      { pose proof (wf_ins_tight a W) as T. unfold upper_opt. destruct (r_ins a) as [ic|]; [|reflexivity]. cbn [option_map]. rewrite T. reflexivity. }
      rewrite Hi.
      unfold chain_of, blank, letter_of, spec_atom, wrap_atom, wrap_res. rewrite S1, S2, S3, S4, S5, S7. reflexivity.
    + exists (upper (trim (trim (r_resname a)))). cbn [event_of_record e_name]. apply ident_upper. exact (wf_resname a W).
Qed.

Theorem sim_ter w s ln : sim w s -> sim (walk_step w RTer) (step_item false first_only s ln LTer).
Proof. intros [S1 S2 S3 S4 S5 S6 S7 S8]. constructor; cbn [walk_step step_item w_last_atom w_atom_add w_last_res w_res_add w_next_id w_ters w_cur
  s_last_atom s_atom_add s_last_res s_res_add s_next_id s_chain_letter s_cur]; try assumption. rewrite S7. reflexivity. Qed.

(* a run of coordinate and TER records: the record and the item it is lexed to *)
Definition chain_rec (r : rec) : Prop := match r with RAtom a => wf_rec a | RTer => True | _ => False end.
Definition item_of_rec (r : rec) : lexitem := match r with RAtom a => item_of a | RTer => LTer | _ => LEmpty end.
Theorem sim_run (rs : list (Z * rec)) : Forall (fun x => chain_rec (snd x)) rs -> forall w s, sim w s ->
  sim (fold_left walk_step (map snd rs) w) (fold_left (fun s x => step_item false first_only s (fst x) (item_of_rec (snd x))) rs s).
Proof.
  induction 1 as [|[ln r] rest Hr Hrest IH]; intros w s S; [exact S|].
  cbn [map fold_left fst snd]. apply IH. destruct r; try contradiction; cbn [item_of_rec].
  - apply sim_ter. exact S.
  - apply sim_atom; assumption.
Qed.
Lemma sim_start : sim walk0 st0.
Proof. constructor; try reflexivity. Qed.
(* from the start of a file: the model the reader is building is the first-appearance partition of the keyed atoms of the walk *)
Corollary reader_refines_walk (rs : list (Z * rec)) : Forall (fun x => chain_rec (snd x)) rs ->
  abs_cur (s_cur (fold_left (fun s x => step_item false first_only s (fst x) (item_of_rec (snd x))) rs st0)) =
  spec_chains atom (w_cur (fold_left walk_step (map snd rs) walk0)).
Proof. intros H. exact (sim_cur _ _ (sim_run rs H walk0 st0 sim_start)). Qed.
End Sim.

(* ---------- the numbers: a decimal numeral in a field is read as the value the specification gives it ---------- *)
From PV Require Import Proofs.Decimal Proofs.C01just Proofs.C03line.
Lemma numeral_field_is_dec neg ds1 ds2 : all_digit ds1 -> ds1 <> [] -> all_digit ds2 -> ds2 <> [] ->
  let t := with_sign neg (ds1 ++ "."%char :: ds2) in
  finite_f (dec t) = true -> parse_f64_field t = Some (dec t).
Proof.
  intros A1 N1 A2 N2 t F. unfold t in *.
  destruct ds1 as [|c l]; [congruence|]. cbn [app] in *.
  pose proof (f64_field_of_digits neg c (l ++ "."%char :: ds2) (A1 c (or_introl eq_refl))) as P.
  rewrite P. pose proof (parse_dec_fraction neg (c :: l) ds2 A1 N1 A2 N2) as D. cbn [app] in D.
  unfold dec in *. rewrite D in *. f_equal. unfold of_q.
  destruct (rnd64 _) as [[[|mp|mn] e]|].
  - destruct neg; cbn [with_sign]; [reflexivity|].
    destruct (digit_not_sign c (A1 c (or_introl eq_refl))) as [Hm _].
    destruct c as [[] [] [] [] [] [] [] []]; try reflexivity; congruence.
  - reflexivity.
  - reflexivity.
  - discriminate F.
Qed.
