(* C02: layout lemmas of the mmCIF lexer model - white space, comments and the spellings of a value. *)
From Coq Require Import List Ascii String ZArith Bool Lia.
From PV Require Import Base.Sx Base.Text Spec.Hier Model.PdbLex Model.CifLex Proofs.C06lex.
Import ListNotations.

(* white space in front of anything is skipped *)
Lemma tcw_ws ws t : forallb is_tws ws = true -> tcw false (ws ++ t) = tcw false t.
Proof.
  induction ws as [|c r IH]; simpl; [reflexivity|].
  intros H. apply andb_prop in H as [H1 H2]. rewrite H1. apply IH, H2.
Qed.
(* a comment runs to the end of its line *)
Lemma tcw_comment_body c t : forallb (fun x => negb (is_eol x)) c = true -> forall e, is_eol e = true ->
  tcw true (c ++ e :: t) = tcw false t.
Proof.
  induction c as [|x r IH]; simpl; intros H e He.
  - rewrite He. reflexivity.
  - apply andb_prop in H as [H1 H2]. apply negb_true_iff in H1. rewrite H1. apply IH; assumption.
Qed.
Lemma tcw_comment c e t : forallb (fun x => negb (is_eol x)) c = true -> is_eol e = true ->
  tcw false ("#"%char :: c ++ e :: t) = tcw false t.
Proof. intros H He. simpl. apply tcw_comment_body; assumption. Qed.

Lemma tcw_stop c r : is_tws c = false -> Ascii.eqb c "#" = false -> tcw false (c :: r) = c :: r.
Proof. intros H1 H2. simpl. rewrite H1, H2. reflexivity. Qed.

(* a word without white space is taken whole *)
Lemma span_id_word w rest : forallb (fun c => negb (is_aws c)) w = true ->
  match rest with [] => True | c :: _ => is_aws c = true end -> span_id (w ++ rest) = (w, rest).
Proof.
  induction w as [|c r IH]; simpl; intros H Hr.
  - destruct rest as [|c r]; [reflexivity|]. simpl. rewrite Hr. reflexivity.
  - apply andb_prop in H as [H1 H2]. apply negb_true_iff in H1. rewrite H1. rewrite IH; auto.
Qed.

(* a quoted string without the quote character and without line ends is its content *)
Lemma enclosed_content q s rest acc : forallb (fun c => negb (Ascii.eqb c q) && negb (is_eol c))%bool s = true ->
  enclosed q (s ++ q :: rest) acc = Some (rev acc ++ s, rest)%list.
Proof.
  revert acc; induction s as [|c r IH]; intros acc H; cbn [app enclosed].
  - rewrite Ascii.eqb_refl, app_nil_r. reflexivity.
  - cbn [forallb] in H. apply andb_prop in H as [H1 H2]. apply andb_prop in H1 as [Ha Hb].
    apply negb_true_iff in Ha, Hb. rewrite Ha, Hb. rewrite IH; [|exact H2]. cbn [rev]. rewrite <- app_assoc. reflexivity.
Qed.

(* a text field: no ';' directly after a line end inside the content *)
Fixpoint field_clean (e : bool) (s : text) : bool :=
  match s with [] => true | c :: r => (negb (e && Ascii.eqb c ";") && field_clean (is_eol c) r)%bool end.
Lemma text_field_content s : forall e acc nl rest, field_clean e s = true -> is_eol nl = true ->
  (e && Ascii.eqb nl ";")%bool = false ->
  text_field e (s ++ nl :: ";"%char :: rest) acc = Some (rev acc ++ s ++ [nl], rest)%list.
Proof.
  induction s as [|c r IH]; intros e acc nl rest H Hn He.
  - cbn [app text_field]. rewrite He. cbn [text_field]. rewrite Hn. reflexivity.
  - cbn [app text_field]. cbn [field_clean] in H. apply andb_prop in H as [H1 H2]. apply negb_true_iff in H1. rewrite H1.
    rewrite (IH (is_eol c) (c :: acc) nl rest H2 Hn).
    + simpl. rewrite <- app_assoc. reflexivity.
    + destruct nl as [b0 b1 b2 b3 b4 b5 b6 b7]. unfold is_eol in Hn.
      destruct (Ascii.eqb (Ascii b0 b1 b2 b3 b4 b5 b6 b7) ";") eqn:E; [|apply andb_false_r].
      apply Ascii.eqb_eq in E. rewrite E in Hn. vm_compute in Hn. discriminate.
Qed.
