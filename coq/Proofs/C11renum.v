(* C11: renumber hands out the atom serial numbers 1, 2, 3, ... in traversal order, so the binary look-up applies to every
   renumbered structure without empty containers. *)
From Coq Require Import List Ascii ZArith Bool Arith Lia.
From PV Require Import Base.Sx Base.Text Spec.Hier Model.SortRenumber Model.BinFind Proofs.C11find.
Import ListNotations.
Local Open Scope Z_scope.

Fixpoint iota (start : Z) (n : nat) : list Z := match n with O => [] | S k => start :: iota (start + 1) k end.
Lemma iota_app s a b : iota s (a + b) = (iota s a ++ iota (s + Z.of_nat a) b)%list.
Proof.
  revert s; induction a as [|a IH]; intros s; [simpl; f_equal; lia|].
  cbn [Nat.add iota app]. f_equal. rewrite IH. f_equal. f_equal. lia.
Qed.
Lemma iota_length s n : length (iota s n) = n.
Proof. revert s; induction n as [|n IH]; intros s; [reflexivity|]. simpl. f_equal. apply IH. Qed.
Lemma iota_lower s n : forall x, In x (iota s n) -> s <= x.
Proof. revert s; induction n as [|n IH]; intros s x []; [lia|]. specialize (IH (s + 1) x H). lia. Qed.
Lemma increasing_iota s n : increasing (iota s n) = true.
Proof.
  revert s; induction n as [|n IH]; intros s; [reflexivity|]. cbn [iota].
  destruct n as [|n]; [reflexivity|]. cbn [iota increasing]. apply andb_true_intro. split; [apply Z.ltb_lt; lia|].
  exact (IH (s + 1)).
Qed.

Lemma number_atoms_spec l : forall next, serials (fst (number_atoms l next)) = iota next (length l) /\
  snd (number_atoms l next) = next + Z.of_nat (length l) /\ length (fst (number_atoms l next)) = length l.
Proof.
  induction l as [|a r IH]; intros next; [simpl; repeat split; lia|].
  cbn [number_atoms]. destruct (number_atoms r (next + 1)) as [r' n'] eqn:E.
  specialize (IH (next + 1)). rewrite E in IH. simpl in IH. destruct IH as (I1 & I2 & I3).
  cbn [fst snd serials map length iota]. unfold serials in I1. rewrite I1, I2, I3. repeat split; [lia].
Qed.
Lemma number_confs_spec l : forall next,
  serials (flat_map c_atoms (fst (number_confs l next))) = iota next (length (flat_map c_atoms l)) /\
  snd (number_confs l next) = next + Z.of_nat (length (flat_map c_atoms l)) /\
  map (fun c => length (c_atoms c)) (fst (number_confs l next)) = map (fun c => length (c_atoms c)) l.
Proof.
  induction l as [|c r IH]; intros next; [simpl; repeat split; lia|].
  cbn [number_confs]. destruct (number_atoms_spec (c_atoms c) next) as (A1 & A2 & A3).
  destruct (number_atoms (c_atoms c) next) as [atoms n1]. simpl in A1, A2, A3.
  specialize (IH n1). destruct (number_confs r n1) as [r' n2]. simpl in IH. destruct IH as (I1 & I2 & I3).
  cbn [fst snd flat_map map]. cbn [set_atoms c_atoms].
  rewrite serials_app, A1, I1, app_length, iota_app, A2. subst n1. repeat split; [lia|].
  rewrite A3, I3. reflexivity.
Qed.
Lemma relabel_atoms l : flat_map c_atoms (relabel_confs l) = flat_map c_atoms l.
Proof.
  unfold relabel_confs. destruct l as [|c [|d r]]; [reflexivity|reflexivity|].
  assert (G : forall l i, flat_map c_atoms (letter_confs l i) = flat_map c_atoms l).
  { clear. induction l as [|x y IH]; intros i; [reflexivity|]. cbn [letter_confs flat_map]. rewrite IH. reflexivity. }
  apply G.
Qed.
Lemma number_residues_spec l : forall na nr,
  serials (flat_map r_atoms (fst (fst (number_residues l na nr)))) = iota na (length (flat_map r_atoms l)) /\
  snd (fst (number_residues l na nr)) = na + Z.of_nat (length (flat_map r_atoms l)) /\
  map (fun r => length (r_atoms r)) (fst (fst (number_residues l na nr))) = map (fun r => length (r_atoms r)) l.
Proof.
  induction l as [|r rest IH]; intros na nr; [simpl; repeat split; lia|].
  cbn [number_residues]. destruct (number_confs_spec (r_confs r) na) as (C1 & C2 & _).
  destruct (number_confs (r_confs r) na) as [cs na1]. simpl in C1, C2.
  specialize (IH na1 (nr + 1)). destruct (number_residues rest na1 (nr + 1)) as [[rest' na'] nr']. simpl in IH. destruct IH as (I1 & I2 & I3).
  assert (Hl : length (flat_map c_atoms cs) = length (r_atoms r)).
  { apply (f_equal (@length Z)) in C1. unfold serials in C1. rewrite map_length, iota_length in C1. exact C1. }
  set (nr0 := {| r_num := nr; r_icode := None; r_confs := relabel_confs cs |}).
  assert (Ha : r_atoms nr0 = flat_map c_atoms cs) by (unfold r_atoms, nr0; cbn [r_confs]; apply relabel_atoms).
  cbn [fst snd flat_map map]. rewrite Ha, serials_app, C1, I1, !app_length, Hl, iota_app, I2, C2.
  fold (r_atoms r). repeat split; [lia|]. f_equal. exact I3.
Qed.
Lemma number_chains_spec l : forall i na nr,
  serials (flat_map ch_atoms (number_chains l i na nr)) = iota na (length (flat_map ch_atoms l)) /\
  map (fun c => map (fun r => length (r_atoms r)) (ch_residues c)) (number_chains l i na nr) =
  map (fun c => map (fun r => length (r_atoms r)) (ch_residues c)) l.
Proof.
  induction l as [|c rest IH]; intros i na nr; [simpl; split; reflexivity|].
  cbn [number_chains]. destruct (number_residues_spec (ch_residues c) na nr) as (R1 & R2 & R3).
  destruct (number_residues (ch_residues c) na nr) as [[rs na1] nr1]. simpl in R1, R2, R3.
  specialize (IH (i + 1)%N na1 nr1). destruct IH as (I1 & I2).
  cbn [flat_map map]. unfold ch_atoms at 1 3. cbn [ch_residues].
  fold (ch_atoms c). rewrite serials_app, R1, I1, app_length, iota_app, R2. subst na1. split; [reflexivity|].
  f_equal; [exact R3|exact I2].
Qed.

(* the first model of a renumbered structure: serial numbers 1, 2, 3, ... and the same shape *)
Theorem renumbered_increasing p : match renumber p with [] => True | m :: _ => increasing (serials (m_atoms m)) = true end.
Proof.
  unfold renumber. destruct p as [|m r]; [exact I|]. cbn [renumber_models]. unfold m_atoms. cbn [m_chains].
  destruct (number_chains_spec (m_chains m) 0%N 1 1) as (S1 & _). rewrite S1. apply increasing_iota.
Qed.
Lemma lengths_nonempty {A} (f g : A -> nat) l l' : map f l' = map g l -> (forall x, In x l -> g x <> O) -> forall y, In y l' -> f y <> O.
Proof.
  revert l'; induction l as [|a r IH]; intros [|b s] E H y Hy; try discriminate; [destruct Hy|].
  simpl in E. inversion E. destruct Hy as [<-|Hy]; [rewrite H1; apply H; now left|].
  apply (IH s H2 (fun x Hx => H x (or_intror Hx)) y Hy).
Qed.
Theorem renumbered_find p n alt :
  (forall m, In m p -> forall c, In c (m_chains m) -> ch_residues c <> [] /\ forall r, In r (ch_residues c) -> r_atoms r <> []) ->
  PDB_bfind range_cmp (renumber p) n alt = lin_pdb (renumber p) n alt.
Proof.
  intros Hne. apply PDB_bfind_linear. pose proof (renumbered_increasing p) as Hinc.
  unfold renumber in *. destruct p as [|m r]; [exact I|]. cbn [renumber_models] in *. split; [|exact Hinc].
  cbn [m_chains]. destruct (number_chains_spec (m_chains m) 0%N 1 1) as (_ & S2).
  specialize (Hne m (or_introl eq_refl)).
  (* shapes: the renumbered chains have the residues and atom counts of the original ones *)
  assert (G : forall (l l' : list chain),
              map (fun c => map (fun r => length (r_atoms r)) (ch_residues c)) l' = map (fun c => map (fun r => length (r_atoms r)) (ch_residues c)) l ->
              (forall c, In c l -> ch_residues c <> [] /\ forall r, In r (ch_residues c) -> r_atoms r <> []) ->
              forall c, In c l' -> ch_atoms c <> [] /\ forall r, In r (ch_residues c) -> r_atoms r <> []).
  { clear. induction l as [|a r IH]; intros [|b s] E H c Hc; try discriminate; [destruct Hc|].
    simpl in E. inversion E as [[E1 E2]]. destruct Hc as [<-|Hc]; [|apply (IH s E2 (fun x Hx => H x (or_intror Hx)) c Hc)].
    destruct (H a (or_introl eq_refl)) as [Ha1 Ha2].
    assert (Hr : forall x, In x (ch_residues b) -> r_atoms x <> []).
    { intros x Hx Hnil.
      apply (lengths_nonempty (fun r0 => length (r_atoms r0)) (fun r0 => length (r_atoms r0)) (ch_residues a) (ch_residues b) E1
               (fun y Hy Hz => Ha2 y Hy (proj1 (length_zero_iff_nil _) Hz)) x Hx). rewrite Hnil. reflexivity. }
    split; [|exact Hr].
    destruct (ch_residues b) as [|x xs] eqn:Eb.
    - destruct (ch_residues a); [congruence|discriminate].
    - unfold ch_atoms. rewrite Eb. cbn [flat_map]. specialize (Hr x (or_introl eq_refl)). destruct (r_atoms x); [congruence|discriminate]. }
  apply (G (m_chains m) _ S2 Hne).
Qed.
