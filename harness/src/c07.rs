//! C07: strictness level decides accept/reject.
use crate::gen;
use crate::out::Out;
use crate::rng::Rng;
use crate::snap;
use crate::sx::*;
use pdbtbx::*;
use std::io::BufWriter;

fn raw_pdb(p: &PDB, level: StrictnessLevel) -> Vec<u8> {
    let mut buf = Vec::new();
    save_pdb_raw(p, BufWriter::new(&mut buf), level);
    buf
}
fn raw_cif(p: &PDB) -> Vec<u8> {
    let mut buf = Vec::new();
    save_mmcif_raw(p, BufWriter::new(&mut buf));
    buf
}

/// diagnostic triggers for PDB text (each produces a known diagnostic class)
/// the triggers are taken in turn (every one of them equally often), and the MASTER record runs through all sixteen
/// combinations of its four checksums being right or wrong
#[derive(Default)]
struct Cycle {
    trigger: usize,
    master: usize,
}
fn mutate_pdb(rng: &mut Rng, cyc: &mut Cycle, text: &str) -> (String, &'static str) {
    let mut lines: Vec<String> = text.lines().map(str::to_string).collect();
    let k = cyc.trigger % 20;
    cyc.trigger += 1;
    let label = match k {
        19 => {
            // two files behind each other: atoms, a MASTER record with the right count, END, and the same atoms once more.
            // What the reader makes of the records after MASTER must not depend on the level.
            let end = lines.iter().position(|l| l.starts_with("ENDMDL")).unwrap_or(lines.len());
            let atoms: Vec<String> = lines[..end].iter().filter(|l| l.starts_with("ATOM") || l.starts_with("HETATM") || l.starts_with("TER")).cloned().collect();
            let n_atoms = atoms.iter().filter(|l| !l.starts_with("TER")).count();
            let mut t = atoms.join("\n");
            t.push_str(&format!("\nMASTER        0    0    0    0    0    0    0    0{n_atoms:5}    0    0    0\nEND\n"));
            t.push_str(&atoms.join("\n"));
            t.push_str("\nEND\n");
            return (t, "master-mid-file");
        }
        17 | 18 => {
            // SEQRES lists a residue that has no coordinates: what the reader makes of it must not depend on the level
            let names = ["MET", "GLY", "ALA", "SER", "VAL", "LEU"];
            let n = 4 + rng.below(3);
            let missing = 1 + rng.below(n - 2);
            let mut t = format!("DBREF  1ABC A {:>4}  {:>4}  {:<6} {:<8} {:<12} {:>5}  {:>5} \n", 1, n, "UNP", "P12345", "TEST_HUMAN", 1, n);
            t.push_str(&format!("SEQRES   1 A {:>4}  {}\n", n, names[..n].join(" ")));
            let mut serial = 1;
            for r in 0..n {
                if r == missing {
                    continue;
                }
                t.push_str(&format!("ATOM  {serial:>5} {:<4} {:>3} A{:>4}    {:>8.3}{:>8.3}{:>8.3}{:>6.2}{:>6.2}          {:>2}  \n", "CA", names[r], r + 1, r as f64 * 3.8, 1.0, 2.0, 1.0, 10.0, "C"));
                serial += 1;
            }
            t.push_str("END\n");
            return (t, "seqres-gap");
        }
        12 => {
            // a remark that is too long and has a character no text may hold: what the levels make of the two together
            lines.insert(0, format!("REMARK   2 {}\t{}", "X".repeat(40), "Y".repeat(40)));
            "long-remark-with-tab"
        }
        15 => {
            // one line with two things to report: too long, and a remark-type-number that is no number
            lines.insert(0, format!("REMARK abc {}", "X".repeat(75)));
            "long-remark-bad-number-one-line"
        }
        16 => {
            // a long remark and a MASTER record that counts the remarks
            let n_remark = lines.iter().filter(|l| l.starts_with("REMARK")).count() + rng.below(2);
            lines.insert(0, format!("REMARK   2 {}", "X".repeat(75)));
            let at = lines.iter().position(|l| l.starts_with("END")).unwrap_or(lines.len());
            let n_atoms = lines.iter().filter(|l| l.starts_with("ATOM") || l.starts_with("HETATM")).count();
            lines.insert(at, format!("MASTER    {n_remark:5}    0    0    0    0    0    0    0{n_atoms:5}    0    0    0"));
            "long-remark+master"
        }
        13 => {
            lines.insert(0, "REMARK   2 A\tB".to_string());
            "remark-with-tab"
        }
        14 => {
            // two diagnostics of different families whose levels differ: a long remark and a wrong remark number
            lines.insert(0, format!("REMARK   2 {}", "X".repeat(75)));
            lines.insert(1, "REMARK 998 A".to_string());
            "long-remark+bad-number"
        }
        8 | 9 => {
            // MASTER record with each checksum independently right or wrong (several diagnostics of one family, two levels):
            // all sixteen combinations in turn
            let n_atoms = lines.iter().filter(|l| l.starts_with("ATOM") || l.starts_with("HETATM")).count();
            let n_remark = lines.iter().filter(|l| l.starts_with("REMARK")).count();
            let bits = cyc.master % 16;
            cyc.master += 1;
            let wrong = |r: &mut Rng, on: bool, v: usize| if on { v + 1 + r.below(3) } else { v };
            let (a, b2, c, d) = (wrong(rng, bits & 1 != 0, n_remark), wrong(rng, bits & 2 != 0, 0), wrong(rng, bits & 4 != 0, 0), wrong(rng, bits & 8 != 0, n_atoms));
            let at = lines.iter().position(|l| l.starts_with("END")).unwrap_or(lines.len());
            lines.insert(at, format!("MASTER    {a:5}{b2:5}    0    0    0    0    0{c:5}{d:5}    0    0    0"));
            "master-variants"
        }
        10 | 11 => {
            // later models that differ from the first in atom total and / or in the ATOM/HETATM split
            let model_starts: Vec<usize> = lines.iter().enumerate().filter(|(_, l)| l.starts_with("MODEL")).map(|(i, _)| i).collect();
            for (mi, start) in model_starts.iter().enumerate().skip(1) {
                let end = model_starts.get(mi + 1).copied().unwrap_or(lines.len());
                let atoms: Vec<usize> = (*start..end).filter(|i| lines[*i].starts_with("ATOM") || lines[*i].starts_with("HETATM")).collect();
                if atoms.is_empty() {
                    continue;
                }
                let victim = atoms[rng.below(atoms.len())];
                if (mi + k) % 2 == 0 {
                    lines[victim] = String::new();
                } else if lines[victim].starts_with("ATOM") {
                    lines[victim] = format!("HETATM{}", &lines[victim][6..]);
                } else {
                    lines[victim] = format!("ATOM  {}", &lines[victim][6..]);
                }
            }
            "models-differ"
        }
        0 => {
            lines.insert(0, format!("REMARK   2 {}", "X".repeat(75)));
            "long-remark"
        }
        1 => {
            lines.insert(0, "REMARK   7 unknown remark type".to_string());
            "bad-remark-number"
        }
        2 => {
            lines.insert(0, "HEADER    SHORT".to_string());
            "short-header"
        }
        3 => {
            if let Some(i) = lines.iter().position(|l| l.starts_with("ATOM") || l.starts_with("HETATM")) {
                let mut b = lines[i].clone().into_bytes();
                if b.len() > 40 {
                    b[33] = b'x';
                }
                lines[i] = String::from_utf8(b).unwrap_or_default();
            }
            "bad-coordinate"
        }
        4 => {
            lines.retain(|l| !l.starts_with("CRYST1"));
            "no-cryst"
        }
        5 => {
            lines.insert(0, "SCALE1      1.000000  0.000000  0.000000        0.00000".to_string());
            "partial-scale"
        }
        6 => {
            lines.insert(0, "MASTER        0    0    0    0    0    0    0    0    9    0    0    0".to_string());
            "master-mismatch"
        }
        7 => {
            lines.insert(0, "REMARK 999 fine".to_string());
            "ok-remark"
        }
        _ => "unchanged",
    };
    (lines.join("\n") + "\n", label)
}

fn mutate_cif(rng: &mut Rng, text: &str) -> (String, &'static str) {
    let k = rng.below(7);
    match k {
        5 => {
            // diagnostics that only the final validation produces: no atom_site table at all
            match text.find("loop_\n_atom_site.") {
                Some(at) => (text[..at].to_string(), "no-atoms"),
                None => (text.to_string(), "unchanged"),
            }
        }
        6 => {
            // the last atom line gets another atom name: with several models they no longer correspond
            let mut lines: Vec<String> = text.lines().map(|s| s.to_string()).collect();
            let at = lines.iter().rposition(|ln| ln.starts_with("ATOM") || ln.starts_with("HETATM"));
            if let Some(at) = at {
                let mut f: Vec<String> = lines[at].split_whitespace().map(|s| s.to_string()).collect();
                if f.len() > 3 {
                    f[3] = "QX".to_string();
                }
                lines[at] = f.join(" ");
            }
            (lines.join("\n") + "\n", "models-differ")
        }
        0 => (text.replacen("_atom_site.Cartn_x", "_atom_site.Cartn_q", 1), "missing-column"),
        1 => (format!("{text}\n_cell.length_a abc\n"), "bad-cell"),
        2 => (text.replacen("ATOM", "FOO", 1), "bad-group"),
        3 => (format!("{text}\n_unrelated.item 5\n"), "foreign-item"),
        _ => (text.to_string(), "unchanged"),
    }
}

pub fn run(seed: u64, count: usize, out: &mut Out, tmp: &str) {
    // 1. the failure table through the public API, exhaustively
    for e in 0..5usize {
        for lv in 0..3usize {
            let r = snap::error_level(e).fails(snap::strictness(lv));
            out.case("C07", call("failsdoc", vec![z(e as i128), z(lv as i128)]), b(r), "prop:table", true);
            out.case("C07", call("fails", vec![z(e as i128), z(lv as i128)]), b(r), "corr:translator-T1", true);
            out.count("table-pair");
        }
    }
    // 2. reader gate + cross-level comparison
    let mut rng = Rng::new(seed);
    let mut cyc = Cycle::default();
    for i in 0..count {
        let sh = gen::Shape { max_models: if i % 4 == 0 { 3 } else { 2 }, elements_known: true, ..Default::default() };
        let mut p = gen::structure(&mut rng, &sh);
        if rng.chance(1, 2) {
            p.unit_cell = Some(UnitCell::new(10.0, 20.0, 30.0, 90.0, 90.0, 90.0));
            p.symmetry = Symmetry::from_index(1 + rng.below(10));
        }
        let is_cif = i % 3 == 2;
        let (text, label) = if is_cif {
            let t = String::from_utf8(raw_cif(&p)).unwrap_or_default();
            mutate_cif(&mut rng, &t)
        } else {
            let t = String::from_utf8(raw_pdb(&p, StrictnessLevel::Loose)).unwrap_or_default();
            mutate_pdb(&mut rng, &mut cyc, &t)
        };
        out.count(&format!("{}:{label}", if is_cif { "cif" } else { "pdb" }));
        let mut per_level = Vec::new();
        let mut snaps: Vec<String> = Vec::new();
        for lv in 0..3usize {
            let res = crate::guarded(|| {
                ReadOptions::default()
                    .set_format(if is_cif { Format::Mmcif } else { Format::Pdb })
                    .set_level(snap::strictness(lv))
                    .read_raw(std::io::BufReader::new(text.as_bytes()))
            });
            let res = match res {
                Some(r) => r,
                None => {
                    // a panic is C05/C06's subject; C07 has no outcome to judge here
                    out.count("read-panicked(skipped)");
                    per_level.push(l(vec![b(false), z(-1)]));
                    continue;
                }
            };
            let (acc, levels, snap_id) = match res {
                Ok((pdb, errs)) => {
                    let sn = snap::pdb(&pdb, &snap::atom).to_string();
                    let id = match snaps.iter().position(|s| *s == sn) {
                        Some(k) => k,
                        None => {
                            snaps.push(sn);
                            snaps.len() - 1
                        }
                    };
                    (true, errs.iter().map(|e| z(snap::level(e.level()))).collect::<Vec<_>>(), id as i128)
                }
                Err(errs) => (false, errs.iter().map(|e| z(snap::level(e.level()))).collect::<Vec<_>>(), -1),
            };
            out.count(if acc { "read-accepted" } else { "read-rejected" });
            out.case(
                "C07",
                call("gatelaw", vec![z(lv as i128), b(acc), l(levels.clone())]),
                y("ok"),
                "prop:gate",
                !levels.is_empty(),
            );
            per_level.push(l(vec![b(acc), z(snap_id)]));
        }
        out.case("C07", call("mono", per_level), y("ok"), "prop:monotone", true);
    }
    // 3. validating save entry points: refused saves leave the file system alone
    let dir = std::path::Path::new(tmp);
    std::fs::create_dir_all(dir).expect("tmp dir");
    let n_save = (count / 4).max(8);
    for i in 0..n_save {
        let sh = gen::Shape { same_shape_models: rng.chance(2, 3), max_models: 3, ..Default::default() };
        let mut p = gen::structure(&mut rng, &sh);
        match rng.below(5) {
            0 => {
                // out-of-range value: validate_pdb reports, validate does not
                if let Some(a) = p.atoms_mut().next() {
                    let _ = a.set_b_factor(123456.0);
                }
            }
            1 => {
                if let Some(a) = p.atoms_mut().next() {
                    a.set_serial_number(7_000_000);
                }
            }
            2 => {
                p = PDB::new(); // no atoms: BreakingError
            }
            _ => {}
        }
        let mut vlevels: Vec<ErrorLevel> = validate(&p).iter().map(|e| e.level()).collect();
        let vp: Vec<ErrorLevel> = validate_pdb(&p).iter().map(|e| e.level()).collect();
        for lv in 0..3usize {
            let level = snap::strictness(lv);
            for entry in 0..6usize {
                // 0 save_pdb, 1 save_mmcif, 2 save(.pdb), 3 save(.cif), 4 save_gz(.pdb.gz), 5 save_gz(.cif.gz)
                let is_pdb = entry % 2 == 0;
                let ext = ["pdb", "cif", "pdb", "cif", "pdb.gz", "cif.gz"][entry];
                let pre_existing = (i + entry + lv) % 2 == 0;
                let path = dir.join(format!("c07_{i}_{lv}_{entry}.{ext}"));
                let path_s = path.to_str().expect("utf8 path").to_string();
                let sentinel = b"previous content\n".to_vec();
                let _ = std::fs::remove_file(&path);
                if pre_existing {
                    std::fs::write(&path, &sentinel).expect("write sentinel");
                }
                let res = match entry {
                    0 => save_pdb(&p, &path_s, level),
                    1 => save_mmcif(&p, &path_s, level),
                    2 | 3 => save(&p, &path_s, level),
                    _ => save_gz(&p, &path_s, level, None),
                };
                let after = std::fs::read(&path).ok();
                let mut ds: Vec<ErrorLevel> = vlevels.clone();
                if is_pdb {
                    ds.extend(vp.iter().copied());
                }
                let expected_content = if is_pdb { raw_pdb(&p, level) } else { raw_cif(&p) };
                let state = match (&after, pre_existing) {
                    (None, false) => "absent",
                    (None, true) => "deleted",
                    (Some(c), true) if *c == sentinel => "unchanged",
                    (Some(c), _) => {
                        let plain = if entry >= 4 {
                            use std::io::Read;
                            let mut d = flate2::read::GzDecoder::new(&c[..]);
                            let mut v = Vec::new();
                            let _ = d.read_to_end(&mut v);
                            v
                        } else {
                            c.clone()
                        };
                        if plain == expected_content {
                            "written"
                        } else {
                            "other-content"
                        }
                    }
                };
                let obs = l(vec![y(if res.is_ok() { "ok" } else { "err" }), y(state)]);
                out.case(
                    "C07",
                    call("save", vec![z(lv as i128), l(ds.iter().map(|e| z(snap::level(*e))).collect()), b(pre_existing)]),
                    obs,
                    "prop:save",
                    !ds.is_empty(),
                );
                out.count(if res.is_ok() { "save-ok" } else { "save-refused" });
                let _ = std::fs::remove_file(&path);
            }
        }
        vlevels.clear();
    }
}
