//! C16: clone / serde / second read are observationally equal; identities unique under concurrency.
use crate::gen;
use crate::out::Out;
use crate::rng::Rng;
use crate::snap;
use crate::sx::*;
use pdbtbx::*;

/// identities of all atoms in traversal order and the raw bond table, through the only public view (serde)
fn internals(p: &PDB) -> (Vec<u64>, Vec<(u64, u64, String)>) {
    let v = serde_json::to_value(p).expect("serialise");
    let mut ids = Vec::new();
    fn walk(v: &serde_json::Value, ids: &mut Vec<u64>) {
        match v {
            serde_json::Value::Object(o) => {
                if let (Some(c), Some(_)) = (o.get("counter"), o.get("serial_number")) {
                    if o.contains_key("b_factor") {
                        ids.push(c.as_u64().unwrap_or(u64::MAX));
                        return;
                    }
                }
                for (k, x) in o {
                    if k != "bonds" {
                        walk(x, ids);
                    }
                }
            }
            serde_json::Value::Array(a) => a.iter().for_each(|x| walk(x, ids)),
            _ => {}
        }
    }
    walk(&v["models"], &mut ids);
    let bonds = v["bonds"]
        .as_array()
        .map(|a| {
            a.iter()
                .map(|b| (b[0].as_u64().unwrap_or(u64::MAX), b[1].as_u64().unwrap_or(u64::MAX), b[2].to_string()))
                .collect()
        })
        .unwrap_or_default();
    (ids, bonds)
}
fn bond_kind(s: &str) -> i128 {
    match s.trim_matches('"') {
        "Covalent" => 0,
        "Disulfide" => 1,
        "Hydrogen" => 2,
        _ => 9,
    }
}
fn bonds_obs(p: &PDB) -> Option<Vec<String>> {
    crate::guarded(|| p.bonds().map(|(a, b2, k)| format!("{}:{}-{}:{} {:?}", a.serial_number(), a.name(), b2.serial_number(), b2.name(), k)).collect())
}
fn full(p: &PDB) -> String {
    format!(
        "{} {:?} {:?} {:?} scale {:?} origx {:?} mtrix {:?} remarks {:?}",
        snap::pdb(p, &snap::atom),
        p.identifier,
        p.unit_cell,
        p.symmetry.as_ref().map(Symmetry::index),
        p.scale.as_ref().map(TransformationMatrix::matrix),
        p.origx.as_ref().map(TransformationMatrix::matrix),
        p.mtrix().map(|m| (m.serial_number, m.transformation.matrix(), m.contained)).collect::<Vec<_>>(),
        p.remarks().collect::<Vec<_>>()
    )
}
fn tri(o: Option<bool>) -> Sx {
    match o {
        Some(v) => b(v),
        None => y("panic"),
    }
}

fn ssbond_text(rng: &mut Rng) -> String {
    let mut t = String::new();
    t.push_str("HEADER    TEST STRUCTURE                          01-JAN-00   1ABC              \n");
    let n = 2 + rng.below(3);
    for k in 0..n / 2 {
        t.push_str(&format!("SSBOND {:3} CYS A {:4}    CYS A {:4}                          1555   1555  2.04  \n", k + 1, 2 * k + 1, 2 * k + 2));
    }
    t.push_str("CRYST1   50.000   50.000   50.000  90.00  90.00  90.00 P 1           1          \n");
    let mut serial = 1;
    for r in 0..n {
        for (name, el) in [("N", "N"), ("CA", "C"), ("SG", "S")] {
            t.push_str(&format!(
                "ATOM  {:5}  {:<3} CYS A{:4}    {:8.3}{:8.3}{:8.3}  1.00 10.00          {:>2}  \n",
                serial,
                name,
                r + 1,
                r as f64 * 3.0 + rng.below(8) as f64 / 8.0,
                serial as f64,
                1.5,
                el
            ));
            serial += 1;
        }
    }
    t.push_str("END\n");
    t
}

fn read(t: &str) -> Option<(PDB, Vec<String>)> {
    crate::guarded(|| {
        ReadOptions::default().set_format(Format::Pdb).set_level(StrictnessLevel::Loose).read_raw(std::io::BufReader::new(t.as_bytes()))
    })
    .and_then(Result::ok)
    .map(|(p, e)| {
        let mut ds: Vec<String> = e.iter().map(|x| format!("{:?} {}", x.level(), x.short_description())).collect();
        ds.sort();
        (p, ds)
    })
}

fn copy_case(out: &mut Out, kind: &str, orig: &PDB, copy: Option<PDB>) {
    let obs = match copy {
        None => l(vec![y("panic"), y("panic"), y("panic")]),
        Some(q) => {
            let eq = crate::guarded(|| *orig == q && q == *orig);
            let same = full(orig) == full(&q);
            let bo = bonds_obs(orig);
            let bq = bonds_obs(&q);
            let bonds_same = match (bo, bq) {
                (Some(a), Some(c)) => Some(a == c),
                _ => None,
            };
            l(vec![tri(eq), b(same), tri(bonds_same)])
        }
    };
    let has_bonds = internals(orig).1.len();
    out.case("C16", call("copyspec", vec![y(kind), z(has_bonds as i128), z(orig.total_atom_count() as i128), z(out.len() as i128)]), obs, &format!("prop:{kind}"), has_bonds > 0);
    out.count(&format!("{kind}:{}", if has_bonds > 0 { "with-bonds" } else { "no-bonds" }));
}

pub fn run(seed: u64, count: usize, thorough: bool, out: &mut Out) {
    let mut rng = Rng::new(seed);
    // ---- an atom whose element cannot be read from its fields any more: created without element, renamed to an element symbol
    for (first, second) in [("X1", "CA"), ("Q", "ZN"), ("X1", "H"), ("CA", "X1")] {
        if let Some(mut a) = Atom::new(false, 1, "1", first, 1.0, 2.0, 3.0, 1.0, 10.0, "", 0) {
            let _ = a.set_name(second);
            let mut m = Model::new(1);
            m.add_atom(a, "A", (1, None), ("LIG", None));
            let mut p = PDB::new();
            p.add_model(m);
            let q = crate::guarded(|| p.clone());
            copy_case(out, "clone-renamed-atom", &p, q);
            let e = p.atom(0).map(|a| a.element().map(|e| e.atomic_number()));
            out.count(&format!("renamed:{first}->{second}:element:{e:?}"));
        }
    }
    for i in 0..count {
        // ---- a structure with bonds, three ways
        let (p, text): (PDB, Option<String>) = match i % 3 {
            0 => {
                let t = ssbond_text(&mut rng);
                match read(&t) {
                    Some((p, _)) => (p, Some(t)),
                    None => continue,
                }
            }
            1 => {
                let cfg = gen::Ragged { allow_empty: false, max_models: 2, max_children: 3, max_atoms: 3, serial_range: 30 };
                let mut p = gen::ragged(&mut rng, &cfg);
                p.full_sort();
                p.renumber();
                let n = p.model(0).map_or(0, |m| m.atom_count());
                // every accepted bond has to connect the two atoms a linear scan of the first model finds for the two keys
                let find = |p: &PDB, serial: usize, alt: Option<&str>| -> Option<i128> {
                    p.model(0).and_then(|m| m.atoms_with_hierarchy().position(|h| h.atom().serial_number() == serial && h.conformer().alternative_location() == alt)).map(|k| k as i128)
                };
                let mut requested: Vec<Sx> = Vec::new();
                for _ in 0..rng.below(5) {
                    let a = 1 + rng.below(n.max(1));
                    let c = 1 + rng.below(n.max(1));
                    // the alternative locations the structure really has at those serial numbers, mostly
                    let alts_of = |p: &PDB, serial: usize| -> Vec<Option<String>> {
                        p.model(0).map(|m| m.atoms_with_hierarchy().filter(|h| h.atom().serial_number() == serial).map(|h| h.conformer().alternative_location().map(|x| x.to_string())).collect()).unwrap_or_default()
                    };
                    let pick_alt = |rng: &mut Rng, p: &PDB, serial: usize| -> Option<String> {
                        let v = alts_of(p, serial);
                        if !v.is_empty() && rng.chance(4, 5) { rng.pick(&v).clone() } else { (*rng.pick(&[None, Some("A"), Some("B")])).map(|x: &str| x.to_string()) }
                    };
                    let (x, y2) = (pick_alt(&mut rng, &p, a), pick_alt(&mut rng, &p, c));
                    let expect = (find(&p, a, x.as_deref()), find(&p, c, y2.as_deref()));
                    let r = crate::guarded(|| p.add_bond((a, x.as_deref()), (c, y2.as_deref()), Bond::Covalent));
                    let accepted = matches!(r, Some(Some(())));
                    let wanted = matches!(expect, (Some(_), Some(_)));
                    out.case("C16", call("expect-bond", vec![b(wanted)]), b(accepted), "prop:add-bond-accepts-present-atoms", true);
                    if let (true, (Some(i), Some(j))) = (accepted, expect) {
                        requested.push(l(vec![z(i), z(j)]));
                    }
                }
                let listed: Vec<Sx> = {
                    let atoms: Vec<&Atom> = p.atoms().collect();
                    crate::guarded(|| {
                        p.bonds()
                            .map(|(a, c, _)| {
                                let pa = atoms.iter().position(|x| std::ptr::eq(*x, a)).map_or(-1, |v| v as i128);
                                let pc = atoms.iter().position(|x| std::ptr::eq(*x, c)).map_or(-1, |v| v as i128);
                                l(vec![z(pa), z(pc)])
                            })
                            .collect()
                    })
                    .unwrap_or_default()
                };
                out.case("C16", call("expect-bonds", vec![l(requested)]), l(listed), "prop:bonds-as-requested", true);
                (p, None)
            }
            _ => {
                let sh = gen::Shape { max_models: 2, max_chains: 2, max_residues: 3, max_altlocs: 1, max_atoms: 4, elements_known: true, ..Default::default() };
                let mut p = gen::structure(&mut rng, &sh);
                // squeeze the atoms together so that connect_atoms finds pairs at bonding distance
                let mut k = 0.0;
                for a in p.atoms_mut() {
                    let _ = a.set_pos((k, 0.0, 0.0));
                    k += *rng.pick(&[1.33, 1.46, 1.53, 1.1, 2.5]);
                }
                let _ = crate::guarded(|| p.connect_atoms());
                (p, None)
            }
        };
        // every piece of metadata present or absent on its own, with values of its own
        let mut p = p;
        if rng.chance(1, 2) {
            p.scale = Some(TransformationMatrix::scale(0.5, 0.25, 0.125));
        }
        if rng.chance(1, 2) {
            p.origx = Some(TransformationMatrix::translation(1.0, 2.0, 3.0));
        }
        if rng.chance(1, 3) {
            p.add_mtrix(MtriX::new(1 + rng.below(3), TransformationMatrix::rotation_x(90.0), rng.chance(1, 2)));
        }
        if rng.chance(1, 3) {
            let _ = p.add_remark(2, "RESOLUTION. 1.25 ANGSTROMS.".to_string());
        }
        if rng.chance(1, 3) {
            p.unit_cell = Some(UnitCell::new(10.0, 20.0, 30.0, 90.0, 100.0, 110.0));
            p.symmetry = Symmetry::from_index(1 + rng.below(230));
        }
        if rng.chance(1, 3) {
            p.identifier = Some("1ABC".to_string());
        }
        if rng.chance(1, 3) {
            // an atom without element that is renamed to an element symbol afterwards: a copy has to keep it without element
            if let Some(a) = p.atoms_mut().find(|a| a.element().is_none()) {
                let _ = a.set_name("CA");
            }
        }
        let p = p;
        // ---- listing the bonds: every stored bond whose two atoms are in the structure is listed, with exactly those two atoms
        {
            let (ids, bonds) = internals(&p);
            let base = ids.iter().chain(bonds.iter().flat_map(|(a, c, _)| [a, c])).copied().min().unwrap_or(0);
            let atoms: Vec<&Atom> = p.atoms().collect();
            let listed = crate::guarded(|| {
                p.bonds()
                    .map(|(a, c, k)| {
                        let pa = atoms.iter().position(|x| std::ptr::eq(*x, a)).map_or(-1, |v| v as i128);
                        let pc = atoms.iter().position(|x| std::ptr::eq(*x, c)).map_or(-1, |v| v as i128);
                        l(vec![z(pa), z(pc), z(bond_kind(&format!("{k:?}")))])
                    })
                    .collect::<Vec<_>>()
            });
            let obs = match listed {
                Some(v) => l(vec![z(atoms.len() as i128), l(v)]),
                None => y("panic"),
            };
            out.case(
                "C16",
                call(
                    "obs",
                    vec![
                        l(ids.iter().map(|u| z((*u - base) as i128)).collect()),
                        l(bonds.iter().map(|(a, c, k)| l(vec![z((*a - base) as i128), z((*c - base) as i128), z(bond_kind(k))])).collect()),
                    ],
                ),
                obs,
                "prop:bonds-listed",
                !bonds.is_empty(),
            );
        }
        // ---- clone
        let (ids, bonds) = internals(&p);
        let q = crate::guarded(|| p.clone());
        if let Some(q) = &q {
            // correspondence of the clone itself: new identities and the translated bond table
            let (qids, qbonds) = internals(q);
            if let Some(&next) = qids.first() {
                // identities relative to the smallest one involved, so that the model handles small numbers
                let base = ids.iter().chain(bonds.iter().flat_map(|(a, c, _)| [a, c])).copied().min().unwrap_or(0).min(next);
                let ids: Vec<u64> = ids.iter().map(|u| u - base).collect();
                let bonds: Vec<(u64, u64, String)> = bonds.iter().map(|(a, c, k)| (a - base, c - base, k.clone())).collect();
                let qids: Vec<u64> = qids.iter().map(|u| u - base).collect();
                let qbonds: Vec<(u64, u64, String)> = qbonds.iter().map(|(a, c, k)| (a.wrapping_sub(base), c.wrapping_sub(base), k.clone())).collect();
                let next = next - base;
                let input = call(
                    "clone",
                    vec![
                        l(ids.iter().map(|u| z(*u as i128)).collect()),
                        l(bonds.iter().map(|(a, c, k)| l(vec![z(*a as i128), z(*c as i128), z(bond_kind(k))])).collect()),
                        z(next as i128),
                    ],
                );
                let obs = l(vec![
                    l(qids.iter().map(|u| z(*u as i128)).collect()),
                    l(qbonds.iter().map(|(a, c, k)| l(vec![z(*a as i128), z(*c as i128), z(bond_kind(k))])).collect()),
                ]);
                out.case("C16", input, obs, "corr:clone", !bonds.is_empty());
            }
        }
        copy_case(out, "clone", &p, q);
        // a structure that lost bonded atoms (its bond table still names them) and its clone
        if let Some(mut edited) = crate::guarded(|| p.clone()) {
            edited.remove_atoms_by(|a| a.serial_number() % 3 == 1);
            let q = crate::guarded(|| edited.clone());
            copy_case(out, "clone-after-removal", &edited, q);
        }
        // edits after the copy do not disturb either side
        if let Some(mut q2) = crate::guarded(|| p.clone()) {
            q2.remove_atoms_by(|a| a.serial_number() % 5 == 4 && a.name() != "SG");
            let ok = crate::guarded(|| q2.bonds().count()).is_some() && crate::guarded(|| p.bonds().count()).is_some();
            out.case("C16", call("copyspec", vec![y("clone-then-edit"), z(i as i128)]), l(vec![b(ok), y("t"), y("t")]), "prop:clone-then-edit", !bonds.is_empty());
        }
        // ---- serde value round trip
        let s = crate::guarded(|| serde_json::to_value(&p).ok().and_then(|v| serde_json::from_value::<PDB>(v).ok())).flatten();
        if let Some(sq) = &s {
            // the copy and the original are both live: all identities pairwise distinct
            let (sids, _) = internals(sq);
            let mut all = ids.clone();
            all.extend(sids);
            let mut sorted = all.clone();
            sorted.sort_unstable();
            sorted.dedup();
            out.case("C16", call("distinct", vec![y("serde"), l(vec![z(all.len() as i128)])]), b(sorted.len() == all.len()), "prop:identity-distinct-after-serde", true);
        }
        // atoms created after an older structure was read back through serde are new to every live structure: the original,
        // and one made after it
        if let Some(newer) = crate::guarded(|| p.clone()) {
            let back = crate::guarded(|| serde_json::to_value(&p).ok().and_then(|v| serde_json::from_value::<PDB>(v).ok())).flatten();
            if back.is_some() {
                let mut fresh = PDB::new();
                let mut m = Model::new(1);
                for k in 0..3 {
                    if let Some(a) = Atom::new(false, k, "", "CA", 0.0, 0.0, 0.0, 1.0, 0.0, "C", 0) {
                        m.add_atom(a, "A", (1, None), ("GLY", None));
                    }
                }
                fresh.add_model(m);
                let (fids, _) = internals(&fresh);
                let (nids, _) = internals(&newer);
                let clash = fids.iter().any(|f| ids.contains(f) || nids.contains(f));
                out.case("C16", call("distinct", vec![y("fresh-after-serde"), l(vec![z(fids.len() as i128)])]), b(!clash), "prop:identity-fresh-after-serde", true);
            }
        }
        copy_case(out, "serde", &p, s);
        // ---- second read of the same text
        if let Some(t) = &text {
            let a = read(t);
            let c = read(t);
            if let (Some((pa, da)), Some((pc, dc))) = (a, c) {
                copy_case(out, "reread", &pa, Some(pc));
                out.case("C16", call("copyspec", vec![y("reread-diagnostics"), z(i as i128)]), l(vec![b(da == dc), y("t"), y("t")]), "prop:reread-diagnostics", true);
            }
        }
    }
    // ---- the same edit on a structure and on its clone keeps them equal: bonds inferred from the distances, on structures whose
    //      atoms were not created in the order in which they stand (a read with blank and labelled alternate locations copies
    //      the blank atoms last)
    for k in 0..12usize {
        let d = [1.23, 1.22, 1.33, 1.46, 1.53, 1.1][k % 6];
        let e = [1.22, 1.43, 1.0, 1.54, 1.23, 1.48][(k / 2) % 6];
        let mut t = String::new();
        t.push_str(&format!("ATOM      1  C   ALA A   1    {:>8.3}{:>8.3}{:>8.3}  1.00 10.00           C  \n", 0.0, 0.0, 0.0));
        t.push_str(&format!("ATOM      2  O  AALA A   1    {:>8.3}{:>8.3}{:>8.3}  0.50 10.00           O  \n", d, 0.0, 0.0));
        t.push_str(&format!("ATOM      3  O  BALA A   1    {:>8.3}{:>8.3}{:>8.3}  0.50 10.00           O  \n", 0.0, e, 0.0));
        if k % 2 == 1 {
            t.push_str(&format!("ATOM      4  N   GLY A   2    {:>8.3}{:>8.3}{:>8.3}  1.00 10.00           N  \n", -1.33, 0.0, 0.0));
        }
        t.push_str("END\n");
        if let Some((mut p, _)) = read(&t) {
            if let Some(mut q) = crate::guarded(|| p.clone()) {
                let same_before = p == q;
                let _ = crate::guarded(|| p.connect_atoms());
                let _ = crate::guarded(|| q.connect_atoms());
                let n_bonds = p.bonds().count();
                let same_after = p == q && full(&p) == full(&q);
                out.case("C16", call("copyspec", vec![y("clone-same-edit"), z(k as i128)]), l(vec![b(same_before && same_after), y("t"), y("t")]), "prop:clone-same-edit", n_bonds > 0);
                out.count(&format!("clone-same-edit:bonds:{}", n_bonds.min(3)));
            }
        }
    }
    // ---- identities under concurrent creation and cloning
    let thread_counts: Vec<usize> = if thorough { (1..=16).collect() } else { vec![1, 2, 4, 8, 16] };
    for &threads in &thread_counts {
        let per = 200;
        let handles: Vec<_> = (0..threads)
            .map(|t| {
                std::thread::spawn(move || {
                    let mut ids = Vec::new();
                    let mut keep = Vec::new();
                    for k in 0..per {
                        let a = Atom::new(false, k, "", "CA", t as f64, 0.0, 0.0, 1.0, 0.0, "C", 0).expect("atom");
                        let c = a.clone();
                        for x in [&a, &c] {
                            let v = serde_json::to_value(x).expect("json");
                            ids.push(v["counter"].as_u64().unwrap_or(u64::MAX));
                        }
                        keep.push(a);
                        keep.push(c);
                    }
                    ids
                })
            })
            .collect();
        let mut all: Vec<u64> = Vec::new();
        for h in handles {
            all.extend(h.join().expect("thread"));
        }
        out.case("C16", call("nodup", vec![l(all.iter().map(|u| z(*u as i128)).collect())]), y("t"), "prop:identity-unique-threads", true);
        out.count(&format!("threads:{threads}"));
    }
}
