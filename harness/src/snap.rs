//! Canonical snapshot of a structure as an s-expression (the same shape coq/Model prints).
use crate::sx::*;
use pdbtbx::*;

pub fn atom(a: &Atom) -> Sx {
    l(vec![
        b(a.hetero()),
        z(a.serial_number() as i128),
        s(a.id()),
        s(a.name()),
        f(a.x()),
        f(a.y()),
        f(a.z()),
        f(a.occupancy()),
        f(a.b_factor()),
        opt(a.element(), |e| z(e.atomic_number() as i128)),
        z(a.charge() as i128),
        opt(a.anisotropic_temperature_factors(), |t| l(t.iter().flat_map(|r| r.iter().map(|v| f(*v))).collect())),
    ])
}

/// atom without the float payload: (serial name) – used by the structural properties
pub fn atom_short(a: &Atom) -> Sx {
    l(vec![z(a.serial_number() as i128), s(a.name())])
}

pub fn conformer(c: &Conformer, af: &dyn Fn(&Atom) -> Sx) -> Sx {
    l(vec![
        s(c.name()),
        opt(c.alternative_location(), s),
        opt(c.modification(), |m| l(vec![s(&m.0), s(&m.1)])),
        l(c.atoms().map(af).collect()),
    ])
}
pub fn residue(r: &Residue, af: &dyn Fn(&Atom) -> Sx) -> Sx {
    l(vec![z(r.serial_number() as i128), opt(r.insertion_code(), s), l(r.conformers().map(|c| conformer(c, af)).collect())])
}
pub fn chain(c: &Chain, af: &dyn Fn(&Atom) -> Sx) -> Sx {
    l(vec![s(c.id()), l(c.residues().map(|r| residue(r, af)).collect())])
}
pub fn model(m: &Model, af: &dyn Fn(&Atom) -> Sx) -> Sx {
    l(vec![z(m.serial_number() as i128), l(m.chains().map(|c| chain(c, af)).collect())])
}
pub fn pdb(p: &PDB, af: &dyn Fn(&Atom) -> Sx) -> Sx {
    l(p.models().map(|m| model(m, af)).collect())
}

pub fn level(e: ErrorLevel) -> i128 {
    match e {
        ErrorLevel::BreakingError => 0,
        ErrorLevel::InvalidatingError => 1,
        ErrorLevel::StrictWarning => 2,
        ErrorLevel::LooseWarning => 3,
        ErrorLevel::GeneralWarning => 4,
    }
}
pub fn strictness(i: usize) -> StrictnessLevel {
    match i {
        0 => StrictnessLevel::Strict,
        1 => StrictnessLevel::Medium,
        _ => StrictnessLevel::Loose,
    }
}
pub fn error_level(i: usize) -> ErrorLevel {
    match i {
        0 => ErrorLevel::BreakingError,
        1 => ErrorLevel::InvalidatingError,
        2 => ErrorLevel::StrictWarning,
        3 => ErrorLevel::LooseWarning,
        _ => ErrorLevel::GeneralWarning,
    }
}
