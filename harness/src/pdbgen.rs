//! Grammar-directed generator of well-formed PDB-format text: abstract records, their rendering with arbitrary legal
//! justification, and the s-expression form of the records for the Coq specification.
use crate::rng::Rng;
use crate::sx::*;

#[derive(Clone, Debug)]
pub struct AtomRec {
    pub hetero: bool,
    pub serial: usize,
    pub name: String,
    pub alt: Option<char>,
    pub resname: String,
    pub chain: char,
    pub resnum: isize,
    pub ins: Option<char>,
    pub x: String,
    pub y: String,
    pub z: String,
    pub occ: String,
    pub b: String,
    pub element: String,
    pub charge: isize,
    pub atf: Option<[isize; 6]>,
}
#[derive(Clone, Debug)]
pub enum Rec {
    Model(usize),
    Endmdl,
    Ter,
    Atom(AtomRec),
    Header(String),
    Remark(usize, String),
    Cryst([String; 6], String),
    Scale(Vec<String>),
    Origx(Vec<String>),
    Mtrix(usize, Vec<String>, bool),
    /// chain, (start, insert, end, insert), database, accession, id code, (start, insert, end, insert) in the database
    Dbref(char, (isize, Option<char>, isize, Option<char>), String, String, String, (isize, Option<char>, isize, Option<char>)),
    /// residue name, chain, number, insertion code, database residue, comment
    Seqadv(String, char, isize, Option<char>, Option<(String, isize)>, String),
    /// residue name, chain, number, insertion code, standard name, comment
    Modres(String, char, isize, Option<char>, String, String),
}

/// place `v` anywhere inside a field of the given width
fn just(rng: &mut Rng, v: &str, width: usize) -> String {
    let free = width.saturating_sub(v.len());
    let left = match rng.below(4) {
        0 => 0,
        1 => rng.below(free + 1),
        _ => free, // right-justified, the usual form
    };
    format!("{}{}{}", " ".repeat(left), v, " ".repeat(free - left))
}
fn decimal(rng: &mut Rng, max_int: i64, decimals: usize, width: usize, allow_neg: bool) -> String {
    loop {
        let neg = allow_neg && rng.chance(1, 3);
        let ip = rng.range(0, max_int);
        let nd = if rng.chance(1, 6) { rng.below(decimals + 1) } else { decimals };
        let mut s = format!("{}{}", if neg { "-" } else { "" }, ip);
        if nd > 0 || rng.chance(1, 2) {
            s.push('.');
            for _ in 0..nd {
                s.push(char::from(b'0' + rng.below(10) as u8));
            }
        }
        if s.len() <= width && s != "-" {
            return s;
        }
    }
}

pub fn render_atom(rng: &mut Rng, a: &AtomRec) -> Vec<String> {
    let mut out = Vec::new();
    let basics = |rng: &mut Rng, tag: &str| {
        format!(
            "{tag}{} {}{}{} {}{}{}",
            just(rng, &a.serial.to_string(), 5),
            just(rng, &a.name, 4),
            a.alt.unwrap_or(' '),
            just(rng, &a.resname, 3),
            a.chain,
            just(rng, &a.resnum.to_string(), 4),
            a.ins.unwrap_or(' ')
        )
    };
    let charge = if a.charge == 0 { "  ".to_string() } else { format!("{}{}", a.charge.abs(), if a.charge < 0 { '-' } else { '+' }) };
    let tail = |rng: &mut Rng| format!("      {}{}{}", just(rng, "", 4), just(rng, &a.element, 2), charge);
    let mut line = basics(rng, if a.hetero { "HETATM" } else { "ATOM  " });
    line.push_str("   ");
    line.push_str(&just(rng, &a.x, 8));
    line.push_str(&just(rng, &a.y, 8));
    line.push_str(&just(rng, &a.z, 8));
    line.push_str(&just(rng, &a.occ, 6));
    line.push_str(&just(rng, &a.b, 6));
    line.push_str(&tail(rng));
    out.push(line);
    if let Some(u) = a.atf {
        let mut l = basics(rng, "ANISOU");
        l.push(' ');
        for v in u {
            l.push_str(&just(rng, &v.to_string(), 7));
        }
        l.push_str(&tail(rng));
        out.push(l);
    }
    out
}

pub fn render(rng: &mut Rng, r: &Rec) -> Vec<String> {
    let pad = |mut s: String, rng: &mut Rng| {
        if rng.chance(2, 3) {
            while s.len() < 80 {
                s.push(' ');
            }
        }
        s
    };
    match r {
        Rec::Model(n) => vec![pad(format!("MODEL {}", just(rng, &n.to_string(), 8)), rng)],
        Rec::Endmdl => vec![pad("ENDMDL".into(), rng)],
        Rec::Ter => vec![if rng.chance(1, 2) { "TER".into() } else { pad("TER   ".into(), rng) }],
        Rec::Atom(a) => render_atom(rng, a),
        Rec::Header(id) => vec![format!("HEADER    {:40}{:9}   {:4}{}", "HYDROLASE", "01-JAN-00", id, " ".repeat(rng.below(15)))],
        Rec::Remark(n, t) => vec![format!("REMARK {} {}", just(rng, &n.to_string(), 3), t)],
        Rec::Cryst(c, sg) => vec![pad(
            format!(
                "CRYST1{}{}{}{}{}{} {:11}{:>4}",
                just(rng, &c[0], 9),
                just(rng, &c[1], 9),
                just(rng, &c[2], 9),
                just(rng, &c[3], 7),
                just(rng, &c[4], 7),
                just(rng, &c[5], 7),
                sg,
                rng.below(20)
            ),
            rng,
        )],
        Rec::Scale(m) | Rec::Origx(m) => (0..3)
            .map(|i| {
                let tag = if matches!(r, Rec::Scale(_)) { "SCALE" } else { "ORIGX" };
                pad(
                    format!(
                        "{tag}{}    {}{}{}     {}",
                        i + 1,
                        just(rng, &m[4 * i], 10),
                        just(rng, &m[4 * i + 1], 10),
                        just(rng, &m[4 * i + 2], 10),
                        just(rng, &m[4 * i + 3], 10)
                    ),
                    rng,
                )
            })
            .collect(),
        // the annotation records have no free justification inside their short fields; the line may or may not be padded
        Rec::Dbref(chain, p, db, acc, id, q) => vec![pad(
            format!(
                "DBREF  {:4} {} {:>4}{} {:>4}{} {:<6} {:<8} {:<12} {:>5}{} {:>5}{}",
                "1ABC", chain, p.0, p.1.unwrap_or(' '), p.2, p.3.unwrap_or(' '), db, acc, id, q.0, q.1.unwrap_or(' '), q.2, q.3.unwrap_or(' ')
            ),
            rng,
        )],
        Rec::Seqadv(resname, chain, num, ins, dbres, comment) => vec![pad(
            format!(
                "SEQADV {:4} {:>3} {} {:>4}{} {:<4} {:<9} {:>3} {:>5} {}",
                "1ABC",
                resname,
                chain,
                num,
                ins.unwrap_or(' '),
                "UNP",
                "P12345",
                dbres.as_ref().map_or("", |d| d.0.as_str()),
                dbres.as_ref().map_or(String::new(), |d| d.1.to_string()),
                comment
            ),
            rng,
        )],
        Rec::Modres(resname, chain, num, ins, std, comment) => vec![pad(
            format!("MODRES {:4} {:>3} {} {:>4}{} {:>3}  {}", "1ABC", resname, chain, num, ins.unwrap_or(' '), std, comment),
            rng,
        )],
        Rec::Mtrix(ser, m, given) => (0..3)
            .map(|i| {
                format!(
                    "MTRIX{} {}{}{}{}     {}    {}",
                    i + 1,
                    just(rng, &ser.to_string(), 3),
                    just(rng, &m[4 * i], 10),
                    just(rng, &m[4 * i + 1], 10),
                    just(rng, &m[4 * i + 2], 10),
                    just(rng, &m[4 * i + 3], 10),
                    if *given { "1" } else { " " }
                )
            })
            .collect(),
    }
}

fn oc(c: Option<char>) -> Sx {
    opt(c, |x| s(&x.to_string()))
}
pub fn rec_sx(r: &Rec) -> Sx {
    match r {
        Rec::Model(n) => call("model", vec![z(*n as i128)]),
        Rec::Endmdl => call("endmdl", vec![]),
        Rec::Ter => call("ter", vec![]),
        Rec::Header(id) => call("header", vec![s(id)]),
        Rec::Remark(n, t) => call("remark", vec![z(*n as i128), s(t)]),
        Rec::Cryst(c, sg) => call("cryst", vec![l(c.iter().map(|x| s(x)).collect()), s(sg)]),
        Rec::Scale(m) => call("scale", vec![l(m.iter().map(|x| s(x)).collect())]),
        Rec::Origx(m) => call("origx", vec![l(m.iter().map(|x| s(x)).collect())]),
        Rec::Mtrix(ser, m, g) => call("mtrix", vec![z(*ser as i128), l(m.iter().map(|x| s(x)).collect()), b(*g)]),
        Rec::Dbref(chain, p, db, acc, id, q) => call(
            "dbref",
            vec![s(&chain.to_string()), z(p.0 as i128), oc(p.1), z(p.2 as i128), oc(p.3), s(db), s(acc), s(id), z(q.0 as i128), oc(q.1), z(q.2 as i128), oc(q.3)],
        ),
        Rec::Seqadv(resname, chain, num, ins, dbres, comment) => call(
            "seqadv",
            vec![s(resname), s(&chain.to_string()), z(*num as i128), oc(*ins), opt(dbres.as_ref(), |d| l(vec![s(&d.0), z(d.1 as i128)])), s(comment)],
        ),
        Rec::Modres(resname, chain, num, ins, std, comment) => call("modres", vec![s(resname), s(&chain.to_string()), z(*num as i128), oc(*ins), s(std), s(comment)]),
        Rec::Atom(a) => call(
            "atom",
            vec![
                b(a.hetero),
                z(a.serial as i128),
                s(&a.name),
                oc(a.alt),
                s(&a.resname),
                s(&a.chain.to_string()),
                z(a.resnum as i128),
                oc(a.ins),
                s(&a.x),
                s(&a.y),
                s(&a.z),
                s(&a.occ),
                s(&a.b),
                s(&a.element),
                z(a.charge as i128),
                opt(a.atf, |u| l(u.iter().map(|v| z(*v as i128)).collect())),
            ],
        ),
    }
}

pub struct Cfg {
    pub metadata: bool,
    pub wraps: bool,
    pub blank_chains: bool,
    /// DBREF / SEQADV / MODRES records about the chains and residues of the first model
    pub annotations: bool,
}

/// a well-formed record list
pub fn records(rng: &mut Rng, cfg: &Cfg) -> Vec<Rec> {
    let mut out = Vec::new();
    let mut annot_at = 0;
    if cfg.metadata {
        if rng.chance(2, 3) {
            out.push(Rec::Header(format!("{}{}", rng.below(9) + 1, *rng.pick(&["ABC", "UBQ", "XYZ", "A1B"]))));
        }
        for _ in 0..rng.below(3) {
            let n = *rng.pick(&[1usize, 2, 3, 4, 100, 200, 350, 465, 900, 999]);
            let words = ["RESOLUTION.", "1.80", "ANGSTROMS.", "THE", "STRUCTURE", "WAS", "REFINED"];
            let t: Vec<&str> = (0..rng.below(6)).map(|_| *rng.pick(&words)).collect();
            // remark text is free text: it may be indented (tables, continuation lines), and the indentation is part of it
            let indent = if rng.chance(1, 3) { " ".repeat(1 + rng.below(4)) } else { String::new() };
            out.push(Rec::Remark(n, format!("{indent}{}", t.join(" "))));
        }
        annot_at = out.len();
        if rng.chance(2, 3) {
            let cell = [
                decimal(rng, 400, 3, 9, false),
                decimal(rng, 400, 3, 9, false),
                decimal(rng, 400, 3, 9, false),
                decimal(rng, 179, 2, 7, false),
                decimal(rng, 179, 2, 7, false),
                decimal(rng, 179, 2, 7, false),
            ];
            let sg = *rng.pick(&["P 1", "P 21 21 21", "C 1 2 1", "P 43 21 2", "I 4", "F 2 3", "P 1 21 1", "P -1"]);
            out.push(Rec::Cryst(cell, sg.to_string()));
        }
        let matrix = |rng: &mut Rng| (0..12).map(|k| decimal(rng, 2, if k % 4 == 3 { 5 } else { 6 }, 10, true)).collect::<Vec<_>>();
        if rng.chance(1, 2) {
            out.push(Rec::Origx(matrix(rng)));
        }
        if rng.chance(1, 2) {
            out.push(Rec::Scale(matrix(rng)));
        }
        for k in 0..rng.below(3) {
            out.push(Rec::Mtrix(k + 1, matrix(rng), rng.chance(1, 2)));
        }
    }
    // serial numbers that wrap around keep their offset across MODEL records, so a wrapping file has one model
    let n_models = if rng.chance(1, 3) { 0 } else if cfg.wraps { 1 } else { 1 + rng.below(3) };
    let names = ["N", "CA", "C", "O", "CB", "SG", "ca", "OXT", "ZN", "H", "HA", "X1", "1HB", "HG1", "CD1", "NE2", "HE2", "ND1", "XE1", "FE2", "H3", "D1", "2H"];
    let resnames = ["ALA", "GLY", "CYS", "HOH", "ala", "MSE", "ZN", "A"];
    let first_serial = if cfg.wraps && rng.chance(1, 3) { 99_990 + rng.below(8) } else { 1 + rng.below(50) };
    let mut serial;
    let shape_seed = rng.next();
    // model serial numbers of one to four digits
    let first_model = *rng.pick(&[1usize, 1, 1, 2, 9, 10, 99, 998, 4242, 9997]);
    for mi in 0..n_models.max(1) {
        if n_models > 0 {
            out.push(Rec::Model(first_model + mi));
        }
        // the serial numbers start again in every model (the models of a file describe the same atoms)
        serial = first_serial;
        // models repeat the same shape (so that validation has nothing to report); values differ
        let mut r = Rng(shape_seed);
        let n_chains = 1 + r.below(3);
        let mut chain_seq: Vec<char> = (0..n_chains).map(|k| ['A', 'B', 'a', 'C', '1'][k % 5]).collect();
        if r.chance(1, 3) && n_chains > 1 {
            chain_seq.push(chain_seq[0]); // a chain id that comes back after another chain
        }
        let use_blank = cfg.blank_chains && r.chance(2, 5);
        let near_wrap = cfg.wraps && r.chance(1, 2);
        let mut resnum: isize = if near_wrap { 9_996 + r.below(4) as isize } else { r.range(-3, 40) as isize };
        for (ci, chain) in chain_seq.iter().enumerate() {
            // near the end of the column a chain is long enough to wrap, and records go on after its TER
            let n_res = if near_wrap { 2 + r.below(3) } else { 1 + r.below(3) };
            let order_mode = r.below(4);
            for _ in 0..n_res {
                let ins = if r.chance(1, 6) { Some(*r.pick(&['A', 'b', 'Z', 'a', 'B'])) } else { None };
                // the name follows from the residue's key: a key that comes back (numbers are not ascending any more) names the same residue
                let _ = r.pick(&resnames);
                let resname = resnames[((resnum + 50) as usize * 7 + ins.map_or(0, |c| c.to_ascii_uppercase() as usize)) % resnames.len()];
                let alt_mode = r.below(8); // 0,1,2: none; 3,5,6,7: partial (some atoms blank; one, two or three labels; blank first or in the middle); 4: full
                let n_atoms = 1 + r.below(4);
                let alts: Vec<Option<char>> = match alt_mode {
                    3 => vec![None, Some('A'), Some('b')],
                    4 => vec![Some('A'), Some('B')],
                    5 => vec![None, Some('A')],
                    6 => vec![Some('A'), None, Some('B')],
                    7 => vec![None, Some('A'), Some('B'), Some('C')],
                    _ => vec![None],
                };
                for alt in alts {
                    for _ in 0..n_atoms {
                        let name = *r.pick(&names);
                        let element = if r.chance(1, 2) { "" } else { *r.pick(&["C", "N", "O", "S", "ZN", "H", "c", "h", "HG", "HO"]) };
                        let a = AtomRec {
                            hetero: r.chance(1, 5),
                            serial,
                            name: name.to_string(),
                            alt,
                            resname: resname.to_string(),
                            chain: if use_blank { ' ' } else { *chain },
                            resnum,
                            ins,
                            x: decimal(rng, 999, 3, 8, true),
                            y: decimal(rng, 999, 3, 8, true),
                            z: decimal(rng, 999, 3, 8, true),
                            occ: decimal(rng, 1, 2, 6, false),
                            b: decimal(rng, 99, 2, 6, false),
                            element: element.to_string(),
                            charge: if r.chance(1, 6) { r.range(-3, 3) as isize } else { 0 },
                            atf: if r.chance(1, 5) {
                                Some([rng.range(-9999, 99999) as isize, rng.range(0, 9999) as isize, rng.range(0, 9999) as isize, rng.range(-999, 999) as isize, rng.range(-999, 999) as isize, rng.range(-999, 999) as isize])
                            } else {
                                None
                            },
                        };
                        out.push(Rec::Atom(a));
                        serial = if serial == 99_999 { 0 } else { serial + 1 };
                        // after a wrap the column may run up to its end again: a second wrap (the offsets add up)
                        if cfg.wraps && serial == 2 && r.chance(1, 2) {
                            serial = 99_998;
                        }
                    }
                }
                // mostly ascending numbers; some chains count down or jump about (order of first appearance, not of the numbers),
                // and a residue may keep the number of the one before (another insertion code, or the parent after its insertion)
                resnum = if cfg.wraps && resnum == 1 && r.chance(1, 2) {
                    9_998
                } else if resnum >= 9_000 || order_mode < 2 {
                    if resnum == 9_999 { 0 } else { resnum + 1 }
                } else if order_mode == 2 {
                    resnum - 1 - r.below(2) as isize
                } else {
                    match r.below(3) {
                        0 => resnum,
                        1 => r.range(-3, 40) as isize,
                        _ => resnum + 1,
                    }
                };
            }
            if use_blank || r.chance(1, 3) || (near_wrap && r.chance(1, 2)) {
                out.push(Rec::Ter);
            }
            let _ = ci;
        }
        if n_models > 0 {
            out.push(Rec::Endmdl);
        }
    }
    if cfg.annotations {
        let annots = annotations(rng, &out);
        out.splice(annot_at..annot_at, annots);
    }
    out
}

/// DBREF / SEQADV / MODRES records about the first model of the records: one DBREF for some of the chains, differences
/// after the references, modified residues among those that have one conformer (no alternate locations anywhere in the
/// residue); names and insertion codes in the case of the coordinate records, in upper or in lower case
fn annotations(rng: &mut Rng, recs: &[Rec]) -> Vec<Rec> {
    let mut first: Vec<&AtomRec> = Vec::new();
    for r in recs {
        match r {
            Rec::Atom(a) => first.push(a),
            Rec::Endmdl => break,
            _ => {}
        }
    }
    // blank chain identifiers get their names from the TER count: not annotated; numbers past the wrap neither
    if first.iter().any(|a| a.chain == ' ' || a.resnum > 9_990) {
        return Vec::new();
    }
    let mut chains: Vec<char> = Vec::new();
    for a in &first {
        if !chains.contains(&a.chain) {
            chains.push(a.chain);
        }
    }
    let respell = |rng: &mut Rng, t: &str| match rng.below(3) {
        0 => t.to_string(),
        1 => t.to_ascii_uppercase(),
        _ => t.to_ascii_lowercase(),
    };
    let mut dbrefs = Vec::new();
    let mut seqadvs = Vec::new();
    let mut modres = Vec::new();
    for c in &chains {
        let of_chain: Vec<&&AtomRec> = first.iter().filter(|a| a.chain == *c).collect();
        if rng.chance(1, 2) {
            let (f, l2) = (of_chain[0], of_chain[of_chain.len() - 1]);
            let start = 1 + rng.below(500) as isize;
            dbrefs.push(Rec::Dbref(
                *c,
                (f.resnum, f.ins, l2.resnum, l2.ins),
                (*rng.pick(&["UNP", "GB", "PDB"])).to_string(),
                (*rng.pick(&["P12345", "Q9XYZ1", "1ABC"])).to_string(),
                (*rng.pick(&["ABCD_HUMAN", "LYSC_CHICK", "X"])).to_string(),
                (start, None, start + rng.below(300) as isize, if rng.chance(1, 4) { Some('B') } else { None }),
            ));
            for _ in 0..rng.below(3) {
                let a = of_chain[rng.below(of_chain.len())];
                seqadvs.push(Rec::Seqadv(
                    respell(rng, &a.resname),
                    *c,
                    a.resnum,
                    a.ins,
                    if rng.chance(1, 2) { Some(((*rng.pick(&["MET", "GLY", "ala"])).to_string(), rng.below(900) as isize)) } else { None },
                    (*rng.pick(&["ENGINEERED MUTATION", "EXPRESSION TAG", "", "conflict"])).to_string(),
                ));
            }
        }
        // residues of the chain without any alternate location
        let mut keys: Vec<(isize, Option<char>)> = Vec::new();
        for a in &of_chain {
            let k = (a.resnum, a.ins.map(|x| x.to_ascii_uppercase()));
            if !keys.contains(&k) {
                keys.push(k);
            }
        }
        for k in keys {
            let atoms: Vec<&&&AtomRec> = of_chain.iter().filter(|a| (a.resnum, a.ins.map(|x| x.to_ascii_uppercase())) == k).collect();
            if atoms.iter().all(|a| a.alt.is_none()) && rng.chance(1, 2) {
                let a = atoms[0];
                let ins = a.ins.map(|x| match rng.below(3) {
                    0 => x,
                    1 => x.to_ascii_uppercase(),
                    _ => x.to_ascii_lowercase(),
                });
                modres.push(Rec::Modres(
                    respell(rng, &a.resname),
                    *c,
                    a.resnum,
                    ins,
                    (*rng.pick(&["MET", "SER", "ala"])).to_string(),
                    (*rng.pick(&["SELENOMETHIONINE", "PHOSPHOSERINE", "", "a modified residue"])).to_string(),
                ));
            }
        }
    }
    let mut out = dbrefs;
    out.extend(seqadvs);
    out.extend(modres);
    out
}

pub fn text(rng: &mut Rng, recs: &[Rec]) -> String {
    let mut t = String::new();
    for r in recs {
        for l in render(rng, r) {
            t.push_str(&l);
            t.push('\n');
        }
    }
    if rng.chance(1, 2) {
        t.push_str("END\n");
    }
    t
}
