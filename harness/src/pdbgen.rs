//! Grammar-directed generator of well-formed PDB-format text: abstract records, their rendering with arbitrary legal
//! justification, and the s-expression form of the records for the Coq specification.
use crate::rng::Rng;
use crate::sx::*;

#[derive(Clone, Debug)]
pub struct AtomRec {
    pub hetero: bool,
    pub serial: usize,
    pub name: String,
    pub alt: Option<char>,
    pub resname: String,
    pub chain: char,
    pub resnum: isize,
    pub ins: Option<char>,
    pub x: String,
    pub y: String,
    pub z: String,
    pub occ: String,
    pub b: String,
    pub element: String,
    pub charge: isize,
    pub atf: Option<[isize; 6]>,
}
#[derive(Clone, Debug)]
pub enum Rec {
    Model(usize),
    Endmdl,
    Ter,
    Atom(AtomRec),
    Header(String),
    Remark(usize, String),
    Cryst([String; 6], String),
    Scale(Vec<String>),
    Origx(Vec<String>),
    Mtrix(usize, Vec<String>, bool),
}

/// place `v` anywhere inside a field of the given width
fn just(rng: &mut Rng, v: &str, width: usize) -> String {
    let free = width.saturating_sub(v.len());
    let left = match rng.below(4) {
        0 => 0,
        1 => rng.below(free + 1),
        _ => free, // right-justified, the usual form
    };
    format!("{}{}{}", " ".repeat(left), v, " ".repeat(free - left))
}
fn decimal(rng: &mut Rng, max_int: i64, decimals: usize, width: usize, allow_neg: bool) -> String {
    loop {
        let neg = allow_neg && rng.chance(1, 3);
        let ip = rng.range(0, max_int);
        let nd = if rng.chance(1, 6) { rng.below(decimals + 1) } else { decimals };
        let mut s = format!("{}{}", if neg { "-" } else { "" }, ip);
        if nd > 0 || rng.chance(1, 2) {
            s.push('.');
            for _ in 0..nd {
                s.push(char::from(b'0' + rng.below(10) as u8));
            }
        }
        if s.len() <= width && s != "-" {
            return s;
        }
    }
}

pub fn render_atom(rng: &mut Rng, a: &AtomRec) -> Vec<String> {
    let mut out = Vec::new();
    let basics = |rng: &mut Rng, tag: &str| {
        format!(
            "{tag}{} {}{}{} {}{}{}",
            just(rng, &a.serial.to_string(), 5),
            just(rng, &a.name, 4),
            a.alt.unwrap_or(' '),
            just(rng, &a.resname, 3),
            a.chain,
            just(rng, &a.resnum.to_string(), 4),
            a.ins.unwrap_or(' ')
        )
    };
    let charge = if a.charge == 0 { "  ".to_string() } else { format!("{}{}", a.charge.abs(), if a.charge < 0 { '-' } else { '+' }) };
    let tail = |rng: &mut Rng| format!("      {}{}{}", just(rng, "", 4), just(rng, &a.element, 2), charge);
    let mut line = basics(rng, if a.hetero { "HETATM" } else { "ATOM  " });
    line.push_str("   ");
    line.push_str(&just(rng, &a.x, 8));
    line.push_str(&just(rng, &a.y, 8));
    line.push_str(&just(rng, &a.z, 8));
    line.push_str(&just(rng, &a.occ, 6));
    line.push_str(&just(rng, &a.b, 6));
    line.push_str(&tail(rng));
    out.push(line);
    if let Some(u) = a.atf {
        let mut l = basics(rng, "ANISOU");
        l.push(' ');
        for v in u {
            l.push_str(&just(rng, &v.to_string(), 7));
        }
        l.push_str(&tail(rng));
        out.push(l);
    }
    out
}

pub fn render(rng: &mut Rng, r: &Rec) -> Vec<String> {
    let pad = |mut s: String, rng: &mut Rng| {
        if rng.chance(2, 3) {
            while s.len() < 80 {
                s.push(' ');
            }
        }
        s
    };
    match r {
        Rec::Model(n) => vec![pad(format!("MODEL {}", just(rng, &n.to_string(), 8)), rng)],
        Rec::Endmdl => vec![pad("ENDMDL".into(), rng)],
        Rec::Ter => vec![if rng.chance(1, 2) { "TER".into() } else { pad("TER   ".into(), rng) }],
        Rec::Atom(a) => render_atom(rng, a),
        Rec::Header(id) => vec![format!("HEADER    {:40}{:9}   {:4}{}", "HYDROLASE", "01-JAN-00", id, " ".repeat(rng.below(15)))],
        Rec::Remark(n, t) => vec![format!("REMARK {} {}", just(rng, &n.to_string(), 3), t)],
        Rec::Cryst(c, sg) => vec![pad(
            format!(
                "CRYST1{}{}{}{}{}{} {:11}{:>4}",
                just(rng, &c[0], 9),
                just(rng, &c[1], 9),
                just(rng, &c[2], 9),
                just(rng, &c[3], 7),
                just(rng, &c[4], 7),
                just(rng, &c[5], 7),
                sg,
                rng.below(20)
            ),
            rng,
        )],
        Rec::Scale(m) | Rec::Origx(m) => (0..3)
            .map(|i| {
                let tag = if matches!(r, Rec::Scale(_)) { "SCALE" } else { "ORIGX" };
                pad(
                    format!(
                        "{tag}{}    {}{}{}     {}",
                        i + 1,
                        just(rng, &m[4 * i], 10),
                        just(rng, &m[4 * i + 1], 10),
                        just(rng, &m[4 * i + 2], 10),
                        just(rng, &m[4 * i + 3], 10)
                    ),
                    rng,
                )
            })
            .collect(),
        Rec::Mtrix(ser, m, given) => (0..3)
            .map(|i| {
                format!(
                    "MTRIX{} {}{}{}{}     {}    {}",
                    i + 1,
                    just(rng, &ser.to_string(), 3),
                    just(rng, &m[4 * i], 10),
                    just(rng, &m[4 * i + 1], 10),
                    just(rng, &m[4 * i + 2], 10),
                    just(rng, &m[4 * i + 3], 10),
                    if *given { "1" } else { " " }
                )
            })
            .collect(),
    }
}

fn oc(c: Option<char>) -> Sx {
    opt(c, |x| s(&x.to_string()))
}
pub fn rec_sx(r: &Rec) -> Sx {
    match r {
        Rec::Model(n) => call("model", vec![z(*n as i128)]),
        Rec::Endmdl => call("endmdl", vec![]),
        Rec::Ter => call("ter", vec![]),
        Rec::Header(id) => call("header", vec![s(id)]),
        Rec::Remark(n, t) => call("remark", vec![z(*n as i128), s(t)]),
        Rec::Cryst(c, sg) => call("cryst", vec![l(c.iter().map(|x| s(x)).collect()), s(sg)]),
        Rec::Scale(m) => call("scale", vec![l(m.iter().map(|x| s(x)).collect())]),
        Rec::Origx(m) => call("origx", vec![l(m.iter().map(|x| s(x)).collect())]),
        Rec::Mtrix(ser, m, g) => call("mtrix", vec![z(*ser as i128), l(m.iter().map(|x| s(x)).collect()), b(*g)]),
        Rec::Atom(a) => call(
            "atom",
            vec![
                b(a.hetero),
                z(a.serial as i128),
                s(&a.name),
                oc(a.alt),
                s(&a.resname),
                s(&a.chain.to_string()),
                z(a.resnum as i128),
                oc(a.ins),
                s(&a.x),
                s(&a.y),
                s(&a.z),
                s(&a.occ),
                s(&a.b),
                s(&a.element),
                z(a.charge as i128),
                opt(a.atf, |u| l(u.iter().map(|v| z(*v as i128)).collect())),
            ],
        ),
    }
}

pub struct Cfg {
    pub metadata: bool,
    pub wraps: bool,
    pub blank_chains: bool,
}

/// a well-formed record list
pub fn records(rng: &mut Rng, cfg: &Cfg) -> Vec<Rec> {
    let mut out = Vec::new();
    if cfg.metadata {
        if rng.chance(2, 3) {
            out.push(Rec::Header(format!("{}{}", rng.below(9) + 1, *rng.pick(&["ABC", "UBQ", "XYZ", "A1B"]))));
        }
        for _ in 0..rng.below(3) {
            let n = *rng.pick(&[1usize, 2, 3, 4, 100, 200, 350, 465, 900, 999]);
            let words = ["RESOLUTION.", "1.80", "ANGSTROMS.", "THE", "STRUCTURE", "WAS", "REFINED"];
            let t: Vec<&str> = (0..rng.below(6)).map(|_| *rng.pick(&words)).collect();
            out.push(Rec::Remark(n, t.join(" ")));
        }
        if rng.chance(2, 3) {
            let cell = [
                decimal(rng, 400, 3, 9, false),
                decimal(rng, 400, 3, 9, false),
                decimal(rng, 400, 3, 9, false),
                decimal(rng, 179, 2, 7, false),
                decimal(rng, 179, 2, 7, false),
                decimal(rng, 179, 2, 7, false),
            ];
            let sg = *rng.pick(&["P 1", "P 21 21 21", "C 1 2 1", "P 43 21 2", "I 4", "F 2 3", "P 1 21 1", "P -1"]);
            out.push(Rec::Cryst(cell, sg.to_string()));
        }
        let matrix = |rng: &mut Rng| (0..12).map(|k| decimal(rng, 2, if k % 4 == 3 { 5 } else { 6 }, 10, true)).collect::<Vec<_>>();
        if rng.chance(1, 2) {
            out.push(Rec::Origx(matrix(rng)));
        }
        if rng.chance(1, 2) {
            out.push(Rec::Scale(matrix(rng)));
        }
        for k in 0..rng.below(3) {
            out.push(Rec::Mtrix(k + 1, matrix(rng), rng.chance(1, 2)));
        }
    }
    // serial numbers that wrap around keep their offset across MODEL records, so a wrapping file has one model
    let n_models = if rng.chance(1, 3) { 0 } else if cfg.wraps { 1 } else { 1 + rng.below(3) };
    let names = ["N", "CA", "C", "O", "CB", "SG", "ca", "OXT", "ZN", "H", "HA", "X1", "1HB", "HG1", "CD1", "NE2", "HE2", "ND1", "XE1", "FE2", "H3", "D1", "2H"];
    let resnames = ["ALA", "GLY", "CYS", "HOH", "ala", "MSE", "ZN", "A"];
    let first_serial = if cfg.wraps && rng.chance(1, 3) { 99_990 + rng.below(8) } else { 1 + rng.below(50) };
    let mut serial;
    let shape_seed = rng.next();
    // model serial numbers of one to four digits
    let first_model = *rng.pick(&[1usize, 1, 1, 2, 9, 10, 99, 998, 4242, 9997]);
    for mi in 0..n_models.max(1) {
        if n_models > 0 {
            out.push(Rec::Model(first_model + mi));
        }
        // the serial numbers start again in every model (the models of a file describe the same atoms)
        serial = first_serial;
        // models repeat the same shape (so that validation has nothing to report); values differ
        let mut r = Rng(shape_seed);
        let n_chains = 1 + r.below(3);
        let mut chain_seq: Vec<char> = (0..n_chains).map(|k| ['A', 'B', 'a', 'C', '1'][k % 5]).collect();
        if r.chance(1, 3) && n_chains > 1 {
            chain_seq.push(chain_seq[0]); // a chain id that comes back after another chain
        }
        let use_blank = cfg.blank_chains && r.chance(2, 5);
        let near_wrap = cfg.wraps && r.chance(1, 2);
        let mut resnum: isize = if near_wrap { 9_996 + r.below(4) as isize } else { r.range(-3, 40) as isize };
        for (ci, chain) in chain_seq.iter().enumerate() {
            // near the end of the column a chain is long enough to wrap, and records go on after its TER
            let n_res = if near_wrap { 2 + r.below(3) } else { 1 + r.below(3) };
            let order_mode = r.below(4);
            for _ in 0..n_res {
                let ins = if r.chance(1, 6) { Some(*r.pick(&['A', 'b', 'Z', 'a', 'B'])) } else { None };
                // the name follows from the residue's key: a key that comes back (numbers are not ascending any more) names the same residue
                let _ = r.pick(&resnames);
                let resname = resnames[((resnum + 50) as usize * 7 + ins.map_or(0, |c| c.to_ascii_uppercase() as usize)) % resnames.len()];
                let alt_mode = r.below(8); // 0,1,2: none; 3,5,6,7: partial (some atoms blank; one, two or three labels; blank first or in the middle); 4: full
                let n_atoms = 1 + r.below(4);
                let alts: Vec<Option<char>> = match alt_mode {
                    3 => vec![None, Some('A'), Some('b')],
                    4 => vec![Some('A'), Some('B')],
                    5 => vec![None, Some('A')],
                    6 => vec![Some('A'), None, Some('B')],
                    7 => vec![None, Some('A'), Some('B'), Some('C')],
                    _ => vec![None],
                };
                for alt in alts {
                    for _ in 0..n_atoms {
                        let name = *r.pick(&names);
                        let element = if r.chance(1, 2) { "" } else { *r.pick(&["C", "N", "O", "S", "ZN", "H", "c", "h", "HG", "HO"]) };
                        let a = AtomRec {
                            hetero: r.chance(1, 5),
                            serial,
                            name: name.to_string(),
                            alt,
                            resname: resname.to_string(),
                            chain: if use_blank { ' ' } else { *chain },
                            resnum,
                            ins,
                            x: decimal(rng, 999, 3, 8, true),
                            y: decimal(rng, 999, 3, 8, true),
                            z: decimal(rng, 999, 3, 8, true),
                            occ: decimal(rng, 1, 2, 6, false),
                            b: decimal(rng, 99, 2, 6, false),
                            element: element.to_string(),
                            charge: if r.chance(1, 6) { r.range(-3, 3) as isize } else { 0 },
                            atf: if r.chance(1, 5) {
                                Some([rng.range(-9999, 99999) as isize, rng.range(0, 9999) as isize, rng.range(0, 9999) as isize, rng.range(-999, 999) as isize, rng.range(-999, 999) as isize, rng.range(-999, 999) as isize])
                            } else {
                                None
                            },
                        };
                        out.push(Rec::Atom(a));
                        serial = if serial == 99_999 { 0 } else { serial + 1 };
                        // after a wrap the column may run up to its end again: a second wrap (the offsets add up)
                        if cfg.wraps && serial == 2 && r.chance(1, 2) {
                            serial = 99_998;
                        }
                    }
                }
                // mostly ascending numbers; some chains count down or jump about (order of first appearance, not of the numbers),
                // and a residue may keep the number of the one before (another insertion code, or the parent after its insertion)
                resnum = if cfg.wraps && resnum == 1 && r.chance(1, 2) {
                    9_998
                } else if resnum >= 9_000 || order_mode < 2 {
                    if resnum == 9_999 { 0 } else { resnum + 1 }
                } else if order_mode == 2 {
                    resnum - 1 - r.below(2) as isize
                } else {
                    match r.below(3) {
                        0 => resnum,
                        1 => r.range(-3, 40) as isize,
                        _ => resnum + 1,
                    }
                };
            }
            if use_blank || r.chance(1, 3) || (near_wrap && r.chance(1, 2)) {
                out.push(Rec::Ter);
            }
            let _ = ci;
        }
        if n_models > 0 {
            out.push(Rec::Endmdl);
        }
    }
    out
}

pub fn text(rng: &mut Rng, recs: &[Rec]) -> String {
    let mut t = String::new();
    for r in recs {
        for l in render(rng, r) {
            t.push_str(&l);
            t.push('\n');
        }
    }
    if rng.chance(1, 2) {
        t.push_str("END\n");
    }
    t
}
