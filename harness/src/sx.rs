//! S-expression values in the exchange format shared with coq/Base/Sx.v.
use std::fmt;

#[derive(Clone, Debug, PartialEq)]
pub enum Sx {
    Z(i128),
    S(Vec<u8>),
    Y(String),
    L(Vec<Sx>),
}

impl fmt::Display for Sx {
    fn fmt(&self, f: &mut fmt::Formatter<'_>) -> fmt::Result {
        match self {
            Sx::Z(z) => write!(f, "{z}"),
            Sx::S(s) => {
                write!(f, "#")?;
                for b in s {
                    write!(f, "{b:02x}")?;
                }
                Ok(())
            }
            Sx::Y(s) => write!(f, "{s}"),
            Sx::L(l) => {
                write!(f, "(")?;
                for (i, x) in l.iter().enumerate() {
                    if i > 0 {
                        write!(f, " ")?;
                    }
                    write!(f, "{x}")?;
                }
                write!(f, ")")
            }
        }
    }
}

pub fn y(s: &str) -> Sx {
    Sx::Y(s.to_string())
}
pub fn z<T: TryInto<i128>>(v: T) -> Sx {
    Sx::Z(v.try_into().ok().expect("integer out of i128 range"))
}
pub fn s(t: &str) -> Sx {
    Sx::S(t.as_bytes().to_vec())
}
pub fn b(v: bool) -> Sx {
    y(if v { "t" } else { "f" })
}
pub fn l(v: Vec<Sx>) -> Sx {
    Sx::L(v)
}
pub fn opt<T>(o: Option<T>, f: impl Fn(T) -> Sx) -> Sx {
    match o {
        None => y("-"),
        Some(v) => l(vec![f(v)]),
    }
}
pub fn call(name: &str, mut args: Vec<Sx>) -> Sx {
    let mut v = vec![y(name)];
    v.append(&mut args);
    l(v)
}

/// exact encoding of an f64: (m e) with value = m * 2^e, m odd or zero; `inf`, `-inf`, `nan` otherwise.
/// -0.0 is encoded as the symbol `nz`.
pub fn f(v: f64) -> Sx {
    if v.is_nan() {
        return y("nan");
    }
    if v.is_infinite() {
        return y(if v > 0.0 { "inf" } else { "-inf" });
    }
    if v == 0.0 {
        return if v.is_sign_negative() { y("nz") } else { l(vec![z(0), z(0)]) };
    }
    let bits = v.to_bits();
    let sign: i128 = if bits >> 63 == 1 { -1 } else { 1 };
    let exp = ((bits >> 52) & 0x7ff) as i64;
    let frac = (bits & 0xf_ffff_ffff_ffff) as i128;
    let (mut m, mut e) = if exp == 0 { (frac, -1074i64) } else { (frac | (1i128 << 52), exp - 1075) };
    while m & 1 == 0 {
        m >>= 1;
        e += 1;
    }
    l(vec![z(sign * m), z(e)])
}
