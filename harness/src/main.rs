//! pvharness <property> --seed N --count K --out DIR [--tmp DIR]
//! Runs the real crate on generated inputs and writes cases / observations for the Coq model to re-evaluate.
mod c01;
mod c02;
mod c03;
mod c04;
mod cifgen;
mod c05;
mod c06;
mod ciftext;
mod c07;
mod c08;
mod c09;
mod c10;
mod c11;
mod c12;
mod c13;
mod c14;
mod c15;
mod c16;
mod c17;
mod c18;
mod gen;
mod out;
mod pdbgen;
mod rng;
mod snap;
mod textgen;
mod sx;

thread_local! {
    /// where the last observed panic of the crate happened (file:line), for the site histogram
    pub static LAST_PANIC: std::cell::RefCell<String> = const { std::cell::RefCell::new(String::new()) };
}
thread_local! {
    /// set while a call into the crate runs under catch_unwind: panics there are observations
    pub static QUIET: std::cell::Cell<bool> = const { std::cell::Cell::new(false) };
}

/// run a call into the crate, turning a panic into None
pub fn guarded<T>(f: impl FnOnce() -> T) -> Option<T> {
    QUIET.with(|q| q.set(true));
    let r = std::panic::catch_unwind(std::panic::AssertUnwindSafe(f)).ok();
    QUIET.with(|q| q.set(false));
    r
}

fn main() {
    let args: Vec<String> = std::env::args().collect();
    if args.len() < 2 {
        eprintln!("usage: pvharness <property> --seed N --count K --out DIR [--tmp DIR]");
        std::process::exit(2);
    }
    let prop = args[1].clone();
    let mut seed = 1u64;
    let mut count = 200usize;
    let mut outdir = String::from("out");
    let mut tmp = String::from("/tmp/pvharness_tmp");
    let mut thorough = false;
    let mut _replay: Option<String> = None;
    let mut i = 2;
    while i + 1 < args.len() {
        match args[i].as_str() {
            "--seed" => seed = args[i + 1].parse().expect("seed"),
            "--count" => count = args[i + 1].parse().expect("count"),
            "--out" => outdir = args[i + 1].clone(),
            "--tmp" => tmp = args[i + 1].clone(),
            "--thorough" => thorough = args[i + 1] == "1",
            "--replay" => _replay = Some(args[i + 1].clone()),
            other => {
                eprintln!("unknown option {other}");
                std::process::exit(2);
            }
        }
        i += 2;
    }
    // panics inside the crate are observations, not crashes of the harness
    if std::env::var("PV_LOUD").is_err() {
        let default = std::panic::take_hook();
        std::panic::set_hook(Box::new(move |info| {
            if !QUIET.with(|q| q.get()) {
                default(info);
            } else if let Some(loc) = info.location() {
                let f = loc.file().rsplit("/src/").next().unwrap_or("").to_string();
                LAST_PANIC.with(|p| *p.borrow_mut() = format!("{}:{}", f, loc.line()));
            }
        }));
    }
    if prop == "probe" {
        // debugging aid: read the file named by PV_FILE (format from PV_FORMAT = pdb | cif) and print the outcome
        let path = std::env::var("PV_FILE").expect("PV_FILE");
        let bytes = std::fs::read(&path).expect("read");
        let format = if std::env::var("PV_FORMAT").map_or(false, |f| f == "cif") { pdbtbx::Format::Mmcif } else { pdbtbx::Format::Pdb };
        let level = std::env::var("PV_LEVEL").ok().and_then(|l| l.parse().ok()).unwrap_or(2usize);
        let opts = std::env::var("PV_OPTS").ok().and_then(|l| l.parse().ok()).unwrap_or(0usize);
        let r = pdbtbx::ReadOptions::default()
            .set_format(format)
            .set_level(snap::strictness(level))
            .set_discard_hydrogens(opts & 1 != 0)
            .set_only_first_model(opts & 2 != 0)
            .set_only_atomic_coords(opts & 4 != 0)
            .read_raw(std::io::BufReader::new(&bytes[..]));
        match r {
            Ok((p, e)) => {
                println!("OK atoms={} models={} errors={}", p.total_atom_count(), p.model_count(), e.len());
                for x in e {
                    println!("{x}");
                }
            }
            Err(e) => {
                println!("ERR");
                for x in e {
                    println!("{x}");
                }
            }
        }
        return;
    }
    let mut out = out::Out::new(&outdir);
    match prop.as_str() {
        "C01" => c01::run(seed, count, thorough, &mut out),
        "C02" => c02::run(seed, count, thorough, &mut out),
        "C03" => c03::run(seed, count, thorough, &mut out),
        "C04" => c04::run(seed, count, thorough, &mut out),
        "C05" => c05::run(seed, count, thorough, &mut out),
        "C06" => c06::run(seed, count, thorough, &mut out),
        "C07" => c07::run(seed, count, &mut out, &tmp),
        "C08" => c08::run(seed, count, thorough, &mut out),
        "C09" => c09::run(seed, count, thorough, &mut out),
        "C10" => c10::run(seed, count, thorough, &mut out),
        "C11" => c11::run(seed, count, thorough, &mut out),
        "C12" => c12::run(seed, count, thorough, &mut out),
        "C13" => c13::run(seed, count, thorough, &mut out),
        "C14" => c14::run(seed, count, thorough, &mut out),
        "C15" => c15::run(seed, count, thorough, &mut out, &tmp),
        "C16" => c16::run(seed, count, thorough, &mut out),
        "C17" => c17::run(&mut out),
        "C18" => c18::run(seed, count, thorough, &mut out),
        other => {
            eprintln!("unknown property {other}");
            std::process::exit(2);
        }
    }
    out.finish();
}
