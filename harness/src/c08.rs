//! C08: histories of add_atom calls at the three entry points.
use crate::out::Out;
use crate::rng::Rng;
use crate::snap;
use crate::sx::*;
use pdbtbx::*;

#[derive(Clone, Debug)]
pub struct Op {
    pub serial: usize,
    pub chain: String,
    pub num: isize,
    pub icode: Option<String>,
    pub name: String,
    pub alt: Option<String>,
}

fn mk_atom(serial: usize) -> Atom {
    Atom::new(false, serial, "", "CA", 0.0, 0.0, 0.0, 1.0, 0.0, "C", 0).expect("atom")
}
fn op_sx(o: &Op) -> Sx {
    l(vec![
        snap::atom_short(&mk_atom(o.serial)),
        s(&o.chain),
        z(o.num as i128),
        opt(o.icode.as_deref(), s),
        s(&o.name),
        opt(o.alt.as_deref(), s),
    ])
}

fn snap_confs(r: &Residue) -> Sx {
    l(r.conformers()
        .map(|c| l(vec![s(c.name()), opt(c.alternative_location(), s), l(c.atoms().map(snap::atom_short).collect())]))
        .collect())
}
fn snap_ress(c: &Chain) -> Sx {
    l(c.residues().map(|r| l(vec![z(r.serial_number() as i128), opt(r.insertion_code(), s), snap_confs(r)])).collect())
}
fn snap_chains(m: &Model) -> Sx {
    l(m.chains().map(|c| l(vec![s(c.id()), snap_ress(c)])).collect())
}

pub fn exec(entry: &str, ops: &[Op]) -> Sx {
    let r = crate::guarded(|| match entry {
        "model" => {
            let mut m = Model::new(1);
            for o in ops {
                m.add_atom(mk_atom(o.serial), &o.chain, (o.num, o.icode.as_deref()), (&o.name, o.alt.as_deref()));
            }
            snap_chains(&m)
        }
        "chain" => {
            let mut c = Chain::new("A").expect("chain");
            for o in ops {
                c.add_atom(mk_atom(o.serial), (o.num, o.icode.as_deref()), (&o.name, o.alt.as_deref()));
            }
            snap_ress(&c)
        }
        _ => {
            let mut r = Residue::new(1, None, None).expect("residue");
            for o in ops {
                r.add_atom(mk_atom(o.serial), (&o.name, o.alt.as_deref()));
            }
            snap_confs(&r)
        }
    });
    match r {
        Some(sn) => l(vec![y("ok"), sn]),
        None => y("panic"),
    }
}

fn emit(out: &mut Out, entry: &str, ops: &[Op], label: &str) {
    let obs = exec(entry, ops);
    let input = call("hist", vec![y(entry), l(ops.iter().map(op_sx).collect())]);
    // non-trivial: at least two calls that meet in one container
    let nontrivial = ops.len() >= 2;
    out.case("C08", input, obs, "prop:history", nontrivial);
    out.count(&format!("{entry}:{label}:len{}", ops.len().min(9)));
}

fn some(v: &str) -> Option<String> {
    Some(v.to_string())
}

/// all sequences of length n over `alpha`
fn sequences(alpha: &[Op], n: usize, f: &mut dyn FnMut(&[Op])) {
    fn go(alpha: &[Op], n: usize, cur: &mut Vec<Op>, f: &mut dyn FnMut(&[Op])) {
        if cur.len() == n {
            f(cur);
            return;
        }
        for a in alpha {
            let mut a = a.clone();
            a.serial = cur.len() + 1;
            cur.push(a);
            go(alpha, n, cur, f);
            cur.pop();
        }
    }
    go(alpha, n, &mut Vec::new(), f);
}

pub fn run(seed: u64, count: usize, thorough: bool, out: &mut Out) {
    let chains = [" A", "A", "a"];
    let nums = [1isize, -1];
    let icodes = [None, some("a"), some("A")];
    let names = ["ala", "ALA "];
    let alts = [None, some("a"), some("A"), some(" ")];
    let mut full: Vec<Op> = Vec::new();
    for c in chains {
        for n in nums {
            for ic in &icodes {
                for nm in names {
                    for al in &alts {
                        full.push(Op { serial: 0, chain: c.into(), num: n, icode: ic.clone(), name: nm.into(), alt: al.clone() });
                    }
                }
            }
        }
    }
    // residue entry: only (name, alt) matter
    let res_alpha: Vec<Op> = full.iter().filter(|o| o.chain == "A" && o.num == 1 && o.icode.is_none()).cloned().collect();
    for n in 0..=(if thorough { 4 } else { 3 }) {
        sequences(&res_alpha, n, &mut |ops| emit(out, "residue", ops, "exhaustive"));
    }
    // chain entry: (num, icode, name, alt)
    let chain_alpha: Vec<Op> = full.iter().filter(|o| o.chain == "A").cloned().collect();
    for n in 1..=(if thorough { 3 } else { 2 }) {
        if n == 3 {
            // length 3 over the alphabet with one residue name
            let a: Vec<Op> = chain_alpha.iter().filter(|o| o.name == "ala").cloned().collect();
            sequences(&a, n, &mut |ops| emit(out, "chain", ops, "exhaustive"));
        } else {
            sequences(&chain_alpha, n, &mut |ops| emit(out, "chain", ops, "exhaustive"));
        }
    }
    // model entry: reduced alphabet exhaustively, the full alphabet at length 2 in the thorough tier
    let model_alpha: Vec<Op> = full
        .iter()
        .filter(|o| o.num == 1 && o.name == "ala" && o.icode != some("A") && o.alt != some(" "))
        .cloned()
        .collect();
    sequences(&model_alpha, 2, &mut |ops| emit(out, "model", ops, "exhaustive"));
    if thorough {
        sequences(&full, 2, &mut |ops| emit(out, "model", ops, "exhaustive-full"));
    }
    // random long histories over a larger alphabet
    let mut rng = Rng::new(seed);
    let big_chains = ["A", " A", "A ", "a", "B", "bb", "B2", "\tA", "b", "B22"];
    // identifiers of several characters, some of them the beginning of another (a comparison must not stop at the shorter one)
    let big_icodes = [None, None, some("a"), some("A"), some(" b"), some("B"), some("xy"), some("ab"), some("ABC"), some("x"), some("XYZ ")];
    let big_names = ["ala", "ALA", "Ala ", " gly", "GLY", "hoh", "X", "AL", "alan", "XY"];
    let big_alts = [None, None, some("a"), some("A"), some(" "), some("b "), some("B"), some("ab"), some(""), some("ABC"), some("bc")];
    for _ in 0..count {
        let long = rng.chance(1, 4);
        let len = 1 + rng.below(if long { 200 } else { 24 });
        let entry = *rng.pick(&["model", "model", "chain", "residue"]);
        let mut ops = Vec::new();
        for i in 0..len {
            ops.push(Op {
                serial: i + 1,
                chain: (*rng.pick(&big_chains)).into(),
                num: rng.range(-3, 3) as isize,
                icode: rng.pick(&big_icodes).clone(),
                name: (*rng.pick(&big_names)).into(),
                alt: rng.pick(&big_alts).clone(),
            });
        }
        emit(out, entry, &ops, "random");
    }
    // invalid identifiers: the call panics (documented) at every entry point that sees the identifier
    let base = Op { serial: 1, chain: "A".into(), num: 1, icode: None, name: "ALA".into(), alt: None };
    let bad: Vec<(&str, Op)> = vec![
        ("chain-empty", Op { chain: "".into(), ..base.clone() }),
        ("chain-blank", Op { chain: "  ".into(), ..base.clone() }),
        ("chain-control", Op { chain: "A\u{1}".into(), ..base.clone() }),
        ("icode-blank", Op { icode: some(" "), ..base.clone() }),
        ("icode-control", Op { icode: some("\u{7f}"), ..base.clone() }),
        ("name-empty", Op { name: "".into(), ..base.clone() }),
        ("name-control", Op { name: "A\nA".into(), ..base.clone() }),
        ("alt-control", Op { alt: some("\u{2}"), ..base.clone() }),
    ];
    for (label, o) in bad {
        for entry in ["model", "chain", "residue"] {
            let ops = vec![base.clone(), Op { serial: 2, ..o.clone() }];
            let obs = exec(entry, &ops);
            out.case("C08", call("hist", vec![y(entry), l(ops.iter().map(op_sx).collect())]), obs, "prop:history", true);
            out.count(&format!("{entry}:invalid:{label}"));
        }
    }
}
