//! Output of one harness run: cases.txt (model inputs), impl.obs (what the implementation showed, in the
//! form the model prints), kinds.txt (per line: `prop:<clause>` when a disagreement on that line is itself a
//! failure of the property on that input, `corr:<what>` when it only shows model and code apart),
//! stats.json (measured distribution).
use crate::sx::Sx;
use std::collections::{BTreeMap, HashSet};
use std::io::Write;

pub struct Out {
    dir: std::path::PathBuf,
    cases: Vec<String>,
    obs: Vec<String>,
    kinds: Vec<String>,
    hist: BTreeMap<String, u64>,
    samples: Vec<String>,
    distinct: HashSet<u64>,
    nontrivial: u64,
    pub notes: Vec<String>,
    pub extra: BTreeMap<String, serde_json::Value>,
}

fn fnv(s: &str) -> u64 {
    let mut h: u64 = 0xcbf29ce484222325;
    for b in s.bytes() {
        h ^= b as u64;
        h = h.wrapping_mul(0x100000001b3);
    }
    h
}

impl Out {
    pub fn new(dir: &str) -> Out {
        std::fs::create_dir_all(dir).expect("out dir");
        Out {
            dir: dir.into(),
            cases: vec![],
            obs: vec![],
            kinds: vec![],
            hist: BTreeMap::new(),
            samples: vec![],
            distinct: HashSet::new(),
            nontrivial: 0,
            notes: vec![],
            extra: BTreeMap::new(),
        }
    }
    /// record one case. `nontrivial` is the harness' own rule for the property (stated in the evidence).
    pub fn case(&mut self, prop: &str, input: Sx, observed: Sx, kind: &str, nontrivial: bool) {
        let line = format!("({prop} {input})");
        if nontrivial && self.distinct.insert(fnv(&line)) {
            self.nontrivial += 1;
        }
        if self.samples.len() < 3 || (self.cases.len() % 997 == 0 && self.samples.len() < 8) {
            let mut sm = format!("{line} => {observed}");
            if sm.len() > 600 {
                sm.truncate(600);
                sm.push_str("...");
            }
            self.samples.push(sm);
        }
        self.cases.push(line);
        self.obs.push(observed.to_string());
        self.kinds.push(kind.to_string());
    }
    pub fn count(&mut self, key: &str) {
        *self.hist.entry(key.to_string()).or_insert(0) += 1;
    }
    pub fn count_n(&mut self, key: &str, n: u64) {
        *self.hist.entry(key.to_string()).or_insert(0) += n;
    }
    pub fn len(&self) -> usize {
        self.cases.len()
    }
    pub fn finish(self) {
        let w = |name: &str, lines: &Vec<String>| {
            let mut f = std::io::BufWriter::new(std::fs::File::create(self.dir.join(name)).expect("create"));
            for l in lines {
                writeln!(f, "{l}").expect("write");
            }
        };
        w("cases.txt", &self.cases);
        w("impl.obs", &self.obs);
        w("kinds.txt", &self.kinds);
        let stats = serde_json::json!({
            "evaluations": self.cases.len(),
            "distinct_nontrivial": self.nontrivial,
            "histogram": self.hist,
            "samples": self.samples,
            "notes": self.notes,
            "extra": self.extra,
        });
        std::fs::write(self.dir.join("stats.json"), serde_json::to_string_pretty(&stats).expect("json")).expect("write stats");
    }
}
