//! C18: validate / validate_pdb report exactly the documented inconsistencies.
use crate::gen;
use crate::out::Out;
use crate::rng::Rng;
use crate::snap;
use crate::sx::*;
use pdbtbx::*;

pub fn diags(v: &[PDBError]) -> Sx {
    let mut ds: Vec<(String, i128)> = v.iter().map(|e| (e.short_description().to_string(), snap::level(e.level()))).collect();
    ds.sort();
    l(ds.into_iter().map(|(sh, lv)| l(vec![z(lv), s(&sh)])).collect())
}

/// the documented decimal bounds with the binary64 value Rust gives each of them
pub fn float_table() -> Sx {
    let texts = ["-99.99", "999.99", "-999.999", "9999.999"];
    l(texts
        .iter()
        .map(|t| {
            let v: f64 = t.parse().expect("float");
            match f(v) {
                Sx::L(me) => l(vec![s(t), me[0].clone(), me[1].clone()]),
                other => l(vec![s(t), other, z(0)]),
            }
        })
        .collect())
}

fn next_up(v: f64) -> f64 {
    f64::from_bits(if v >= 0.0 { v.to_bits() + 1 } else { v.to_bits() - 1 })
}
fn next_down(v: f64) -> f64 {
    f64::from_bits(if v > 0.0 { v.to_bits() - 1 } else { v.to_bits() + 1 })
}

/// a structure with one field pushed to / across one end of its range
fn boundary_structure(rng: &mut Rng, which: usize, side: usize) -> (PDB, String) {
    let sh = gen::Shape { max_models: 1, max_chains: 2, max_residues: 2, max_altlocs: 2, max_atoms: 2, ..Default::default() };
    let mut p = gen::structure(rng, &sh);
    // side: 0 = at the upper bound, 1 = just above, 2 = at the lower bound, 3 = just below, 4 = well inside
    let hi_f = |hi: f64| match side {
        0 => hi,
        1 => next_up(hi),
        _ => 1.0,
    };
    let lo_f = |lo: f64| match side {
        2 => lo,
        3 => next_down(lo),
        _ => 1.0,
    };
    let pick_f = |lo: f64, hi: f64| if side < 2 { hi_f(hi) } else if side < 4 { lo_f(lo) } else { 0.5 };
    let pick_i = |lo: isize, hi: isize| match side {
        0 => hi,
        1 => hi + 1,
        2 => lo,
        3 => lo - 1,
        _ => 1,
    };
    let label;
    match which {
        0 => {
            label = "model-serial";
            let v = pick_i(0, 9999).max(0) as usize;
            if let Some(m) = p.models_mut().next() {
                m.set_serial_number(v);
            }
        }
        1 => {
            label = "chain-id-length";
            let id = if side == 1 { "AB" } else { "A" };
            let k_chains = rng.below(p.chains().count().max(1));
            if let Some(c) = p.chains_mut().nth(k_chains) {
                c.set_id(id);
            }
        }
        2 => {
            label = "residue-number";
            let v = pick_i(-999, 9999);
            let k_residues = rng.below(p.residues().count().max(1));
            if let Some(r) = p.residues_mut().nth(k_residues) {
                r.set_serial_number(v);
            }
        }
        3 => {
            label = "insertion-code-length";
            let ic = if side == 1 { "AB" } else { "A" };
            let k_residues = rng.below(p.residues().count().max(1));
            if let Some(r) = p.residues_mut().nth(k_residues) {
                r.set_insertion_code(ic);
            }
        }
        4 => {
            label = "conformer-name-length";
            let nm = if side == 1 { "ALAX" } else { "ALA" };
            if rng.chance(1, 2) {
                // every conformer of one residue (one diagnostic for each of them), preferring a residue with several
                let mut multi: Vec<usize> = p.residues().enumerate().filter(|(_, r)| r.conformer_count() > 1).map(|(i, _)| i).collect();
                if multi.is_empty() {
                    // make one: two more conformers in the first residue
                    if let Some(r) = p.residues_mut().next() {
                        for (k, alt) in ["X", "Y"].iter().enumerate() {
                            let mut c = Conformer::new("GLY", Some(alt), None).expect("conformer");
                            c.add_atom(Atom::new(false, 900 + k, "", "CA", 1.0, 2.0, 3.0, 1.0, 10.0, "C", 0).expect("atom"));
                            r.add_conformer(c);
                        }
                    }
                    multi = vec![0];
                }
                let pick = *rng.pick(&multi);
                if let Some(r) = p.residues_mut().nth(pick) {
                    for c in r.conformers_mut() {
                        c.set_name(nm);
                    }
                }
            }
            let k_conformers = rng.below(p.conformers().count().max(1));
            if let Some(c) = p.conformers_mut().nth(k_conformers) {
                c.set_name(nm);
            }
        }
        5 => {
            label = "altloc-length";
            let al = if side == 1 { "AB" } else { "A" };
            let k_conformers = rng.below(p.conformers().count().max(1));
            if let Some(c) = p.conformers_mut().nth(k_conformers) {
                c.set_alternative_location(al);
            }
        }
        6 => {
            label = "modification";
            let (nm, cm) = match side {
                1 => ("ABCD".to_string(), "x".repeat(41)),
                3 => ("ABC".to_string(), "x".repeat(42)),
                // both at once: one diagnostic for each
                0 => ("ABCD".to_string(), "x".repeat(48)),
                _ => ("ABC".to_string(), "x".repeat(41)),
            };
            let k_conformers = rng.below(p.conformers().count().max(1));
            if let Some(c) = p.conformers_mut().nth(k_conformers) {
                let _ = c.set_modification((nm, cm));
            }
        }
        7 => {
            label = "atom-name-length";
            let nm = if side == 1 { "ABCDE" } else { "ABCD" };
            let k_atoms = rng.below(p.atoms().count().max(1));
            if let Some(a) = p.atoms_mut().nth(k_atoms) {
                let _ = a.set_name(nm);
            }
        }
        8 => {
            label = "atom-serial";
            let v = pick_i(0, 99999).max(0) as usize;
            let k_atoms = rng.below(p.atoms().count().max(1));
            if let Some(a) = p.atoms_mut().nth(k_atoms) {
                a.set_serial_number(v);
            }
        }
        9 => {
            label = "charge";
            let v = pick_i(-9, 9);
            let k_atoms = rng.below(p.atoms().count().max(1));
            if let Some(a) = p.atoms_mut().nth(k_atoms) {
                a.set_charge(v);
            }
        }
        10 | 11 => {
            // occupancy and B factor: the setters refuse negative values, the constructor does not
            label = if which == 10 { "occupancy" } else { "b-factor" };
            let v = pick_f(-99.99, 999.99);
            let (occ, bf) = if which == 10 { (v, 1.0) } else { (1.0, v) };
            let a = Atom::new(false, 1, "", "CA", 1.0, 2.0, 3.0, occ, bf, "C", 0).expect("atom");
            let mut m = Model::new(1);
            m.add_atom(a, "A", (1, None), ("ALA", None));
            p = PDB::new();
            p.add_model(m);
        }
        _ => {
            label = "coordinate";
            let v = pick_f(-999.999, 9999.999);
            let axis = which % 3;
            let k_atoms = rng.below(p.atoms().count().max(1));
            if let Some(a) = p.atoms_mut().nth(k_atoms) {
                let _ = match axis {
                    0 => a.set_x(v),
                    1 => a.set_y(v),
                    _ => a.set_z(v),
                };
            }
        }
    }
    (p, format!("{label}:{}", ["at-max", "above-max", "at-min", "below-min", "inside"][side]))
}

pub fn run(seed: u64, count: usize, _thorough: bool, out: &mut Out) {
    let mut rng = Rng::new(seed);
    let tbl = float_table();
    let full = |p: &PDB| snap::pdb(p, &snap::atom);
    // 1. every validated field at, inside and outside both ends of its range
    // (several structures for each: the value sits at a random place, sometimes at several)
    for which in (0..15).flat_map(|w| std::iter::repeat(w).take(6)) {
        for side in 0..5 {
            let (p, label) = boundary_structure(&mut rng, which, side);
            let psx = full(&p);
            out.case("C18", call("validate_pdb", vec![tbl.clone(), psx.clone()]), diags(&validate_pdb(&p)), "prop:validate_pdb", true);
            out.case("C18gen", call("validate_pdb", vec![psx]), diags(&validate_pdb(&p)), "corr:translator-T4", true);
            out.count(&format!("boundary:{label}"));
        }
    }
    // 2. models with equal and different shapes, single-field differences
    for i in 0..count {
        let sh = gen::Shape { max_models: 3, same_shape_models: i % 3 != 0, atf: true, ..Default::default() };
        let mut p = gen::structure(&mut rng, &sh);
        let mut label = "as-generated";
        if p.model_count() > 1 {
            let n_atoms = p.model(1).map_or(0, |m| m.atom_count());
            let k = if n_atoms > 0 { rng.below(n_atoms) } else { 0 };
            let choice = rng.below(9);
            if let Some(a) = p.model_mut(1).and_then(|m| m.atom_mut(k)) {
                match choice {
                    0 => {
                        a.set_serial_number(a.serial_number() + 7);
                        label = "diff-serial";
                    }
                    1 => {
                        let _ = a.set_name("QQ");
                        label = "diff-name";
                    }
                    2 => {
                        a.set_element(Element::Se);
                        label = "diff-element";
                    }
                    3 => {
                        // charges that differ, inside the columns' range or outside it on one side or on both
                        // (two charges no file can hold are still two different charges)
                        let other = match rng.below(4) {
                            0 => a.charge() + 1,
                            1 => a.charge() + 12,
                            2 => -10 - a.charge().abs(),
                            _ => 10 + a.charge().abs(),
                        };
                        a.set_charge(other);
                        label = "diff-charge";
                    }
                    4 => {
                        if a.anisotropic_temperature_factors().is_none() {
                            a.set_anisotropic_temperature_factors([[0.1; 3]; 3]);
                            label = "diff-tensor-presence";
                        }
                    }
                    5 => {
                        let _ = a.set_x(a.x() + 1.0);
                        let _ = a.set_b_factor(a.b_factor() + 1.0);
                        label = "diff-position-only";
                    }
                    6 => {
                        a.set_hetero(!a.hetero());
                        label = "diff-hetero";
                    }
                    _ => {}
                }
            }
            if choice == 7 {
                // a tensor on both sides with other values: the atoms still correspond
                if let Some(a) = p.model_mut(1).and_then(|m| m.atoms_mut().find(|a| a.anisotropic_temperature_factors().is_some())) {
                    a.set_anisotropic_temperature_factors([[0.3, 0.1, 0.2], [0.1, 0.4, 0.05], [0.2, 0.05, 0.5]]);
                    label = "diff-tensor-values-only";
                }
            }
            if choice == 8 {
                if let Some(m) = p.model_mut(1) {
                    m.remove_atoms_by(|a| a.serial_number() == 1);
                    label = "diff-count";
                }
            }
        }
        if i % 17 == 0 {
            p = PDB::new();
            label = "empty";
        }
        if i % 19 == 0 {
            p.remove_atoms_by(|_| true);
            label = "no-atoms-with-containers";
        }
        if i % 23 == 0 && p.model_count() > 1 {
            // one model emptied: the first, or a later one (the structure still has atoms)
            let which = if i % 2 == 0 { 0 } else { p.model_count() - 1 };
            if let Some(m) = p.model_mut(which) {
                m.remove_atoms_by(|_| true);
                if i % 4 < 2 {
                    m.remove_empty();
                }
            }
            label = if which == 0 { "first-model-empty" } else { "last-model-empty" };
        }
        let psx = full(&p);
        out.case("C18", call("validate", vec![psx.clone()]), diags(&validate(&p)), "prop:validate", true);
        out.case("C18", call("validate_pdb", vec![tbl.clone(), psx]), diags(&validate_pdb(&p)), "prop:validate_pdb", true);
        out.count(&format!("models:{label}"));
    }
}
