//! C01: PDB reading recovers what the records state.
use crate::out::Out;
use crate::pdbgen::{self, Cfg, Rec};
use crate::rng::Rng;
use crate::snap;
use crate::sx::*;
use pdbtbx::*;

fn fl(v: &[f64]) -> Sx {
    l(v.iter().map(|x| f(*x)).collect())
}
fn mat(t: &TransformationMatrix) -> Sx {
    l(t.matrix().iter().flat_map(|r| r.iter().map(|v| f(*v))).collect())
}
fn seqpos(p: &SequencePosition) -> Sx {
    l(vec![z(p.start as i128), opt(p.start_insert.as_deref(), s), z(p.end as i128), opt(p.end_insert.as_deref(), s)])
}
pub fn meta(p: &PDB) -> Vec<Sx> {
    vec![
        opt(p.identifier.as_deref(), s),
        l(p.remarks().map(|(n, t)| l(vec![z(*n as i128), s(t)])).collect()),
        opt(p.unit_cell.as_ref(), |c| fl(&[c.a(), c.b(), c.c(), c.alpha(), c.beta(), c.gamma()])),
        opt(p.symmetry.as_ref(), |y2| z(y2.index() as i128)),
        opt(p.scale.as_ref(), mat),
        opt(p.origx.as_ref(), mat),
        l(p.mtrix().map(|m| l(vec![z(m.serial_number as i128), mat(&m.transformation), b(m.contained)])).collect()),
    ]
}
pub fn dbrefs(p: &PDB) -> Sx {
    let mut dbs = Vec::new();
    for (mi, m) in p.models().enumerate() {
        for (ci, c) in m.chains().enumerate() {
            if let Some(d) = c.database_reference() {
                dbs.push(l(vec![
                    z(mi as i128),
                    z(ci as i128),
                    l(vec![
                        s(&d.database.name),
                        s(&d.database.acc),
                        s(&d.database.id),
                        seqpos(&d.pdb_position),
                        seqpos(&d.database_position),
                        l(d.differences
                            .iter()
                            .map(|x| {
                                l(vec![
                                    s(&x.residue.0),
                                    z(x.residue.1 as i128),
                                    opt(x.residue.2.as_deref(), s),
                                    opt(x.database_residue.as_ref(), |r| l(vec![s(&r.0), z(r.1 as i128)])),
                                    s(&x.comment),
                                ])
                            })
                            .collect()),
                    ]),
                ]));
            }
        }
    }
    l(dbs)
}
pub fn file(p: &PDB) -> Sx {
    let mut v = meta(p);
    v.push(snap::pdb(p, &snap::atom));
    v.push(dbrefs(p));
    let atoms: Vec<&Atom> = p.atoms().collect();
    let idx = |a: &Atom| atoms.iter().position(|x| std::ptr::eq(*x, a)).map_or(-1, |k| k as i128);
    v.push(l(p.bonds().map(|(a, c, _)| l(vec![z(idx(a)), z(idx(c))])).collect()));
    l(v)
}
pub fn diags(errs: &[PDBError]) -> Sx {
    diags_lines(errs, true)
}
/// diagnostics as sorted (level, short description, line) triples; the mmCIF model carries no line numbers
pub fn diags_lines(errs: &[PDBError], with_lines: bool) -> Sx {
    let mut ds: Vec<(i128, Vec<u8>, i128)> = errs
        .iter()
        .map(|e| {
            let line = match e.context() {
                Context::Line { linenumber, .. } | Context::FullLine { linenumber, .. } if with_lines => *linenumber as i128,
                _ => 0,
            };
            (line, e.short_description().as_bytes().to_vec(), snap::level(e.level()))
        })
        .collect();
    ds.sort();
    l(ds.into_iter().map(|(ln, sh, lv)| l(vec![z(lv), Sx::S(sh), z(ln)])).collect())
}
pub fn read_obs(text: &[u8], opts: usize, level: usize) -> (Sx, Option<PDB>) {
    read_obs_format(text, Format::Pdb, opts, level)
}
pub fn read_obs_format(text: &[u8], format: Format, opts: usize, level: usize) -> (Sx, Option<PDB>) {
    let with_lines = matches!(format, Format::Pdb);
    let r = crate::guarded(|| {
        ReadOptions::default()
            .set_format(format)
            .set_level(snap::strictness(level))
            .set_discard_hydrogens(opts & 1 != 0)
            .set_only_first_model(opts & 2 != 0)
            .set_only_atomic_coords(opts & 4 != 0)
            .read_raw(std::io::BufReader::new(text))
    });
    match r {
        None => (y("panic"), None),
        Some(Ok((p, e))) => (l(vec![y("ok"), file(&p), diags_lines(&e, with_lines)]), Some(p)),
        Some(Err(e)) => (l(vec![y("err"), diags_lines(&e, with_lines)]), None),
    }
}

pub fn run(seed: u64, count: usize, _thorough: bool, out: &mut Out) {
    let mut rng = Rng::new(seed);
    for i in 0..count {
        let cfg = Cfg { metadata: i % 2 == 0, wraps: i % 5 == 0, blank_chains: true, annotations: i % 5 != 0 };
        let recs = pdbgen::records(&mut rng, &cfg);
        let text = pdbgen::text(&mut rng, &recs);
        let n_atoms = recs.iter().filter(|r| matches!(r, Rec::Atom(_))).count();
        for level in [2usize, 1, 0] {
            let (obs, pdb) = read_obs(text.as_bytes(), 0, level);
            out.case("C01", call("read", vec![z(0), z(level as i128), s(&text)]), obs, "corr:reader-model", n_atoms > 1);
            if level == 2 {
                // a well-formed file is accepted at the loose level
                out.case("C01", call("accept", vec![z(i as i128)]), y(if pdb.is_some() { "accepted" } else { "rejected" }), "prop:accepted", true);
            }
            if let Some(p) = pdb {
                // the property: the structure and metadata are what the records state
                let mut v = meta(&p);
                v.push(snap::pdb(&p, &snap::atom));
                v.push(dbrefs(&p));
                out.case("C01", call("denote", vec![l(recs.iter().map(pdbgen::rec_sx).collect())]), l(v), "prop:records", n_atoms > 1);
                out.count(&format!("accepted-level{level}"));
            } else {
                out.count(&format!("rejected-level{level}"));
            }
        }
        // single-field corruption of one atom line: the read never succeeds with a made-up value
        let lines: Vec<&str> = text.lines().collect();
        let atom_lines: Vec<usize> = lines.iter().enumerate().filter(|(_, l)| l.starts_with("ATOM") || l.starts_with("HETATM")).map(|(k, _)| k).collect();
        if !atom_lines.is_empty() {
            for _ in 0..3 {
                let k = atom_lines[rng.below(atom_lines.len())];
                let (a, b2, name) = *rng.pick(&[(6usize, 11usize, "serial"), (22, 26, "resnum"), (30, 38, "x"), (38, 46, "y"), (46, 54, "z"), (54, 60, "occupancy"), (60, 66, "bfactor")]);
                let mut ls: Vec<String> = lines.iter().map(|x| x.to_string()).collect();
                let how = rng.below(3);
                let label = match how {
                    0 => {
                        ls[k].replace_range(a..b2, &" ".repeat(b2 - a));
                        "blank"
                    }
                    1 => {
                        let g = *rng.pick(&["x", "1.2.3", "--1", "1e", "0x10", "1,5"]);
                        ls[k].replace_range(a..b2, &format!("{g:>w$}", w = b2 - a));
                        "garbage"
                    }
                    _ => {
                        // at least seven characters stay, so that the line is still an ATOM / HETATM record
                        ls[k].truncate((a + rng.below(b2 - a)).max(7));
                        "truncated"
                    }
                };
                let t2 = ls.join("\n") + "\n";
                for level in [2usize, 0] {
                    let (obs, pdb) = read_obs(t2.as_bytes(), 0, level);
                    out.case("C01", call("read", vec![z(0), z(level as i128), s(&t2)]), obs, "corr:reader-model-corrupt", true);
                    out.case("C01", call("corrupt", vec![y(name), y(label), z(level as i128), z(out.len() as i128)]), y(if pdb.is_some() { "accepted" } else { "rejected" }), "prop:no-made-up-value", true);
                    out.count(&format!("corrupt:{name}:{label}"));
                }
            }
        }
    }
}
