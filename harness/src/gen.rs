//! Generators of in-memory structures through the public API only.
use crate::rng::Rng;
use pdbtbx::*;

pub const ATOM_NAMES: &[&str] = &["N", "CA", "C", "O", "CB", "CG", "OXT", "H", "HA", "SG", "ZN", "FE", "OD1", "X1"];
pub const RES_NAMES: &[&str] = &["ALA", "GLY", "CYS", "HOH", "MSE", "SER", "LIG", "VAL"];
pub const ICODES: &[Option<&str>] = &[None, Some("A"), Some("B"), Some("C")];
pub const CHAIN_IDS: &[&str] = &["A", "B", "C", "a", "X", "1"];

#[derive(Clone)]
pub struct Shape {
    pub max_models: usize,
    pub max_chains: usize,
    pub max_residues: usize,
    pub max_altlocs: usize,
    pub max_atoms: usize,
    pub same_shape_models: bool,
    pub hetero: bool,
    pub icodes: bool,
    pub negative_numbers: bool,
    pub elements_known: bool,
    pub grid8: bool,
    pub atf: bool,
}

impl Default for Shape {
    fn default() -> Self {
        Shape {
            max_models: 2,
            max_chains: 3,
            max_residues: 4,
            max_altlocs: 2,
            max_atoms: 4,
            same_shape_models: true,
            hetero: true,
            icodes: true,
            negative_numbers: true,
            elements_known: false,
            grid8: true,
            atf: false,
        }
    }
}

/// coordinate on the 1/8 grid inside the PDB columns
pub fn coord(rng: &mut Rng) -> f64 {
    (rng.range(-4000, 4000) as f64) / 8.0
}

pub fn atom(rng: &mut Rng, serial: usize, sh: &Shape) -> Atom {
    let name = *rng.pick(if sh.elements_known { &ATOM_NAMES[..13] } else { ATOM_NAMES });
    let occ = (rng.range(0, 8) as f64) / 8.0;
    let bf = (rng.range(0, 800) as f64) / 8.0;
    let mut a = Atom::new(
        sh.hetero && rng.chance(1, 5),
        serial,
        format!("{serial}"),
        name,
        coord(rng),
        coord(rng),
        coord(rng),
        occ,
        bf,
        "",
        if rng.chance(1, 6) { rng.range(-2, 2) as isize } else { 0 },
    )
    .expect("generated atom is valid");
    if sh.atf && rng.chance(1, 3) {
        let mut t = [[0.0; 3]; 3];
        for r in t.iter_mut() {
            for v in r.iter_mut() {
                *v = (rng.range(-4000, 4000) as f64) / 10000.0;
            }
        }
        a.set_anisotropic_temperature_factors(t);
    }
    a
}

/// A random structure built with `Model::add_atom` in nested order (no interleaving), so that the shape is what
/// the loops say.  Serial numbers count from 1 per model.
pub fn structure(rng: &mut Rng, sh: &Shape) -> PDB {
    let mut pdb = PDB::new();
    let n_models = 1 + rng.below(sh.max_models);
    let shape_rng = rng.fork();
    for mi in 0..n_models {
        let mut r = if sh.same_shape_models { shape_rng.clone() } else { rng.fork() };
        let mut model = Model::new(mi + 1);
        let mut serial = 1;
        let n_chains = 1 + r.below(sh.max_chains);
        for ci in 0..n_chains {
            let chain_id = CHAIN_IDS[ci % CHAIN_IDS.len()];
            let n_res = 1 + r.below(sh.max_residues);
            let mut num: isize = if sh.negative_numbers && r.chance(1, 4) { -(r.below(5) as isize) } else { 1 + r.below(20) as isize };
            // the insertion code of the residue before, as an index into ICODES (0 = none)
            let mut prev_ic: Option<usize> = None;
            let mut prev_num: isize = 0;
            for _ in 0..n_res {
                // sometimes the number of the residue before is kept and only the insertion code moves on (52, 52A, 52B)
                let ic_index = match prev_ic {
                    Some(k) if sh.icodes && k + 1 < ICODES.len() && r.chance(1, 5) => {
                        num = prev_num;
                        k + 1
                    }
                    _ => {
                        if sh.icodes && r.chance(1, 6) {
                            1
                        } else {
                            0
                        }
                    }
                };
                prev_ic = Some(ic_index);
                prev_num = num;
                let icode = ICODES[ic_index];
                let rname = *r.pick(RES_NAMES);
                let n_alt = if r.chance(1, 4) { 1 + r.below(sh.max_altlocs) } else { 0 };
                let n_atoms = 1 + r.below(sh.max_atoms);
                if n_alt == 0 {
                    for _ in 0..n_atoms {
                        model.add_atom(atom(&mut r, serial, sh), chain_id, (num, icode), (rname, None));
                        serial += 1;
                    }
                } else {
                    for ai in 0..n_alt {
                        let alt = ["A", "B", "C"][ai % 3];
                        for _ in 0..n_atoms {
                            model.add_atom(atom(&mut r, serial, sh), chain_id, (num, icode), (rname, Some(alt)));
                            serial += 1;
                        }
                    }
                }
                num += 1 + r.below(2) as isize;
            }
        }
        pdb.add_model(model);
    }
    pdb
}

/// Arbitrary shapes: any number of children per level (possibly none), duplicate and unordered identifiers,
/// random serial numbers.  Built with add_chain / add_residue / add_conformer / Conformer::add_atom.
pub struct Ragged {
    pub allow_empty: bool,
    pub max_models: usize,
    pub max_children: usize,
    pub max_atoms: usize,
    pub serial_range: i64,
}
impl Default for Ragged {
    fn default() -> Self {
        Ragged { allow_empty: true, max_models: 3, max_children: 3, max_atoms: 3, serial_range: 12 }
    }
}
fn n_children(rng: &mut Rng, allow_empty: bool, max: usize) -> usize {
    if allow_empty {
        rng.below(max + 1)
    } else {
        1 + rng.below(max)
    }
}
pub fn short_atom(rng: &mut Rng, serial: usize) -> Atom {
    let name = *rng.pick(&["CA", "N", "C", "O", "CB", "H", "ZN"]);
    Atom::new(rng.chance(1, 6), serial, "", name, 0.0, 0.0, 0.0, 1.0, 0.0, "", 0).expect("atom")
}
pub fn ragged(rng: &mut Rng, cfg: &Ragged) -> PDB {
    let mut pdb = PDB::new();
    let nm = n_children(rng, cfg.allow_empty, cfg.max_models);
    for _ in 0..nm {
        let mut model = Model::new(rng.below(4));
        for _ in 0..n_children(rng, cfg.allow_empty, cfg.max_children) {
            let mut chain = Chain::new(*rng.pick(&["A", "B", "C", "a", "AB", "Z"])).expect("chain");
            for _ in 0..n_children(rng, cfg.allow_empty, cfg.max_children) {
                let ic = *rng.pick(&[None, None, Some("A"), Some("B")]);
                let mut residue = Residue::new(rng.range(-2, 5) as isize, ic, None).expect("residue");
                for _ in 0..n_children(rng, cfg.allow_empty, cfg.max_children) {
                    let alt = *rng.pick(&[None, None, Some("A"), Some("B"), Some("AA")]);
                    let mut conf = Conformer::new(*rng.pick(&["ALA", "GLY", "AL", "HOH"]), alt, None).expect("conformer");
                    for _ in 0..n_children(rng, cfg.allow_empty, cfg.max_atoms) {
                        let serial = rng.range(0, cfg.serial_range) as usize;
                        conf.add_atom(short_atom(rng, serial));
                    }
                    residue.add_conformer(conf);
                }
                chain.add_residue(residue);
            }
            model.add_chain(chain);
        }
        pdb.add_model(model);
    }
    pdb
}
