//! Grammar-directed writer of mmCIF text: an abstract document (what the items state), rendered in an arbitrary legal
//! layout - any order of the atom_site columns, optional columns present or not, foreign columns, every spelling of a value
//! (bare word, single / double quoted, text field; sign, decimal and exponent forms of numbers), arbitrary white space,
//! comments and line breaks, foreign items, loops, text fields and save frames anywhere - and the s-expression form of the
//! document for the Coq specification.
use crate::rng::Rng;
use crate::sx::*;

#[derive(Clone, Debug)]
pub struct Row {
    pub het: bool,
    pub id: String,
    pub ty: String,
    pub name: String,
    pub alt: Option<String>,
    pub comp: String,
    pub lasym: String,
    pub aasym: Option<String>,
    pub lseq: Option<i64>,
    pub aseq: Option<i64>,
    pub ins: Option<String>,
    pub x: String,
    pub y: String,
    pub z: String,
    pub occ: Option<String>,
    pub b: Option<String>,
    pub charge: Option<i64>,
    pub model: Option<usize>,
    pub aniso: Option<Vec<String>>,
}
#[derive(Clone, Debug, Default)]
pub struct Columns {
    pub group: bool,
    pub alt: bool,
    pub aasym: bool,
    pub aseq: bool,
    pub ins: bool,
    pub occ: bool,
    pub b: bool,
    pub charge: bool,
    pub model: bool,
    pub aniso: bool,
}
#[derive(Clone, Debug)]
pub struct Doc {
    pub name: String,
    pub cell: Option<Vec<String>>,
    pub sym_index: Option<usize>,
    pub sym_name: Option<String>,
    pub sym_hall: bool,
    pub scale: Option<Vec<Option<String>>>,
    pub origx: Option<Vec<Option<String>>>,
    pub ncs: Vec<(usize, Option<bool>, Vec<Option<String>>)>,
    pub cols: Columns,
    pub rows: Vec<Row>,
    /// (row, column tag, token): write this token instead of the spelling of the row's value
    pub force: Vec<(usize, String, String)>,
}

// ---------- values ----------
/// a decimal token for a number of realistic magnitude, in one of the legal spellings
pub fn number(rng: &mut Rng, max_int: i64, decimals: usize, allow_neg: bool) -> String {
    let neg = allow_neg && rng.chance(1, 3);
    let ip = rng.range(0, max_int);
    let nd = if rng.chance(1, 5) { rng.below(decimals + 1) } else { decimals };
    let frac: String = (0..nd).map(|_| char::from(b'0' + rng.below(10) as u8)).collect();
    let sign = if neg {
        "-"
    } else if rng.chance(1, 12) {
        "+"
    } else {
        ""
    };
    match rng.below(12) {
        0 if !frac.is_empty() => {
            // exponent form: the digits with the point moved
            let e = rng.range(-3, 3);
            format!("{sign}{ip}.{frac}{}{}", if rng.chance(1, 2) { "e" } else { "E" }, if e >= 0 && rng.chance(1, 2) { format!("+{e}") } else { e.to_string() })
        }
        1 => format!("{sign}{ip}."),
        2 if ip == 0 && !frac.is_empty() => format!("{sign}.{frac}"),
        3 => format!("{sign}{ip}e0"),
        _ if frac.is_empty() => format!("{sign}{ip}"),
        _ => format!("{sign}{ip}.{frac}"),
    }
}
fn positive_number(rng: &mut Rng, max_int: i64, decimals: usize) -> String {
    // a plain decimal above zero (no exponent, so that an angle stays an angle)
    let ip = rng.range(1, max_int);
    let nd = rng.below(decimals + 1);
    let frac: String = (0..nd).map(|_| char::from(b'0' + rng.below(10) as u8)).collect();
    match rng.below(6) {
        0 => format!("+{ip}.{frac}"),
        1 => format!("{ip}."),
        _ if frac.is_empty() => format!("{ip}"),
        _ => format!("{ip}.{frac}"),
    }
}
const NAMES: &[&str] = &["N", "CA", "C", "O", "CB", "CG", "OG1", "SD", "H", "HA", "O5'", "C1'", "N'", "ZN", "FE", "CL", "1HB", "HO2'", "X1", "OXT", "HG", "H2", "H3", "HO1"];
const ELEMENTS: &[&str] = &["N", "C", "C", "O", "C", "C", "O", "S", "H", "H", "O", "C", "N", "ZN", "FE", "CL", "H", "H", "", "O", "HG", "h", "X", "HO"];
const COMPS: &[&str] = &["ALA", "GLY", "CYS", "HOH", "ZN", "MSE", "A", "DG", "NAG", "HEM", "ala", "Ser"];
const CHAINS: &[&str] = &["A", "B", "C", "AA", "a", "X1", "H2", "Long", "Z"];

fn structure(rng: &mut Rng, cols: &Columns) -> Vec<Row> {
    let n_models = if cols.model { 1 + rng.below(3) } else { 1 };
    let same_models = rng.chance(2, 3);
    let n_chains = 1 + rng.below(3);
    // one template of chains / residues / atoms, repeated (or varied) per model
    let mut template: Vec<Row> = Vec::new();
    let mut next_id = 1 + rng.below(50);
    let numeric_chain = rng.chance(1, 10);
    for ci in 0..n_chains {
        let lasym = CHAINS[ci % CHAINS.len()].to_string();
        let aasym = if cols.aasym {
            if rng.chance(1, 8) {
                None
            } else if numeric_chain {
                Some(format!("{}", ci + 1))
            } else {
                Some(CHAINS[(ci + 3) % CHAINS.len()].to_string())
            }
        } else {
            None
        };
        let n_res = 1 + rng.below(4);
        let mut resnum = rng.range(-3, 40);
        for ri in 0..n_res {
            resnum += rng.range(0, 2);
            let ins = if cols.ins && rng.chance(1, 4) { Some(char::from(b'A' + (ri as u8 % 26)).to_string()) } else { None };
            if ins.is_none() && ri > 0 {
                resnum += 1;
            }
            let comp = rng.pick(COMPS).to_string();
            let het = matches!(comp.as_str(), "HOH" | "ZN" | "NAG" | "HEM");
            // label_seq_id is '.' for hetero groups as in deposited files (then the author number is there)
            let lseq = if cols.aseq && (het || rng.chance(1, 6)) { None } else { Some(ri as i64 + 1) };
            // the author number, when the column is there; now and then a row leaves it out ('.' / '?') and the label number counts
            let aseq = if cols.aseq && !(!het && rng.chance(1, 5)) { Some(resnum) } else { None };
            let lseq = if aseq.is_none() { Some(resnum) } else { lseq };
            let alts: Vec<Option<String>> = if cols.alt && rng.chance(1, 3) {
                vec![None, Some("A".into()), Some("B".into())]
            } else if cols.alt && rng.chance(1, 6) {
                vec![Some("A".into()), Some("b".into())]
            } else {
                vec![None]
            };
            let n_atoms = 1 + rng.below(4);
            for ai in 0..n_atoms {
                let k = rng.below(NAMES.len());
                let these: Vec<Option<String>> = if ai == 0 { vec![alts[0].clone()] } else { alts.clone() };
                for alt in these {
                    let aniso = if cols.aniso && rng.chance(1, 2) { Some((0..9).map(|_| number(rng, 0, 4, true)).collect()) } else { None };
                    template.push(Row {
                        het,
                        id: next_id.to_string(),
                        ty: ELEMENTS[k].to_string(),
                        name: NAMES[k].to_string(),
                        alt,
                        comp: comp.clone(),
                        lasym: lasym.clone(),
                        aasym: aasym.clone(),
                        lseq,
                        aseq,
                        ins: ins.clone(),
                        x: number(rng, 99, 3, true),
                        y: number(rng, 99, 3, true),
                        z: number(rng, 999, 3, true),
                        occ: if cols.occ && !rng.chance(1, 10) { Some(number(rng, 0, 2, false)) } else { None },
                        b: if cols.b && !rng.chance(1, 10) { Some(number(rng, 99, 2, false)) } else { None },
                        charge: if cols.charge && rng.chance(1, 3) { Some(rng.range(-2, 2)) } else { None },
                        model: None,
                        aniso,
                    });
                    next_id += 1 + rng.below(2);
                }
            }
        }
    }
    // the element column may be '?'-less: type_symbol is mandatory, an empty element is spelled through the name
    for r in &mut template {
        if r.ty.is_empty() {
            r.ty = "X".into();
        }
    }
    let mut rows = Vec::new();
    let first_model = 1 + rng.below(3);
    let step = 1 + rng.below(2);
    for m in 0..n_models {
        let mut part = template.clone();
        if !same_models && m > 0 && part.len() > 1 {
            part.truncate(1 + rng.below(part.len() - 1));
        }
        for r in &mut part {
            r.model = if cols.model { Some(first_model + m * step) } else { None };
            if m > 0 {
                r.id = (r.id.parse::<usize>().unwrap_or(0) + m * 1000).to_string();
                r.x = number(rng, 99, 3, true);
            }
        }
        rows.extend(part);
    }
    rows
}

fn matrix(rng: &mut Rng, full: bool) -> Vec<Option<String>> {
    (0..12).map(|_| if full || rng.chance(3, 4) { Some(number(rng, 1, 6, true)) } else { None }).collect()
}

pub fn document(rng: &mut Rng) -> Doc {
    let cols = Columns {
        group: rng.chance(4, 5),
        alt: rng.chance(3, 4),
        aasym: rng.chance(3, 4),
        aseq: rng.chance(3, 4),
        ins: rng.chance(2, 3),
        occ: rng.chance(4, 5),
        b: rng.chance(4, 5),
        charge: rng.chance(1, 2),
        model: rng.chance(2, 3),
        aniso: rng.chance(1, 3),
    };
    let mut rows = structure(rng, &cols);
    if !cols.group {
        for r in &mut rows {
            r.het = false;
        }
    }
    // now and then the rows of the models are not grouped but taken in turn (1, 2, 1, 2, ...): a row belongs to the model it names
    if cols.model && rng.chance(1, 6) {
        let mut groups: Vec<(Option<usize>, std::collections::VecDeque<Row>)> = Vec::new();
        for r in rows.drain(..) {
            match groups.iter_mut().find(|g| g.0 == r.model) {
                Some(g) => g.1.push_back(r),
                None => groups.push((r.model, std::collections::VecDeque::from(vec![r]))),
            }
        }
        while groups.iter().any(|g| !g.1.is_empty()) {
            for g in groups.iter_mut() {
                if let Some(r) = g.1.pop_front() {
                    rows.push(r);
                }
            }
        }
    }
    let meta = rng.chance(2, 3);
    let sym = if meta && rng.chance(3, 4) { Some(1 + rng.below(230)) } else { None };
    let sym_hall = rng.chance(1, 4);
    let sym_name = sym.and_then(pdbtbx::Symmetry::from_index).map(|s| if sym_hall { s.hall_symbol().trim().to_string() } else { s.herman_mauguin_symbol().to_string() });
    let (sym_index, sym_name) = match rng.below(3) {
        0 => (sym, None),
        1 => (None, sym_name),
        _ => (sym, sym_name),
    };
    let n_ncs = if meta { rng.below(3) } else { 0 };
    Doc {
        name: (*rng.pick(&["1ABC", "x", "TEST_01", "7xyz", "4HHB"])).to_string(),
        cell: if meta && rng.chance(3, 4) {
            Some(vec![
                positive_number(rng, 200, 3),
                positive_number(rng, 200, 3),
                positive_number(rng, 200, 3),
                positive_number(rng, 178, 2),
                positive_number(rng, 178, 2),
                positive_number(rng, 178, 2),
            ])
        } else {
            None
        },
        sym_index,
        sym_name,
        sym_hall,
        scale: if meta && rng.chance(1, 2) {
            let full = rng.chance(1, 2);
            Some(matrix(rng, full))
        } else {
            None
        },
        origx: if meta && rng.chance(1, 2) {
            let full = rng.chance(1, 2);
            Some(matrix(rng, full))
        } else {
            None
        },
        ncs: (0..n_ncs)
            .map(|k| {
                let full = rng.chance(1, 2);
                (k * 3 + 1 + rng.below(3), if rng.chance(1, 4) { None } else { Some(rng.chance(1, 2)) }, matrix(rng, full))
            })
            .collect(),
        cols,
        rows,
        force: Vec::new(),
    }
}

// ---------- rendering ----------
#[derive(Clone, Copy, PartialEq, Eq, Debug)]
pub enum Spelling {
    Any,
    BareOnly,
    /// numeric-looking identifiers may be written bare (the reader re-spells them: known finding)
    BareNumeric,
}
fn reserved(t: &str) -> bool {
    let l = t.to_ascii_lowercase();
    ["data_", "loop_", "save_", "global_", "stop_"].iter().any(|p| l.starts_with(p))
}
fn looks_numeric(t: &str) -> bool {
    // the shape the lexer takes for a number: sign, digits, point, digits, exponent, (uncertainty)
    let b = t.as_bytes();
    let mut i = 0;
    if i < b.len() && (b[i] == b'+' || b[i] == b'-') {
        i += 1;
    }
    let d0 = i;
    while i < b.len() && b[i].is_ascii_digit() {
        i += 1;
    }
    let mut digits = i - d0;
    if i < b.len() && b[i] == b'.' {
        i += 1;
        let f0 = i;
        while i < b.len() && b[i].is_ascii_digit() {
            i += 1;
        }
        digits += i - f0;
    }
    if digits == 0 {
        return false;
    }
    if i < b.len() && (b[i] == b'e' || b[i] == b'E') {
        i += 1;
        if i == b.len() {
            return false;
        }
        if b[i] == b'+' || b[i] == b'-' {
            i += 1;
        }
        while i < b.len() && b[i].is_ascii_digit() {
            i += 1;
        }
    }
    if i < b.len() && b[i] == b'(' {
        i += 1;
        while i < b.len() && b[i].is_ascii_digit() {
            i += 1;
        }
        if i < b.len() && b[i] == b')' {
            i += 1;
        } else {
            return false;
        }
    }
    i == b.len()
}
fn bare_ok(t: &str, allow_numeric: bool) -> bool {
    let first = match t.chars().next() {
        Some(c) => c,
        None => return false,
    };
    !t.chars().any(|c| c.is_ascii_whitespace() || !c.is_ascii_graphic())
        && !matches!(first, '#' | '$' | '\'' | '"' | '_' | '[' | ']' | ';' | '.' | '?')
        && !reserved(t)
        && (allow_numeric || !looks_numeric(t))
}
/// white space between two tokens; `eol` asks for a layout that ends at the start of a line
pub fn ws(rng: &mut Rng, eol: bool) -> String {
    let nl = |rng: &mut Rng| (*rng.pick(&["\n", "\n", "\r\n", "\n\n", " \n", "\t\n"])).to_string();
    let s = match rng.below(12) {
        0 => "  ".to_string(),
        1 => "\t".to_string(),
        2 => nl(rng),
        3 => format!(" # {}{}", rng.pick(&["a comment", "loop_", "'quote", "_tag.x 1", ";", "data_y"]), nl(rng)),
        4 => format!("{}#{}{}", nl(rng), rng.pick(&["", " whole line comment", "#", " ; "]), nl(rng)),
        5 => "   \t ".to_string(),
        _ => " ".to_string(),
    };
    if eol && !(s.ends_with('\n')) {
        format!("{s}{}", nl(rng))
    } else {
        s
    }
}
/// one textual value in a legal spelling; returns the token and whether it has to start at the beginning of a line
pub fn spell_text(rng: &mut Rng, t: &str, how: Spelling) -> (String, bool) {
    let can_bare = bare_ok(t, how == Spelling::BareNumeric);
    let can_single = !t.contains('\'') && !t.contains('\n') && !t.contains('\r');
    let can_double = !t.contains('"') && !t.contains('\n') && !t.contains('\r');
    let pick = if how != Spelling::Any && can_bare { 0 } else { rng.below(10) };
    let pad = |rng: &mut Rng, t: &str| if rng.chance(1, 6) { format!(" {t} ") } else { t.to_string() };
    match pick {
        0..=5 if can_bare => (t.to_string(), false),
        6 | 0..=2 if can_single => (format!("'{}'", pad(rng, t)), false),
        7 | 3..=5 if can_double => (format!("\"{}\"", pad(rng, t)), false),
        8 if can_single => (format!("'{}'", pad(rng, t)), false),
        // a text field, closed after any of the three line ends
        _ if !t.contains("\n;") && !t.contains("\r;") => (format!(";{t}{};", *rng.pick(&["\n", "\n", "\r\n", "\r"])), true),
        _ => (format!("'{t}'"), false),
    }
}
fn opt_text(rng: &mut Rng, v: Option<&str>, how: Spelling) -> (String, bool) {
    match v {
        Some(t) => spell_text(rng, t, how),
        None => ((*rng.pick(&[".", "?"])).to_string(), false),
    }
}
fn opt_num(rng: &mut Rng, v: Option<String>) -> (String, bool) {
    match v {
        Some(t) => (t, false),
        None => ((*rng.pick(&[".", "?"])).to_string(), false),
    }
}

struct Emit {
    text: String,
}
impl Emit {
    /// append a token, after white space that respects a start-of-line requirement
    fn token(&mut self, rng: &mut Rng, tok: &(String, bool)) {
        if self.text.is_empty() {
            if tok.1 {
                self.text.push('\n');
            }
        } else {
            let w = ws(rng, tok.1);
            self.text.push_str(&w);
        }
        self.text.push_str(&tok.0);
    }
    fn item(&mut self, rng: &mut Rng, name: &str, value: &(String, bool)) {
        self.token(rng, &(format!("_{name}"), false));
        self.token(rng, value);
    }
}

fn foreign_value(rng: &mut Rng) -> (String, bool) {
    match rng.below(8) {
        0 => (".".into(), false),
        1 => ("?".into(), false),
        2 => (number(rng, 999, 3, true), false),
        3 => (format!("{}({})", number(rng, 99, 2, false), rng.below(99)), false),
        4 => (";a text field\nwith ; inside and a 'quote'\n loop_ and data_x and _tag\n;".into(), true),
        5 => ("'it is quoted # not a comment'".into(), false),
        6 => ("\"double 'single' inside\"".into(), false),
        _ => {
            let t: &str = *rng.pick(&["polymer", "X-RAY", "water", "C2'-endo", "a_b", "1ABC", "5'-end", "n/a", "yes;no"]);
            spell_text(rng, t, Spelling::Any)
        }
    }
}
fn foreign_block(rng: &mut Rng, e: &mut Emit, in_frame: bool) {
    match rng.below(if in_frame { 3 } else { 5 }) {
        0 => {
            let name = *rng.pick(&[
                "entry.id",
                "struct.title",
                "cell.volume",
                "cell.Z_PDB",
                "cell.entry_id",
                "symmetry.cell_setting",
                "symmetry.entry_id",
                "symmetry.pdbx_full_space_group_name_H-M",
                "atom_sites.entry_id",
                "atom_sites.fract_transf_matrix[1][1]",
                // dictionary items whose names begin like the matrix items the reader looks for
                "atom_sites.Cartn_transform_axes",
                "atom_sites.fract_transf_vector[1]",
                "database_PDB_matrix.entry_id",
                "struct_ncs_ens.id",
                "exptl.method",
                "space_group.crystal_system",
                "refine.ls_d_res_high",
            ]);
            let v = foreign_value(rng);
            e.item(rng, name, &v);
        }
        1 | 2 => {
            let cat = *rng.pick(&["entity", "atom_type", "atom_site_anisotrop", "struct_conf", "pdbx_poly_seq_scheme", "atom_sites_alt", "cell_measurement"]);
            let k = 1 + rng.below(4);
            e.token(rng, &("loop_".into(), false));
            for c in 0..k {
                e.token(rng, &(format!("_{cat}.{}", ["id", "type", "details", "U[1][1]", "pdbx_PDB_model_num"][c]), false));
            }
            // a loop has at least one row
            let n = 1 + rng.below(3);
            for _ in 0..n * k {
                let v = foreign_value(rng);
                e.token(rng, &v);
            }
        }
        _ => {
            let name = format!("save_{}", rng.pick(&["frame", "_atom_site.id", "x1"]));
            e.token(rng, &(name, false));
            let n = rng.below(3);
            for _ in 0..n {
                foreign_block(rng, e, true);
            }
            if rng.chance(1, 3) {
                // items of the recognised categories inside a frame are not part of the data block's structure
                e.item(rng, "cell.length_a", &("999.0".into(), false));
            }
            let close = (*rng.pick(&["save_", "SAVE_", "Save_"])).to_string();
            e.token(rng, &(close, false));
        }
    }
}

fn matrix_items(rng: &mut Rng, e: &mut Emit, prefix_m: &str, prefix_v: &str, m: &[Option<String>], id_first: Option<Vec<(String, (String, bool))>>) {
    let mut items: Vec<(String, (String, bool))> = Vec::new();
    for r in 0..3 {
        for c in 0..3 {
            if let Some(v) = &m[r * 4 + c] {
                items.push((format!("{prefix_m}[{}][{}]", r + 1, c + 1), (v.clone(), false)));
            } else if rng.chance(1, 3) {
                items.push((format!("{prefix_m}[{}][{}]", r + 1, c + 1), ((*rng.pick(&[".", "?"])).to_string(), false)));
            }
        }
        if let Some(v) = &m[r * 4 + 3] {
            items.push((format!("{prefix_v}[{}]", r + 1), (v.clone(), false)));
        }
    }
    // any order
    for i in (1..items.len()).rev() {
        let j = rng.below(i + 1);
        items.swap(i, j);
    }
    if let Some(first) = id_first {
        for (n, v) in first {
            e.item(rng, &n, &v);
        }
    }
    for (n, v) in items {
        e.item(rng, &n, &v);
    }
}

/// render the document; `how` restricts the spelling of identifiers, `foreign` switches foreign content on
pub fn render(rng: &mut Rng, d: &Doc, how: Spelling, foreign: bool) -> String {
    let mut e = Emit { text: String::new() };
    if rng.chance(1, 3) {
        e.text.push_str(*rng.pick(&["# a leading comment\n", "\n\n", "  \t\n#\n#x\n", "\r\n"]));
    }
    e.text.push_str(&format!("{}{}", rng.pick(&["data_", "DATA_", "Data_"]), d.name));
    // the metadata groups and the atom loop, in any order, with foreign content in between
    let mut groups: Vec<usize> = vec![0, 1, 2, 3, 4, 5];
    for i in (1..groups.len()).rev() {
        let j = rng.below(i + 1);
        groups.swap(i, j);
    }
    for g in groups {
        if foreign {
            let n = rng.below(3);
            for _ in 0..n {
                foreign_block(rng, &mut e, false);
            }
        }
        match g {
            0 => {
                if let Some(c) = &d.cell {
                    let mut items: Vec<(&str, &String)> = ["cell.length_a", "cell.length_b", "cell.length_c", "cell.angle_alpha", "cell.angle_beta", "cell.angle_gamma"].into_iter().zip(c.iter()).collect();
                    for i in (1..items.len()).rev() {
                        let j = rng.below(i + 1);
                        items.swap(i, j);
                    }
                    for (n, v) in items {
                        e.item(rng, n, &(v.clone(), false));
                    }
                }
            }
            1 => {
                let mut items: Vec<(String, (String, bool))> = Vec::new();
                if let Some(i) = d.sym_index {
                    items.push(((*rng.pick(&["symmetry.Int_Tables_number", "space_group.IT_number"])).to_string(), (i.to_string(), false)));
                }
                if let Some(n) = &d.sym_name {
                    let tag = if d.sym_hall { *rng.pick(&["symmetry.space_group_name_Hall", "space_group.name_Hall"]) } else { *rng.pick(&["symmetry.space_group_name_H-M", "space_group.name_H-M_alt"]) };
                    let sp = if n.contains(' ') || rng.chance(1, 2) { spell_text(rng, n, Spelling::Any) } else { (n.clone(), false) };
                    items.push((tag.to_string(), sp));
                }
                if items.len() == 2 && rng.chance(1, 2) {
                    items.swap(0, 1);
                }
                for (n, v) in items {
                    e.item(rng, &n, &v);
                }
            }
            2 => {
                if let Some(m) = &d.scale {
                    matrix_items(rng, &mut e, "atom_sites.Cartn_transf_matrix", "atom_sites.Cartn_transf_vector", m, None);
                }
            }
            3 => {
                if let Some(m) = &d.origx {
                    matrix_items(rng, &mut e, "database_PDB_matrix.origx", "database_PDB_matrix.origx_vector", m, None);
                }
            }
            4 => {
                for (id, code, m) in &d.ncs {
                    let mut first = vec![("struct_ncs_oper.id".to_string(), (id.to_string(), false))];
                    if let Some(given) = code {
                        first.push(("struct_ncs_oper.code".to_string(), spell_text(rng, if *given { "given" } else { "generate" }, Spelling::Any)));
                    }
                    if rng.chance(1, 3) {
                        first.push(("struct_ncs_oper.details".to_string(), foreign_value(rng)));
                    }
                    matrix_items(rng, &mut e, "struct_ncs_oper.matrix", "struct_ncs_oper.vector", m, Some(first));
                }
            }
            _ => atom_loop(rng, &mut e, d, how, foreign),
        }
    }
    if foreign {
        let n = rng.below(2);
        for _ in 0..n {
            foreign_block(rng, &mut e, false);
        }
    }
    e.text.push_str(*rng.pick(&["", "\n", "\n#\n", " ", "\r\n", "\n# end"]));
    e.text
}

fn atom_loop(rng: &mut Rng, e: &mut Emit, d: &Doc, how: Spelling, foreign: bool) {
    // columns: (tag, value of a row)
    type Get = Box<dyn Fn(&mut Rng, &Row) -> (String, bool)>;
    let mut cols: Vec<(String, Get)> = Vec::new();
    let h = how;
    let c = &d.cols;
    if c.group {
        cols.push(("group_PDB".into(), Box::new(move |r, row| spell_text(r, if row.het { "HETATM" } else { "ATOM" }, h))));
    }
    cols.push(("id".into(), Box::new(move |r, row| spell_text(r, &row.id, if h == Spelling::Any { Spelling::BareNumeric } else { h }))));
    cols.push(("type_symbol".into(), Box::new(move |r, row| spell_text(r, &row.ty, h))));
    cols.push(("label_atom_id".into(), Box::new(move |r, row| spell_text(r, &row.name, h))));
    if c.alt {
        cols.push(("label_alt_id".into(), Box::new(move |r, row| opt_text(r, row.alt.as_deref(), h))));
    }
    cols.push(("label_comp_id".into(), Box::new(move |r, row| spell_text(r, &row.comp, h))));
    cols.push(("label_asym_id".into(), Box::new(move |r, row| spell_text(r, &row.lasym, h))));
    if c.aasym {
        cols.push(("auth_asym_id".into(), Box::new(move |r, row| opt_text(r, row.aasym.as_deref(), if h == Spelling::Any { Spelling::BareNumeric } else { h }))));
    }
    cols.push(("label_seq_id".into(), Box::new(move |r, row| opt_num(r, row.lseq.map(|n| n.to_string())))));
    if c.aseq {
        cols.push(("auth_seq_id".into(), Box::new(move |r, row| opt_num(r, row.aseq.map(|n| n.to_string())))));
    }
    if c.ins {
        cols.push(("pdbx_PDB_ins_code".into(), Box::new(move |r, row| opt_text(r, row.ins.as_deref(), h))));
    }
    cols.push(("Cartn_x".into(), Box::new(|_, row| (row.x.clone(), false))));
    cols.push(("Cartn_y".into(), Box::new(|_, row| (row.y.clone(), false))));
    cols.push(("Cartn_z".into(), Box::new(|_, row| (row.z.clone(), false))));
    if c.occ {
        cols.push(("occupancy".into(), Box::new(|r, row| opt_num(r, row.occ.clone()))));
    }
    if c.b {
        cols.push(("B_iso_or_equiv".into(), Box::new(|r, row| opt_num(r, row.b.clone()))));
    }
    if c.charge {
        cols.push(("pdbx_formal_charge".into(), Box::new(|r, row| {
            let plus = r.chance(1, 2);
            opt_num(r, row.charge.map(|n| if n > 0 && plus { format!("+{n}") } else { n.to_string() }))
        })));
    }
    if c.model {
        cols.push(("pdbx_PDB_model_num".into(), Box::new(|r, row| opt_num(r, row.model.map(|n| n.to_string())))));
    }
    if c.aniso {
        for i in 0..3 {
            for j in 0..3 {
                let k = i * 3 + j;
                cols.push((format!("aniso_U[{}][{}]", i + 1, j + 1), Box::new(move |r, row| opt_num(r, row.aniso.as_ref().map(|a| a[k].clone())))));
            }
        }
    }
    if foreign {
        let n = rng.below(3);
        for k in 0..n {
            let tag = ["label_entity_id", "Cartn_x_esd", "auth_comp_id", "pdbx_tls_group_id"][(k + rng.below(2)) % 4];
            if !cols.iter().any(|(t, _)| t == tag) {
                cols.push((tag.to_string(), Box::new(|r, _| foreign_value(r))));
            }
        }
    }
    // any order of the columns
    for i in (1..cols.len()).rev() {
        let j = rng.below(i + 1);
        cols.swap(i, j);
    }
    let open = (*rng.pick(&["loop_", "loop_", "LOOP_", "Loop_"])).to_string();
    e.token(rng, &(open, false));
    for (tag, _) in &cols {
        e.token(rng, &(format!("_atom_site.{tag}"), false));
    }
    for (ri, row) in d.rows.iter().enumerate() {
        for (tag, get) in &cols {
            let v = match d.force.iter().find(|(r, t, _)| *r == ri && t == tag) {
                Some((_, _, tok)) => (tok.clone(), tok.starts_with(';')),
                None => get(rng, row),
            };
            e.token(rng, &v);
        }
    }
}

// ---------- the document for the specification ----------
fn otext(v: Option<&str>) -> Sx {
    opt(v, s)
}
fn oz(v: Option<i64>) -> Sx {
    opt(v, |n| z(n as i128))
}
pub fn row_sx(r: &Row) -> Sx {
    l(vec![
        b(r.het),
        s(&r.id),
        s(&r.ty),
        s(&r.name),
        otext(r.alt.as_deref()),
        s(&r.comp),
        s(&r.lasym),
        otext(r.aasym.as_deref()),
        oz(r.lseq),
        oz(r.aseq),
        otext(r.ins.as_deref()),
        s(&r.x),
        s(&r.y),
        s(&r.z),
        otext(r.occ.as_deref()),
        otext(r.b.as_deref()),
        oz(r.charge),
        oz(r.model.map(|m| m as i64)),
        opt(r.aniso.as_ref(), |a| l(a.iter().map(|t| s(t)).collect())),
    ])
}
fn matrix_sx(m: &Option<Vec<Option<String>>>) -> Sx {
    opt(m.as_ref(), |m| l(m.iter().map(|e| otext(e.as_deref())).collect()))
}
pub fn doc_sx(d: &Doc) -> Sx {
    l(vec![
        y("doc"),
        s(&d.name),
        opt(d.cell.as_ref(), |c| l(c.iter().map(|t| s(t)).collect())),
        opt(d.sym_index, |i| z(i as i128)),
        otext(d.sym_name.as_deref()),
        matrix_sx(&d.scale),
        matrix_sx(&d.origx),
        l(d.ncs.iter().map(|(id, code, m)| l(vec![z(*id as i128), opt(*code, b), l(m.iter().map(|e| otext(e.as_deref())).collect())])).collect()),
        l(d.rows.iter().map(row_sx).collect()),
    ])
}
