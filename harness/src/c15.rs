//! C15: read options act as filters; path-based open / save equal the in-memory API.
use crate::c01::{file, meta, read_obs_format};
use crate::cifgen::{self, Spelling};
use crate::out::Out;
use crate::pdbgen::{self, Cfg};
use crate::rng::Rng;
use crate::snap;
use crate::sx::*;
use pdbtbx::*;
use std::io::{Read, Write};

fn structure(p: &PDB) -> Sx {
    let mut v = meta(p);
    v.push(snap::pdb(p, &snap::atom));
    l(v)
}
fn gz1(bytes: &[u8]) -> Vec<u8> {
    let mut e = flate2::write::GzEncoder::new(Vec::new(), flate2::Compression::default());
    e.write_all(bytes).expect("gz");
    e.finish().expect("gz")
}
/// gzip file of two members (what `cat a.gz b.gz` or a block compressor gives): its content is the concatenation
fn gz(bytes: &[u8]) -> Vec<u8> {
    let cut = bytes.iter().position(|c| *c == b'\n').map_or(bytes.len() / 2, |k| (k + 1).max(bytes.len() / 2).min(bytes.len()));
    let cut = bytes[..cut].iter().rposition(|c| *c == b'\n').map_or(cut, |k| k + 1);
    let mut v = gz1(&bytes[..cut]);
    v.extend_from_slice(&gz1(&bytes[cut..]));
    v
}
fn gunzip(bytes: &[u8]) -> Option<Vec<u8>> {
    let mut d = flate2::read::GzDecoder::new(bytes);
    let mut out = Vec::new();
    d.read_to_end(&mut out).ok()?;
    Some(out)
}

pub const NAMES: &[&str] = &[
    "a.pdb", "a.PDB", "a.Pdb", "a.pdb1", "a.PDB1", "a.cif", "a.CIF", "a.mmcif", "a.mmCIF", "a.pdb.gz", "a.PDB.GZ", "a.Pdb.Gz", "a.cif.gz", "a.mmcif.gz", "a.pdb1.gz", "a.CIF.gz",
    "a", "pdb", "cif", "gz", "mmcif", ".pdb", ".cif", ".gz", ".pdb.gz", ".cif.gz", "a.", "a..pdb", "a.b.pdb", "a.b.c.cif", "a.pdb.b", "a.txt", "a.gz", "a.txt.gz", "a.pdb.gz.gz", "a.pdbx",
    "a.pd", "a.ent", "a.pdb.cif", "a.cif.pdb", "a.cif.pdb.gz", "sub.dir/a.pdb", "sub.pdb/a", "sub.pdb/a.cif", "sub.gz/a.pdb", "a b.pdb", "a.pdb ", "a.pdb.", "a.pdb.gz.", "x.p.d.b",
    "\u{e9}.pdb", "\u{e9}.cif.gz", "a.pdb\u{e9}", "a.\u{e9}.gz",
];

/// a hydrogen record / row: its atom gets hydrogen as element (the element text, else the whole name, else the name's
/// first letter if that is one of C H N O S); only the symbol table is taken from the library
fn is_hydrogen(element: &str, name: &str) -> bool {
    let (element, name) = (element.trim(), name.trim());
    let found = match pdbtbx::Element::from_symbol(element) {
        Some(e) => Some(e),
        None => match pdbtbx::Element::from_symbol(name) {
            Some(e) => Some(e),
            None => name.chars().next().filter(|c| "CHNOS".contains(*c)).and_then(|c| pdbtbx::Element::from_symbol(c.to_string())),
        },
    };
    found == Some(pdbtbx::Element::H)
}

pub fn run(seed: u64, count: usize, _thorough: bool, out: &mut Out, tmp: &str) {
    let mut rng = Rng::new(seed);
    // ---------- 1. the options as filters, PDB ----------
    for i in 0..count {
        let cfg = Cfg { metadata: true, wraps: i % 7 == 0, blank_chains: i % 3 == 0, annotations: false };
        let mut recs = pdbgen::records(&mut rng, &cfg);
        // hydrogens anywhere, including first
        if i % 2 == 0 {
            // the first atom of every model (the models have to keep corresponding)
            let spelling = (i / 2) % 4;
            let mut first = true;
            for r in recs.iter_mut() {
                match r {
                    pdbgen::Rec::Model(_) => first = true,
                    pdbgen::Rec::Atom(a) if first => {
                        // hydrogen by the element column (either case), or by the name alone when the column is blank
                        let (e, n) = [("H", "H"), ("h", "H1"), ("", "HA"), ("H", "CA")][spelling];
                        a.element = e.into();
                        a.name = n.into();
                        first = false;
                    }
                    _ => {}
                }
            }
        }
        // in the files with wrapping numbers the record on which a number wraps is a hydrogen
        if cfg.wraps {
            let (mut prev_serial, mut prev_res) = (0usize, 0isize);
            for r in recs.iter_mut() {
                if let pdbgen::Rec::Atom(a) = r {
                    // (a residue number that wraps; not an atom serial number: without its wrap record two atoms of the
                    // text would share a serial number and the ANISOU records could not tell them apart)
                    if a.resnum == 0 && prev_res == 9_999 && !(a.serial == 0 && prev_serial == 99_999) {
                        a.element = "H".into();
                        a.name = "H".into();
                        a.atf = None;
                    } else if (a.serial == 0 || a.serial == 99_999) && is_hydrogen(&a.element, &a.name) {
                        // the two records between which the atom serial number wraps (99999, 0) are not hydrogens
                        a.element = "C".into();
                        a.name = "CA".into();
                    }
                    prev_serial = a.serial;
                    prev_res = a.resnum;
                }
            }
        }
        let text = pdbgen::text(&mut rng, &recs);
        let n_h = recs.iter().filter(|r| matches!(r, pdbgen::Rec::Atom(a) if is_hydrogen(&a.element, &a.name))).count();
        out.count(&format!("pdb:hydrogen-records:{}", n_h.min(3)));
        // the same records without the hydrogen records, rendered afresh
        let recs_no_h: Vec<pdbgen::Rec> = recs.iter().filter(|r| !matches!(r, pdbgen::Rec::Atom(a) if is_hydrogen(&a.element, &a.name))).cloned().collect();
        let text_no_h = pdbgen::text(&mut rng, &recs_no_h);
        for opts in 0..8usize {
            let (obs, pdb) = read_obs_format(text.as_bytes(), Format::Pdb, opts, 2);
            out.case("C15", call("readpdb", vec![z(opts as i128), z(2), s(&text)]), obs, "corr:reader-model", true);
            if opts & 1 == 0 {
                out.case("C15", call("pdbaccept", vec![z(opts as i128), l(recs.iter().map(pdbgen::rec_sx).collect())]), y(if pdb.is_some() { "accepted" } else { "rejected" }), "prop:pdb-options-accept", true);
            } else {
                // discard_hydrogens accepts exactly when the text without its hydrogen records is accepted under the other options
                let (_, other) = read_obs_format(text_no_h.as_bytes(), Format::Pdb, opts & !1, 2);
                out.case("C15", call("sameaccept", vec![y("pdb"), z(opts as i128), z(out.len() as i128)]), y(if pdb.is_some() == other.is_some() { "same" } else { "differs" }), "prop:pdb-discard-accept", true);
            }
            match pdb {
                Some(p) => {
                    out.case("C15", call("pdbfilter", vec![z(opts as i128), l(recs.iter().map(pdbgen::rec_sx).collect())]), structure(&p), "prop:pdb-options-filter", opts != 0);
                    out.count(&format!("pdb:opts{opts}:accepted"));
                }
                None => out.count(&format!("pdb:opts{opts}:rejected")),
            }
        }
    }
    // ---------- 2. the options as filters, mmCIF ----------
    for i in 0..count {
        let mut d = cifgen::document(&mut rng);
        if i % 2 == 0 {
            let (hty, hname) = [("H", "H"), ("h", "H1"), ("X", "HA"), ("H", "CA")][(i / 2) % 4];
            if let Some(r) = d.rows.first_mut() {
                r.ty = hty.into();
                r.name = hname.into();
            }
            // the first row of every model, wherever the rows of the models stand (so that the models keep corresponding);
            // only when the models have the same number of rows, otherwise the first row alone
            let mut models: Vec<Option<usize>> = Vec::new();
            for r in &d.rows {
                if !models.contains(&r.model) {
                    models.push(r.model);
                }
            }
            let sizes: Vec<usize> = models.iter().map(|m| d.rows.iter().filter(|r| r.model == *m).count()).collect();
            if sizes.windows(2).all(|w| w[0] == w[1]) {
                let mut seen: Vec<Option<usize>> = Vec::new();
                for r in d.rows.iter_mut() {
                    if !seen.contains(&r.model) {
                        seen.push(r.model);
                        r.ty = hty.into();
                        r.name = hname.into();
                    }
                }
            }
        }
        let text = cifgen::render(&mut rng, &d, Spelling::Any, i % 3 == 0);
        let n_h = d.rows.iter().filter(|r| is_hydrogen(&r.ty, &r.name)).count();
        out.count(&format!("cif:hydrogen-rows:{}", n_h.min(3)));
        let mut d_no_h = d.clone();
        d_no_h.rows.retain(|r| !is_hydrogen(&r.ty, &r.name));
        let text_no_h = cifgen::render(&mut rng, &d_no_h, Spelling::Any, false);
        for opts in 0..8usize {
            let (obs, pdb) = read_obs_format(text.as_bytes(), Format::Mmcif, opts, 2);
            out.case("C15", call("readcif", vec![z(opts as i128), z(2), s(&text)]), obs, "corr:reader-model", true);
            if opts & 1 == 0 {
                out.case("C15", call("cifaccept", vec![z(opts as i128), cifgen::doc_sx(&d)]), y(if pdb.is_some() { "accepted" } else { "rejected" }), "prop:cif-options-accept", true);
            } else {
                let (_, other) = read_obs_format(text_no_h.as_bytes(), Format::Mmcif, opts & !1, 2);
                out.case("C15", call("sameaccept", vec![y("cif"), z(opts as i128), z(out.len() as i128)]), y(if pdb.is_some() == other.is_some() { "same" } else { "differs" }), "prop:cif-discard-accept", true);
            }
            match pdb {
                Some(p) => {
                    out.case("C15", call("ciffilter", vec![z(opts as i128), cifgen::doc_sx(&d)]), structure(&p), "prop:cif-options-filter", opts != 0);
                    out.count(&format!("cif:opts{opts}:accepted"));
                }
                None => out.count(&format!("cif:opts{opts}:rejected")),
            }
        }
    }
    // ---------- 3. path-based open: format and gzip decoding from the name, same result as the bytes ----------
    let dir = std::path::Path::new(tmp).join("c15");
    let _ = std::fs::remove_dir_all(&dir);
    std::fs::create_dir_all(&dir).expect("tmp dir");
    // a text on which every option makes a difference: several models, a hydrogen first, metadata
    let mut pdb_recs = pdbgen::records(&mut rng, &Cfg { metadata: true, wraps: false, blank_chains: false, annotations: false });
    for _ in 0..40 {
        if pdb_recs.iter().filter(|r| matches!(r, pdbgen::Rec::Model(_))).count() >= 2 {
            break;
        }
        pdb_recs = pdbgen::records(&mut rng, &Cfg { metadata: true, wraps: false, blank_chains: false, annotations: false });
    }
    {
        let mut first = true;
        for r in pdb_recs.iter_mut() {
            match r {
                pdbgen::Rec::Model(_) => first = true,
                pdbgen::Rec::Atom(a) if first => {
                    a.element = "H".into();
                    a.name = "H".into();
                    first = false;
                }
                _ => {}
            }
        }
    }
    let pdb_text = pdbgen::text(&mut rng, &pdb_recs);
    let with_opts = |opts: usize| {
        ReadOptions::default()
            .set_level(StrictnessLevel::Loose)
            .set_discard_hydrogens(opts & 1 != 0)
            .set_only_first_model(opts & 2 != 0)
            .set_only_atomic_coords(opts & 4 != 0)
            .clone()
    };
    let cif_doc = cifgen::document(&mut rng);
    let cif_text = cifgen::render(&mut rng, &cif_doc, Spelling::BareOnly, false);
    let contents: Vec<(&str, bool, Format, Vec<u8>, Vec<u8>)> = vec![
        ("pdb", false, Format::Pdb, pdb_text.as_bytes().to_vec(), pdb_text.as_bytes().to_vec()),
        ("cif", false, Format::Mmcif, cif_text.as_bytes().to_vec(), cif_text.as_bytes().to_vec()),
        ("pdb", true, Format::Pdb, gz(pdb_text.as_bytes()), pdb_text.as_bytes().to_vec()),
        ("cif", true, Format::Mmcif, gz1(cif_text.as_bytes()), cif_text.as_bytes().to_vec()),
    ];
    // the direct reading of the bytes under each of the eight option sets
    let direct_all: Vec<Vec<Option<Sx>>> = (0..8usize)
        .map(|opts| {
            contents
                .iter()
                .map(|(_, _, f, _, raw)| with_opts(opts).set_format(*f).read_raw(std::io::BufReader::new(&raw[..])).ok().map(|(p, _)| file(&p)))
                .collect()
        })
        .collect();
    out.count(&format!("open:direct-reads-ok:{}", direct_all[0].iter().filter(|d| d.is_some()).count()));
    out.count(&format!("open:option-sets-that-change-the-pdb-result:{}", (1..8).filter(|o| direct_all[*o][0] != direct_all[0][0]).count()));
    out.count(&format!("open:option-sets-that-change-the-cif-result:{}", (1..8).filter(|o| direct_all[*o][1] != direct_all[0][1]).count()));
    for (ni, name) in NAMES.iter().enumerate() {
        // the same options for the read by path and the direct read, all eight option sets
        let _ = ni;
        let path = dir.join(name);
        if let Some(parent) = path.parent() {
            let _ = std::fs::create_dir_all(parent);
        }
        let path_s = path.to_string_lossy().to_string();
        for opts in 0..8usize {
            let direct = &direct_all[opts];
            // which (format, compression) makes read(path) give the result of reading the bytes directly?
            let mut matches: Vec<Sx> = Vec::new();
            let mut panicked = false;
            for (k, (fname, zipped, _, bytes, _)) in contents.iter().enumerate() {
                std::fs::write(&path, bytes).expect("write test file");
                let r = crate::guarded(|| with_opts(opts).read(&path_s));
                match r {
                    None => panicked = true,
                    Some(Ok((p, _))) => {
                        if Some(file(&p)) == direct[k] {
                            matches.push(l(vec![y(fname), b(*zipped)]));
                        }
                    }
                    Some(Err(_)) => {}
                }
            }
            let _ = std::fs::remove_file(&path);
            let obs = if panicked {
                y("panic")
            } else if matches.len() == 1 {
                matches.remove(0)
            } else if matches.is_empty() {
                y("none")
            } else {
                y("ambiguous")
            };
            out.case("C15", call("guess", vec![s(name)]), obs, "prop:open-by-name", true);
        }
        // a missing file is an error, not a panic
        let r = crate::guarded(|| ReadOptions::default().read(&path_s));
        out.case("C15", call("missing", vec![s(name)]), y(match r { None => "panic", Some(Ok(_)) => "ok", Some(Err(_)) => "error" }), "prop:missing-file", true);
    }
    // ---------- 4. path-based save: the writer from the name, the same content as the in-memory writer ----------
    let sh = crate::gen::Shape { max_models: 1, elements_known: true, ..Default::default() };
    let mut structure = crate::gen::structure(&mut rng, &sh);
    structure.identifier = Some("1ABC".into());
    let mut raw_pdb = Vec::new();
    save_pdb_raw(&structure, std::io::BufWriter::new(&mut raw_pdb), StrictnessLevel::Loose);
    let raw_cif = crate::c04::write(&structure);
    for name in NAMES {
        let path = dir.join(name);
        if let Some(parent) = path.parent() {
            let _ = std::fs::create_dir_all(parent);
        }
        let path_s = path.to_string_lossy().to_string();
        for gzip in [false, true] {
            let _ = std::fs::remove_file(&path);
            // half of the targets exist already, with more bytes than will be written: the saved file is the new content alone
            let preexisting = rng.chance(1, 2);
            if preexisting {
                let _ = std::fs::write(&path, vec![b'x'; 50_000]);
            }
            let r = crate::guarded(|| if gzip { save_gz(&structure, &path_s, StrictnessLevel::Loose, None) } else { save(&structure, &path_s, StrictnessLevel::Loose) });
            let obs = match r {
                None => y("panic"),
                Some(Err(_)) => {
                    // a refused save leaves the file system as it was
                    let untouched = if preexisting { std::fs::read(&path).map_or(false, |b| b.len() == 50_000 && b.iter().all(|c| *c == b'x')) } else { !path.exists() };
                    if untouched {
                        y("none")
                    } else {
                        y("error-but-file")
                    }
                }
                Some(Ok(())) => {
                    let written = std::fs::read(&path).unwrap_or_default();
                    let content = if gzip { gunzip(&written).unwrap_or_default() } else { written };
                    if content == raw_pdb {
                        y("pdb")
                    } else if content == raw_cif {
                        y("cif")
                    } else {
                        y("other")
                    }
                }
            };
            let _ = std::fs::remove_file(&path);
            out.case("C15", call(if gzip { "savegz" } else { "save" }, vec![s(name)]), obs, "prop:save-by-name", true);
        }
    }
    let _ = std::fs::remove_dir_all(&dir);
}
