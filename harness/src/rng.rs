//! SplitMix64: every random choice of the harness derives from one state, so a run replays from its seed.
#[derive(Clone)]
pub struct Rng(pub u64);

impl Rng {
    pub fn new(seed: u64) -> Rng {
        Rng(seed ^ 0x9E37_79B9_7F4A_7C15)
    }
    pub fn next(&mut self) -> u64 {
        self.0 = self.0.wrapping_add(0x9E37_79B9_7F4A_7C15);
        let mut z = self.0;
        z = (z ^ (z >> 30)).wrapping_mul(0xBF58_476D_1CE4_E5B9);
        z = (z ^ (z >> 27)).wrapping_mul(0x94D0_49BB_1331_11EB);
        z ^ (z >> 31)
    }
    /// uniform in 0..n (n > 0)
    pub fn below(&mut self, n: usize) -> usize {
        (self.next() % (n as u64)) as usize
    }
    pub fn range(&mut self, lo: i64, hi: i64) -> i64 {
        lo + (self.next() % ((hi - lo + 1) as u64)) as i64
    }
    pub fn chance(&mut self, num: usize, den: usize) -> bool {
        self.below(den) < num
    }
    pub fn pick<'a, T>(&mut self, v: &'a [T]) -> &'a T {
        &v[self.below(v.len())]
    }
    /// an index into a collection of n elements, occasionally one past the end
    pub fn index_near(&mut self, n: usize, den: usize) -> usize {
        let extra = usize::from(self.chance(1, den));
        self.below(n.max(1) + extra)
    }
    pub fn fork(&mut self) -> Rng {
        Rng(self.next())
    }
}
