//! C09: all ways of walking a structure: sequential, parallel (thread pools), mutable, indexed, reversed.
use crate::gen;
use crate::out::Out;
use crate::rng::Rng;
use crate::snap;
use crate::sx::*;
use pdbtbx::*;
use rayon::prelude::*;

fn id_atom(a: &Atom) -> Sx {
    l(vec![z(a.serial_number() as i128), s(a.name())])
}
fn id_conf(c: &Conformer) -> Sx {
    l(vec![s(c.name()), opt(c.alternative_location(), s)])
}
fn id_res(r: &Residue) -> Sx {
    l(vec![z(r.serial_number() as i128), opt(r.insertion_code(), s)])
}
fn id_chain(c: &Chain) -> Sx {
    s(c.id())
}
fn id_model(m: &Model) -> Sx {
    z(m.serial_number() as i128)
}
fn n(k: usize) -> Sx {
    z(k as i128)
}

#[derive(Clone, Copy, PartialEq)]
enum View {
    Seq,
    Rev,   // iterate with .rev() and reverse the result
    Index, // build every list with the n-th accessors
    IndexMut, // build every list with the mutable n-th accessors
    Mut,   // read through the *_mut iterators
    MutRev, // the *_mut iterators consumed from the back, result reversed
}

macro_rules! list {
    ($view:expr, $x:expr, $it:ident, $it_mut:ident, $nth:ident, $nth_mut:ident, $id:expr) => {
        match $view {
            View::Seq => $x.$it().map($id).collect::<Vec<Sx>>(),
            View::Rev => {
                let mut v = $x.$it().rev().map($id).collect::<Vec<Sx>>();
                v.reverse();
                v
            }
            View::Index => {
                let mut v = Vec::new();
                let mut i = 0;
                while let Some(e) = $x.$nth(i) {
                    v.push($id(e));
                    i += 1;
                }
                v
            }
            View::IndexMut => {
                let mut v = Vec::new();
                let mut i = 0;
                while let Some(e) = $x.$nth_mut(i) {
                    v.push($id(&*e));
                    i += 1;
                }
                v
            }
            View::Mut => $x.$it_mut().map(|e| $id(&*e)).collect::<Vec<Sx>>(),
            View::MutRev => {
                let mut v = $x.$it_mut().rev().map(|e| $id(&*e)).collect::<Vec<Sx>>();
                v.reverse();
                v
            }
        }
    };
}

fn walk_conformer(c: &mut Conformer, v: View) -> Sx {
    l(vec![l(vec![n(c.atom_count())]), l(list!(v, c, atoms, atoms_mut, atom, atom_mut, id_atom))])
}
fn walk_residue(r: &mut Residue, v: View) -> Sx {
    let awh: Vec<Sx> = match v {
        View::Mut => r.atoms_with_hierarchy_mut().map(|h| l(vec![id_atom(h.atom()), id_conf(h.conformer())])).collect(),
        View::MutRev => {
            let mut x: Vec<Sx> = r.atoms_with_hierarchy_mut().rev().map(|h| l(vec![id_atom(h.atom()), id_conf(h.conformer())])).collect();
            x.reverse();
            x
        }
        View::Rev => {
            let mut x: Vec<Sx> = r.atoms_with_hierarchy().rev().map(|h| l(vec![id_atom(h.atom()), id_conf(h.conformer())])).collect();
            x.reverse();
            x
        }
        _ => r.atoms_with_hierarchy().map(|h| l(vec![id_atom(h.atom()), id_conf(h.conformer())])).collect(),
    };
    l(vec![
        l(vec![n(r.conformer_count()), n(r.atom_count())]),
        l(list!(v, r, conformers, conformers_mut, conformer, conformer_mut, id_conf)),
        l(list!(v, r, atoms, atoms_mut, atom, atom_mut, id_atom)),
        l(awh),
    ])
}
fn walk_chain(c: &mut Chain, v: View) -> Sx {
    let f = |h: &dyn ContainsAtomConformerResidue| l(vec![id_atom(h.atom()), id_conf(h.conformer()), id_res(h.residue())]);
    let awh: Vec<Sx> = match v {
        View::Mut => c.atoms_with_hierarchy_mut().map(|h| f(&h)).collect(),
        View::MutRev => {
            let mut x: Vec<Sx> = c.atoms_with_hierarchy_mut().rev().map(|h| f(&h)).collect();
            x.reverse();
            x
        }
        View::Rev => {
            let mut x: Vec<Sx> = c.atoms_with_hierarchy().rev().map(|h| f(&h)).collect();
            x.reverse();
            x
        }
        _ => c.atoms_with_hierarchy().map(|h| f(&h)).collect(),
    };
    l(vec![
        l(vec![n(c.residue_count()), n(c.conformer_count()), n(c.atom_count())]),
        l(list!(v, c, residues, residues_mut, residue, residue_mut, id_res)),
        l(list!(v, c, conformers, conformers_mut, conformer, conformer_mut, id_conf)),
        l(list!(v, c, atoms, atoms_mut, atom, atom_mut, id_atom)),
        l(awh),
    ])
}
fn walk_model(m: &mut Model, v: View) -> Sx {
    let f = |h: &dyn ContainsAtomConformerResidueChain| l(vec![id_atom(h.atom()), id_conf(h.conformer()), id_res(h.residue()), id_chain(h.chain())]);
    let awh: Vec<Sx> = match v {
        View::Mut => m.atoms_with_hierarchy_mut().map(|h| f(&h)).collect(),
        View::MutRev => {
            let mut x: Vec<Sx> = m.atoms_with_hierarchy_mut().rev().map(|h| f(&h)).collect();
            x.reverse();
            x
        }
        View::Rev => {
            let mut x: Vec<Sx> = m.atoms_with_hierarchy().rev().map(|h| f(&h)).collect();
            x.reverse();
            x
        }
        _ => m.atoms_with_hierarchy().map(|h| f(&h)).collect(),
    };
    l(vec![
        l(vec![n(m.chain_count()), n(m.residue_count()), n(m.conformer_count()), n(m.atom_count())]),
        l(list!(v, m, chains, chains_mut, chain, chain_mut, id_chain)),
        l(list!(v, m, residues, residues_mut, residue, residue_mut, id_res)),
        l(list!(v, m, conformers, conformers_mut, conformer, conformer_mut, id_conf)),
        l(list!(v, m, atoms, atoms_mut, atom, atom_mut, id_atom)),
        l(awh),
    ])
}
fn walk_pdb(p: &mut PDB, v: View) -> Sx {
    let f = |h: &dyn ContainsAtomConformerResidueChainModel| {
        l(vec![id_atom(h.atom()), id_conf(h.conformer()), id_res(h.residue()), id_chain(h.chain()), id_model(h.model())])
    };
    let awh: Vec<Sx> = match v {
        View::Mut => p.atoms_with_hierarchy_mut().map(|h| f(&h)).collect(),
        View::MutRev => {
            let mut x: Vec<Sx> = p.atoms_with_hierarchy_mut().rev().map(|h| f(&h)).collect();
            x.reverse();
            x
        }
        View::Rev => {
            let mut x: Vec<Sx> = p.atoms_with_hierarchy().rev().map(|h| f(&h)).collect();
            x.reverse();
            x
        }
        _ => p.atoms_with_hierarchy().map(|h| f(&h)).collect(),
    };
    let counts = l(vec![
        n(p.model_count()),
        n(p.chain_count()),
        n(p.residue_count()),
        n(p.conformer_count()),
        n(p.atom_count()),
        n(p.total_chain_count()),
        n(p.total_residue_count()),
        n(p.total_conformer_count()),
        n(p.total_atom_count()),
    ]);
    let models = l(list!(v, p, models, models_mut, model, model_mut, id_model));
    let chains = l(list!(v, p, chains, chains_mut, chain, chain_mut, id_chain));
    let residues = l(list!(v, p, residues, residues_mut, residue, residue_mut, id_res));
    let confs = l(list!(v, p, conformers, conformers_mut, conformer, conformer_mut, id_conf));
    let atoms = l(list!(v, p, atoms, atoms_mut, atom, atom_mut, id_atom));
    let wm: Vec<Sx> = p.models_mut().map(|m| walk_model(m, v)).collect();
    let wc: Vec<Sx> = p.chains_mut().map(|c| walk_chain(c, v)).collect();
    let wr: Vec<Sx> = p.residues_mut().map(|r| walk_residue(r, v)).collect();
    let wf: Vec<Sx> = p.conformers_mut().map(|c| walk_conformer(c, v)).collect();
    l(vec![counts, models, chains, residues, confs, atoms, l(awh), l(wm), l(wc), l(wr), l(wf)])
}

fn walk_pdb_par(p: &PDB) -> Sx {
    let counts = l(vec![
        n(p.model_count()),
        n(p.chain_count()),
        n(p.par_residue_count()),
        n(p.par_conformer_count()),
        n(p.par_atom_count()),
        n(p.par_total_chain_count()),
        n(p.par_total_residue_count()),
        n(p.par_total_conformer_count()),
        n(p.par_total_atom_count()),
    ]);
    l(vec![
        counts,
        l(p.par_models().map(id_model).collect::<Vec<Sx>>()),
        l(p.par_chains().map(id_chain).collect::<Vec<Sx>>()),
        l(p.par_residues().map(id_res).collect::<Vec<Sx>>()),
        l(p.par_conformers().map(id_conf).collect::<Vec<Sx>>()),
        l(p.par_atoms().map(id_atom).collect::<Vec<Sx>>()),
    ])
}

/// visit every element of a level once through the mutable iterator (sequential or parallel) and mark it
fn bump(p: &mut PDB, level: &str, par: bool, via_hierarchy: bool) {
    match (level, par) {
        ("atom", false) if via_hierarchy => p.atoms_with_hierarchy_mut().for_each(|mut h| {
            let k = h.atom().serial_number();
            h.atom_mut().set_serial_number(k + 1000)
        }),
        ("atom", false) => p.atoms_mut().for_each(|a| a.set_serial_number(a.serial_number() + 1000)),
        ("atom", true) => p.par_atoms_mut().for_each(|a| a.set_serial_number(a.serial_number() + 1000)),
        ("conformer", false) => p.conformers_mut().for_each(|c| {
            let nm = format!("{}X", c.name());
            c.set_name(nm);
        }),
        ("conformer", true) => p.par_conformers_mut().for_each(|c| {
            let nm = format!("{}X", c.name());
            c.set_name(nm);
        }),
        ("residue", false) => p.residues_mut().for_each(|r| r.set_serial_number(r.serial_number() + 1000)),
        ("residue", true) => p.par_residues_mut().for_each(|r| r.set_serial_number(r.serial_number() + 1000)),
        ("chain", false) => p.chains_mut().for_each(|c| {
            let id = format!("{}X", c.id());
            c.set_id(id);
        }),
        ("chain", true) => p.par_chains_mut().for_each(|c| {
            let id = format!("{}X", c.id());
            c.set_id(id);
        }),
        (_, false) => p.models_mut().for_each(|m| m.set_serial_number(m.serial_number() + 1000)),
        (_, true) => p.par_models_mut().for_each(|m| m.set_serial_number(m.serial_number() + 1000)),
    }
}

pub fn run(seed: u64, count: usize, thorough: bool, out: &mut Out) {
    let mut rng = Rng::new(seed);
    // every way of giving 2 or 3 models between 0 and 3 atoms each (sizes that add up to a multiple of the first, equal
    // models, an empty model in front, in the middle or at the end): all views of the structure
    {
        let short = |p: &PDB| snap::pdb(p, &snap::atom_short);
        let mut shapes: Vec<Vec<usize>> = Vec::new();
        for a in 0..4 {
            for b in 0..4 {
                shapes.push(vec![a, b]);
                for c in 0..4 {
                    shapes.push(vec![a, b, c]);
                }
            }
        }
        for shape in shapes {
            let mut p = PDB::new();
            let mut serial = 1;
            for (mi, k) in shape.iter().enumerate() {
                let mut model = Model::new(mi + 1);
                for j in 0..*k {
                    // the second atom of a model sits in another residue, the third in another chain
                    let chain = if j == 2 { "B" } else { "A" };
                    model.add_atom(gen::short_atom(&mut rng, serial), chain, (j as isize, None), ("ALA", None));
                    serial += 1;
                }
                p.add_model(model);
            }
            let psx = short(&p);
            for (view, name) in [(View::Seq, "seq"), (View::Rev, "rev"), (View::Index, "index"), (View::IndexMut, "index-mut"), (View::Mut, "mut"), (View::MutRev, "mut-rev")] {
                let mut q = p.clone();
                let w = crate::guarded(|| walk_pdb(&mut q, view)).unwrap_or(y("panic"));
                out.case("C09", call("walk", vec![psx.clone()]), w, &format!("prop:walk-{name}"), p.total_atom_count() > 1);
            }
            out.count("model-size-sweep");
        }
    }
    let pools: Vec<usize> = if thorough { (1..=16).collect() } else { vec![1, 2, 3, 4, 8, 16] };
    let repeats = if thorough { 5 } else { 2 };
    let short = |p: &PDB| snap::pdb(p, &snap::atom_short);
    for i in 0..count {
        let cfg = gen::Ragged {
            allow_empty: i % 3 != 0,
            max_models: 3,
            max_children: if i % 8 == 0 { 6 } else { 3 },
            // now and then conformers with many atoms (more than twice a small pool: parallel iterators that split into blocks)
            max_atoms: if i % 5 == 0 { 11 } else { 4 },
            serial_range: 30,
        };
        let p = gen::ragged(&mut rng, &cfg);
        let psx = short(&p);
        let nontrivial = p.total_atom_count() > 1;
        for (view, name) in [(View::Seq, "seq"), (View::Rev, "rev"), (View::Index, "index"), (View::IndexMut, "index-mut"), (View::Mut, "mut"), (View::MutRev, "mut-rev")] {
            let mut q = p.clone();
            let w = crate::guarded(|| walk_pdb(&mut q, view)).unwrap_or(y("panic"));
            out.case("C09", call("walk", vec![psx.clone()]), w.clone(), &format!("prop:walk-{name}"), nontrivial);
            if view == View::Seq {
                out.case("C09gen", call("walk", vec![psx.clone()]), w, "corr:translator-T3", nontrivial);
            }
            out.count(&format!("view:{name}"));
        }
        // index accessors one past the end return nothing
        for (level, len) in [
            ("model", p.model_count()),
            ("chain", p.total_chain_count()),
            ("residue", p.total_residue_count()),
            ("conformer", p.total_conformer_count()),
            ("atom", p.total_atom_count()),
        ] {
            for idx in [len, len + 1, 0] {
                let o = match level {
                    "model" => opt(p.model(idx), id_model),
                    "chain" => opt(p.chain(idx), id_chain),
                    "residue" => opt(p.residue(idx), id_res),
                    "conformer" => opt(p.conformer(idx), id_conf),
                    _ => opt(p.atom(idx), id_atom),
                };
                out.case("C09", call("nth", vec![y(level), psx.clone(), n(idx)]), o, "prop:index", idx == 0 && len > 0);
            }
        }
        // parallel views under several pool sizes
        if i % 2 == 0 {
            for &threads in &pools {
                let pool = rayon::ThreadPoolBuilder::new().num_threads(threads).build().expect("pool");
                for _ in 0..repeats {
                    let w = pool.install(|| crate::guarded(|| walk_pdb_par(&p)).unwrap_or(y("panic")));
                    out.case("C09", call("walkpar", vec![psx.clone()]), w.clone(), "prop:walk-par", nontrivial);
                    out.case("C09gen", call("walkpar", vec![psx.clone()]), w, "corr:translator-T3", nontrivial);
                    for level in ["atom", "conformer", "residue", "chain", "model"] {
                        let mut q = p.clone();
                        pool.install(|| bump(&mut q, level, true, false));
                        out.case("C09", call("bump", vec![y(level), psx.clone()]), short(&q), "prop:par-mut-visits-once", nontrivial);
                    }
                }
                out.count(&format!("pool:{threads}"));
            }
        }
        // sequential mutable iterators visit every element exactly once
        for level in ["atom", "conformer", "residue", "chain", "model"] {
            let mut q = p.clone();
            bump(&mut q, level, false, false);
            out.case("C09", call("bump", vec![y(level), psx.clone()]), short(&q), "prop:mut-visits-once", nontrivial);
        }
        let mut q = p.clone();
        bump(&mut q, "atom", false, true);
        out.case("C09", call("bump", vec![y("atom"), psx.clone()]), short(&q), "prop:hierarchy-mut-visits-once", nontrivial);
    }
}
