//! Generators of PDB-format text: canonical record lines, whole well-formed files, and mutations.
use crate::rng::Rng;

pub fn canonical_lines() -> Vec<(&'static str, String)> {
    vec![
        ("HEADER", "HEADER    HYDROLASE                               01-JAN-00   1ABC              ".into()),
        ("REMARK", "REMARK   2 RESOLUTION.    1.80 ANGSTROMS.                                       ".into()),
        ("CRYST1", "CRYST1   50.000   60.000   70.000  90.00  90.00  90.00 P 21 21 21    4          ".into()),
        ("ORIGX1", "ORIGX1      1.000000  0.000000  0.000000        0.00000                         ".into()),
        ("ORIGX2", "ORIGX2      0.000000  1.000000  0.000000        0.00000                         ".into()),
        ("ORIGX3", "ORIGX3      0.000000  0.000000  1.000000        0.00000                         ".into()),
        ("SCALE1", "SCALE1      0.020000  0.000000  0.000000        0.00000                         ".into()),
        ("SCALE2", "SCALE2      0.000000  0.016667  0.000000        0.00000                         ".into()),
        ("SCALE3", "SCALE3      0.000000  0.000000  0.014286        0.00000                         ".into()),
        ("MTRIX1", "MTRIX1   1  1.000000  0.000000  0.000000        0.00000    1                    ".into()),
        ("MTRIX2", "MTRIX2   1  0.000000  1.000000  0.000000        0.00000    1                    ".into()),
        ("MTRIX3", "MTRIX3   1  0.000000  0.000000  1.000000        0.00000    1                    ".into()),
        ("DBREF", "DBREF  1ABC A    1   120  UNP    P12345   ABCD_HUMAN       1    120             ".into()),
        ("DBREF1", "DBREF1 1ABC B    1   120  UNIMES               UPI0000000001                     ".into()),
        ("DBREF2", "DBREF2 1ABC B     MES00000000001                          1        120         ".into()),
        ("SEQADV", "SEQADV 1ABC MET A    1  UNP  P12345    ALA     1 ENGINEERED MUTATION            ".into()),
        ("SEQRES", "SEQRES   1 A    3  ALA CYS GLY                                                  ".into()),
        ("MODRES", "MODRES 1ABC MSE A    2  MET  SELENOMETHIONINE                                   ".into()),
        ("SSBOND", "SSBOND   1 CYS A    2    CYS A    3                          1555   1555  2.04  ".into()),
        ("MODEL", "MODEL        1                                                                  ".into()),
        ("ATOM", "ATOM      1  N   ALA A   1      11.104   6.134  -6.504  1.00 10.00           N  ".into()),
        ("ATOM2", "ATOM      2  SG ACYS A   2A     12.560   7.000  -5.000  0.50 12.50           S1-".into()),
        ("HETATM", "HETATM    3 ZN    ZN A 101      15.000   8.000  -4.000  1.00 20.00          ZN2+".into()),
        ("ANISOU", "ANISOU    1  N   ALA A   1     2406   1892   1614    198    519   -328       N  ".into()),
        ("TER", "TER       4      ZN  A 101                                                      ".into()),
        ("ENDMDL", "ENDMDL                                                                          ".into()),
        ("MASTER", "MASTER        1    0    0    0    0    0    0    9    3    1    0    1          ".into()),
        ("END", "END                                                                             ".into()),
    ]
}

/// a small well-formed file assembled from the canonical lines
pub fn canonical_file() -> String {
    let order = [
        "HEADER", "REMARK", "DBREF", "SEQADV", "SEQRES", "MODRES", "SSBOND", "CRYST1", "ORIGX1", "ORIGX2", "ORIGX3", "SCALE1", "SCALE2", "SCALE3", "MTRIX1", "MTRIX2", "MTRIX3",
        "MODEL", "ATOM", "ANISOU", "ATOM2", "HETATM", "TER", "ENDMDL", "MASTER", "END",
    ];
    let lines = canonical_lines();
    let mut t = String::new();
    for k in order {
        if let Some((_, l)) = lines.iter().find(|(n, _)| *n == k) {
            t.push_str(l);
            t.push('\n');
        }
    }
    t
}

pub const SUBST: &[&[u8]] = &[b" ", b"0", b"9", b"A", b"-", b"+", b".", b"x", "\u{e9}".as_bytes(), "\u{2028}".as_bytes(), "\u{1F600}".as_bytes(), b"\x01", b"\xff", b"\t",
    // characters of other Unicode classes: numeric but not ASCII digits, white space that is not ASCII, a combining mark
    "\u{b2}".as_bytes(), "\u{663}".as_bytes(), "\u{ff11}".as_bytes(), "\u{bd}".as_bytes(), "\u{a0}".as_bytes(), "\u{301}".as_bytes()];

/// the substitution characters by class: blank, ASCII digit, ASCII letter, sign / punctuation, letter of several bytes, numeric
/// character that is no ASCII digit, white space or mark that is not ASCII, control character, byte that is no UTF-8
pub const CLASSES: &[&[&[u8]]] = &[
    &[b" "],
    &[b"0", b"9"],
    &[b"A", b"x"],
    &[b"-", b"+", b"."],
    &["\u{e9}".as_bytes(), "\u{1F600}".as_bytes()],
    &["\u{b2}".as_bytes(), "\u{663}".as_bytes(), "\u{ff11}".as_bytes(), "\u{bd}".as_bytes()],
    &["\u{2028}".as_bytes(), "\u{a0}".as_bytes(), "\u{301}".as_bytes()],
    &[b"\x01", b"\t"],
    &[b"\xff"],
];

/// every prefix, and every single-column substitution / insertion / deletion of one line
pub fn line_mutations(line: &str, rng: &mut Rng, dense: bool) -> Vec<Vec<u8>> {
    let b = line.as_bytes();
    let mut v: Vec<Vec<u8>> = Vec::new();
    for k in 0..=b.len() {
        v.push(b[..k].to_vec());
    }
    // a prefix with one multi-byte character somewhere inside it (byte length and character count differ at the cut)
    for k in 1..=b.len() {
        let n = if dense { 4 } else { 2 };
        for _ in 0..n {
            let j = rng.below(k);
            let s = *rng.pick(&["\u{e9}".as_bytes(), "\u{2028}".as_bytes(), "\u{1F600}".as_bytes()]);
            let mut x = b[..j].to_vec();
            x.extend_from_slice(s);
            x.extend_from_slice(&b[j + 1..k]);
            v.push(x);
        }
    }
    for k in 0..b.len() {
        // not dense: one character of every class at every column (which member of the class is random)
        let subs: Vec<&[u8]> = if dense { SUBST.to_vec() } else { CLASSES.iter().map(|c| *rng.pick(c)).collect() };
        for s in subs {
            let mut x = b[..k].to_vec();
            x.extend_from_slice(s);
            x.extend_from_slice(&b[k + 1..]);
            v.push(x);
            if dense || rng.chance(1, 4) {
                let mut x = b[..k].to_vec();
                x.extend_from_slice(s);
                x.extend_from_slice(&b[k..]);
                v.push(x);
            }
        }
        let mut x = b[..k].to_vec();
        x.extend_from_slice(&b[k + 1..]);
        v.push(x);
    }
    v
}

/// multi-fault mutation of a whole file: drop / duplicate / swap lines, splice odd bytes
pub fn file_mutation(text: &str, rng: &mut Rng) -> Vec<u8> {
    let mut lines: Vec<Vec<u8>> = text.lines().map(|l| l.as_bytes().to_vec()).collect();
    let n = 1 + rng.below(4);
    for _ in 0..n {
        if lines.is_empty() {
            break;
        }
        let i = rng.below(lines.len());
        match rng.below(9) {
            7 => {
                // an empty line: the lines after it keep their numbers in the input
                lines.insert(i, Vec::new());
            }
            8 => {
                lines.insert(i, b"   ".to_vec());
            }
            0 => {
                lines.remove(i);
            }
            1 => {
                let l = lines[i].clone();
                lines.insert(i, l);
            }
            2 => {
                let j = rng.below(lines.len());
                lines.swap(i, j);
            }
            3 => {
                let k = rng.below(lines[i].len().max(1));
                let l = &mut lines[i];
                l.truncate(k);
            }
            4 => {
                let k = rng.below(lines[i].len().max(1));
                let s = *rng.pick(SUBST);
                let l = &mut lines[i];
                if k < l.len() {
                    l.splice(k..k + 1, s.iter().copied());
                }
            }
            5 => {
                let l = &mut lines[i];
                l.extend_from_slice(b"                                        EXTRA");
            }
            _ => {
                let j = rng.below(lines.len());
                let l = lines[j].clone();
                lines[i] = l;
            }
        }
    }
    let mut out = Vec::new();
    let crlf = rng.chance(1, 5);
    for l in lines {
        out.extend_from_slice(&l);
        out.extend_from_slice(if crlf { b"\r\n" } else { b"\n" });
    }
    out
}
