//! mmCIF text for the totality exploration (C06): a hand-written file that uses every construct of the grammar and every
//! category the reader recognises, a tokeniser that keeps the layout, token classes and structural faults.
use crate::rng::Rng;

pub fn canonical_file() -> String {
    let t = r#"data_1ABC
#
_entry.id   1ABC
# a comment line
_audit_conform.dict_name       mmcif_pdbx.dic
_audit_conform.dict_version    5.338
_struct.title 'A title with spaces and # no comment'
_struct.descr "double quoted 'inner' text"
_struct.long
;first line of a text field
 second line ; not the end
;
_cell.entry_id           1ABC
_cell.length_a           50.0
_cell.length_b           60.5
_cell.length_c           7.025e1
_cell.angle_alpha        90
_cell.angle_beta         90.0
_cell.angle_gamma        +90.
_cell.Z_PDB              4
save_frame1
_frame.item  value
loop_
_frame.a
_frame.b
1 2
3 4
save_
_atom_sites.entry_id                   '1ABC'
_atom_sites.Cartn_transf_matrix[1][1]  0.02
_atom_sites.Cartn_transf_matrix[1][2]  0.0
_atom_sites.Cartn_transf_matrix[1][3]  0.0
_atom_sites.Cartn_transf_matrix[2][1]  0.0
_atom_sites.Cartn_transf_matrix[2][2]  0.016529
_atom_sites.Cartn_transf_matrix[2][3]  0.0
_atom_sites.Cartn_transf_matrix[3][1]  0.0
_atom_sites.Cartn_transf_matrix[3][2]  0.0
_atom_sites.Cartn_transf_matrix[3][3]  0.014235
_atom_sites.Cartn_transf_vector[1]     0.0
_atom_sites.Cartn_transf_vector[2]     0.0
_atom_sites.Cartn_transf_vector[3]     0.0
_database_PDB_matrix.entry_id     '1ABC'
_database_PDB_matrix.origx[1][1]  1.0
_database_PDB_matrix.origx[1][2]  0.0
_database_PDB_matrix.origx[1][3]  0.0
_database_PDB_matrix.origx[2][1]  0.0
_database_PDB_matrix.origx[2][2]  1.0
_database_PDB_matrix.origx[2][3]  0.0
_database_PDB_matrix.origx[3][1]  0.0
_database_PDB_matrix.origx[3][2]  0.0
_database_PDB_matrix.origx[3][3]  1.0
_database_PDB_matrix.origx_vector[1]     0.5
_database_PDB_matrix.origx_vector[2]     -0.25
_database_PDB_matrix.origx_vector[3]     1.5E-1
_struct_ncs_oper.id            1
_struct_ncs_oper.code          given
_struct_ncs_oper.details       ?
_struct_ncs_oper.matrix[1][1]  1.0
_struct_ncs_oper.matrix[1][2]  0.0
_struct_ncs_oper.matrix[1][3]  0.0
_struct_ncs_oper.matrix[2][1]  0.0
_struct_ncs_oper.matrix[2][2]  1.0
_struct_ncs_oper.matrix[2][3]  0.0
_struct_ncs_oper.matrix[3][1]  0.0
_struct_ncs_oper.matrix[3][2]  0.0
_struct_ncs_oper.matrix[3][3]  1.0
_struct_ncs_oper.vector[1]     0.0
_struct_ncs_oper.vector[2]     0.0
_struct_ncs_oper.vector[3]     0.0
_structs_ncs_oper.id            2
_structs_ncs_oper.code          generate
_structs_ncs_oper.matrix[1][1]  1.0
_structs_ncs_oper.matrix[2][3]  0.5
_structs_ncs_oper.vector[1]     0.25
_symmetry.entry_id                         1ABC
_symmetry.space_group_name_H-M             'P 21 21 21'
_symmetry.pdbx_full_space_group_name_H-M   'P 21 21 21'
_symmetry.Int_Tables_number                19
_space_group.IT_number                     19
_space_group.name_Hall                     'P 2ac 2ab'
loop_
_entity.id
_entity.type
_entity.details
1 polymer 'the protein'
2 water   .
3 non-polymer
;a text field
in a loop
;
loop_
_atom_site.group_PDB
_atom_site.id
_atom_site.type_symbol
_atom_site.label_atom_id
_atom_site.label_alt_id
_atom_site.label_comp_id
_atom_site.label_asym_id
_atom_site.auth_asym_id
_atom_site.label_entity_id
_atom_site.label_seq_id
_atom_site.auth_seq_id
_atom_site.pdbx_PDB_ins_code
_atom_site.Cartn_x
_atom_site.Cartn_y
_atom_site.Cartn_z
_atom_site.occupancy
_atom_site.B_iso_or_equiv
_atom_site.pdbx_formal_charge
_atom_site.pdbx_PDB_model_num
_atom_site.aniso_U[1][1]
_atom_site.aniso_U[1][2]
_atom_site.aniso_U[1][3]
_atom_site.aniso_U[2][1]
_atom_site.aniso_U[2][2]
_atom_site.aniso_U[2][3]
_atom_site.aniso_U[3][1]
_atom_site.aniso_U[3][2]
_atom_site.aniso_U[3][3]
ATOM   1 N N   . ALA A A 1 1 1   ? 11.104 6.134  -6.504 1.0 10.0 ?  1 0.2406 0.0198 0.0519 0.0198 0.1892 -0.0328 0.0519 -0.0328 0.1614
ATOM   2 C CA  A ALA A A 1 1 1   ? 12.56  7.0    -5.0   0.5 12.5 0  1 . . . . . . . . .
ATOM   3 C CA  B ALA A A 1 1 1   ? 12.66  7.1    -5.1   0.5 12.5 0  1 . . . . . . . . .
ATOM   4 H "H'" . ALA A A 1 1 1   ? 13.0   7.5    -5.5   1.0 15.0 ?  1 . . . . . . . . .
HETATM 5 ZN ZN . ZN  B A 2 . 101 A 15.0   8.0    -4.0   1.0 20.0 2  1 . . . . . . . . .
HETATM 6 O O   . HOH C W 3 . 201 ? 1.5e1  -8.0   4.0    1.0 30.0 ?  1 . . . . . . . . .
ATOM   7 N N   . ALA A A 1 1 1   ? 11.204 6.234  -6.404 1.0 10.0 ?  2 . . . . . . . . .
ATOM   8 C CA  . ALA A A 1 1 1   ? 12.57  7.01   -5.01  1.0 12.5 -1 2 . . . . . . . . .
#
"#;
    t.to_string()
}

/// split a text into (token, following whitespace) pairs, the text before the first token comes first with an empty token
pub fn tokens(text: &str) -> Vec<(String, String)> {
    let mut v: Vec<(String, String)> = vec![(String::new(), String::new())];
    let mut in_ws = true;
    for c in text.chars() {
        let ws = c == ' ' || c == '\n' || c == '\t' || c == '\r';
        if ws {
            if let Some(x) = v.last_mut() {
                x.1.push(c);
            }
            in_ws = true;
        } else {
            if in_ws {
                v.push((String::new(), String::new()));
            }
            if let Some(x) = v.last_mut() {
                x.0.push(c);
            }
            in_ws = false;
        }
    }
    v
}
pub fn join(tokens: &[(String, String)]) -> String {
    let mut s = String::new();
    for (t, w) in tokens {
        s.push_str(t);
        s.push_str(w);
    }
    s
}

/// the replacement classes of the property: reserved words, quotes, semicolon, '.', '?', huge numbers, non-ASCII words, ...
pub const CLASSES: &[(&str, &[&str])] = &[
    ("reserved", &["loop_", "data_", "data_x", "save_", "save_x", "global_", "stop_", "LOOP_", "_", "_x"]),
    ("quote", &["'", "\"", "''", "'a", "a'", "\"a", "'a'b", "' '", "\"\"\"", "'a\"", "\"a'"]),
    ("semicolon", &[";", ";x", "\n;", "\n;x", "\n;\n;", "\n;x\n;", "\n;\n"]),
    ("dot", &[".", "..", ".5", "5.", "-.", "+", "-", ".e", "1e", "1e+", "1.e-", ".(1)"]),
    ("question", &["?", "??", "?1"]),
    (
        "huge",
        &[
            "99999999999",
            "4294967296",
            "-99999999999999999999999999",
            "1e999",
            "1e-999",
            "1e99999999999",
            "1.5(99999999999)",
            "1(4294967296)",
            "0.00000000000000000000000000000000000001",
            "123456789012345678901234567890.123456789012345678901234567890",
            "18446744073709551616",
            "-9223372036854775809",
            "1.5(",
            "1.5()",
            "1.5(x)",
            "1.5(2",
            "1e5(3)",
        ],
    ),
    ("nonascii", &["\u{e9}", "a\u{e9}", "\u{e9}a", "'\u{e9}", "'\u{e9}'", "\"\u{65e5}\u{672c}", "_\u{e9}.a", "1\u{e9}", "1.\u{e9}", "1e\u{e9}", "1(\u{e9})", "\u{1F600}", "#\u{e9}", "\n;\u{e9}\n;", "\n;\u{e9}", "data_\u{e9}", "save_\u{e9}", "\u{2028}", "\u{a0}"]),
    ("other", &["#", "#x", "[", "]", "$", "$x", "\t", "\r", "\u{0}", "\u{7f}", "0", "-1", "1.5", "x", "H", "ATOM", "HETATM", "XXXX"]),
];

/// structural faults applied to the whole text
pub fn structural_faults(base: &str) -> Vec<(String, String)> {
    let mut v: Vec<(String, String)> = Vec::new();
    let mut add = |n: &str, t: String| v.push((n.to_string(), t));
    add("embedded-quote", "data_x\n_struct.title 'a quote d'Artagnan inside'\n".into());
    add("empty", String::new());
    add("only-ws", " \n\t\n".into());
    add("only-comment", "# nothing\n".into());
    add("no-data", "_entry.id 1ABC\n".into());
    add("data-only", "data_".into());
    add("data-name-only", "data_x".into());
    add("data-eol", "data_x\n".into());
    add("loop-no-header", "data_x\nloop_\n1 2 3\n".into());
    add("loop-no-header-eof", "data_x\nloop_".into());
    add("loop-no-header-then-item", "data_x\nloop_\n_a.b 1\n".into());
    add("loop-empty-then-loop", "data_x\nloop_\nloop_\n_a.b\n1\n".into());
    add("header-no-values", "data_x\nloop_\n_a.b\n_a.c\n".into());
    add("header-no-values-then-item", "data_x\nloop_\n_a.b\n_a.c\n_d.e 1\n".into());
    add("ragged-loop", "data_x\nloop_\n_a.b\n_a.c\n1 2 3\n".into());
    add("unterminated-single", "data_x\n_a.b 'abc\n".into());
    add("unterminated-double", "data_x\n_a.b \"abc\n".into());
    add("unterminated-single-eof", "data_x\n_a.b 'abc".into());
    add("unterminated-text", "data_x\n_a.b\n;abc\ndef\n".into());
    add("unterminated-text-eof", "data_x\n_a.b\n;abc".into());
    add("unterminated-save", "data_x\nsave_f\n_a.b 1\n".into());
    add("save-in-save", "data_x\nsave_f\nsave_g\n_a.b 1\nsave_\nsave_\n".into());
    add("item-no-value", "data_x\n_a.b\n".into());
    add("item-no-value-eof", "data_x\n_a.b".into());
    add("item-then-item", "data_x\n_a.b\n_c.d 1\n".into());
    add("two-blocks", "data_x\n_a.b 1\ndata_y\n_a.b 2\n".into());
    add("global", "global_\n_a.b 1\n".into());
    add("stop", "data_x\nloop_\n_a.b\n1\nstop_\n".into());
    add("crlf", base.replace('\n', "\r\n"));
    add("cr-only", base.replace('\n', "\r"));
    add("no-final-newline", base.trim_end().to_string());
    add("tabs", base.replace(' ', "\t"));
    add("bom", format!("\u{feff}{base}"));
    // the atom loop alone, with subsets of its columns
    let atom_header = |cols: &[&str]| format!("data_x\nloop_\n{}\n", cols.iter().map(|c| format!("_atom_site.{c}")).collect::<Vec<_>>().join("\n"));
    let req = ["group_PDB", "label_asym_id", "label_comp_id", "id", "label_atom_id", "label_seq_id", "type_symbol", "Cartn_x", "Cartn_y", "Cartn_z"];
    add("atoms-required-only", format!("{}ATOM A ALA 1 N 1 N 1.0 2.0 3.0\n", atom_header(&req)));
    for k in 0..req.len() {
        let mut cols = req.to_vec();
        cols.remove(k);
        let mut vals = vec!["ATOM", "A", "ALA", "1", "N", "1", "N", "1.0", "2.0", "3.0"];
        vals.remove(k);
        add(&format!("atoms-missing-column-{}", req[k]), format!("{}{}\n", atom_header(&cols), vals.join(" ")));
        for missing in [".", "?", "'x y'", "1(2)", "-5", "1.5", "99999999999999999999", "1e400"] {
            let mut vals = vec!["ATOM", "A", "ALA", "1", "N", "1", "N", "1.0", "2.0", "3.0"];
            vals[k] = missing;
            add(&format!("atoms-value-{}-{}", req[k], missing), format!("{}{}\n", atom_header(&req), vals.join(" ")));
        }
    }
    // models of different make-up: later models larger, smaller, with another split between ATOM and HETATM rows
    // (the validation after the read compares every model with the first one, position by position)
    {
        let mut cols = req.to_vec();
        cols.push("pdbx_PDB_model_num");
        let shapes: [&[&str]; 9] = [&["AA", "AAH"], &["AA", "AAHH"], &["AAH", "AA"], &["AA", "AH"], &["AH", "AHH", "AH"], &["A", "AAA"], &["AH", "HA"], &["", "A"], &["AA", "AA", "AAHHH"]];
        for (k, shape) in shapes.iter().enumerate() {
            let mut t = atom_header(&cols);
            let mut id = 1;
            for (mi, rows) in shape.iter().enumerate() {
                for (ri, kind) in rows.chars().enumerate() {
                    t.push_str(&format!(
                        "{} A {} {id} {} {} {} {}.0 2.0 3.0 {}\n",
                        if kind == 'A' { "ATOM" } else { "HETATM" },
                        if kind == 'A' { "ALA" } else { "HOH" },
                        if kind == 'A' { "N" } else { "O" },
                        ri + 1,
                        if kind == 'A' { "N" } else { "O" },
                        ri,
                        mi + 1
                    ));
                    id += 1;
                }
            }
            add(&format!("models-make-up-{k}"), t);
        }
    }
    add("atoms-no-rows", atom_header(&req));
    add("atoms-duplicate-column", format!("{}_atom_site.id\nATOM A ALA 1 N 1 N 1.0 2.0 3.0 7\n", atom_header(&req)));
    // single items with every kind of value
    for name in [
        "_cell.length_a",
        "_cell.angle_alpha",
        "_symmetry.Int_Tables_number",
        "_space_group.IT_number",
        "_symmetry.space_group_name_H-M",
        "_space_group.name_Hall",
        "_atom_sites.Cartn_transf_matrix[1][1]",
        "_atom_sites.Cartn_transf_matrix[0][0]",
        "_atom_sites.Cartn_transf_matrix[9][9]",
        "_atom_sites.Cartn_transf_matrix[4][1]",
        "_atom_sites.Cartn_transf_matrix[1][5]",
        "_atom_sites.Cartn_transf_vector[0]",
        "_atom_sites.Cartn_transf_vector[4]",
        "_atom_sites.Cartn_transf_vector[x]",
        "_atom_sites.Cartn_transf",
        "_atom_sites.Cartn_transf[[",
        "_atom_sites.Cartn_transf[[1",
        "_atom_sites.Cartn_transf_matrix[1][1]x",
        "_atom_sites.Cartn_transf\u{e9}[1][1]",
        "_database_PDB_matrix.origx[1][1]",
        "_database_PDB_matrix.origx[0][1]",
        "_database_PDB_matrix.origx_vector[0]",
        "_database_PDB_matrix.origx",
        "_structs_ncs_oper.id",
        "_structs_ncs_oper.code",
        "_structs_ncs_oper.matrix[1][1]",
        "_structs_ncs_oper.matrix[0][0]",
        "_structs_ncs_oper.vector[7]",
        "_structs_ncs_oper.details",
        "_structs_ncs_oper.",
        "_struct_ncs_oper.id",
        "_struct_ncs_oper.code",
        "_struct_ncs_oper.matrix[0][0]",
    ] {
        for value in [".", "?", "0", "1", "-1", "1.5", "-0.0", "400", "1e400", "-1e400", "231", "99999999999999999999", "x", "'P 1'", "'P 21 21 21'", "given", "generate", "1(2)", "\n;text\n;"] {
            let pre = if name.contains("ncs_oper") && !name.ends_with(".id") {
                if name.starts_with("_structs") {
                    "_structs_ncs_oper.id 1\n"
                } else {
                    "_struct_ncs_oper.id 1\n"
                }
            } else {
                ""
            };
            add(&format!("item-{name}-{value}"), format!("data_x\n{pre}{name} {value}\n"));
        }
    }
    add("ncs-id-twice", "data_x\n_structs_ncs_oper.id 1\n_structs_ncs_oper.id 1\n_structs_ncs_oper.matrix[1][1] 2.0\n".into());
    add("ncs-matrix-before-id", "data_x\n_structs_ncs_oper.matrix[1][1] 2.0\n".into());
    add("cell-partial", "data_x\n_cell.length_a 10.0\n".into());
    add("cell-zero", "data_x\n_cell.length_a 0.0\n_cell.angle_alpha 0.0\n".into());
    add("cell-negative", "data_x\n_cell.length_a -10.0\n_cell.angle_alpha -10.0\n".into());
    add("cell-angle-360", "data_x\n_cell.angle_alpha 360.0\n_cell.angle_beta 360.1\n_cell.angle_gamma 1e300\n".into());
    add("symmetry-mismatch", "data_x\n_symmetry.Int_Tables_number 19\n_symmetry.space_group_name_H-M 'P 1'\n_space_group.IT_number 4\n".into());
    v
}

/// several faults at once: token replacements, deletions, duplications, cuts
pub fn multi_fault(base: &str, rng: &mut Rng) -> String {
    let mut toks = tokens(base);
    let n = 1 + rng.below(5);
    for _ in 0..n {
        if toks.len() < 2 {
            break;
        }
        let i = 1 + rng.below(toks.len() - 1);
        match rng.below(6) {
            0 => {
                toks.remove(i);
            }
            1 => {
                let t = toks[i].clone();
                toks.insert(i, t);
            }
            2 => {
                let j = 1 + rng.below(toks.len() - 1);
                toks.swap(i, j);
            }
            3 => {
                let class = rng.pick(CLASSES);
                let r = rng.pick(class.1);
                toks[i].0 = (*r).to_string();
            }
            4 => {
                toks[i].1 = (*rng.pick(&["", " ", "\n", "\r\n", "\t", " # comment\n", "\n\n", "\n#\n"])).to_string();
            }
            _ => {
                toks.truncate(i);
            }
        }
    }
    join(&toks)
}
