//! C05: reading PDB-format input is total (no panic, always classified), diagnostics render and quote the right line.
use crate::out::Out;
use crate::rng::Rng;
use crate::sx::*;
use crate::textgen;
use pdbtbx::*;

/// does every line-anchored context quote the line standing at its line number?
fn faithful(ctx: &Context, lines: &[String]) -> bool {
    let at = |n: usize| if n >= 1 { lines.get(n - 1) } else { None };
    match ctx {
        Context::FullLine { linenumber, line } | Context::Line { linenumber, line, .. } => at(*linenumber) == Some(line),
        // a Range shows its first line under start_linenumber, RangeHighlights numbers its lines from start_linenumber + 1
        Context::Range { start_linenumber, lines: ls, .. } => ls.iter().enumerate().all(|(k, l)| at(start_linenumber + k) == Some(l)),
        Context::RangeHighlights { start_linenumber, lines: ls, .. } => ls.iter().enumerate().all(|(k, l)| at(start_linenumber + 1 + k) == Some(l)),
        // the second part of the SEQRES comparison is a generated line (the residues found), not a quotation of the input
        Context::Multiple { contexts } => contexts
            .iter()
            .all(|(note, c)| note.as_deref() == Some("Residues found in ATOM definitions") || faithful(c, lines)),
        _ => true,
    }
}

pub fn observe(bytes: &[u8], format: Format, opts: usize, level: usize) -> Sx {
    let level_v = crate::snap::strictness(level);
    let r = crate::guarded(|| {
        ReadOptions::default()
            .set_format(format)
            .set_level(level_v)
            .set_discard_hydrogens(opts & 1 != 0)
            .set_only_first_model(opts & 2 != 0)
            .set_only_atomic_coords(opts & 4 != 0)
            .read_raw(std::io::BufReader::new(bytes))
    });
    let Some(r) = r else {
        return l(vec![y("panic"), y("-"), y("-")]);
    };
    let errs = match &r {
        Ok((_, e)) => e,
        Err(e) => e,
    };
    // line table as BufRead::lines sees it (when the input is valid UTF-8)
    let lines: Option<Vec<String>> = std::str::from_utf8(bytes).ok().map(|t| t.lines().map(str::to_string).collect());
    let render = crate::guarded(|| errs.iter().map(|e| format!("{e}").len()).sum::<usize>()).is_some();
    let quote = match (&lines, format) {
        (Some(ls), Format::Pdb) => errs.iter().all(|e| faithful(e.context(), ls)),
        _ => true,
    };
    if !quote && std::env::var("PV_DEBUG").is_ok() {
        if let Some(ls) = &lines {
            for e in errs.iter().filter(|e| !faithful(e.context(), ls)).take(1) {
                eprintln!("UNFAITHFUL {} | {:?} | input {:?}", e.short_description(), e.context(), String::from_utf8_lossy(bytes));
            }
        }
    }
    l(vec![y("classified"), b(render), b(quote)])
}

fn emit(out: &mut Out, bytes: &[u8], opts: usize, level: usize, label: &str) {
    let obs = observe(bytes, Format::Pdb, opts, level);
    let bad = obs != l(vec![y("classified"), b(true), b(true)]);
    if bad {
        let site = if obs == l(vec![y("panic"), y("-"), y("-")]) { crate::LAST_PANIC.with(|p| p.borrow().clone()) } else { format!("{obs}") };
        out.count(&format!("site:{site}"));
    }
    out.case("C05", call("total", vec![Sx::S(bytes.to_vec()), z(opts as i128), z(level as i128)]), obs, "prop:total", true);
    out.count(&format!("{label}{}", if bad { ":BAD" } else { "" }));
    // on ASCII input without SEQRES records the reader model predicts the whole outcome (structure, metadata, diagnostics)
    // (once: the profile with overflow checks reads the same inputs)
    if !cfg!(debug_assertions) && bytes.is_ascii() && !bytes.windows(6).any(|w| w == b"SEQRES") && !bad {
        let (obs, _) = crate::c01::read_obs(bytes, opts, level);
        out.case("C05", call("read", vec![z(opts as i128), z(level as i128), Sx::S(bytes.to_vec())]), obs, "corr:reader-model", true);
    }
}

/// a source that serves its bytes and then fails on every further call (a file cut off by the device, a directory opened as a
/// file): it counts how often it is asked again after the first failure, and ends the input after a thousand such calls
struct FailingSource {
    data: Vec<u8>,
    pos: usize,
    failures: std::rc::Rc<std::cell::Cell<usize>>,
}
impl std::io::Read for FailingSource {
    fn read(&mut self, buf: &mut [u8]) -> std::io::Result<usize> {
        if self.pos < self.data.len() {
            let n = buf.len().min(self.data.len() - self.pos).min(7);
            buf[..n].copy_from_slice(&self.data[self.pos..self.pos + n]);
            self.pos += n;
            return Ok(n);
        }
        self.failures.set(self.failures.get() + 1);
        if self.failures.get() > 1000 {
            Ok(0)
        } else {
            Err(std::io::Error::new(std::io::ErrorKind::Other, "device failure"))
        }
    }
}
/// reading from a source that keeps failing ends, with an error, without asking the source over and over
fn observe_failing(bytes: &[u8], format: Format, opts: usize, level: usize) -> Sx {
    let failures = std::rc::Rc::new(std::cell::Cell::new(0usize));
    let src = FailingSource { data: bytes.to_vec(), pos: 0, failures: failures.clone() };
    let r = crate::guarded(move || {
        ReadOptions::default()
            .set_format(format)
            .set_level(crate::snap::strictness(level))
            .set_discard_hydrogens(opts & 1 != 0)
            .set_only_first_model(opts & 2 != 0)
            .set_only_atomic_coords(opts & 4 != 0)
            .read_raw(std::io::BufReader::new(src))
            .map(|_| ())
            .map_err(|e| e.iter().map(|x| format!("{x}").len()).sum::<usize>())
    });
    match r {
        None => l(vec![y("panic"), y("-"), y("-")]),
        Some(Ok(())) => l(vec![y("read-error-ignored"), y("-"), y("-")]),
        Some(Err(_)) if failures.get() > 3 => l(vec![y("keeps-reading-a-failing-source"), z(failures.get() as i128), y("-")]),
        Some(Err(_)) => l(vec![y("classified"), b(true), b(true)]),
    }
}

pub fn run(seed: u64, count: usize, thorough: bool, out: &mut Out) {
    let mut rng = Rng::new(seed);
    // 0. a source that fails: after a whole file, in mid-line, at once; both formats, all options and levels
    {
        let file = textgen::canonical_file().into_bytes();
        for (k, cut) in [file.len(), file.len() / 2, 10, 0].into_iter().enumerate() {
            for opts in 0..8 {
                for level in 0..3 {
                    for format in [Format::Pdb, Format::Mmcif] {
                        let obs = observe_failing(&file[..cut], format, opts, level);
                        out.case("C05", call("total", vec![Sx::S(file[..cut].to_vec()), z(opts as i128), z(level as i128), z(k as i128)]), obs, "prop:total-on-failing-source", true);
                    }
                }
            }
            out.count("failing-source");
        }
    }
    // 1. every prefix and single-column mutation of a canonical record of each supported type, alone and after an atom
    for (name, line) in textgen::canonical_lines() {
        for m in textgen::line_mutations(&line, &mut rng, thorough) {
            let opts = rng.below(8);
            let level = rng.below(3);
            let mut one = m.clone();
            one.push(b'\n');
            emit(out, &one, opts, level, &format!("line:{name}"));
            if rng.chance(1, 3) {
                let mut file = textgen::canonical_file().into_bytes();
                file.extend_from_slice(&m);
                file.push(b'\n');
                emit(out, &file, opts, level, &format!("file+line:{name}"));
                if rng.chance(1, 3) {
                    // the same after empty lines: every diagnostic still has to quote the line at its number
                    let mut shifted = (*rng.pick(&["\n", "\n\n", "\r\n", "REMARK   2\n\n"])).as_bytes().to_vec();
                    shifted.extend_from_slice(&file);
                    emit(out, &shifted, opts, level, &format!("empty-lines+file+line:{name}"));
                }
            }
        }
    }
    // 2. multi-fault mutations of a well-formed file, all options and levels
    let base = textgen::canonical_file();
    for i in 0..count {
        let m = if i == 0 { base.clone().into_bytes() } else { textgen::file_mutation(&base, &mut rng) };
        let (opts, level) = if i < 24 { (i % 8, i / 8) } else { (rng.below(8), rng.below(3)) };
        emit(out, &m, opts, level, "file-mutation");
    }
    // 3. hand-picked edge cases
    let edge: Vec<Vec<u8>> = vec![
        b"".to_vec(),
        b"\n\n\n".to_vec(),
        b"ATOM".to_vec(),
        b"HEADER".to_vec(),
        b"REMARK".to_vec(),
        b"REMARK 999".to_vec(),
        format!("REMARK   2 {}\n", "X".repeat(200)).into_bytes(),
        format!("REMARK   2 {}\nREMARK   2 short\nREMARK   2 {}\nREMARK   2 {}\n", "X".repeat(80), "Y".repeat(90), "Z".repeat(75)).into_bytes(),
        b"CRYST1   50.000   60.000   70.000  90.00  90.00  90.00 Q 99          4\n".to_vec(),
        b"CRYST1   50.000   60.000   70.000  90.00  90.00 400.00 P 1           1\n".to_vec(),
        b"ATOM      1  N       A   1      11.104   6.134  -6.504  1.00 10.00           N  \n".to_vec(),
        b"ATOM      1  N   ALA A   1         inf   6.134  -6.504  1.00 10.00           N  \n".to_vec(),
        b"ATOM      1  N   ALA A   1         NaN   6.134  -6.504  1.00 10.00           N  \n".to_vec(),
        b"ATOM  99999  N   ALA A9999      11.104   6.134  -6.504  1.00 10.00           N  \nATOM      0  CA  ALA A   0      11.104   6.134  -6.504  1.00 10.00           C  \n".to_vec(),
        b"SEQADV 1ABC MET A    1  UNP  P12345\n".to_vec(),
        b"SSBOND   1 CYS A    2\n".to_vec(),
        b"SSBOND   1 CYS A    2    CYS A    3\n".to_vec(),
        b"MODRES 1ABC MSE A    2  MET\n".to_vec(),
        b"SEQRES   1 A    3  ALA CYS GLY\nATOM      1  N   ALA A   1      11.104   6.134  -6.504  1.00 10.00           N  \n".to_vec(),
        b"DBREF2 1ABC B     MES00000000001                          1        120         \n".to_vec(),
        b"MTRIX4   1  1.000000  0.000000  0.000000        0.00000    1\n".to_vec(),
        b"MODEL  99999999999999999999999\n".to_vec(),
        b"HETATM    3 ZN    ZN A 101      15.000   8.000  -4.000  1.00 20.00          ZNA+\n".to_vec(),
        b"HETATM    3 ZN    ZN A 101      15.000   8.000  -4.000  1.00 20.00          ZN2x\n".to_vec(),
    ];
    // 4. long runs of one record: the chain names generated for blank chain ids go round the alphabet, model after model
    let blank_atom = |k: usize| format!("ATOM  {:5}  CA  ALA  {:4}      11.104   6.134  -6.504  1.00 10.00           C  \n", k % 100_000, k % 10_000);
    for n in [1usize, 25, 26, 27, 51, 52, 53, 61, 62, 63, 64, 130, 700] {
        let mut t = String::new();
        for _ in 0..n {
            t.push_str(if rng.chance(1, 2) { "TER\n" } else { "TER                                                                             \n" });
        }
        t.push_str(&blank_atom(1));
        t.push_str("END\n");
        emit(out, t.as_bytes(), 0, rng.below(3), "run:ter-then-blank-chain");
        // and one atom per generated chain
        let mut t = String::new();
        for k in 0..n.min(130) {
            t.push_str(&blank_atom(k + 1));
            t.push_str("TER\n");
        }
        emit(out, t.as_bytes(), rng.below(8), 2, "run:blank-chains");
        let mut t = String::new();
        for k in 0..n.min(130) {
            t.push_str(&format!("MODEL     {:4}\n", k + 1));
            t.push_str(&blank_atom(1));
            t.push_str("TER\nENDMDL\n");
        }
        emit(out, t.as_bytes(), rng.below(8), rng.below(3), "run:models");
    }
    // 5. SEQRES records that disagree with the residues found, in a later row of a chain and in a later chain: the
    //    diagnostic has to quote the row at its own line number
    {
        let atom = |k: usize, chain: char, name: &str| format!("ATOM  {:5}  CA  {name} {chain}{:4}    {:8.3}{:8.3}{:8.3}{:6.2}{:6.2}           C  \n", k + 1, k, k as f64, 2.0, 3.0, 1.0, 10.0);
        for (lead, second_row, two_chains) in [(0usize, true, false), (2, true, false), (1, false, true), (3, true, true)] {
            let mut t = String::new();
            for _ in 0..lead {
                t.push_str("REMARK   2 X\n");
            }
            t.push_str(&format!("SEQRES   1 A   14  {}\n", ["GLY"; 13].join(" ")));
            t.push_str(if second_row { "SEQRES   2 A   14  ALA\n" } else { "SEQRES   2 A   14  GLY\n" });
            if two_chains {
                t.push_str("SEQRES   1 B    2  SER SER\n");
            }
            for k in 0..14 {
                t.push_str(&atom(k, 'A', "GLY"));
            }
            if two_chains {
                t.push_str(&atom(0, 'B', "SER"));
                t.push_str(&atom(1, 'B', "VAL"));
            }
            t.push_str("END\n");
            for level in 0..3 {
                emit(out, t.as_bytes(), 0, level, "seqres-mismatch");
            }
        }
    }
    for e in edge {
        for level in 0..3 {
            emit(out, &e, 0, level, "edge");
        }
        emit(out, &e, 7, 2, "edge");
    }
}
