//! C02: mmCIF reading recovers exactly what the data items state, whatever the layout.
use crate::c01::{meta, read_obs_format};
use crate::cifgen::{self, Doc, Spelling};
use crate::out::Out;
use crate::rng::Rng;
use crate::snap;
use crate::sx::*;
use pdbtbx::*;

fn read(text: &str, level: usize) -> (Sx, Option<PDB>) {
    read_obs_format(text.as_bytes(), Format::Mmcif, 0, level)
}
fn structure(p: &PDB) -> Sx {
    let mut v = meta(p);
    v.push(snap::pdb(p, &snap::atom));
    l(v)
}

/// one valid document in one layout: model correspondence, acceptance at the loose level, and the stated structure
fn valid_case(out: &mut Out, d: &Doc, text: &str, class: &str, levels: &[usize]) {
    let n_atoms = d.rows.len();
    for &level in levels {
        let (obs, pdb) = read(text, level);
        out.case("C02", call("read", vec![z(0), z(level as i128), s(text)]), obs, "corr:reader-model", n_atoms > 1);
        if level == 2 {
            // a document without faults is accepted at the loose level
            out.case("C02", call("accept", vec![y(class), z(out.len() as i128)]), y(if pdb.is_some() { "accepted" } else { "rejected" }), "prop:accepted", true);
        }
        match pdb {
            Some(p) => {
                out.case("C02", call("denote", vec![y(class), cifgen::doc_sx(d)]), structure(&p), "prop:document", n_atoms > 1);
                out.count(&format!("{class}:accepted-level{level}"));
            }
            None => out.count(&format!("{class}:rejected-level{level}")),
        }
    }
}

pub fn run(seed: u64, count: usize, _thorough: bool, out: &mut Out) {
    let mut rng = Rng::new(seed);
    for i in 0..count {
        let d = cifgen::document(&mut rng);
        out.count(&format!("rows:{}", match d.rows.len() { 0..=3 => "1-3", 4..=10 => "4-10", 11..=30 => "11-30", _ => "31+" }));
        out.count(&format!("models:{}", d.rows.iter().map(|r| r.model).collect::<std::collections::BTreeSet<_>>().len()));
        // 1. the same document in several layouts: house style, any spelling, any spelling with foreign content
        let house = cifgen::render(&mut rng, &d, Spelling::BareOnly, false);
        valid_case(out, &d, &house, "plain", &[2, 1, 0]);
        let any = cifgen::render(&mut rng, &d, Spelling::Any, false);
        valid_case(out, &d, &any, "plain", &[2]);
        for _ in 0..2 {
            let foreign = cifgen::render(&mut rng, &d, Spelling::Any, true);
            valid_case(out, &d, &foreign, "plain", &[2, if i % 2 == 0 { 0 } else { 1 }]);
        }
        // 2. single-token corruption: a non-numeric token in a numeric column or a missing mandatory value is an error at every level
        if !d.rows.is_empty() {
            for _ in 0..4 {
                let ri = rng.below(d.rows.len());
                let c = &d.cols;
                let mut numeric: Vec<&str> = vec!["Cartn_x", "Cartn_y", "Cartn_z", "label_seq_id"];
                if c.occ {
                    numeric.push("occupancy");
                }
                if c.b {
                    numeric.push("B_iso_or_equiv");
                }
                if c.charge {
                    numeric.push("pdbx_formal_charge");
                }
                if c.model {
                    numeric.push("pdbx_PDB_model_num");
                }
                if c.aseq {
                    numeric.push("auth_seq_id");
                }
                if c.aniso {
                    numeric.push("aniso_U[2][3]");
                }
                let (tag, token, what): (String, String, &str) = if rng.chance(1, 2) {
                    let tag = *rng.pick(&numeric);
                    // label_seq_id is only read when the author number is missing
                    if tag == "label_seq_id" && d.rows[ri].aseq.is_some() {
                        continue;
                    }
                    let integer = matches!(tag, "label_seq_id" | "auth_seq_id" | "pdbx_formal_charge" | "pdbx_PDB_model_num");
                    let mut bad = vec!["x", "'1.5'", "\"2\"", "1,5", "--1", "1e", "abc", "1.5.2", "0x10", "1_0", "NaN", "inf", ";3.0\n;", "1.5e+", "12e-", "1e+", "2.e-", "1.5e(3)"];
                    if integer {
                        bad.extend(["1.5", "1e-1", "0.25"]);
                    }
                    if tag == "pdbx_PDB_model_num" {
                        bad.push("-1");
                    }
                    (tag.to_string(), (*rng.pick(&bad)).to_string(), "non-numeric")
                } else {
                    let mut mandatory = vec!["type_symbol", "label_atom_id", "id", "label_comp_id", "Cartn_x", "Cartn_y", "Cartn_z"];
                    if d.rows[ri].aasym.is_none() {
                        mandatory.push("label_asym_id");
                    }
                    ((*rng.pick(&mandatory)).to_string(), (*rng.pick(&[".", "?"])).to_string(), "missing")
                };
                let mut bad_doc = d.clone();
                bad_doc.force.push((ri, tag.clone(), token.clone()));
                let foreign = rng.chance(1, 2);
                let text = cifgen::render(&mut rng, &bad_doc, Spelling::Any, foreign);
                for level in [2usize, 0] {
                    let (obs, pdb) = read(&text, level);
                    out.case("C02", call("read", vec![z(0), z(level as i128), s(&text)]), obs, "corr:reader-model-corrupt", true);
                    out.case(
                        "C02",
                        call("corrupt", vec![y(what), s(&tag), s(&token), z(level as i128), z(out.len() as i128)]),
                        y(if pdb.is_some() { "accepted" } else { "rejected" }),
                        "prop:no-made-up-value",
                        true,
                    );
                }
                out.count(&format!("corrupt:{what}:{tag}"));
            }
            // the residue number is stated by neither column: the read has to fail (it substitutes a running count: known finding)
            if i % 5 == 0 {
                let ri = rng.below(d.rows.len());
                let mut bad_doc = d.clone();
                bad_doc.force.push((ri, "label_seq_id".into(), ".".into()));
                if d.cols.aseq {
                    bad_doc.force.push((ri, "auth_seq_id".into(), "?".into()));
                }
                let text = cifgen::render(&mut rng, &bad_doc, Spelling::Any, false);
                let (_, pdb) = read(&text, 2);
                out.case("C02", call("corrupt", vec![y("resnum-missing"), z(out.len() as i128)]), y(if pdb.is_some() { "accepted" } else { "rejected" }), "prop:no-made-up-value", true);
                out.count("corrupt:resnum-missing");
            }
        }
        // 3. identifiers in spellings the reader is known to mishandle (recorded findings): numeric-looking identifiers
        //    written bare in a non-canonical form, and a quote character inside a quoted string
        if i % 4 == 0 && !d.rows.is_empty() {
            let ri = rng.below(d.rows.len());
            let mut nd = d.clone();
            let (tag, token) = match rng.below(4) {
                0 => {
                    let t = (*rng.pick(&["001", "1.0", "1e1", "+5", "0A"])).to_string();
                    for r in nd.rows.iter_mut().filter(|r| r.comp == d.rows[ri].comp && r.lasym == d.rows[ri].lasym && r.aseq == d.rows[ri].aseq && r.lseq == d.rows[ri].lseq && r.ins == d.rows[ri].ins) {
                        r.comp = t.clone();
                    }
                    ("label_comp_id", t)
                }
                1 => {
                    let t = (*rng.pick(&["007", "1.50", "2E0", "-0"])).to_string();
                    nd.rows[ri].id = t.clone();
                    ("id", t)
                }
                2 => {
                    let t = (*rng.pick(&["01", "1.", "10e-1"])).to_string();
                    let old = d.rows[ri].lasym.clone();
                    for r in nd.rows.iter_mut().filter(|r| r.lasym == old) {
                        r.lasym = t.clone();
                        r.aasym = None;
                    }
                    ("label_asym_id", t)
                }
                _ => {
                    // the same atom in every model (the models have to keep corresponding)
                    let t = (*rng.pick(&["1", "2.5", "12"])).to_string();
                    let key = d.rows[ri].clone();
                    for r in nd.rows.iter_mut().filter(|r| r.name == key.name && r.comp == key.comp && r.lasym == key.lasym && r.aseq == key.aseq && r.lseq == key.lseq && r.ins == key.ins && r.alt == key.alt) {
                        r.name = t.clone();
                    }
                    ("label_atom_id", t)
                }
            };
            let rows: Vec<usize> = (0..nd.rows.len()).collect();
            for r in rows {
                let v = match tag {
                    "label_comp_id" => nd.rows[r].comp.clone(),
                    "id" => nd.rows[r].id.clone(),
                    "label_asym_id" => nd.rows[r].lasym.clone(),
                    _ => nd.rows[r].name.clone(),
                };
                if v == token {
                    nd.force.push((r, tag.to_string(), token.clone()));
                }
            }
            let text = cifgen::render(&mut rng, &nd, Spelling::Any, false);
            valid_case(out, &nd, &text, "bare-numeric", &[2]);
        }
        if i % 4 == 1 && !d.rows.is_empty() {
            let ri = rng.below(d.rows.len());
            let mut nd = d.clone();
            let (t, tok) = *rng.pick(&[("O5'A", "'O5'A'"), ("N\"1", "\"N\"1\""), ("C'", "'C''")]);
            let key = d.rows[ri].clone();
            let same: Vec<usize> = (0..nd.rows.len())
                .filter(|k| {
                    let r = &d.rows[*k];
                    r.name == key.name && r.comp == key.comp && r.lasym == key.lasym && r.aseq == key.aseq && r.lseq == key.lseq && r.ins == key.ins && r.alt == key.alt
                })
                .collect();
            for k in same {
                nd.rows[k].name = t.to_string();
                nd.force.push((k, "label_atom_id".into(), tok.to_string()));
            }
            let text = cifgen::render(&mut rng, &nd, Spelling::Any, false);
            valid_case(out, &nd, &text, "quote-inside", &[2]);
        }
    }
}
