//! C04: mmCIF write -> read round trip.
use crate::c01::{file, read_obs_format};
use crate::gen::{self, Shape};
use crate::out::Out;
use crate::rng::Rng;
use crate::sx::*;
use pdbtbx::*;

pub fn write(pdb: &PDB) -> Vec<u8> {
    let mut buf = Vec::new();
    save_mmcif_raw(pdb, std::io::BufWriter::new(&mut buf));
    buf
}

/// a finite number of realistic magnitude with an arbitrary tail of digits; sometimes exactly on a half of the fifth decimal
fn value(rng: &mut Rng, max: i64, allow_neg: bool) -> f64 {
    let neg = allow_neg && rng.chance(1, 3);
    let v = match rng.below(10) {
        0 => rng.range(0, max) as f64,
        // just below / just above a whole number: rounds to the whole number at five decimals
        8 => rng.range(1, max.max(2)) as f64 - rng.range(1, 4999) as f64 / 1e9,
        9 => rng.range(0, max) as f64 + rng.range(1, 4999) as f64 / 1e9,
        1 => rng.range(0, max * 100_000) as f64 / 100_000.0 + 0.000005,
        2 => rng.range(0, max * 1000) as f64 / 1000.0,
        3 => rng.range(0, 100) as f64 / 10_000_000.0,
        4 => (rng.range(0, max * 8) as f64) / 8.0,
        _ => rng.range(0, max * 100_000) as f64 / 100_000.0 + rng.range(0, 1_000_000) as f64 / 1e12,
    };
    if neg {
        -v
    } else {
        v
    }
}

const IDS: &[&str] = &["1ABC", "x", "TEST_01", "7xyz", "4HHB", "A-B", "id.1", "1E12", "2E10", "0123", "1.50", "+1", "12", "1e5"];

pub fn build(rng: &mut Rng, i: usize) -> PDB {
    let sh = Shape {
        max_models: 3,
        max_chains: 3,
        max_residues: 4,
        max_altlocs: 3,
        max_atoms: 4,
        same_shape_models: true,
        hetero: true,
        icodes: true,
        negative_numbers: true,
        elements_known: i % 3 != 0,
        grid8: false,
        atf: i % 2 == 0,
    };
    let mut pdb = gen::structure(rng, &sh);
    // two chains whose names differ in case only (structures with more than 26 chains use both alphabets): renamed here,
    // not added through add_atom, so that the structure does not depend on how add_atom looks chains up
    if rng.chance(1, 4) {
        let (u, lw) = *rng.pick(&[("A", "a"), ("B", "b"), ("X", "x")]);
        let swap = rng.chance(1, 2);
        for m in pdb.models_mut() {
            if m.chain_count() >= 2 {
                let mut it = m.chains_mut();
                if let (Some(c0), Some(c1)) = (it.next(), it.next()) {
                    let _ = c0.set_id(if swap { lw } else { u });
                    let _ = c1.set_id(if swap { u } else { lw });
                }
            }
        }
    }
    // model numbers: from 1 (as generated), from 0 (what a PDB file without MODEL records gives), or with gaps
    match rng.below(4) {
        0 => {
            for (k, m) in pdb.models_mut().enumerate() {
                m.set_serial_number(k);
            }
        }
        1 => {
            for (k, m) in pdb.models_mut().enumerate() {
                m.set_serial_number(3 + 4 * k);
            }
        }
        _ => {}
    }
    // identifiers unique over the whole structure; charges follow the position inside the model so that the models correspond
    let per_model = pdb.model(0).map_or(1, Model::atom_count).max(1);
    let charge_seed = rng.next();
    let mut k = 0usize;
    for a in pdb.atoms_mut() {
        let _ = a.set_pos((value(rng, 999, true), value(rng, 999, true), value(rng, 9999, true)));
        let _ = a.set_occupancy(value(rng, 1, false));
        let _ = a.set_b_factor(value(rng, 200, false));
        let id = if rng.chance(1, 8) { format!("{}{}", rng.pick(&["a", "X", "id_", "n"]), k + 1) } else { format!("{}", k + 1) };
        let _ = a.set_id(id);
        let mut pos = Rng::new(charge_seed ^ (k % per_model) as u64);
        a.set_charge(if pos.chance(1, 6) { pos.range(-3, 3) as isize } else { 0 });
        k += 1;
    }
    pdb.identifier = Some((*rng.pick(IDS)).to_string());
    if rng.chance(2, 3) {
        pdb.unit_cell = Some(UnitCell::new(
            value(rng, 300, false) + 1.0,
            value(rng, 300, false) + 1.0,
            value(rng, 300, false) + 1.0,
            value(rng, 178, false) + 0.5,
            value(rng, 178, false) + 0.5,
            value(rng, 178, false) + 0.5,
        ));
    }
    if rng.chance(2, 3) {
        pdb.symmetry = Symmetry::from_index(1 + (i * 7 + rng.below(7)) % 230);
    }
    let matrix = |rng: &mut Rng| {
        let mut m = [[0.0f64; 4]; 3];
        // now and then a matrix with a particular value: the identity, all zeros, a pure translation
        match rng.below(8) {
            0 => return TransformationMatrix::identity(),
            1 => return TransformationMatrix::from_matrix(m),
            2 => return TransformationMatrix::translation(1.0, -2.5, 0.125),
            _ => {}
        }
        for r in m.iter_mut() {
            for v in r.iter_mut() {
                *v = value(rng, 2, true);
            }
        }
        TransformationMatrix::from_matrix(m)
    };
    if rng.chance(1, 2) {
        pdb.scale = Some(matrix(rng));
    }
    if rng.chance(1, 2) {
        pdb.origx = Some(matrix(rng));
    }
    for n in 0..rng.below(3) {
        pdb.add_mtrix(MtriX::new(n * 2 + 1 + rng.below(2), matrix(rng), rng.chance(1, 2)));
    }
    pdb
}

pub fn run(seed: u64, count: usize, _thorough: bool, out: &mut Out) {
    let mut rng = Rng::new(seed);
    for i in 0..count {
        let pdb = build(&mut rng, i);
        let orig = file(&pdb);
        let text = write(&pdb);
        let n_atoms = pdb.total_atom_count();
        out.count(&format!("models:{}", pdb.model_count()));
        out.count(&format!("atoms:{}", match n_atoms { 0..=5 => "1-5", 6..=30 => "6-30", _ => "31+" }));
        out.case("C04", call("write", vec![orig.clone()]), Sx::S(text.clone()), "corr:writer-model", n_atoms > 1);
        for level in [2usize, 1, 0] {
            let (obs, reread) = read_obs_format(&text, Format::Mmcif, 0, level);
            out.case("C04", call("read", vec![z(0), z(level as i128), Sx::S(text.clone())]), obs, "corr:reader-model", n_atoms > 1);
            out.case("C04", call("reread", vec![z(level as i128), z(out.len() as i128)]), y(if reread.is_some() { "accepted" } else { "rejected" }), "prop:reread-accepted", true);
            if let Some(p2) = reread {
                // the property: the re-read structure is the original with the atom numbers rounded to five decimals
                out.case("C04", call("roundtrip", vec![orig.clone(), file(&p2)]), y("ok"), "prop:roundtrip", n_atoms > 1);
                // and writing it again reproduces the file byte for byte
                let text2 = write(&p2);
                out.case("C04", call("rewrite", vec![z(level as i128), z(out.len() as i128)]), y(if text2 == text { "same" } else { "different" }), "prop:rewrite-identical", true);
                if text2 != text && std::env::var("PV_DEBUG").is_ok() {
                    eprintln!("REWRITE DIFFERS\n{}\n----\n{}", String::from_utf8_lossy(&text), String::from_utf8_lossy(&text2));
                }
                out.count(&format!("reread-level{level}:accepted"));
            } else {
                out.count(&format!("reread-level{level}:rejected"));
            }
        }
    }
}
